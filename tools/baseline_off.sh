#!/bin/bash
# MANIFEST.hooks.baseline_off_cmd: rebuild /repo's working tree with the guard OFF and run the pinned suite on it.
set -e
here="$(cd "$(dirname "$0")" && pwd)"
unset CVXOPT_VERIF
d=$(mktemp -d /tmp/cvxbase_XXXXXX)
trap 'rm -rf "$d"' EXIT
/venv/bin/python "$here/buildrepo.py" "$d" >/dev/null
cd /repo
PYTHONPATH="$d" /venv/bin/python -m pytest -ra -q -p no:cacheprovider --timeout=900 --continue-on-collection-errors "$@"
