"""C19, base.c: generic products (axpy, gemm, gemv, syrk, symv with dense or sparse operands), elementwise operations (emul, ediv, emax, emin)
and the block constructors (sparse, spdiag), called with operands of every kind, typecode and shape and with every integer keyword, in a
crash-safe worker whose allocator puts a guard page after every buffer.  A call either raises or returns; accepted calls with sparse operands
are repeated on the dense images and must give the same numbers."""
import os, random, json
import vlib
from corr.c19_lapack import Worker, WIDE

INTS = [-1, 0, 0, 1, 1, 2, 2, 3, 4, 5]

def operand(rng, m, n, kinds='ds', tcs='dz', bad=0.0):
    if rng.random() < bad: m = max(0, m + rng.choice([-1, 1, 2])); 
    if rng.random() < bad: n = max(0, n + rng.choice([-1, 1, 2]))
    tc = rng.choice(tcs)
    if rng.choice(kinds) == 's': return {'sp': [tc, m, n, rng.randint(0, 5)]}
    return {'mat': [tc, m, n]}

def num(rng): return rng.choice([{'num': 1.0}, {'num': -2.0}, {'num': 0.0}, {'num': 2}, {'num': [1.0, -1.0]}])

def gen_case(rng, cid):
    r = rng.choice(['axpy', 'gemm', 'gemv', 'gemv', 'syrk', 'symv', 'symv', 'emul', 'ediv', 'emax', 'emin'])
    valid = rng.random() < 0.5
    bad = 0.0 if valid else 0.3
    tcs = rng.choice(['d', 'z']) if rng.random() < 0.9 else 'dzi'
    m, n, k = rng.randint(0, 4), rng.randint(0, 4), rng.randint(0, 4)
    args, pos = {}, []
    def opt(name, v, p=0.5):
        if rng.random() < p: args[name] = v
    if r == 'axpy':
        args['x'] = operand(rng, m, n, 'ds', tcs, bad); args['y'] = operand(rng, m, n, 'ds', tcs, bad); pos = ['x', 'y']
        if not valid and rng.random() < 0.35:
            # the same number of elements in another shape (a row against a column, a reshaped block): the kernels walk the columns of x
            mm = rng.choice([2, 3, 4, 6, 40]); shp = rng.choice([(1, mm), (mm, 1), (2, mm), (mm, 2)])
            for nm_, sh in (('x', shp), ('y', (shp[1], shp[0]))):
                key = 'sp' if (rng.random() < 0.7) else 'mat'
                tcv = tcs if len(tcs) == 1 else rng.choice('dz')
                args[nm_] = {'sp': [tcv, sh[0], sh[1], rng.randint(0, 2)]} if key == 'sp' else {'mat': [tcv, sh[0], sh[1]]}
        opt('alpha', num(rng)); opt('partial', {'bool': rng.random() < 0.6}, 0.4)
    elif r == 'gemm':
        tA, tB = rng.choice('NTC'), rng.choice('NTC')
        args['A'] = operand(rng, *( (m, k) if tA == 'N' else (k, m)), 'ds', tcs, bad)
        args['B'] = operand(rng, *( (k, n) if tB == 'N' else (n, k)), 'ds', tcs, bad)
        args['C'] = operand(rng, m, n, 'ds', tcs, bad); pos = ['A', 'B', 'C']
        args['transA'] = {'chr': tA}; args['transB'] = {'chr': tB if rng.random() > 0.03 else 'X'}
        opt('alpha', num(rng)); opt('beta', num(rng)); opt('partial', {'bool': rng.random() < 0.5}, 0.3)
    elif r == 'gemv':
        t = rng.choice('NTC')
        ix, iy = (rng.choice([1, 1, 2, -1, -2]), rng.choice([1, 1, 2, -1])) if valid else (rng.choice(INTS), rng.choice(INTS))
        ox, oy = (rng.choice([0, 0, 1, 2]), rng.choice([0, 0, 1])) if valid else (rng.choice(INTS), rng.choice(INTS))
        lx, ly = ((n, m) if t == 'N' else (m, n))
        mA, nA2 = m, n
        if valid and m and n and rng.random() < 0.4: mA, nA2 = m + rng.randint(0, 2), n + rng.randint(0, 2)      # a leading block (explicit m, n)
        args['A'] = operand(rng, mA, nA2, 'ds', tcs, bad)
        if (mA, nA2) != (m, n): args['m'] = {'int': m}; args['n'] = {'int': n}
        args['x'] = {'mat': [args['A'].get('mat', args['A'].get('sp'))[0], max(0, ox + max(0, (lx - 1) * abs(ix) + 1 if lx else 0)), 1]}
        args['y'] = {'mat': [args['A'].get('mat', args['A'].get('sp'))[0], max(0, oy + max(0, (ly - 1) * abs(iy) + 1 if ly else 0)), 1]}
        if not valid:
            for v in ('x', 'y'):
                if rng.random() < 0.4: args[v]['mat'][1] = max(0, args[v]['mat'][1] + rng.choice([-2, -1, 1]))
                if rng.random() < 0.1: args[v]['mat'][0] = rng.choice('dzi')
        pos = ['A', 'x', 'y']; args['trans'] = {'chr': t}
        opt('alpha', num(rng)); opt('beta', num(rng))
        if ix != 1 or rng.random() < 0.3: args['incx'] = {'int': ix}
        if iy != 1 or rng.random() < 0.3: args['incy'] = {'int': iy}
        if ox or rng.random() < 0.2: args['offsetx'] = {'int': ox}
        if oy or rng.random() < 0.2: args['offsety'] = {'int': oy}
        if not valid:
            opt('m', {'int': rng.choice(INTS)}, 0.4); opt('n', {'int': rng.choice(INTS)}, 0.4); opt('offsetA', {'int': rng.choice(INTS)}, 0.4)
        else:
            if 'm' not in args: opt('m', {'int': m}, 0.2)
            if 'n' not in args: opt('n', {'int': n}, 0.2)
    elif r == 'syrk':
        t = rng.choice('NT')
        args['A'] = operand(rng, *((n, k) if t == 'N' else (k, n)), 'ds', tcs, bad); args['C'] = operand(rng, n, n, 'ds', tcs, bad); pos = ['A', 'C']
        args['trans'] = {'chr': t if rng.random() > 0.03 else 'C'}; opt('uplo', {'chr': rng.choice('LU')})
        opt('alpha', num(rng)); opt('beta', num(rng)); opt('partial', {'bool': rng.random() < 0.5}, 0.3)
    elif r == 'symv':
        ix, iy = (rng.choice([1, 1, 2, -1]), rng.choice([1, 1, 2, -1])) if valid else (rng.choice(INTS), rng.choice(INTS))
        ox, oy = (rng.choice([0, 0, 1]), rng.choice([0, 0, 2])) if valid else (rng.choice(INTS), rng.choice(INTS))
        nA = n
        if valid and n and rng.random() < 0.4: nA = n + rng.randint(1, 2)          # the leading n x n block of a larger matrix (explicit n)
        args['A'] = operand(rng, nA, nA, 'ds', tcs, bad)
        tc = args['A'].get('mat', args['A'].get('sp'))[0]
        args['x'] = {'mat': [tc, max(0, ox + ((n - 1) * abs(ix) + 1 if n else 0)), 1]}; args['y'] = {'mat': [tc, max(0, oy + ((n - 1) * abs(iy) + 1 if n else 0)), 1]}
        if nA != n: args['n'] = {'int': n}
        if not valid:
            for v in ('x', 'y'):
                if rng.random() < 0.4: args[v]['mat'][1] = max(0, args[v]['mat'][1] + rng.choice([-2, -1, 1]))
        pos = ['A', 'x', 'y']; opt('uplo', {'chr': rng.choice('LU')}); opt('alpha', num(rng)); opt('beta', num(rng))
        if ix != 1 or rng.random() < 0.3: args['incx'] = {'int': ix}
        if iy != 1 or rng.random() < 0.3: args['incy'] = {'int': iy}
        if ox or rng.random() < 0.2: args['offsetx'] = {'int': ox}
        if oy or rng.random() < 0.2: args['offsety'] = {'int': oy}
        if not valid: opt('n', {'int': rng.choice(INTS)}, 0.4); opt('offsetA', {'int': rng.choice(INTS)}, 0.4)
    else:
        a = operand(rng, m, n, 'ds', tcs, bad)
        b = operand(rng, m, n, 'ds', tcs, bad) if rng.random() < 0.8 else num(rng)
        args['a'] = a; args['b'] = b; pos = ['a', 'b']
    # symv is documented for real matrices only; emax / emin of a sparse and a dense operand are defined on the dense images already
    twin = valid and not args.get('partial', {}).get('bool') and r not in ('emax', 'emin') and not (r == 'symv' and 'z' in str(args['A']))
    return {'kind': 'base', 'id': cid, 'routine': r, 'args': args, 'pos': pos, 'twin': twin, 'valid': valid}

def gen_partial_case(rng, cid):
    """directed: valid all-sparse gemm / syrk calls with partial=True (every trans pair, real and complex, alpha / beta given)"""
    tc = rng.choice('dz')
    m, n, k = rng.randint(1, 4), rng.randint(1, 4), rng.randint(1, 4)
    def sp(a, b): return {'sp': [tc, a, b, rng.randint(0, 5)]}
    if rng.random() < 0.75:
        tA, tB = rng.choice('NTC'), rng.choice('NTC')
        args = {'A': sp(*((m, k) if tA == 'N' else (k, m))), 'B': sp(*((k, n) if tB == 'N' else (n, k))), 'C': sp(m, n),
                'transA': {'chr': tA}, 'transB': {'chr': tB}, 'alpha': num(rng), 'beta': num(rng), 'partial': {'bool': True}}
        if rng.random() < 0.4:
            # the full (non-partial) all-sparse product into an output that already has entries of its own; beta zero, omitted or not
            del args['partial']
            b_ = rng.choice([{'num': 0.0}, None, {'num': 1.0}])
            if b_ is None: del args['beta']
            else: args['beta'] = b_
            return {'kind': 'base', 'id': cid, 'routine': 'gemm', 'args': args, 'pos': ['A', 'B', 'C'], 'twin': True, 'valid': True}
        return {'kind': 'base', 'id': cid, 'routine': 'gemm', 'args': args, 'pos': ['A', 'B', 'C'], 'twin': False, 'valid': True}
    t = rng.choice('NT')
    args = {'A': sp(*((n, k) if t == 'N' else (k, n))), 'C': sp(n, n), 'trans': {'chr': t}, 'uplo': {'chr': rng.choice('LU')},
            'alpha': num(rng), 'beta': num(rng), 'partial': {'bool': True}}
    if tc == 'z': args['A'] = {'sp': ['d', args['A']['sp'][1], args['A']['sp'][2], args['A']['sp'][3]]}; args['C'] = {'sp': ['d'] + args['C']['sp'][1:]}
    return {'kind': 'base', 'id': cid, 'routine': 'syrk', 'args': args, 'pos': ['A', 'C'], 'twin': False, 'valid': True}

def show(case):
    return 'base.%s(%s)' % (case['routine'], ', '.join('%s=%s' % (k, list(v.values())[0]) for k, v in case['args'].items()))

def base_model(ctx):
    """parsed argument checks of base.gemv / base.symv (cwrap2lean.gen_base) with their keyword -> C variable maps"""
    import re, sys
    sys.path.insert(0, os.path.join(vlib.VERIF, 'tools', 'translate'))
    import cwrap2lean
    table = getattr(ctx, 'table_base', None) or cwrap2lean.gen_base()
    src = cwrap2lean.strip_pp(open(os.path.join(vlib.REPO, 'src', 'C', 'base.c')).read())
    out = {}
    for r in table:
        m = re.search(r'PyObject\s*\*\s*%s\s*\(.*?PyArg_ParseTupleAndKeywords\(args, kwrds,\s*"[^"]*",\s*kwlist,(.*?)\)\)' % r['name'], src, flags=re.S)
        cvars = [v.strip().lstrip('&') for v in m.group(1).split(',')]
        r['kwmap'] = dict(zip(r['kwlist'], [v[:-1] if v.endswith('_') else v for v in cvars]))
        out[r['name'].replace('base_', '')] = r
    return out, cwrap2lean

def model_decision(r, cw, case):
    """ideal evaluation of the translated checks on this call: ('reject', cls) | ('none',) | ('call', env)"""
    env = {}
    for v, d in r['ints'].items(): env[v] = d
    for v, d in r['chars'].items(): env[v] = d
    env['trans'] = env.get('trans', 78); env['uplo'] = env.get('uplo', 76)
    for kwn, cv in r['kwmap'].items():
        a = case['args'].get(kwn)
        if cv in ('A', 'x', 'y'):
            tc, m_, n_ = 'd', 0, 0; ismat = issp = False
            if a is not None and 'mat' in a: (tc, m_, n_), ismat = a['mat'], True
            elif a is not None and 'sp' in a: (tc, m_, n_), issp = a['sp'][:3], True
            env[cv] = 1
            env[(cv, 'isMat')] = ismat; env[(cv, 'isSp')] = issp; env[(cv, 'id')] = 'idz'.index(tc)
            env[(cv, 'len')] = m_ * n_; env[(cv, 'nrows')] = m_; env[(cv, 'ncols')] = n_
        elif a is not None and ('int' in a or 'chr' in a):
            v = list(a.values())[0]; env[cv] = ord(v) if isinstance(v, str) else int(v)
    env['ao'] = 0; env['bo'] = 0
    return cw.eval_stmts(r['stmts'], dict(env), cint=False), env

def lean_line(r, env):
    parts = []
    for k, v in env.items():
        if isinstance(k, tuple): parts.append('%s_%s=%d' % (k[0], k[1], int(v)))
        elif k in ('A', 'x', 'y', 'ao', 'bo'): parts.append('%s_given=%d' % (k, int(v)))
        else: parts.append('%s=%d' % (k, int(v)))
    return 'base %s %s' % (r['name'], ' '.join(parts))

def base_probes(ctx, rng, gb, prop='C19'):
    """prop = 'C19': faults are reported; prop = 'C16': sparse / dense disagreements are reported"""
    n = 6000 if ctx.quick() else 120000
    w = Worker(gb)
    stat = {}; per = {}
    cid = 7 * 10**6
    models, cw = base_model(ctx) if prop == 'C19' else ({}, None)
    llines, lpy = [], []
    corpus = [dict(c, id=8 * 10**6 + i, valid=True) for i, c in enumerate(json.load(open(os.path.join(vlib.VERIF, 'tools', 'corr', 'c19_corpus.json')))['base'])]
    try:
        rng_p = random.Random(ctx.seed * 2203 + 16)          # directed partial=True calls (C16 only): appended, own stream
        n_dir = (n // 20) if prop == 'C16' else 0
        for it in range(n + len(corpus) + n_dir):
            if it < len(corpus): case = corpus[it]
            elif it >= n + len(corpus): case = gen_partial_case(rng_p, 9 * 10**6 + it)
            else: case = gen_case(rng, cid); cid += 1
            res = w.run(case)
            if res.startswith('crash') or res == 'worker-died':
                w2 = Worker(gb, WIDE); res2 = w2.run(dict(case)); w2.close()
                if res2.startswith('crash') or res2 == 'worker-died':
                    if prop == 'C19': ctx.violation('c19:base-out-of-bounds:' + case['routine'], '%s touches memory outside its buffers (%s)' % (show(case), res2), case)
                    continue
                stat['library_overread'] = stat.get('library_overread', 0) + 1; res = res2
            if res == 'twin-differs' and prop == 'C16':
                ctx.violation('c16:sparse-dense-differ:' + case['routine'], '%s: the result with sparse operands differs from the result on their dense images' % show(case), case)
            if res == 'partial-differs' and prop == 'C16':
                ctx.violation('c16:partial-differs:' + case['routine'], '%s: with partial=True the stored entries of the sparse output are not the dense result restricted to the old pattern (or the pattern changed)' % show(case), case)
            if res == 'ccs-invalid' and prop == 'C16':
                ctx.violation('c16:ccs-invalid:' + case['routine'], '%s leaves a sparse argument with invalid compressed-column arrays' % show(case), case)
            # decision of the translated checks of gemv / symv (Gen/BaseWrap.lean) vs the real wrapper
            if prop == 'C19' and case['routine'] in models and res in ('ok', 'TypeError', 'ValueError', 'NotImplementedError', 'ArithmeticError'):
                try: dec, menv = model_decision(models[case['routine']], cw, case)
                except (KeyError, ZeroDivisionError): dec = None
                if dec is not None:
                    if len(llines) < 3000: llines.append(lean_line(models[case['routine']], menv)); lpy.append(dec)
                    stat['model:' + dec[0]] = stat.get('model:' + dec[0], 0) + 1
                    exp = dec[1] if dec[0] == 'reject' else 'ok' if dec[0] == 'none' else None
                    if exp is not None and res != exp:
                        ctx.violation('c19:decision-differs:base.' + case['routine'], '%s: the real wrapper gives %s, the checks as translated give %s' % (show(case), res, exp), case)
            key = 'ok' if res == 'ok' else 'exception' if res not in ('twin-differs', 'ccs-invalid', 'partial-differs') else res
            stat[key] = stat.get(key, 0) + 1
            if res == 'ok': per[case['routine']] = per.get(case['routine'], 0) + 1
    finally:
        w.close()
    if llines:
        # the generated Lean functions (Gen/BaseWrap.lean) decide the same calls in the same way as the Python evaluation of the parsed checks
        out = vlib.drive('C19L', llines); badl = 0
        for l, d_, o in zip(llines, lpy, out):
            lw = o.split(' '); lc = (lw[0] + ' ' + lw[1]) if lw[0] == 'reject' else lw[0]
            pc = ('reject ' + d_[1]) if d_[0] == 'reject' else d_[0]
            if lc != pc:
                badl += 1
                if badl <= 3: ctx.broke('generated Lean function vs Python evaluation of the same AST (base.c)', {'line': l, 'lean': o, 'python': pc})
        stat['lean_lines'] = len(llines)
    ctx.cov['base_probes'] = dict(stat, calls=n, accepted_per_routine=per)
    return n


# ------------------------------------------------------------------------------------------------ constructors and arithmetic
def N(v): return {'t': 'num', 'v': v}
def rnum(rng): return N(rng.choice([0, 1, -2, 3, 2.5, -1.0, [1.0, -2.0], 7, 2**31, -2**31 - 1, 2**63 - 1]))
def rmat(rng, tcs='idz'):
    return {'t': 'mat', 'v': [rng.choice(tcs), rng.randint(0, 4), rng.randint(0, 4)]}
def rsp(rng): return {'t': 'sp', 'v': [rng.choice('dz'), rng.randint(0, 4), rng.randint(0, 4), rng.randint(0, 5)]}
def rsize(rng):
    return {'t': 'tuple', 'v': [N(rng.choice([-1, 0, 1, 2, 3, 4, 6, 2**31, 2**62])), N(rng.choice([-1, 0, 1, 2, 3, 2**31, 2**62]))]} if rng.random() < 0.9 else \
           {'t': 'tuple', 'v': [N(2)]}
def rlist(rng, depth=1):
    k = rng.randint(0, 4)
    if depth and rng.random() < 0.4: return {'t': 'list', 'v': [rlist(rng, 0) for _ in range(k)]}
    return {'t': 'list', 'v': [rnum(rng) if rng.random() < 0.9 else rng.choice([{'t': 'none'}, {'t': 'str', 'v': 'a'}, rmat(rng)]) for _ in range(k)]}
def rindex(rng, hi):
    return {'t': 'list', 'v': [N(rng.choice([-hi - 1, -1, 0, 1, hi - 1, hi, hi + 3, 2**31, 2**40]) if rng.random() < 0.25 else rng.randint(0, max(hi - 1, 0))) for _ in range(rng.randint(0, 5))]}

def gen_ctor(rng, cid):
    r = rng.choice(['matrix', 'matrix', 'spmatrix', 'spmatrix', 'sparse', 'spdiag', 'add', 'sub', 'mul', 'div', 'pow', 'iadd', 'isub', 'imul', 'idiv', 'neg', 'pos', 'abs',
                    'bool', 'len', 'trans', 'ctrans', 'size', 'V', 'real', 'imag', 'exp', 'log', 'sqrt', 'sin', 'cos', 'mulf', 'divf', 'maxf', 'minf'])
    pos, kw = [], {}
    anym = lambda: rng.choice([rmat(rng), rsp(rng), rnum(rng)]) if rng.random() < 0.9 else rlist(rng)
    if r == 'matrix':
        src = rng.choice([rnum(rng), rlist(rng), rmat(rng), rsp(rng), {'t': 'range', 'v': rng.randint(0, 6)}, {'t': 'bytes', 'v': [1, 2, 3, 4, 5, 6, 7, 8]},
                          {'t': 'bytearray', 'v': [0] * rng.choice([0, 7, 8, 16])}, {'t': 'tuple', 'v': [rnum(rng) for _ in range(rng.randint(0, 3))]}])
        pos = [src]
        if rng.random() < 0.6: pos.append(rsize(rng))
        if rng.random() < 0.5: kw['tc'] = {'t': 'str', 'v': rng.choice(['i', 'd', 'z', 'x', ''])}
    elif r == 'spmatrix':
        m, n = rng.randint(0, 4), rng.randint(0, 4)
        k = rng.randint(0, 5)
        V = rng.choice([rnum(rng), {'t': 'list', 'v': [rnum(rng) for _ in range(k)]}, rmat(rng), rsp(rng)])
        I, J = rindex(rng, m), rindex(rng, n)
        if rng.random() < 0.6:
            I = {'t': 'list', 'v': [N(rng.randint(0, max(m - 1, 0))) for _ in range(k)]}; J = {'t': 'list', 'v': [N(rng.randint(0, max(n - 1, 0))) for _ in range(k)]}
        pos = [V, I, J]
        if rng.random() < 0.7: pos.append({'t': 'tuple', 'v': [N(m + rng.choice([0, 0, 0, -1, 1])), N(n + rng.choice([0, 0, -1, 1]))]})
        if rng.random() < 0.4: kw['tc'] = {'t': 'str', 'v': rng.choice(['d', 'z', 'i', 'q'])}
    elif r == 'sparse':
        def block(): return rng.choice([rmat(rng, 'dz'), rsp(rng), rnum(rng)])
        if rng.random() < 0.4: pos = [block()]
        else: pos = [{'t': 'list', 'v': [({'t': 'list', 'v': [block() for _ in range(rng.randint(0, 3))]} if rng.random() < 0.7 else block()) for _ in range(rng.randint(0, 3))]}]
        if rng.random() < 0.3: kw['tc'] = {'t': 'str', 'v': rng.choice(['d', 'z', 'i'])}
    elif r == 'spdiag':
        pos = [rng.choice([{'t': 'list', 'v': [rng.choice([rmat(rng, 'dz'), rsp(rng), rnum(rng)]) for _ in range(rng.randint(0, 4))]}, rmat(rng), rsp(rng), rnum(rng)])]
    elif r in ('add', 'sub', 'mul', 'div', 'pow', 'iadd', 'isub', 'imul', 'idiv'):
        pos = [rng.choice([rmat(rng), rsp(rng), rsp(rng)]), anym()]
        if rng.random() < 0.5 and 'v' in pos[0] and r != 'mul':
            # conformable second operand (same shape), sparse or dense
            sh = pos[0]['v']; pos[1] = rng.choice([{'t': 'sp', 'v': [sh[0] if sh[0] in 'dz' else 'd', sh[1], sh[2], rng.randint(0, 5)]}, {'t': 'mat', 'v': [rng.choice('dz'), sh[1], sh[2]]}, N(rng.choice([2, -0.5, 4.0, [0.0, 1.0]]))])
    elif r in ('neg', 'pos', 'abs', 'bool', 'len', 'trans', 'ctrans', 'real', 'imag'): pos = [rng.choice([rmat(rng), rsp(rng), rsp(rng)])]
    elif r in ('exp', 'log', 'sqrt', 'sin', 'cos'): pos = [rng.choice([rmat(rng), rmat(rng, 'dz'), rsp(rng), rnum(rng)])]
    elif r in ('mulf', 'divf', 'maxf', 'minf'): pos = [anym() for _ in range(rng.randint(1, 3))]
    elif r == 'size': pos = [rng.choice([rmat(rng), rsp(rng)]), {'t': 'tuple', 'v': [N(rng.choice([0, 1, 2, 3, 4, 6, 8, 12, -1])), N(rng.choice([0, 1, 2, 3, 4, 6, -2]))]}]
    elif r == 'V': pos = [rsp(rng), rng.choice([rmat(rng), rnum(rng), rlist(rng, 0)])]
    return {'kind': 'ctor', 'id': cid, 'routine': r, 'pos': pos, 'kw': kw}

def ctor_probes(ctx, rng, gb, prop='C19'):
    """constructors (matrix, spmatrix, sparse, spdiag), arithmetic between dense / sparse / number operands of any shape, transposes, size and V
    assignment in the guard-page build: a call raises or returns (sparse results have valid compressed-column arrays)"""
    n = 3000 if ctx.quick() else 40000
    w = Worker(gb); stat = {}; cid = 9 * 10**6
    corpus = [dict(c, id=8 * 10**6 + 500 + i) for i, c in enumerate(json.load(open(os.path.join(vlib.VERIF, 'tools', 'corr', 'c19_corpus.json')))['ctor'])]
    try:
        for it in range(n + len(corpus)):
            if it < len(corpus): case = corpus[it]
            else: case = gen_ctor(rng, cid); cid += 1
            if prop == 'C16': case['twin'] = True
            res = w.run(case)
            if res.startswith('crash') or res == 'worker-died':
                w2 = Worker(gb, WIDE); res2 = w2.run(dict(case)); w2.close()
                if res2.startswith('crash') or res2 == 'worker-died':
                    if prop == 'C19': ctx.violation('c19:constructor-or-arithmetic-faults:' + case['routine'], '%s with %s faults (%s)' % (case['routine'], json_short(case), res2), case)
                    continue
                res = res2
            if res == 'twin-differs' and prop == 'C16':
                ctx.violation('c16:dense-image-differs:' + case['routine'], '%s with %s: the result differs from the same operation on the dense images of the sparse operands' % (case['routine'], json_short(case)), case)
            if res == 'ccs-invalid' and prop == 'C16':
                ctx.violation('c16:ccs-invalid:' + case['routine'], '%s with %s returns a sparse matrix with invalid compressed-column arrays' % (case['routine'], json_short(case)), case)
            key = 'ok' if res == 'ok' else res if res in ('ccs-invalid', 'twin-differs') else 'exception'
            stat[key] = stat.get(key, 0) + 1
            if res == 'ok': stat['ok:' + case['routine']] = stat.get('ok:' + case['routine'], 0) + 1
    finally:
        w.close()
    ctx.cov['constructor_probes'] = dict(stat, calls=n)
    return n

def json_short(case):
    import json
    return json.dumps({'pos': case['pos'], 'kw': case.get('kw', {})})[:400]
