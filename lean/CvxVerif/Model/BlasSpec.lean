import CvxVerif.Model.Dense
/-!
Reference semantics of the BLAS operations wrapped by `cvxopt.blas`, on *views* into column-major buffers:
strided vectors `(off, n, inc)` (negative increments walk backwards, as in the reference BLAS), general blocks
`(off, m, n, ld)`, symmetric / triangular blocks (one triangle referenced) and band storage.
Entries are Gaussian rationals (`Dense.Num`), so the harness compares exactly on integer / dyadic data.
Core Lean only.
-/
namespace CvxVerif.BlasSpec
open CvxVerif.Dense

abbrev Buf := List Num

def zero : Num := ⟨0, 0⟩
def one : Num := ⟨1, 0⟩
def _root_.CvxVerif.Dense.Num.abs1 (a : Num) : Rat := (if a.re < 0 then -a.re else a.re) + (if a.im < 0 then -a.im else a.im)
-- `Num.inv` / `Num.div` (reciprocal and quotient of Gaussian rationals) are defined in `Model/Dense.lean`

/-- position of element `k` of the strided vector `(off, n, inc)` -/
def vpos (off : Int) (n : Nat) (inc : Int) (k : Nat) : Nat :=
  if inc ≥ 0 then (off + k * inc).toNat else (off + ((n : Int) - 1 - k) * (-inc)).toNat

def vget (b : Buf) (off : Int) (n : Nat) (inc : Int) (k : Nat) : Num := b.getD (vpos off n inc k) zero
def vread (b : Buf) (off : Int) (n : Nat) (inc : Int) : List Num := (List.range n).map (vget b off n inc)
/-- write the `n` values `vals` into the strided vector -/
def vwrite (b : Buf) (off : Int) (n : Nat) (inc : Int) (vals : List Num) : Buf :=
  ((List.range n).zip vals).foldl (fun b kv => b.set (vpos off n inc kv.1) kv.2) b

/-- entry `(i, j)` of the block `(off, ld)` -/
def mget (b : Buf) (off : Int) (ld : Int) (i j : Nat) : Num := b.getD (off + i + j * ld).toNat zero
def mset (b : Buf) (off : Int) (ld : Int) (i j : Nat) (v : Num) : Buf := b.set (off + i + j * ld).toNat v

def sum (l : List Num) : Num := l.foldl Num.add zero

/-- `trans`: 'N' = 78, 'T' = 84, 'C' = 67 -/
def opGet (b : Buf) (off ld : Int) (trans : Int) (i j : Nat) : Num :=
  if trans = 78 then mget b off ld i j
  else if trans = 84 then mget b off ld j i
  else (mget b off ld j i).conj

/-- entry `(i, j)` of the symmetric (`herm = false`) or Hermitian matrix stored in the `uplo` triangle ('L' = 76, 'U' = 85) -/
def symGet (b : Buf) (off ld : Int) (uplo : Int) (herm : Bool) (i j : Nat) : Num :=
  let lower := uplo = 76
  if (lower && j ≤ i) || (!lower && i ≤ j) then
    (if herm && i == j then ⟨(mget b off ld i j).re, 0⟩ else mget b off ld i j)
  else (if herm then (mget b off ld j i).conj else mget b off ld j i)

/-- entry `(i, j)` of the triangular matrix in the `uplo` triangle, unit diagonal when `diag = 'U'` (85) -/
def triGet (b : Buf) (off ld : Int) (uplo diag : Int) (i j : Nat) : Num :=
  if i == j then (if diag = 85 then one else mget b off ld i j)
  else if (uplo = 76 && j < i) || (uplo ≠ 76 && i < j) then mget b off ld i j else zero

/-- triangular band matrix with `k` off-diagonals, LAPACK band storage in a `(k+1) × n` block -/
def tbGet (b : Buf) (off ld : Int) (uplo diag : Int) (k : Nat) (i j : Nat) : Num :=
  if i == j then (if diag = 85 then one else (if uplo = 76 then mget b off ld 0 j else mget b off ld k j))
  else if uplo = 76 then (if j < i && i ≤ j + k then mget b off ld (i - j) j else zero)
  else (if i < j && j ≤ i + k then mget b off ld (k + i - j) j else zero)

def opTri (g : Nat → Nat → Num) (trans : Int) (i j : Nat) : Num :=
  if trans = 78 then g i j else if trans = 84 then g j i else (g j i).conj

/-! level 1 -/
def swap (x y : Buf) (n : Nat) (ox ix oy iy : Int) : Buf × Buf :=
  (vwrite x ox n ix (vread y oy n iy), vwrite y oy n iy (vread x ox n ix))
def scal (a : Num) (x : Buf) (n : Nat) (ox ix : Int) : Buf := vwrite x ox n ix ((vread x ox n ix).map (a.mul ·))
def copy (x y : Buf) (n : Nat) (ox ix oy iy : Int) : Buf := vwrite y oy n iy (vread x ox n ix)
def axpy (a : Num) (x y : Buf) (n : Nat) (ox ix oy iy : Int) : Buf :=
  vwrite y oy n iy (List.zipWith (fun xv yv => (a.mul xv).add yv) (vread x ox n ix) (vread y oy n iy))
def dotu (x y : Buf) (n : Nat) (ox ix oy iy : Int) : Num :=
  sum (List.zipWith Num.mul (vread x ox n ix) (vread y oy n iy))
def dot (x y : Buf) (n : Nat) (ox ix oy iy : Int) : Num :=
  sum (List.zipWith (fun a b => a.conj.mul b) (vread x ox n ix) (vread y oy n iy))
def asum (x : Buf) (n : Nat) (ox ix : Int) : Rat := ((vread x ox n ix).map Num.abs1).foldl (· + ·) 0
def nrm2sq (x : Buf) (n : Nat) (ox ix : Int) : Rat := ((vread x ox n ix).map fun a => a.re * a.re + a.im * a.im).foldl (· + ·) 0
/-- index of the first element of maximal `|re| + |im|` -/
def iamax (x : Buf) (n : Nat) (ox ix : Int) : Nat :=
  let vs := (vread x ox n ix).map Num.abs1
  ((List.range n).zip vs).foldl (fun (best : Nat × Rat) kv => if best.2 < kv.2 then kv else best) (0, vs.getD 0 0) |>.1

/-! level 2 -/
/-- `y := alpha·op(A)·x + beta·y`, `A` is `m × n` -/
def gemv (alpha beta : Num) (A x y : Buf) (trans : Int) (m n : Nat) (oA ldA ox ix oy iy : Int) : Buf :=
  let (ly, lx) := if trans = 78 then (m, n) else (n, m)
  let xs := vread x ox lx ix
  let ys := vread y oy ly iy
  vwrite y oy ly iy ((List.range ly).map fun i =>
    (alpha.mul (sum ((List.range lx).map fun j => (opGet A oA ldA trans i j).mul (xs.getD j zero)))).add (beta.mul (ys.getD i zero)))

/-- `y := alpha·A·x + beta·y`, `A` symmetric/Hermitian `n × n` in the `uplo` triangle -/
def symv (herm : Bool) (alpha beta : Num) (A x y : Buf) (uplo : Int) (n : Nat) (oA ldA ox ix oy iy : Int) : Buf :=
  let xs := vread x ox n ix
  let ys := vread y oy n iy
  vwrite y oy n iy ((List.range n).map fun i =>
    (alpha.mul (sum ((List.range n).map fun j => (symGet A oA ldA uplo herm i j).mul (xs.getD j zero)))).add (beta.mul (ys.getD i zero)))

/-- `A := alpha·x·yᵀ + A` (`conj = true`: `x·yᴴ`) -/
def ger (conjy : Bool) (alpha : Num) (x y A : Buf) (m n : Nat) (ox ix oy iy oA ldA : Int) : Buf :=
  let xs := vread x ox m ix
  let ys := vread y oy n iy
  (List.range n).foldl (fun A j => (List.range m).foldl (fun A i =>
    mset A oA ldA i j ((mget A oA ldA i j).add ((alpha.mul (xs.getD i zero)).mul (if conjy then (ys.getD j zero).conj else ys.getD j zero)))) A) A

/-- `A := alpha·x·xᵀ + A` on the `uplo` triangle (`herm`: `x·xᴴ`, real alpha) -/
def syr (herm : Bool) (alpha : Num) (x A : Buf) (uplo : Int) (n : Nat) (ox ix oA ldA : Int) : Buf :=
  if alpha == zero then A else        -- quick return of the reference routine (the diagonal is not touched)
  let xs := vread x ox n ix
  (List.range n).foldl (fun A j => (List.range n).foldl (fun A i =>
    if (uplo = 76 && j ≤ i) || (uplo ≠ 76 && i ≤ j) then
      let v := (mget A oA ldA i j).add ((alpha.mul (xs.getD i zero)).mul (if herm then (xs.getD j zero).conj else xs.getD j zero))
      -- the reference `zher` sets the imaginary part of the diagonal to zero
      mset A oA ldA i j (if herm && i == j then ⟨v.re, 0⟩ else v)
    else A) A) A

/-- `x := op(T)·x` for a triangular `T` given by the accessor `g` -/
def trmvG (g : Nat → Nat → Num) (trans : Int) (x : Buf) (n : Nat) (ox ix : Int) : Buf :=
  let xs := vread x ox n ix
  vwrite x ox n ix ((List.range n).map fun i => sum ((List.range n).map fun j => (opTri g trans i j).mul (xs.getD j zero)))

/-- solve `op(T)·x = b` in place (substitution; `T` nonsingular) -/
def trsvG (g : Nat → Nat → Num) (trans : Int) (upperEff : Bool) (x : Buf) (n : Nat) (ox ix : Int) : Buf :=
  let bs := vread x ox n ix
  let order := if upperEff then (List.range n).reverse else List.range n
  let sol := order.foldl (fun (s : List Num) i =>
    let acc := (List.range n).foldl (fun a j => if j == i then a else a.add ((opTri g trans i j).mul (s.getD j zero))) zero
    s.set i (((bs.getD i zero).sub acc).div (opTri g trans i i))) (List.replicate n zero)
  vwrite x ox n ix sol

def trmv (A x : Buf) (uplo trans diag : Int) (n : Nat) (oA ldA ox ix : Int) : Buf :=
  trmvG (triGet A oA ldA uplo diag) trans x n ox ix
def tbmv (A x : Buf) (uplo trans diag : Int) (n k : Nat) (oA ldA ox ix : Int) : Buf :=
  trmvG (tbGet A oA ldA uplo diag k) trans x n ox ix
def trsv (A x : Buf) (uplo trans diag : Int) (n : Nat) (oA ldA ox ix : Int) : Buf :=
  trsvG (triGet A oA ldA uplo diag) trans ((uplo ≠ 76) == (trans = 78)) x n ox ix
def tbsv (A x : Buf) (uplo trans diag : Int) (n k : Nat) (oA ldA ox ix : Int) : Buf :=
  trsvG (tbGet A oA ldA uplo diag k) trans ((uplo ≠ 76) == (trans = 78)) x n ox ix

/-! level 3 -/
/-- `C := alpha·op(A)·op(B) + beta·C`, `C` is `m × n`, inner dimension `k` -/
def gemm (alpha beta : Num) (A B C : Buf) (transA transB : Int) (m n k : Nat) (oA ldA oB ldB oC ldC : Int) : Buf :=
  (List.range n).foldl (fun C' j => (List.range m).foldl (fun C' i =>
    mset C' oC ldC i j ((alpha.mul (sum ((List.range k).map fun l => (opGet A oA ldA transA i l).mul (opGet B oB ldB transB l j)))).add
      (beta.mul (mget C oC ldC i j)))) C') C

/-- `C := alpha·op(A)·op(A)ᵀ + beta·C` on the `uplo` triangle; `trans = 'N'`: `A` is `n × k` -/
def syrk (alpha beta : Num) (A C : Buf) (uplo trans : Int) (n k : Nat) (oA ldA oC ldC : Int) : Buf :=
  (List.range n).foldl (fun C' j => (List.range n).foldl (fun C' i =>
    if (uplo = 76 && j ≤ i) || (uplo ≠ 76 && i ≤ j) then
      let a := fun (r l : Nat) => if trans = 78 then mget A oA ldA r l else mget A oA ldA l r
      mset C' oC ldC i j ((alpha.mul (sum ((List.range k).map fun l => (a i l).mul (a j l)))).add (beta.mul (mget C oC ldC i j)))
    else C') C') C

/-- `B := alpha·op(T)·B` (`side = 'L'`, 76) or `B := alpha·B·op(T)` (`'R'`), `B` is `m × n` -/
def trmm (alpha : Num) (A B : Buf) (side uplo transA diag : Int) (m n : Nat) (oA ldA oB ldB : Int) : Buf :=
  let g := triGet A oA ldA uplo diag
  (List.range n).foldl (fun B' j => (List.range m).foldl (fun B' i =>
    let v := if side = 76 then sum ((List.range m).map fun l => (opTri g transA i l).mul (mget B oB ldB l j))
             else sum ((List.range n).map fun l => (mget B oB ldB i l).mul (opTri g transA l j))
    mset B' oB ldB i j (alpha.mul v)) B') B

/-! remaining level 2 / level 3 routines -/

/-- general band matrix `m × n` with `kl` sub- and `ku` super-diagonals stored in a `(kl+ku+1) × n` block: entry `(i, j)` sits in
row `ku + i - j` of column `j` -/
def gbGet (b : Buf) (off ld : Int) (kl ku : Nat) (i j : Nat) : Num :=
  if i ≤ j + kl && j ≤ i + ku then mget b off ld (ku + i - j) j else zero

/-- `y := alpha·op(A)·x + beta·y` for a general band matrix -/
def gbmv (alpha beta : Num) (A x y : Buf) (trans : Int) (m n kl ku : Nat) (oA ldA ox ix oy iy : Int) : Buf :=
  let (ly, lx) := if trans = 78 then (m, n) else (n, m)
  let xs := vread x ox lx ix
  let ys := vread y oy ly iy
  let g := fun (i j : Nat) => if trans = 78 then gbGet A oA ldA kl ku i j else if trans = 84 then gbGet A oA ldA kl ku j i
                              else (gbGet A oA ldA kl ku j i).conj
  vwrite y oy ly iy ((List.range ly).map fun i =>
    (alpha.mul (sum ((List.range lx).map fun j => (g i j).mul (xs.getD j zero)))).add (beta.mul (ys.getD i zero)))

/-- symmetric / Hermitian band matrix with `k` off-diagonals in a `(k+1) × n` block ('L': entry `(i, j)`, `i ≥ j`, in row `i - j` of
column `j`; 'U': entry `(i, j)`, `i ≤ j`, in row `k + i - j` of column `j`) -/
def sbGet (b : Buf) (off ld : Int) (uplo : Int) (herm : Bool) (k : Nat) (i j : Nat) : Num :=
  let lo := if i ≤ j then i else j
  let hi := if i ≤ j then j else i
  if hi > lo + k then zero else
  -- the stored representative of the pair {lo, hi}
  let st := if uplo = 76 then mget b off ld (hi - lo) lo else mget b off ld (k + lo - hi) hi
  if i == j then (if herm then ⟨st.re, 0⟩ else st)
  else
    -- 'L' stores A[hi, lo], 'U' stores A[lo, hi]
    let storedIsIJ := if uplo = 76 then decide (j < i) else decide (i < j)
    if storedIsIJ || !herm then st else st.conj

def sbmv (herm : Bool) (alpha beta : Num) (A x y : Buf) (uplo : Int) (n k : Nat) (oA ldA ox ix oy iy : Int) : Buf :=
  let xs := vread x ox n ix
  let ys := vread y oy n iy
  vwrite y oy n iy ((List.range n).map fun i =>
    (alpha.mul (sum ((List.range n).map fun j => (sbGet A oA ldA uplo herm k i j).mul (xs.getD j zero)))).add (beta.mul (ys.getD i zero)))

/-- `A := alpha·x·yᵀ + alpha·y·xᵀ + A` on the `uplo` triangle (`herm`: `alpha·x·yᴴ + conj(alpha)·y·xᴴ + A`) -/
def syr2 (herm : Bool) (alpha : Num) (x y A : Buf) (uplo : Int) (n : Nat) (ox ix oy iy oA ldA : Int) : Buf :=
  if alpha == zero then A else
  let xs := vread x ox n ix
  let ys := vread y oy n iy
  (List.range n).foldl (fun A j => (List.range n).foldl (fun A i =>
    if (uplo = 76 && j ≤ i) || (uplo ≠ 76 && i ≤ j) then
      let xi := xs.getD i zero; let xj := xs.getD j zero; let yi := ys.getD i zero; let yj := ys.getD j zero
      let v := if herm then ((mget A oA ldA i j).add ((alpha.mul xi).mul yj.conj)).add ((alpha.conj.mul yi).mul xj.conj)
               else ((mget A oA ldA i j).add ((alpha.mul xi).mul yj)).add ((alpha.mul yi).mul xj)
      mset A oA ldA i j (if herm && i == j then ⟨v.re, 0⟩ else v)
    else A) A) A

/-- `C := alpha·A·B + beta·C` (`side = 'L'`, `A` symmetric / Hermitian of order `m`) or `C := alpha·B·A + beta·C` (`'R'`, order `n`) -/
def symm (herm : Bool) (alpha beta : Num) (A B C : Buf) (side uplo : Int) (m n : Nat) (oA ldA oB ldB oC ldC : Int) : Buf :=
  (List.range n).foldl (fun C' j => (List.range m).foldl (fun C' i =>
    let v := if side = 76 then sum ((List.range m).map fun l => (symGet A oA ldA uplo herm i l).mul (mget B oB ldB l j))
             else sum ((List.range n).map fun l => (mget B oB ldB i l).mul (symGet A oA ldA uplo herm l j))
    mset C' oC ldC i j ((alpha.mul v).add (beta.mul (mget C oC ldC i j)))) C') C

/-- `C := alpha·op(A)·op(A)ᴴ + beta·C` on the `uplo` triangle with real `alpha`, `beta`; `trans = 'N'`: `A` is `n × k`.  The
imaginary parts of the diagonal of `C` are set to zero -/
def herk (alpha beta : Num) (A C : Buf) (uplo trans : Int) (n k : Nat) (oA ldA oC ldC : Int) : Buf :=
  if (alpha == zero || k == 0) && beta == one then C else      -- quick return of the reference routine: nothing is touched
  (List.range n).foldl (fun C' j => (List.range n).foldl (fun C' i =>
    if (uplo = 76 && j ≤ i) || (uplo ≠ 76 && i ≤ j) then
      let a := fun (r l : Nat) => if trans = 78 then mget A oA ldA r l else (mget A oA ldA l r).conj
      let c0 := mget C oC ldC i j
      let v := (alpha.mul (sum ((List.range k).map fun l => (a i l).mul (a j l).conj))).add (beta.mul (if i == j then ⟨c0.re, 0⟩ else c0))
      mset C' oC ldC i j (if i == j then ⟨v.re, 0⟩ else v)
    else C') C') C

/-- `C := alpha·op(A)·op(B)ᵀ + alpha·op(B)·op(A)ᵀ + beta·C` on the `uplo` triangle (`herm`: `alpha·op(A)·op(B)ᴴ + conj(alpha)·op(B)·op(A)ᴴ
+ beta·C` with real `beta`, diagonal made real); `trans = 'N'`: `A`, `B` are `n × k` -/
def syr2k (herm : Bool) (alpha beta : Num) (A B C : Buf) (uplo trans : Int) (n k : Nat) (oA ldA oB ldB oC ldC : Int) : Buf :=
  if (alpha == zero || k == 0) && beta == one then C else      -- quick return of the reference routine: nothing is touched
  (List.range n).foldl (fun C' j => (List.range n).foldl (fun C' i =>
    if (uplo = 76 && j ≤ i) || (uplo ≠ 76 && i ≤ j) then
      let get := fun (M : Buf) (o l_ : Int) (r l : Nat) =>
        if trans = 78 then mget M o l_ r l else (if herm then (mget M o l_ l r).conj else mget M o l_ l r)
      let a := get A oA ldA; let b := get B oB ldB
      let c0 := mget C oC ldC i j
      let v := if herm then
          ((alpha.mul (sum ((List.range k).map fun l => (a i l).mul (b j l).conj))).add
           (alpha.conj.mul (sum ((List.range k).map fun l => (b i l).mul (a j l).conj)))).add (beta.mul (if i == j then ⟨c0.re, 0⟩ else c0))
        else
          ((alpha.mul (sum ((List.range k).map fun l => (a i l).mul (b j l)))).add
           (alpha.mul (sum ((List.range k).map fun l => (b i l).mul (a j l))))).add (beta.mul c0)
      mset C' oC ldC i j (if herm && i == j then ⟨v.re, 0⟩ else v)
    else C') C') C

/-- solve `M·x = b` by substitution for a triangular accessor `M` of order `n` (`upper`: back substitution) -/
def substSolve (M : Nat → Nat → Num) (upper : Bool) (n : Nat) (bs : List Num) : List Num :=
  let order := if upper then (List.range n).reverse else List.range n
  order.foldl (fun (s : List Num) i =>
    let acc := (List.range n).foldl (fun a j => if j == i then a else a.add ((M i j).mul (s.getD j zero))) zero
    s.set i (((bs.getD i zero).sub acc).div (M i i))) (List.replicate n zero)

/-- `B := alpha·op(T)⁻¹·B` (`side = 'L'`) or `B := alpha·B·op(T)⁻¹` (`'R'`), `B` is `m × n`, `T` triangular and nonsingular -/
def trsm (alpha : Num) (A B : Buf) (side uplo transA diag : Int) (m n : Nat) (oA ldA oB ldB : Int) : Buf :=
  let g := triGet A oA ldA uplo diag
  let M := fun (i j : Nat) => opTri g transA i j
  let upperM := (uplo ≠ 76) == (transA = 78)
  if side = 76 then
    (List.range n).foldl (fun B' j =>
      let sol := substSolve M upperM m ((List.range m).map fun i => alpha.mul (mget B oB ldB i j))
      (List.range m).foldl (fun B' i => mset B' oB ldB i j (sol.getD i zero)) B') B
  else
    -- X·M = alpha·B  ⇔  Mᵀ·Xᵀ = alpha·Bᵀ : row by row
    (List.range m).foldl (fun B' i =>
      let sol := substSolve (fun r c => M c r) (!upperM) n ((List.range n).map fun j => alpha.mul (mget B oB ldB i j))
      (List.range n).foldl (fun B' j => mset B' oB ldB i j (sol.getD j zero)) B') B

end CvxVerif.BlasSpec
