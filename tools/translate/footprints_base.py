"""Footprints of the dense paths of the generic products base.gemv / base.symv (the BLAS routine is called with ldA = max(1, A.size[0]) and the
whole matrix as buffer of A.size[0] * A.size[1] elements).  Notation as in footprints.py; MatIn is MatFits without the
requirement m <= ld: the wrappers do not compare an explicit m / n with A.size[0] (BLAS then rejects the call with an xerbla message), which
does not matter for the addresses touched."""
def vec(x, off, n, inc): return "VecFits %s_len %s' (%s) %s'" % (x, off, n, inc)
def N(flag, a, b): return "if %s' = 78 then %s else %s" % (flag, a, b)
FOOT = {
 # y := alpha*op(A)*x + beta*y: A is touched only when m, n > 0; for an empty product only y is scaled
 'base_gemv': ["MatIn (A_nrows * A_ncols) oA' (m') (n') (max 1 A_nrows)",
               "0 < (if trans' = 78 then n' else m') → " + vec('x', 'ox', N('trans', "n'", "m'"), 'ix'),
               vec('y', 'oy', N('trans', "m'", "n'"), 'iy')],
 'base_symv': ["MatIn A_len oA' (n') (n') ldA' ∧ ldA' = max 1 A_nrows", vec('x', 'ox', "n'", 'ix'), vec('y', 'oy', "n'", 'iy')],
}
