import CvxVerif.Model.PyVal
/-! Symbolic-evaluation lemmas for the Python-fragment combinators of `Model/PyVal.lean`. -/
namespace CvxVerif.Py

@[simp] theorem raiseIf_bind_ok {α} (c : M Bool) (e : String) (f : Unit → M α) (r : α) :
    (raiseIf c e >>= f) = .ok r ↔ c = .ok false ∧ f () = .ok r := by
  unfold raiseIf
  cases c with
  | error x => simp [bind, Except.bind]
  | ok b => cases b <;> simp [bind, Except.bind, pure, Except.pure, throw, throwThe, MonadExceptOf.throw]

theorem raiseIf_bind_error {α} (c : M Bool) (e : String) (f : Unit → M α) (x : String) :
    (raiseIf c e >>= f) = .error x ↔
      c = .error x ∨ (c = .ok true ∧ x = e) ∨ (c = .ok false ∧ f () = .error x) := by
  unfold raiseIf
  cases c with
  | error y => simp [bind, Except.bind]
  | ok b =>
    cases b <;> simp [bind, Except.bind, pure, Except.pure, throw, throwThe, MonadExceptOf.throw]
    exact eq_comm

@[simp] theorem pyOr_false (a b : M Bool) : pyOr a b = .ok false ↔ a = .ok false ∧ b = .ok false := by
  unfold pyOr
  cases a with
  | error x => simp [bind, Except.bind]
  | ok v => cases v <;> simp [bind, Except.bind, pure, Except.pure]

@[simp] theorem pyAnd_false (a b : M Bool) :
    pyAnd a b = .ok false ↔ a = .ok false ∨ (a = .ok true ∧ b = .ok false) := by
  unfold pyAnd
  cases a with
  | error x => simp [bind, Except.bind]
  | ok v => cases v <;> simp [bind, Except.bind, pure, Except.pure]

@[simp] theorem pyNot_pure_false (x : Bool) : pyNot (pure x) = .ok false ↔ x = true := by
  unfold pyNot; cases x <;> simp [bind, Except.bind, pure, Except.pure]

@[simp] theorem pyNot_ok_false (x : Bool) : pyNot (Except.ok x) = .ok false ↔ x = true := by
  unfold pyNot; cases x <;> simp [bind, Except.bind, pure, Except.pure]

@[simp] theorem pure_eq_ok_false (x : Bool) : (pure x : M Bool) = .ok false ↔ x = false := by
  simp [pure, Except.pure]
@[simp] theorem pure_eq_ok_true (x : Bool) : (pure x : M Bool) = .ok true ↔ x = true := by
  simp [pure, Except.pure]

/-- every error of a comparison is a `TypeError` -/
theorem cmp_error (op : Cmp) (a b : Val) (x : String) (h : Val.cmp op a b = .error x) : x = "TypeError" := by
  unfold Val.cmp at h
  split at h
  · simp [pure, Except.pure] at h
  · simp [throw, throwThe, MonadExceptOf.throw] at h; exact h.symm

/-- comparison of two numbers never raises -/
theorem cmp_num (op : Cmp) (a b : Val) (x y : Num) (ha : a.num = some x) (hb : b.num = some y) :
    Val.cmp op a b = .ok (x.cmp op y) := by
  unfold Val.cmp; rw [ha, hb]; rfl

theorem isInst_num {tys : List String} {v : Val} (h : v.isInst tys = true)
    (ht : ∀ t ∈ tys, t = "float" ∨ t = "int" ∨ t = "long") : ∃ x, v.num = some x := by
  cases v <;> simp [Val.isInst, Val.num] at h ⊢
  · rename_i s
    have := ht "str" (by simpa using h)
    simp at this


@[simp] theorem ok_bind {α β} (a : α) (f : α → M β) : (Except.ok a >>= f) = f a := rfl

theorem pyOr_error (a b : M Bool) (x : String) :
    pyOr a b = .error x ↔ a = .error x ∨ (a = .ok false ∧ b = .error x) := by
  unfold pyOr
  cases a with
  | error y => simp [bind, Except.bind]
  | ok v => cases v <;> simp [bind, Except.bind, pure, Except.pure]

theorem pyAnd_error (a b : M Bool) (x : String) :
    pyAnd a b = .error x ↔ a = .error x ∨ (a = .ok true ∧ b = .error x) := by
  unfold pyAnd
  cases a with
  | error y => simp [bind, Except.bind]
  | ok v => cases v <;> simp [bind, Except.bind, pure, Except.pure]

theorem pyOr_true (a b : M Bool) :
    pyOr a b = .ok true ↔ a = .ok true ∨ (a = .ok false ∧ b = .ok true) := by
  unfold pyOr
  cases a with
  | error y => simp [bind, Except.bind]
  | ok v => cases v <;> simp [bind, Except.bind, pure, Except.pure]

theorem pyAnd_true (a b : M Bool) :
    pyAnd a b = .ok true ↔ a = .ok true ∧ b = .ok true := by
  unfold pyAnd
  cases a with
  | error y => simp [bind, Except.bind]
  | ok v => cases v <;> simp [bind, Except.bind, pure, Except.pure]

@[simp] theorem pyNot_ok_error (v : Bool) (x : String) : pyNot (Except.ok v) = .error x ↔ False := by
  unfold pyNot; simp [bind, Except.bind, pure, Except.pure]

@[simp] theorem pyNot_ok_true (v : Bool) : pyNot (Except.ok v) = .ok true ↔ v = false := by
  unfold pyNot; cases v <;> simp [bind, Except.bind, pure, Except.pure]

/-- a value that passed `isinstance(v, (float, int, long))` compares with any number without `TypeError` -/
theorem cmp_no_error {tys : List String} {v w : Val} (op : Cmp) (x : String)
    (h : v.isInst tys = true) (ht : ∀ t ∈ tys, t = "float" ∨ t = "int" ∨ t = "long")
    (hw : ∃ y, w.num = some y) : Val.cmp op v w ≠ .error x := by
  obtain ⟨a, ha⟩ := isInst_num h ht
  obtain ⟨b, hb⟩ := hw
  rw [cmp_num op v w a b ha hb]; simp

end CvxVerif.Py
