import CvxVerif.Spec.PWL
import CvxVerif.Props.C11
import Mathlib.Tactic.Linarith
import Mathlib.Tactic.Ring
import Mathlib.Algebra.Order.Field.Rat
import Mathlib.Algebra.Order.Group.MinMax

namespace CvxVerif.PWL
open CvxVerif.Expr

theorem Lin.eval_foldr (ρ : Env) (l : List ((Nat × Nat) × Rat)) (c : Rat) :
    l.foldr (fun t acc => t.2 * ρ t.1.1 t.1.2 + acc) c = l.foldr (fun t acc => t.2 * ρ t.1.1 t.1.2 + acc) 0 + c := by
  induction l with
  | nil => simp
  | cons h t ih => simp only [List.foldr_cons]; rw [ih]; ring

theorem Lin.eval_add (ρ : Env) (a b : Lin) : (a.add b).eval ρ = a.eval ρ + b.eval ρ := by
  unfold Lin.eval Lin.add
  simp only [List.foldr_append]
  rw [Lin.eval_foldr ρ a.coef, Lin.eval_foldr ρ b.coef (a.const + b.const), Lin.eval_foldr ρ a.coef a.const, Lin.eval_foldr ρ b.coef b.const]
  ring

theorem Lin.eval_scale (ρ : Env) (c : Rat) (a : Lin) : (a.scale c).eval ρ = c * a.eval ρ := by
  unfold Lin.eval Lin.scale
  generalize a.const = k
  induction a.coef with
  | nil => simp
  | cons h t ih => simp only [List.map_cons, List.foldr_cons]; rw [ih]; ring

theorem pieces_le (ρ : Env) : ∀ (s : S), s.wf → ∀ p ∈ pieces s, p.eval ρ ≤ s.eval ρ := by
  intro s
  induction s with
  | lin l => intro _ p hp; simp only [pieces, List.mem_singleton] at hp; subst hp; exact le_refl _
  | max a b iha ihb =>
    intro hw p hp
    simp only [pieces, List.mem_append] at hp
    simp only [S.eval]
    rcases hp with hp | hp
    · exact le_trans (iha hw.1 p hp) (le_max_left _ _)
    · exact le_trans (ihb hw.2 p hp) (le_max_right _ _)
  | add a b iha ihb =>
    intro hw p hp
    simp only [pieces, List.mem_flatMap, List.mem_map] at hp
    obtain ⟨pa, hpa, pb, hpb, rfl⟩ := hp
    simp only [S.eval, Lin.eval_add]
    exact add_le_add (iha hw.1 pa hpa) (ihb hw.2 pb hpb)
  | scale c a iha =>
    intro hw p hp
    simp only [pieces, List.mem_map] at hp
    obtain ⟨pa, hpa, rfl⟩ := hp
    simp only [S.eval, Lin.eval_scale]
    exact mul_le_mul_of_nonneg_left (iha hw.2 pa hpa) hw.1

theorem pieces_attain (ρ : Env) : ∀ (s : S), ∃ p ∈ pieces s, p.eval ρ = s.eval ρ := by
  intro s
  induction s with
  | lin l => exact ⟨l, by simp [pieces], rfl⟩
  | max a b iha ihb =>
    obtain ⟨pa, hpa, ea⟩ := iha
    obtain ⟨pb, hpb, eb⟩ := ihb
    simp only [S.eval, pieces, List.mem_append]
    rcases le_total (a.eval ρ) (b.eval ρ) with h | h
    · exact ⟨pb, Or.inr hpb, by rw [eb, max_eq_right h]⟩
    · exact ⟨pa, Or.inl hpa, by rw [ea, max_eq_left h]⟩
  | add a b iha ihb =>
    obtain ⟨pa, hpa, ea⟩ := iha
    obtain ⟨pb, hpb, eb⟩ := ihb
    refine ⟨pa.add pb, ?_, by simp only [S.eval, Lin.eval_add, ea, eb]⟩
    simp only [pieces, List.mem_flatMap, List.mem_map]
    exact ⟨pa, hpa, pb, hpb, rfl⟩
  | scale c a iha =>
    obtain ⟨pa, hpa, ea⟩ := iha
    refine ⟨pa.scale c, ?_, by simp only [S.eval, Lin.eval_scale, ea]⟩
    simp only [pieces, List.mem_map]
    exact ⟨pa, hpa, rfl⟩

theorem sumS_eval (ρ : Env) (f : Nat → S) (n : Nat) : (sumS f n).eval ρ = sumTo (fun j => (f j).eval ρ) n := by
  induction n with
  | zero => simp [sumS, sumTo, S.eval, Lin.eval]
  | succ n ih => simp only [sumS, sumTo, S.eval, ih]

theorem maxS_eval (ρ : Env) (f : Nat → S) (n : Nat) : (maxS f n).eval ρ = maxTo (fun j => (f j).eval ρ) n := by
  induction n with
  | zero => simp [maxS, maxTo]
  | succ n ih => simp only [maxS, maxTo, S.eval, ih]

theorem sumS_wf (f : Nat → S) (h : ∀ j, (f j).wf) (n : Nat) : (sumS f n).wf := by
  induction n with
  | zero => simp [sumS, S.wf]
  | succ n ih => exact ⟨ih, h n⟩

theorem maxS_wf (f : Nat → S) (h : ∀ j, (f j).wf) (n : Nat) : (maxS f n).wf := by
  induction n with
  | zero => exact h 0
  | succ n ih => exact ⟨ih, h (n + 1)⟩

theorem sumTo_congr {f g : Nat → Rat} (h : ∀ j, f j = g j) (n : Nat) : sumTo f n = sumTo g n := by
  induction n with
  | zero => rfl
  | succ n ih => simp only [sumTo, ih, h]

theorem maxTo_congr {f g : Nat → Rat} (h : ∀ j, f j = g j) (n : Nat) : maxTo f n = maxTo g n := by
  induction n with
  | zero => exact h 0
  | succ n ih => simp only [maxTo, ih, h]

theorem sumTo_neg (f : Nat → Rat) (n : Nat) : sumTo (fun j => - f j) n = - sumTo f n := by
  induction n with
  | zero => simp [sumTo]
  | succ n ih => simp only [sumTo, ih]; ring

theorem maxTo_neg (f : Nat → Rat) (n : Nat) : maxTo (fun j => - f j) n = - minTo f n := by
  induction n with
  | zero => rfl
  | succ n ih => simp only [maxTo, minTo, ih, max_neg_neg]

/-- the class `c` of `e` allows `e` (resp. `-e` when `neg`) on the convex side -/
def ok (neg : Bool) (c : Curv) : Prop := if neg then c ≠ .convex else c ≠ .concave

theorem ok_flip (neg : Bool) (c : Curv) : ok neg c.flip ↔ ok (!neg) c := by
  cases neg <;> cases c <;> simp [ok, Curv.flip]

theorem ok_join {a b j : Curv} (neg : Bool) (h : Curv.join a b = some j) (hj : ok neg j) : ok neg a ∧ ok neg b := by
  cases neg <;> cases a <;> cases b <;> simp_all [ok, Curv.join]

theorem ok_lin (neg : Bool) {c : Curv} (h : c = .affine ∨ c = .const ∨ c = .num) : ok neg c := by
  rcases h with rfl | rfl | rfl <;> cases neg <;> simp [ok]

theorem sgn_add (neg : Bool) (x y : Rat) : sgn neg (x + y) = sgn neg x + sgn neg y := by
  cases neg <;> simp [sgn]; ring

theorem sgn_not (neg : Bool) (x : Rat) : sgn (!neg) x = - sgn neg x := by cases neg <;> simp [sgn]

theorem sgn_mul (neg : Bool) (r x : Rat) : sgn neg (r * x) = r * sgn neg x := by cases neg <;> simp [sgn]

theorem sgn_sumTo (neg : Bool) (f : Nat → Rat) (n : Nat) : sgn neg (sumTo f n) = sumTo (fun j => sgn neg (f j)) n := by
  cases neg
  · simp [sgn]
  · simp only [sgn, if_true]; exact (sumTo_neg f n).symm

theorem flat_wf (L : Lens) : ∀ (e : Expr) (neg : Bool) (k : Nat), (flat L neg e k).wf := by
  intro e
  induction e with
  | var i => intro neg k; simp [flat, S.wf]
  | const v => intro neg k; simp [flat, S.wf]
  | add a b iha ihb | iadd a b iha ihb | sub a b iha ihb | isub a b iha ihb => intro neg k; exact ⟨iha _ _, ihb _ _⟩
  | neg a iha => intro neg k; exact iha _ _
  | smul c a iha =>
    intro neg k; simp only [flat]; split
    · simp [S.wf]
    · split
      · exact ⟨‹0 ≤ c›, iha _ _⟩
      · exact ⟨by linarith [not_le.mp ‹¬ 0 ≤ c›], iha _ _⟩
  | sdiv a c iha =>
    intro neg k; simp only [flat]; split
    · exact ⟨by rw [one_div]; exact inv_nonneg.mpr ‹0 ≤ c›, iha _ _⟩
    · have : c < 0 := not_le.mp ‹¬ 0 ≤ c›
      have : 1 / c < 0 := by rw [one_div]; exact inv_lt_zero.mpr this
      exact ⟨by linarith, iha _ _⟩
  | mmul rows a iha | dot rows a iha =>
    intro neg k; simp only [flat]
    apply sumS_wf; intro j; split
    · exact ⟨‹_›, iha _ _⟩
    · exact ⟨by linarith [not_le.mp ‹¬ _›], iha _ _⟩
  | sum a iha => intro neg k; simp only [flat]; exact sumS_wf _ (fun j => iha _ _) _
  | max2 a b iha ihb =>
    intro neg k; simp only [flat]; split
    · simp [S.wf]
    · split
      · simp [S.wf]
      · exact ⟨iha _ _, ihb _ _⟩
  | min2 a b iha ihb =>
    intro neg k; simp only [flat]; split
    · simp [S.wf]
    · split
      · exact ⟨iha _ _, ihb _ _⟩
      · simp [S.wf]
  | maxv a iha =>
    intro neg k; simp only [flat]; split
    · simp [S.wf]
    · split
      · exact iha _ _
      · split
        · simp [S.wf]
        · exact maxS_wf _ (fun j => iha _ _) _
  | minv a iha =>
    intro neg k; simp only [flat]; split
    · simp [S.wf]
    · split
      · exact iha _ _
      · split
        · exact maxS_wf _ (fun j => iha _ _) _
        · simp [S.wf]
  | abs a iha =>
    intro neg k; simp only [flat]; split
    · simp [S.wf]
    · split
      · simp [S.wf]
      · exact ⟨iha _ _, iha _ _⟩
  | idx a i iha => intro neg k; exact iha _ _
  | slice a lo hi iha => intro neg k; exact iha _ _

theorem lin_var_eval (ρ : Env) (i k : Nat) (c : Rat) : Lin.eval ρ ⟨[((i, k), c)], 0⟩ = c * ρ i k := by
  simp [Lin.eval]

theorem lin_const_eval (ρ : Env) (c : Rat) : Lin.eval ρ ⟨[], c⟩ = c := by simp [Lin.eval]

theorem num_value (L : Lens) (ρ : Env) (e : Expr) (h : curv L e = some .num) (k : Nat) : evalAt L zeroEnv e k = evalAt L ρ e k :=
  C11_constant_ignores_values L e (Or.inr h) zeroEnv ρ k

/-- the weighted sums of `mmul` and `dot` -/
theorem wsum_correct (L : Lens) (ρ : Env) (a : Expr) (neg : Bool) (w : Nat → Rat) (n : Nat)
    (ih : ∀ (neg : Bool) (k : Nat), (flat L neg a k).eval ρ = sgn neg (evalAt L ρ a k)) :
    (sumS (fun j => if 0 ≤ w j then S.scale (w j) (flat L neg a j) else S.scale (-(w j)) (flat L (!neg) a j)) n).eval ρ
      = sgn neg (sumTo (fun j => w j * evalAt L ρ a j) n) := by
  rw [sumS_eval, sgn_sumTo]
  apply sumTo_congr
  intro j
  split
  · simp only [S.eval, ih, sgn_mul]
  · simp only [S.eval, ih, sgn_not, sgn_mul]; ring

theorem flat_correct (L : Lens) (ρ : Env) : ∀ (e : Expr) (c : Curv), curv L e = some c →
    ∀ (neg : Bool), ok neg c → ∀ k, (flat L neg e k).eval ρ = sgn neg (evalAt L ρ e k) := by
  intro e
  induction e with
  | var i =>
    intro c h neg _ k
    simp only [flat, S.eval, lin_var_eval, evalAt]; cases neg <;> simp [sgn]
  | const v => intro c h neg _ k; simp only [flat, S.eval, lin_const_eval, evalAt]
  | add a b iha ihb | iadd a b iha ihb =>
    intro c h neg hok k
    simp only [curv, Option.bind_eq_bind] at h
    cases ha : curv L a with
    | none => simp [ha] at h
    | some ka =>
      cases hb : curv L b with
      | none => simp [ha, hb] at h
      | some kb =>
        simp only [ha, hb, Option.bind_some] at h
        obtain ⟨oa, ob⟩ := ok_join neg h hok
        simp only [flat, S.eval, evalAt, sgn_add, iha ka ha neg oa, ihb kb hb neg ob]
        split <;> split <;> rfl
  | sub a b iha ihb | isub a b iha ihb =>
    intro c h neg hok k
    simp only [curv, Option.bind_eq_bind] at h
    cases ha : curv L a with
    | none => simp [ha] at h
    | some ka =>
      cases hb : curv L b with
      | none => simp [ha, hb] at h
      | some kb =>
        simp only [ha, hb, Option.bind_some] at h
        obtain ⟨oa, ob⟩ := ok_join neg h hok
        have ob' := (ok_flip neg kb).mp ob
        simp only [flat, S.eval, evalAt, sub_eq_add_neg, sgn_add, iha ka ha neg oa, ihb kb hb (!neg) ob', sgn_not]
        have : ∀ x : Rat, sgn neg (-x) = - sgn neg x := by intro x; cases neg <;> simp [sgn]
        simp only [this]
        split <;> split <;> rfl
  | neg a iha =>
    intro c h neg hok k
    simp only [curv, Option.bind_eq_bind] at h
    cases ha : curv L a with
    | none => simp [ha] at h
    | some ka =>
      simp only [ha, Option.bind_some, Option.some.injEq] at h; subst h
      simp only [flat, evalAt, iha ka ha (!neg) ((ok_flip neg ka).mp hok), sgn_not]
      cases neg <;> simp [sgn]
  | smul r a iha =>
    intro c h neg hok k
    simp only [curv, Option.bind_eq_bind] at h
    cases ha : curv L a with
    | none => simp [ha] at h
    | some ka =>
      simp only [ha, Option.bind_some, Option.some.injEq] at h
      simp only [flat, evalAt]
      by_cases h2 : r = 0
      · subst h2; simp only [if_true, S.eval, lin_const_eval, zero_mul]; cases neg <;> simp [sgn]
      · simp only [h2, if_false]
        by_cases h1 : ka = .num
        · have o1 : ∀ n, ok n ka := fun n => ok_lin n (Or.inr (Or.inr h1))
          split
          · simp only [S.eval, iha ka ha neg (o1 _), sgn_mul]
          · simp only [S.eval, iha ka ha (!neg) (o1 _), sgn_not, sgn_mul]; ring
        · simp only [h1, if_false, h2] at h
          by_cases h3 : r < 0
          · simp only [h3, if_true] at h; subst h
            have : ¬ 0 ≤ r := not_le.mpr h3
            simp only [this, if_false, S.eval, iha ka ha (!neg) ((ok_flip neg ka).mp hok), sgn_not, sgn_mul]; ring
          · simp only [h3, if_false] at h; subst h
            have : 0 ≤ r := not_lt.mp h3
            simp only [this, if_true, S.eval, iha ka ha neg hok, sgn_mul]
  | sdiv a r iha =>
    intro c h neg hok k
    simp only [curv, Option.bind_eq_bind] at h
    cases ha : curv L a with
    | none => simp [ha] at h
    | some ka =>
      simp only [ha, Option.bind_some, Option.some.injEq] at h
      simp only [flat, evalAt, div_eq_inv_mul, sgn_mul]
      by_cases h3 : r < 0
      · simp only [h3, if_true] at h; subst h
        have : ¬ 0 ≤ r := not_le.mpr h3
        simp only [this, if_false, S.eval, iha ka ha (!neg) ((ok_flip neg ka).mp hok), sgn_not]; ring
      · simp only [h3, if_false] at h; subst h
        have : 0 ≤ r := not_lt.mp h3
        simp only [this, if_true, S.eval, iha ka ha neg hok]; ring
  | mmul rows a iha =>
    intro c h neg hok k
    simp only [curv, Option.bind_eq_bind] at h
    cases ha : curv L a with
    | none => simp [ha] at h
    | some ka =>
      simp only [ha, Option.bind_some] at h
      split at h
      · rename_i hk
        simp only [flat, evalAt]
        exact wsum_correct L ρ a neg (fun j => (rows.getD k []).getD j 0) _ (fun n k => iha ka ha n (ok_lin n hk) k)
      · simp at h
  | dot cv a iha =>
    intro c h neg hok k
    simp only [curv, Option.bind_eq_bind] at h
    cases ha : curv L a with
    | none => simp [ha] at h
    | some ka =>
      simp only [ha, Option.bind_some] at h
      split at h
      · rename_i hk
        simp only [flat, evalAt]
        exact wsum_correct L ρ a neg (fun j => cv.getD j 0) _ (fun n k => iha ka ha n (ok_lin n hk) k)
      · simp at h
  | sum a iha =>
    intro c h neg hok k
    simp only [curv] at h
    simp only [flat, evalAt, sumS_eval, sgn_sumTo]
    exact sumTo_congr (fun j => iha c h neg hok j) _
  | idx a i iha => intro c h neg hok k; simp only [curv] at h; simp only [flat, evalAt]; exact iha c h neg hok _
  | slice a lo hi iha => intro c h neg hok k; simp only [curv] at h; simp only [flat, evalAt]; exact iha c h neg hok _
  | max2 a b iha ihb =>
    intro c h neg hok k
    by_cases hn : curv L (.max2 a b) = some .num
    · simp only [flat, hn, if_true, S.eval, lin_const_eval, num_value L ρ _ hn k]
    · have hcn : c ≠ .num := fun e => hn (e ▸ h)
      simp only [curv, Option.bind_eq_bind] at h
      cases ha : curv L a with
      | none => simp [ha] at h
      | some ka =>
        cases hb : curv L b with
        | none => simp [ha, hb] at h
        | some kb =>
          simp only [ha, hb, Option.bind_some] at h
          cases hj : Curv.join ka kb with
          | none => simp [hj] at h
          | some j =>
            simp only [hj, Option.bind_some] at h
            by_cases h1 : j = .num
            · simp only [h1, if_true, Option.some.injEq] at h; exact absurd h.symm hcn
            · simp only [h1, if_false] at h
              by_cases h2 : j = .concave
              · simp [h2] at h
              · simp only [h2, if_false, Option.some.injEq] at h; subst h
                cases neg with
                | true => simp [ok] at hok
                | false =>
                  have oab := ok_join false hj (by simpa [ok] using h2)
                  simp only [flat, hn, if_false, Bool.false_eq_true, S.eval, evalAt, iha ka ha false oab.1, ihb kb hb false oab.2, sgn]
                  split <;> split <;> rfl
  | min2 a b iha ihb =>
    intro c h neg hok k
    by_cases hn : curv L (.min2 a b) = some .num
    · simp only [flat, hn, if_true, S.eval, lin_const_eval, num_value L ρ _ hn k]
    · have hcn : c ≠ .num := fun e => hn (e ▸ h)
      simp only [curv, Option.bind_eq_bind] at h
      cases ha : curv L a with
      | none => simp [ha] at h
      | some ka =>
        cases hb : curv L b with
        | none => simp [ha, hb] at h
        | some kb =>
          simp only [ha, hb, Option.bind_some] at h
          cases hj : Curv.join ka kb with
          | none => simp [hj] at h
          | some j =>
            simp only [hj, Option.bind_some] at h
            by_cases h1 : j = .num
            · simp only [h1, if_true, Option.some.injEq] at h; exact absurd h.symm hcn
            · simp only [h1, if_false] at h
              by_cases h2 : j = .convex
              · simp [h2] at h
              · simp only [h2, if_false, Option.some.injEq] at h; subst h
                cases neg with
                | false => simp [ok] at hok
                | true =>
                  have oab := ok_join true hj (by simpa [ok] using h2)
                  simp only [flat, hn, if_false, if_true, S.eval, evalAt, iha ka ha true oab.1, ihb kb hb true oab.2, sgn, max_neg_neg]
                  split <;> split <;> rfl
  | maxv a iha =>
    intro c h neg hok k
    by_cases hn : curv L (.maxv a) = some .num
    · simp only [flat, hn, if_true, S.eval, lin_const_eval, num_value L ρ _ hn k]
    · have hcn : c ≠ .num := fun e => hn (e ▸ h)
      simp only [curv, Option.bind_eq_bind] at h
      cases ha : curv L a with
      | none => simp [ha] at h
      | some ka =>
        simp only [ha, Option.bind_some] at h
        by_cases h1 : ka = .num
        · simp only [h1, if_true, Option.some.injEq] at h; exact absurd h.symm hcn
        · simp only [h1, if_false] at h
          simp only [flat, hn, if_false, evalAt]
          by_cases hl : len L a = some 1
          · simp only [hl, if_true, Option.some.injEq] at h; subst h
            simp only [hl, if_true, Option.getD_some, Nat.sub_self, maxTo]; exact iha ka ha neg hok 0
          · simp only [hl, if_false] at h
            by_cases h3 : ka = .concave
            · simp [h3] at h
            · simp only [h3, if_false, Option.some.injEq] at h; subst h
              cases neg with
              | true => simp [ok] at hok
              | false =>
                simp only [hl, Bool.false_eq_true, if_false, maxS_eval, sgn]
                exact maxTo_congr (fun j => by simpa [sgn] using iha ka ha false (by simpa [ok] using h3) j) _
  | minv a iha =>
    intro c h neg hok k
    by_cases hn : curv L (.minv a) = some .num
    · simp only [flat, hn, if_true, S.eval, lin_const_eval, num_value L ρ _ hn k]
    · have hcn : c ≠ .num := fun e => hn (e ▸ h)
      simp only [curv, Option.bind_eq_bind] at h
      cases ha : curv L a with
      | none => simp [ha] at h
      | some ka =>
        simp only [ha, Option.bind_some] at h
        by_cases h1 : ka = .num
        · simp only [h1, if_true, Option.some.injEq] at h; exact absurd h.symm hcn
        · simp only [h1, if_false] at h
          simp only [flat, hn, if_false, evalAt]
          by_cases hl : len L a = some 1
          · simp only [hl, if_true, Option.some.injEq] at h; subst h
            simp only [hl, if_true, Option.getD_some, Nat.sub_self, minTo]; exact iha ka ha neg hok 0
          · simp only [hl, if_false] at h
            by_cases h3 : ka = .convex
            · simp [h3] at h
            · simp only [h3, if_false, Option.some.injEq] at h; subst h
              cases neg with
              | false => simp [ok] at hok
              | true =>
                simp only [hl, if_false, if_true, maxS_eval, sgn, ← maxTo_neg]
                exact maxTo_congr (fun j => by simpa [sgn] using iha ka ha true (by simpa [ok] using h3) j) _
  | abs a iha =>
    intro c h neg hok k
    by_cases hn : curv L (.abs a) = some .num
    · simp only [flat, hn, if_true, S.eval, lin_const_eval, num_value L ρ _ hn k]
    · have hcn : c ≠ .num := fun e => hn (e ▸ h)
      simp only [curv, Option.bind_eq_bind] at h
      cases ha : curv L a with
      | none => simp [ha] at h
      | some ka =>
        simp only [ha, Option.bind_some] at h
        by_cases h1 : ka = .num
        · simp only [h1, if_true, Option.some.injEq] at h; exact absurd h.symm hcn
        · simp only [h1, if_false] at h
          split at h
          · rename_i hk; simp only [Option.some.injEq] at h; subst h
            have o1 : ∀ n, ok n ka := fun n => ok_lin n (by rcases hk with h | h <;> simp [h])
            cases neg with
            | true => simp [ok] at hok
            | false =>
              simp only [flat, hn, if_false, Bool.false_eq_true, S.eval, evalAt, iha ka ha false (o1 _), iha ka ha true (o1 _), sgn, if_true, rabs_eq_max]
          · simp at h

end CvxVerif.PWL
