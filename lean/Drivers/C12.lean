import CvxVerif.Spec.PWL
import CvxVerif.Spec.ExprParse
open CvxVerif CvxVerif.Expr CvxVerif.PWL CvxVerif.Proto

structure St where
  lens : List Nat := []
  obj : List String := []
  ineq : List String := []
  eq : List String := []

def showLin (l : Lin) : String :=
  let n := l.norm
  showRat n.const ++ "|" ++ ",".intercalate (n.coef.map fun t => s!"{t.1.1}:{t.1.2}:{showRat t.2}")

def okSide (neg : Bool) (c : Curv) : Bool := if neg then c != .convex else c != .concave

/-- rows `p(x) ≤ 0` for every component of `e ≤ 0` (of `-e ≤ 0` when `neg`) -/
def rowsOf (L : Lens) (neg : Bool) (e : Expr) : Except String (List String) :=
  match len L e, curv L e with
  | some n, some c =>
    if !okSide neg c then .error "curv" else
    if ((List.range n).map fun k => npieces (flat L neg e k)).sum > 4000 then .error "toobig" else
    .ok ((List.range n).flatMap fun k => (pieces (flat L neg e k)).map showLin)
  | none, _ => .error "len"
  | _, none => .error "curv"

/-- `lens l0;l1;..` | `obj e` | `ineq e` (e ≤ 0) | `eq e` (e = 0) | `emit` | `reset` -/
def stepLine (s : St) (line : String) : St × String :=
  let L : Lens := fun i => s.lens.getD i 0
  match words line with
  | ["lens", ls] => match (ls.splitOn ";").mapM (·.toNat?) with
    | some l => ({ lens := l }, "ok")
    | none => (s, "bad-op")
  | ["reset"] => ({}, "ok")
  | "obj" :: toks => match parseE toks with
    | some (e, []) =>
      if len L e != some 1 then (s, "error len") else
      match rowsOf L false e with
      | .ok r => ({ s with obj := r }, s!"ok pieces={r.length}")
      | .error m => (s, "error " ++ m)
    | _ => (s, "bad-op")
  | "ineq" :: toks => match parseE toks with
    | some (e, []) => match rowsOf L false e with
      | .ok r => ({ s with ineq := s.ineq ++ r }, s!"ok pieces={r.length}")
      | .error m => (s, "error " ++ m)
    | _ => (s, "bad-op")
  | "eq" :: toks => match parseE toks with
    | some (e, []) =>
      match len L e, curv L e with
      | some n, some c =>
        if c == .convex || c == .concave then (s, "error curv") else
        let ps := (List.range n).map fun k => pieces (flat L false e k)
        if ps.all (fun p => p.length == 1) then ({ s with eq := s.eq ++ ps.flatten.map showLin }, s!"ok pieces={n}")
        else (s, "error pieces")
      | _, _ => (s, "error")
    | _ => (s, "bad-op")
  | ["emit"] => (s, "lp O=" ++ ";".intercalate s.obj ++ " I=" ++ ";".intercalate s.ineq ++ " E=" ++ ";".intercalate s.eq)
  | _ => (s, "bad-op")

def main : IO Unit := loop stepLine {}
