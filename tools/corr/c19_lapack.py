"""C19, LAPACK wrappers.

T  The argument-checking prefix of every wrapper of /repo/src/C/lapack.c is regenerated into Lean (Gen/LapackWrap.lean) on every run and
   the theorem `accept -> every array the routine touches is a matrix of the right element type that contains the routine's footprint`
   is re-proved per routine (Gen/C19SafeL_*.lean, statements from tools/translate/footprints_lapack.py).
C  Grammar-based calls (keyword lists, formats and option characters are read from the source): the decision of the generated checks is
   compared with the real wrapper (`reject X` must raise X, `none` must return, `call` must not fault), executed in a crash-safe worker
   whose allocator puts a PROT_NONE page (behind a small canary slack) after every buffer.  The same lines go through the Lean functions
   (Drivers/C19L.lean) so that the Python evaluation of the parsed checks and the generated Lean text are tied as well.
   The C-int (wrap-around) evaluation of the same checks is searched for accepted tuples that the ideal evaluation rejects."""
import os, re, json, random, subprocess, sys
import vlib
sys.path.insert(0, os.path.join(vlib.VERIF, 'tools', 'translate'))

SKIP = set()          # (larfg / larfx, the scalar-reflector helpers, have their own argument shapes in gen_case)
SLACK = '64'            # canary bytes between a buffer and its guard page
WIDE = '65536'

def signatures(cfile='lapack.c'):
    s = open(os.path.join(vlib.REPO, 'src', 'C', cfile)).read()
    funcs = re.findall(r'static PyObject\*\s*(\w+)\(PyObject \*self, PyObject \*args,\s*PyObject \*kwrds\)\s*\{(.*?)\n\}', s, flags=re.S)
    out = {}
    for name, body in funcs:
        kw = re.search(r'char \*kwlist\[\] = \{(.*?)NULL\}', body, flags=re.S)
        if not kw or (name in SKIP and cfile == 'lapack.c'): continue
        names = re.findall(r'"(\w+)"', kw.group(1))
        fm = re.findall(r'PyArg_ParseTupleAndKeywords\(args, kwrds,\s*"([^"]*)"', body)
        if not fm: continue
        fmt = [f for f in fm if 'C' in f or 'c' not in f]
        fmt = (fmt[0] if fmt else fm[0]).replace('|', '')
        req = fm[0].index('|') if '|' in fm[0] else len(fmt)
        chars = {k: re.findall(r"'(\w)'", v) for k, v in re.findall(r'err_char\("(\w+)",\s*"([^"]*)"\)', body)}
        # keyword -> C variable (order of the &var arguments of the first parse call)
        m = re.search(r'PyArg_ParseTupleAndKeywords\(args, kwrds,\s*"[^"]*",\s*kwlist,(.*?)\)\)', body, flags=re.S)
        cvars = [v.strip().lstrip('&') for v in m.group(1).split(',')]
        cvars = [v[:-1] if v.endswith('_') else v for v in cvars]
        if len(fmt) != len(names) or len(cvars) != len(names): continue
        out[name] = {'names': names, 'fmt': fmt, 'required': req, 'chars': chars, 'cvar': dict(zip(names, cvars))}
    return out

INTVALS = [-1, 0, 0, 1, 1, 2, 2, 3, 3, 4, 5, 7]

def gen_case(rng, name, sig, cid):
    """a call description: every 'O' argument gets a matrix spec (tc, rows, cols), a non-matrix object or is omitted; ints and chars are
    given or omitted.  Half of the calls are `documented` ones (consistent shapes and typecodes, dimensions omitted or equal to the shapes,
    leading dimensions omitted or a little larger than needed): most of them pass the checks and reach LAPACK; the other half perturbs
    shapes, typecodes and every integer keyword independently."""
    valid = rng.random() < 0.5
    n = rng.choice([0, 1, 2, 3, 3, 4]) if not valid else rng.choice([1, 2, 3, 3, 4, 5]); k = rng.choice([0, 1, 2, 3])
    m = n if rng.random() < 0.6 else rng.choice([0, 1, 2, 3, 4, 5] if not valid else [1, 2, 3, 4, 5])
    if valid and rng.random() < 0.15:
        # larger documented calls: LAPACK switches code paths with the order (unrolled code up to order 10 in xLARFX, blocked algorithms
        # beyond the block size), and the work space the wrapper allocates for itself is only exercised by them
        n = rng.choice([11, 12, 17, 33, 40]); m = n if rng.random() < 0.4 else rng.choice([11, 12, 17, 33, 40]); k = rng.choice([1, 3, 12])
    if name in ('orgqr', 'ungqr') and valid: m = max(m, n)
    if name in ('orglq', 'unglq') and valid: n = max(m, n)
    tc = rng.choice('dz')
    if valid and name in ('syev', 'syevd', 'syevx', 'syevr', 'sygv', 'ormqr', 'orgqr', 'ormlq', 'orglq'): tc = 'd'
    kl, ku, kd = rng.choice([0, 1, 2]), rng.choice([0, 1, 2]), rng.choice([0, 1, 2])
    side = rng.choice('LR')
    p_bad = 0.0 if valid else 1.0
    def jitter(v): return v if (valid or rng.random() < 0.8) else max(0, v + rng.choice([-2, -1, 1, 2]))
    def other(t): return t if rng.random() >= 0.07 * p_bad else rng.choice('dzi')
    present = {an for pos, (an, f) in enumerate(zip(sig['names'], sig['fmt'])) if f == 'O' and (pos < sig['required'] or rng.random() < 0.5)}
    rows_of = {}
    args = {}
    for pos, (an, f) in enumerate(zip(sig['names'], sig['fmt'])):
        required = pos < sig['required']
        if f == 'O':
            if an not in present: continue
            if rng.random() < 0.02 * p_bad: args[an] = {'obj': 'int'}; continue          # not a matrix at all
            if name == 'larfx' and an == 'tau':
                args[an] = {'num': (rng.choice([0.0, 1.5, -0.5, 2.0]) if tc == 'd' or rng.random() < 0.3 else [rng.choice([1.0, 0.5]), rng.choice([-1.0, 0.25])])}; continue
            if name == 'larfx' and an == 'v': args[an] = {'mat': [other(tc), jitter(m if side == 'L' else n) + rng.choice([0, 0, 2]), 1]}; rows_of[an] = 1; continue
            if name == 'larfg' and an == 'alpha': args[an] = {'mat': [other(tc), jitter(1) + rng.choice([0, 0, 2]), 1]}; continue
            if name == 'larfg' and an == 'x': args[an] = {'mat': [other(tc), jitter(max(n - 1, 0)) + rng.choice([0, 0, 1]), 1]}; continue
            if an in ('ipiv', 'jpvt'): spec = [other('i') if rng.random() >= 0.05 * p_bad else 'd', jitter(max(m, n)), 1]
            elif an in ('W', 'S', 'w'):
                wt = 'z' if (an == 'w' or (an == 'W' and name in ('gees',))) else 'd'
                spec = [wt if rng.random() >= 0.1 * p_bad else tc, jitter(max(m, n)), 1]
            elif an in ('tau', 'd', 'e', 'dl', 'du', 'du2', 'alpha', 'beta', 'a', 'b'):
                ln = {'tau': min(m, n), 'd': n, 'e': n - 1, 'dl': n - 1, 'du': n - 1, 'du2': n - 2, 'alpha': n, 'beta': n, 'a': n, 'b': n}[an]
                ttc = 'd' if (an == 'd' and name in ('ptsv', 'pttrf', 'pttrs')) else ('z' if an == 'a' else 'd' if an == 'b' else tc)
                spec = [other(ttc), jitter(max(ln, 0)), 1]
            elif an == 'select': args[an] = {'obj': 'none'}; continue
            elif an in ('B', 'X') and name in ('sygv', 'hegv', 'gges'): spec = [other(tc), jitter(n), jitter(n)]
            elif an == 'C': spec = [other(tc), jitter(m), jitter(n)]
            elif an in ('B', 'X'): spec = [other(tc), jitter(max(m, n) if name in ('gels',) else n), jitter(k)]
            elif an == 'A' and name in ('gbsv', 'gbtrf', 'gbtrs', 'pbsv', 'pbtrf', 'pbtrs', 'tbtrs'):
                rows = {'gbsv': (2 * kl if 'ipiv' in present else kl) + ku + 1, 'gbtrf': 2 * kl + ku + 1, 'gbtrs': 2 * kl + ku + 1}.get(name, kd + 1)
                spec = [tc, rows if valid else jitter(rng.choice([1, 2, 3, 4, 5])), jitter(n)]
            elif an == 'A' and name in ('ormqr', 'unmqr'): spec = [other(tc), jitter(m if side == 'L' else n), jitter(min(m, n))]
            elif an == 'A' and name in ('ormlq', 'unmlq'): spec = [other(tc), jitter(min(m, n)), jitter(m if side == 'L' else n)]
            elif an == 'U': spec = [other(tc), jitter(m), jitter(m)]
            elif an == 'Vt': spec = [other(tc), jitter(n), jitter(n)]
            elif an in ('Z', 'V', 'Vl', 'Vr'): spec = [other(tc), jitter(n), jitter(n)]
            else: spec = [other(tc), jitter(m), jitter(n)]
            args[an] = {'mat': spec}; rows_of[an] = spec[1]
        elif f == 'i':
            if valid:
                if an == 'kl': args[an] = {'int': kl}
                elif an == 'ku' and (required or rng.random() < 0.5): args[an] = {'int': ku}
                elif an == 'kd' and (required or rng.random() < 0.5): args[an] = {'int': kd}
                elif an == 'itype' and rng.random() < 0.5: args[an] = {'int': rng.choice([1, 2, 3])}
                elif an == 'm' and (required or rng.random() < 0.3): args[an] = {'int': m}
                elif an == 'n' and (required or rng.random() < 0.3): args[an] = {'int': n}
                elif an == 'k' and (required or rng.random() < 0.3): args[an] = {'int': min(m, n)}
                elif an == 'il' and rng.random() < 0.5: args[an] = {'int': 1}
                elif an == 'iu' and rng.random() < 0.5: args[an] = {'int': max(1, n - 1)}
                elif an.startswith('ld') and rng.random() < 0.3:
                    mt = an[2:]
                    if mt in rows_of: args[an] = {'int': max(1, rows_of[mt]) + rng.choice([0, 0, 1, 3])}
                elif required: args[an] = {'int': rng.choice([0, 1, 2])}
            elif required or rng.random() < 0.3: args[an] = {'int': rng.choice(INTVALS)}
        elif f in 'cC':
            if required or rng.random() < 0.6:
                opts = sig['chars'].get(an) or ['N', 'L', 'U', 'T', 'C', 'V', 'A', 'S', 'O', 'I', 'R']
                if an == 'side': args[an] = {'chr': side if valid else rng.choice('LRX')}
                elif valid and an == 'trans' and tc == 'z' and name in ('gels', 'unmqr', 'unmlq'): args[an] = {'chr': rng.choice('NC')}
                elif valid and an == 'trans' and tc == 'd' and name in ('ormqr', 'ormlq'): args[an] = {'chr': rng.choice('NT')}
                else: args[an] = {'chr': rng.choice(opts) if rng.random() >= 0.05 * p_bad else 'X'}
        elif f == 'd':
            if required or rng.random() < 0.3: args[an] = {'flt': rng.choice([0.0, 1.0, -1.0, 2.0])}
    if valid and 'side' not in args and any(a == 'side' for a in sig['names']):
        args['side'] = {'chr': side}
    # with a leading dimension larger than the number of rows the buffer has to be larger too: widen the matrices accordingly
    if valid:
        for an, v in list(args.items()):
            if an.startswith('ld') and an[2:] in args and 'mat' in args[an[2:]]:
                sp = args[an[2:]]['mat']; extra = v['int'] - max(1, sp[1])
                if extra > 0: sp[1] += extra; 
    return {'kind': 'lapack', 'id': cid, 'routine': name, 'args': args, 'order': sig['names'][:sig['required']], 'valid': valid}

def model_env(r, sig, case):
    """the variables the parsed prefix reads, for this call"""
    env = {}
    for v, d in r['ints'].items(): env[v] = d
    for v, d in r['chars'].items(): env[v] = d
    for an, f in zip(sig['names'], sig['fmt']):
        cv = sig['cvar'][an]
        a = case['args'].get(an)
        if f == 'd': env[cv] = 0
        if cv in r['mats']:
            tc, m, n, ismat = 'd', 0, 0, False
            if a is None: env[cv] = 0
            elif 'mat' in a: env[cv] = 1; (tc, m, n), ismat = a['mat'], True
            else: env[cv] = 1
            env[(cv, 'isMat')] = ismat; env[(cv, 'isSp')] = False
            env[(cv, 'id')] = 'idz'.index(tc); env[(cv, 'len')] = m * n; env[(cv, 'nrows')] = m; env[(cv, 'ncols')] = n
        elif a is not None:
            v = list(a.values())[0]
            env[cv] = ord(v) if isinstance(v, str) else int(v)
    env[('opaque', 'PyFunction_Check')] = False
    if r['name'] == 'larfx':
        # number_from_pyobject(tau, ., MAT_ID(v)): fails for an integer v (no INT case) and for a complex tau with a real v
        tv = case['args'].get('tau', {}); vv = case['args'].get('v', {})
        vtc = vv['mat'][0] if 'mat' in vv else None
        isc = isinstance(tv.get('num'), list)
        numeric = 'num' in tv or tv.get('obj') == 'int'          # (the "not a matrix at all" object of the grammar is a Python int: a perfectly good tau)
        env[('opaque', 'number_from_pyobject')] = (not numeric) or vtc == 'i' or (vtc == 'd' and isc)
    return env

def line_of(r, env):
    parts = []
    for k, v in env.items():
        if isinstance(k, tuple):
            if k[0] == 'opaque': parts.append('opq_%s=%d' % (k[1], int(v)))
            else: parts.append('%s_%s=%d' % (k[0], k[1], int(v)))
        elif k in r['mats']: parts.append('%s_given=%d' % (k, int(v)))
        else: parts.append('%s=%d' % (k, int(v)))
    return 'lapack %s %s' % (r['name'], ' '.join(parts))

class Worker:
    def __init__(self, build, slack=SLACK):
        self.build = build; self.p = None; self.slack = slack
    def start(self):
        self.p = subprocess.Popen(['/venv/bin/python', os.path.join(vlib.VERIF, 'tools', 'corr', 'c19_worker2.py'), self.build],
                                  stdin=subprocess.PIPE, stdout=subprocess.PIPE, stderr=subprocess.DEVNULL, text=True, bufsize=1,
                                  env=dict(os.environ, CVXOPT_GUARD_SLACK=self.slack))
    def run(self, case):
        if self.p is None or self.p.poll() is not None: self.start()
        try:
            self.p.stdin.write(json.dumps(case) + '\n'); self.p.stdin.flush()
        except BrokenPipeError:
            self.start(); self.p.stdin.write(json.dumps(case) + '\n'); self.p.stdin.flush()
        started = False
        while True:
            l = self.p.stdout.readline()
            if not l:
                rc = self.p.wait(); self.p = None
                return 'crash(signal %d)' % (-rc) if started else 'worker-died'
            l = l.strip()
            if l.startswith('START'): started = True
            if l.startswith('RESULT'):
                parts = l.split(' ')
                return 'ok' if parts[2] == 'ok' else parts[3]
    def close(self):
        if self.p and self.p.poll() is None:
            self.p.stdin.close(); self.p.wait()

def show(case):
    return 'lapack.%s(%s)' % (case['routine'], ', '.join('%s=%s' % (k, list(v.values())[0]) for k, v in case['args'].items()))

def parse_arity():
    """static scan of every PyArg_ParseTupleAndKeywords call of src/C/*.c: the number of format units must equal the number of variables
    (fewer variables than units: the parser stores through whatever is on the stack; more variables than units: keywords are bound to
    the wrong variables, which the embedding probes of C18 exhibit).  Returns [(where, what, unsafe)]"""
    import glob
    bad = []
    for path in sorted(glob.glob(os.path.join(vlib.REPO, 'src', 'C', '*.c'))):
        src = open(path).read()
        src = re.sub(r'/\*.*?\*/', ' ', src, flags=re.S)
        for m in re.finditer(r'PyArg_ParseTupleAndKeywords\(\s*args\s*,\s*kwrds\s*,\s*"([^"]*)"\s*,\s*(\w+)\s*,(.*?)\)\)', src, flags=re.S):
            fmt, kwname, rest = m.group(1), m.group(2), m.group(3)
            core = re.split(r'[:;]', fmt)[0].replace('|', '').replace('$', '')
            units = len(core)                                   # `O!` and `O&` are two characters and take two variables
            nvars = len([v for v in rest.split(',') if v.strip()])
            if nvars != units:
                line = src[:m.start()].count('\n') + 1
                bad.append(('%s:%d' % (os.path.basename(path), line), 'format "%s" has %d units but %d variables are passed' % (fmt, units, nvars), nvars < units))
    return bad

def translate(ctx):
    import cwrap2lean
    try:
        t = cwrap2lean.gen_lapack_safety()
        cwrap2lean.gen_lapack_driver(t); cwrap2lean.gen_lapack_foot(t)
        ctx.table_lapack = t
    except Exception as e:
        return ['cwrap2lean (lapack.c): %s: %s' % (type(e).__name__, e)]
    return []

def overflow_case(r, sig, bigv, dimv, inc):
    """the documented shapes for a dimv-sized problem, one leading dimension / offset replaced by a value near 2^31"""
    args = {}
    for pos, (an, f) in enumerate(zip(sig['names'], sig['fmt'])):
        if f == 'O':
            if an == 'select' or (pos >= sig['required'] and an not in ('Z', 'U', 'Vt')): continue
            tc = 'i' if an in ('ipiv', 'jpvt') else 'd'
            if r['name'] == 'larfx' and an == 'tau': args[an] = {'num': 1.5}; continue
            if an in ('w',) or (an == 'a'): tc = 'z'
            args[an] = {'mat': [tc, dimv + 2, 1] if an in ('ipiv', 'jpvt', 'W', 'S', 'w', 'tau', 'd', 'e', 'dl', 'du', 'du2', 'a', 'b') else [tc, dimv + 2, dimv + 2]}
        elif f == 'i' and an in ('n', 'm', 'k', 'nrhs'): args[an] = {'int': dimv}
        elif f == 'i' and an in ('kl', 'ku', 'kd'): args[an] = {'int': 1}
    args[inc] = {'int': bigv}
    return {'kind': 'lapack', 'routine': r['name'], 'args': args, 'order': []}

def lapack_probes(ctx, rng, gb):
    import cwrap2lean
    sigs = signatures()
    table = getattr(ctx, 'table_lapack', None) or cwrap2lean.gen_lapack()
    byname = {r['name']: r for r in table}
    per = 25 if ctx.quick() else 700
    w = Worker(gb)
    stat = {'ok': 0, 'exception': 0, 'model_reject': 0, 'model_none': 0, 'model_call': 0, 'library_overread': 0}
    overreads = []; reached = {}
    cid = 3 * 10**6
    lines, pyres = [], []
    dis = 0
    corpus = {}
    for i, c in enumerate(json.load(open(os.path.join(vlib.VERIF, 'tools', 'corr', 'c19_corpus.json')))['lapack']):
        corpus.setdefault(c['routine'], []).append(dict(c, id=4 * 10**6 + i, order=[], valid=False))
    try:
        for name, sig in sorted(sigs.items()):
            r = byname.get(name)
            mine = corpus.get(name, [])
            for it in range(per + len(mine)):
                if it < len(mine): case = mine[it]
                else: case = gen_case(rng, name, sig, cid); cid += 1
                res = w.run(case)
                if res.startswith('crash') or res == 'worker-died':
                    # vectorised / strided kernels of the BLAS library read (never write) a little past the end of their operands; such a
                    # read is not an access of the wrapper: the case is run again with a wide canary zone - a write anywhere in the zone or
                    # an access beyond it still fails there
                    w2 = Worker(gb, WIDE); res2 = w2.run(dict(case)); w2.close()
                    if res2.startswith('crash') or res2 == 'worker-died':
                        ctx.violation('c19:wrapper-out-of-bounds:lapack.' + name, '%s touches memory outside its buffers (%s)' % (show(case), res2), case)
                        continue
                    stat['library_overread'] += 1
                    if len(overreads) < 5: overreads.append(show(case))
                    res = res2
                stat['ok' if res == 'ok' else 'exception'] += 1
                if r is None: continue
                env = model_env(r, sig, case)
                try: ideal = cwrap2lean.eval_stmts(r['stmts'], dict(env), cint=False)
                except (ZeroDivisionError, KeyError) as e:
                    ctx.broke('evaluation of the translated checks of lapack.%s' % name, {'case': case, 'error': repr(e)}); continue
                stat['model_' + ideal[0]] += 1
                if ideal[0] == 'call' and res == 'ok': reached[name] = reached.get(name, 0) + 1
                exp = ideal[1] if ideal[0] == 'reject' else 'ok' if ideal[0] == 'none' else None
                if exp is not None and res != exp:
                    dis += 1
                    if dis <= 5:
                        ctx.violation('c19:decision-differs:lapack.' + name, '%s: the real wrapper gives %s, the checks as translated give %s' % (show(case), res, exp),
                                      {'case': case, 'real': res, 'model': exp})
                if len(lines) < (4000 if ctx.quick() else 40000):
                    lines.append(line_of(r, env)); pyres.append(ideal)
        # overflow witnesses: per routine, the first tuple (fixed enumeration) that the C-int evaluation of the checks accepts while the
        # ideal evaluation rejects, executed on the real build
        wit = {}
        for name, sig in sorted(sigs.items()):
            r = byname.get(name)
            if r is None: continue
            cands = [an for an, f in zip(sig['names'], sig['fmt']) if f == 'i' and (an.startswith('ld') or an.startswith('offset') or an in ('oA', 'oB'))]
            found = None
            for bigv in (2**31 - 1, 2**30, 2**31 - 2):
                for dimv in (3, 2, 5):
                    for inc in cands:
                        case = overflow_case(r, sig, bigv, dimv, inc)
                        env = model_env(r, sig, case)
                        try:
                            ideal = cwrap2lean.eval_stmts(r['stmts'], dict(env), cint=False)
                            cres = cwrap2lean.eval_stmts(r['stmts'], dict(env), cint=True)
                        except (ZeroDivisionError, KeyError): continue
                        if ideal[0] == 'reject' and cres[0] == 'call': found = case; break
                    if found: break
                if found: break
            if not found: continue
            found['id'] = cid; cid += 1
            res = w.run(found)
            wit[name] = [show(found), res]
            if res.startswith('crash') or res == 'worker-died' or res == 'ok' or res == 'ArithmeticError':
                ctx.violation('c19:int-overflow:lapack.' + name, '%s: %s -- the length test overflows in C int arithmetic and accepts a footprint outside the buffer'
                              % (show(found), res), dict(found, result=res))
        ctx.cov['lapack_overflow_witnesses'] = wit
    finally:
        w.close()
    # the generated Lean functions decide the same lines in the same way
    if lines:
        out = vlib.drive('C19L', lines)
        bad = 0
        for l, ideal, o in zip(lines, pyres, out):
            lean = o.split(' ')
            lean_cls = (lean[0] + ' ' + lean[1]) if lean[0] == 'reject' else lean[0]
            py_cls = ('reject ' + ideal[1]) if ideal[0] == 'reject' else ideal[0]
            if lean_cls != py_cls:
                bad += 1
                if bad <= 3: ctx.broke('generated Lean function vs Python evaluation of the same AST (lapack)', {'line': l, 'lean': o, 'python': py_cls})
    ctx.cov['lapack_probes'] = dict(stat, overread_examples=overreads, routines_reaching_lapack=len(reached),
                                    routines_never_reaching_lapack=sorted(set(sigs) - set(reached)), routines=len(sigs), per_routine=per, lean_lines=len(lines), decision_disagreements=dis)
    return stat['ok'] + stat['exception']


DIMKW = ('m', 'n', 'k', 'nrhs', 'kl', 'ku', 'kd')

def embed_probes(ctx, rng, build, prop):
    """Embedding invariance of every wrapper: a documented call on plain matrices and the same call with every array argument placed in a
    larger sentinel-filled buffer (an offset - the same for every array, or a different one for each -, leading dimension rows + pad, all dimensions explicit) must return the same numbers in the
    embedded positions, must not raise, and must leave every sentinel untouched (a write outside the documented footprint but inside the
    buffer is invisible to guard pages)."""
    import cwrap2lean
    sigs = signatures()
    table = getattr(ctx, 'table_lapack', None) or cwrap2lean.gen_lapack()
    byname = {r['name']: r for r in table}
    per = 12 if ctx.quick() else 300
    w = Worker(build)
    stat = {}
    cid = 5 * 10**6
    try:
        for name, sig in sorted(sigs.items()):
            r = byname.get(name)
            if r is None: continue
            done = 0; tries = 0
            while done < per and tries < per * 12:
                tries += 1
                case = gen_case(rng, name, sig, cid)
                if not case['valid'] or any(k.startswith('ld') or k.startswith('offset') or k in ('oA', 'oB') for k in case['args']): continue
                env = model_env(r, sig, case)
                try: ideal = cwrap2lean.eval_stmts(r['stmts'], dict(env), cint=False)
                except (ZeroDivisionError, KeyError): continue
                if ideal[0] != 'call': continue
                fin = ideal[1]
                emb = {}
                for an, v in case['args'].items():
                    if 'mat' not in v: continue
                    offk = [k for k in ('offset' + an, 'o' + an) if k in sig['names']]
                    if not offk: continue
                    emb[an] = {'off': offk[0], 'ld': ('ld' + an) if ('ld' + an) in sig['names'] else None}
                if not emb: break
                dims = {k: int(fin[sig['cvar'][k]]) for k in DIMKW if k in sig['names'] and sig['fmt'][sig['names'].index(k)] == 'i'}
                cid += 1; done += 1
                c2 = {'kind': 'embed', 'id': cid, 'routine': name, 'args': {k: v for k, v in case['args'].items() if k not in dims}, 'dims': dims, 'emb': emb,
                      'pad': rng.choice([1, 2, 3]), 'off': rng.choice([1, 2, 3, 5]), 'distinct': cid % 3}          # 0: one offset for all arrays, 1 / 2: a different offset for each (ascending / descending by name)
                res = w.run(c2)
                if res.startswith('crash') or res == 'worker-died':
                    # as in lapack_probes: the vectorised kernels of the BLAS library read a little past the end of their operands (larger
                    # complex operands in particular); run again with a wide canary zone - a write anywhere in the zone or an access beyond
                    # it still fails there
                    w2 = Worker(build, WIDE); res2 = w2.run(dict(c2)); w2.close()
                    if not (res2.startswith('crash') or res2 == 'worker-died'):
                        stat['library_overread'] = stat.get('library_overread', 0) + 1; res = res2
                key = res.split('-')[0] if res.startswith('skip') else res
                stat[key] = stat.get(key, 0) + 1
                if res.startswith('crash') or res == 'worker-died':
                    ctx.violation('%s:embedded-call-faults:lapack.%s' % (prop.lower(), name), 'lapack.%s with its arguments embedded in larger buffers (offsets / leading dimensions) faults: %s; call %s'
                                  % (name, res, show(case)), c2)
                elif res.startswith('sentinel-changed'):
                    ctx.violation('%s:writes-outside-footprint:lapack.%s' % (prop.lower(), name), 'lapack.%s wrote outside the documented block of `%s` (offset %d, leading dimension rows + %d): call %s'
                                  % (name, res.split('-')[-1], c2['off'], c2['pad'], show(case)), c2)
                elif prop == 'C18' and (res.startswith('result-differs') or res.startswith('embed-raises') or res == 'return-differs'):
                    ctx.violation('c18:offset-ld-semantics:lapack.%s' % name, 'lapack.%s with offsets and leading dimensions does not compute what the plain call computes (%s): call %s, explicit %s'
                                  % (name, res, show(case), dims), c2)
    finally:
        w.close()
    ctx.cov['embedding_probes'] = dict(stat, per_routine=per)
    return sum(stat.values())


def blas_grammar_probes(ctx, rng, gb):
    """every wrapper of blas.c with arguments of every kind: for each `O` argument a matrix of any typecode and shape (vectors and matrices,
    empty ones, too short ones), a sparse matrix, a number, None or a string; integers from a small box or near 2^31 only for the dimensions
    (the overflow cases are the known findings); every option character.  A call raises or returns."""
    sigs = signatures('blas.c')
    per = 60 if ctx.quick() else 1500
    w = Worker(gb); stat = {'ok': 0, 'exception': 0, 'library_overread': 0}; cid = 11 * 10**6
    tc0 = ['d']
    def obj(an):
        r = rng.random()
        if r < 0.80:
            tc = tc0[0] if rng.random() < 0.9 else rng.choice('dzi')
            if an in ('x', 'y'): return {'mat': [tc, rng.choice([0, 1, 3, 6, 9, 12]), 1]}
            return {'mat': [tc, rng.randint(0, 4), rng.randint(0, 4)]}
        if r < 0.86: return {'sp': [rng.choice('dz'), rng.randint(0, 3), rng.randint(0, 3), rng.randint(0, 5)]}
        if r < 0.95: return {'num': rng.choice([1.0, -2.0, 0, 2, [1.0, 1.0], 0.0])}
        return {'obj': rng.choice(['int', 'none'])}
    try:
        for name, sig in sorted(sigs.items()):
            for it in range(per):
                args = {}; tc0[0] = rng.choice('dz')
                for pos, (an, f) in enumerate(zip(sig['names'], sig['fmt'])):
                    required = pos < sig['required']
                    if f == 'O':
                        if required or rng.random() < 0.5:
                            args[an] = obj(an) if an not in ('alpha', 'beta') or rng.random() < 0.15 else {'num': rng.choice([1.0, -2.0, 0, 2, [1.0, 1.0], 0.0])}
                    elif f == 'i':
                        if required or rng.random() < 0.45: args[an] = {'int': rng.choice([-2, -1, 0, 0, 1, 1, 2, 2, 3, 4, 5])}
                    elif f in 'cC':
                        if required or rng.random() < 0.6: args[an] = {'chr': rng.choice(['N', 'T', 'C', 'L', 'U', 'R', 'X'])}
                    elif f == 'd':
                        if required or rng.random() < 0.3: args[an] = {'flt': rng.choice([0.0, 1.0, -1.0])}
                case = {'kind': 'anycall', 'module': 'blas', 'id': cid, 'routine': name, 'args': args}; cid += 1
                res = w.run(case)
                if res.startswith('crash') or res == 'worker-died':
                    w2 = Worker(gb, WIDE); res2 = w2.run(dict(case)); w2.close()
                    if res2.startswith('crash') or res2 == 'worker-died':
                        ctx.violation('c19:wrapper-out-of-bounds:blas.' + name, 'blas.%s(%s) touches memory outside its buffers (%s)' % (
                            name, ', '.join('%s=%s' % (k, list(v.values())[0]) for k, v in args.items()), res2), case)
                        continue
                    stat['library_overread'] += 1; res = res2
                stat['ok' if res == 'ok' else 'exception'] += 1
    finally:
        w.close()
    ctx.cov['blas_grammar_probes'] = dict(stat, routines=len(sigs), per_routine=per)
    return stat['ok'] + stat['exception']
