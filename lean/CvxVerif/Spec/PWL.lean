import CvxVerif.Spec.Expr
/-!
Reference translation of convex piecewise-linear expressions into linear programs.

`flat L neg e k` rewrites component `k` of an accepted expression `e` (or of `-e` when `neg`) as a term `S` built from affine forms
with `max`, `+` and multiplication by nonnegative numbers; `pieces s` lists affine forms whose pointwise maximum is `s`.  A constraint
`e ≤ 0` is then the finite system `p(x) ≤ 0, p ∈ pieces`, and `minimize e` is `minimize t  s.t.  p(x) ≤ t`.  No auxiliary variables
besides `t` are needed, which keeps the statement "the linear program is the problem that was written down" a pointwise equivalence.
Core Lean only.
-/
namespace CvxVerif.PWL
open CvxVerif.Expr

/-- affine form `const + Σ c·x[i][k]` -/
structure Lin where
  coef : List ((Nat × Nat) × Rat)
  const : Rat
deriving Repr

def Lin.eval (ρ : Env) (l : Lin) : Rat := l.coef.foldr (fun t acc => t.2 * ρ t.1.1 t.1.2 + acc) l.const
def Lin.add (a b : Lin) : Lin := ⟨a.coef ++ b.coef, a.const + b.const⟩
def Lin.scale (c : Rat) (a : Lin) : Lin := ⟨a.coef.map fun t => (t.1, c * t.2), c * a.const⟩

inductive S where
  | lin (l : Lin)
  | max (a b : S)
  | add (a b : S)
  | scale (c : Rat) (a : S)
deriving Repr

def S.eval (ρ : Env) : S → Rat
  | .lin l => l.eval ρ
  | .max a b => Max.max (a.eval ρ) (b.eval ρ)
  | .add a b => a.eval ρ + b.eval ρ
  | .scale c a => c * a.eval ρ

/-- all scale factors are nonnegative -/
def S.wf : S → Prop
  | .lin _ => True
  | .max a b => a.wf ∧ b.wf
  | .add a b => a.wf ∧ b.wf
  | .scale c a => 0 ≤ c ∧ a.wf

/-- affine forms whose pointwise maximum is the term -/
def pieces : S → List Lin
  | .lin l => [l]
  | .max a b => pieces a ++ pieces b
  | .add a b => (pieces a).flatMap fun p => (pieces b).map fun q => p.add q
  | .scale c a => (pieces a).map (Lin.scale c)

/-- number of pieces (computed without building them; used by the driver to refuse oversized inputs) -/
def npieces : S → Nat
  | .lin _ => 1
  | .max a b => npieces a + npieces b
  | .add a b => npieces a * npieces b
  | .scale _ a => npieces a

def zeroEnv : Env := fun _ _ => 0

/-- `f 0 + … + f (n-1)` as a term -/
def sumS (f : Nat → S) : Nat → S
  | 0 => .lin ⟨[], 0⟩
  | n + 1 => .add (sumS f n) (f n)

/-- `max (f 0) … (f n)` as a term -/
def maxS (f : Nat → S) : Nat → S
  | 0 => f 0
  | n + 1 => .max (maxS f n) (f (n + 1))

def sgn (neg : Bool) (x : Rat) : Rat := if neg then -x else x

/-- component `k` of `e` (of `-e` when `neg`) as a max/plus term.  Meaningful when `e` is accepted and is not concave (not convex when `neg`). -/
def flat (L : Lens) : Bool → Expr → Nat → S
  | neg, .var i, k => .lin ⟨[((i, k), sgn neg 1)], 0⟩
  | neg, .const v, k => .lin ⟨[], sgn neg (v.getD k 0)⟩
  | neg, .add a b, k | neg, .iadd a b, k =>
      .add (flat L neg a (if len L a = some 1 then 0 else k)) (flat L neg b (if len L b = some 1 then 0 else k))
  | neg, .sub a b, k | neg, .isub a b, k =>
      .add (flat L neg a (if len L a = some 1 then 0 else k)) (flat L (!neg) b (if len L b = some 1 then 0 else k))
  | neg, .neg a, k => flat L (!neg) a k
  | neg, .smul c a, k => if c = 0 then .lin ⟨[], 0⟩ else if 0 ≤ c then .scale c (flat L neg a k) else .scale (-c) (flat L (!neg) a k)
  | neg, .sdiv a c, k => if 0 ≤ c then .scale (1 / c) (flat L neg a k) else .scale (-(1 / c)) (flat L (!neg) a k)
  | neg, .mmul rows a, k =>
      sumS (fun j => let r := (rows.getD k []).getD j 0
                     if 0 ≤ r then .scale r (flat L neg a j) else .scale (-r) (flat L (!neg) a j)) ((len L a).getD 0)
  | neg, .dot c a, _ =>
      sumS (fun j => let r := c.getD j 0
                     if 0 ≤ r then .scale r (flat L neg a j) else .scale (-r) (flat L (!neg) a j)) ((len L a).getD 0)
  | neg, .sum a, _ => sumS (fun j => flat L neg a j) ((len L a).getD 0)
  | neg, .max2 a b, k =>
      if curv L (.max2 a b) = some .num then .lin ⟨[], sgn neg (evalAt L zeroEnv (.max2 a b) k)⟩ else
      if neg then .lin ⟨[], 0⟩ else
      .max (flat L false a (if len L a = some 1 then 0 else k)) (flat L false b (if len L b = some 1 then 0 else k))
  | neg, .min2 a b, k =>
      if curv L (.min2 a b) = some .num then .lin ⟨[], sgn neg (evalAt L zeroEnv (.min2 a b) k)⟩ else
      if neg then .max (flat L true a (if len L a = some 1 then 0 else k)) (flat L true b (if len L b = some 1 then 0 else k))
      else .lin ⟨[], 0⟩
  | neg, .maxv a, k =>
      if curv L (.maxv a) = some .num then .lin ⟨[], sgn neg (evalAt L zeroEnv (.maxv a) k)⟩ else
      if len L a = some 1 then flat L neg a 0 else
      if neg then .lin ⟨[], 0⟩ else maxS (fun j => flat L false a j) ((len L a).getD 0 - 1)
  | neg, .minv a, k =>
      if curv L (.minv a) = some .num then .lin ⟨[], sgn neg (evalAt L zeroEnv (.minv a) k)⟩ else
      if len L a = some 1 then flat L neg a 0 else
      if neg then maxS (fun j => flat L true a j) ((len L a).getD 0 - 1) else .lin ⟨[], 0⟩
  | neg, .abs a, k =>
      if curv L (.abs a) = some .num then .lin ⟨[], sgn neg (evalAt L zeroEnv (.abs a) k)⟩ else
      if neg then .lin ⟨[], 0⟩ else .max (flat L false a k) (flat L true a k)
  | neg, .idx a i, _ => flat L neg a (((len L a).bind fun n => normIdx n i).getD 0)
  | neg, .slice a lo _, k => flat L neg a (min lo ((len L a).getD 0) + k)

/-- merge equal variables of an affine form (presentation only) -/
def Lin.norm (l : Lin) : Lin :=
  let keys := l.coef.foldl (fun acc t => if acc.contains t.1 then acc else acc ++ [t.1]) ([] : List (Nat × Nat))
  ⟨(keys.map fun key => (key, (l.coef.filter fun t => t.1 == key).foldl (fun s t => s + t.2) 0)).filter (fun t => t.2 != 0), l.const⟩

end CvxVerif.PWL
