import CvxVerif.Proofs.Kernels
/-!
# C08 (continued) — the diagonal Jordan product on 's' blocks (`sprod(diag='D')`, `sinv`, `ssqr`)

Block-level theorems for every order `k` about `Model/Kernels.lean`, which the correspondence check compares exactly with both
implementations (`sproddiag`, `ssqr` lines of `tools/corr/c08.py`).
-/
namespace CvxVerif.Kernels

/-- **`sinv` undoes `sprod(diag='D')` on an 's' block** whenever the diagonal `y` is positive: every entry of the lower triangle is
multiplied and then divided by `(y_i + y_j)/2 > 0`; the upper triangle is left alone by both. -/
theorem C08_sinv_sprod_diag_s (k : Nat) (yd x : List Rat) (i j : Nat) (hi : i < k) (hj : j < k)
    (hpos : ∀ t, t < k → 0 < yd.getD t 0) :
    ent k (sinvDiagBlk k yd (sprodDiagBlk k yd x)) i j = ent k x i j := by
  unfold sinvDiagBlk
  rw [ent_ofFn k _ i j hi hj]
  unfold sprodDiagBlk
  rw [ent_ofFn k _ i j hi hj]
  split
  · have h1 := hpos i hi; have h2 := hpos j hj
    have hg : (yd.getD i 0 + yd.getD j 0) / 2 ≠ 0 := by
      have : 0 < (yd.getD i 0 + yd.getD j 0) / 2 := by linarith
      exact ne_of_gt this
    field_simp
  · rfl

/-- `sprod(diag='D')` on an 's' block is the symmetric product `(Y X + X Y)/2` with `Y = diag(y)`, read on the lower triangle:
entry `(i, j)`, `j ≤ i`, becomes `(y_i x_ij + x_ij y_j)/2`. -/
theorem C08_sprod_diag_s_entry (k : Nat) (yd x : List Rat) (i j : Nat) (hi : i < k) (hj : j < k) (hij : j ≤ i) :
    ent k (sprodDiagBlk k yd x) i j = (yd.getD i 0 * ent k x i j + ent k x i j * yd.getD j 0) / 2 := by
  unfold sprodDiagBlk
  rw [ent_ofFn k _ i j hi hj]
  simp only [hij, if_true]
  ring

/-- the diagonal of `y ∘ y` is the square of the diagonal: what `ssqr` stores for an 's' block -/
theorem C08_ssqr_s_diag (k : Nat) (yd : List Rat) (x : List Rat) (i : Nat) (hi : i < k) (hx : ent k x i i = yd.getD i 0) :
    ent k (sprodDiagBlk k yd x) i i = yd.getD i 0 * yd.getD i 0 := by
  rw [C08_sprod_diag_s_entry k yd x i i hi hi (Nat.le_refl i), hx]
  ring

/-- for the componentwise part: `ssqr` squares, and `sinv` undoes `sprod` wherever `y` is non-zero -/
theorem C08_l_part (y x : Rat) (hy : y ≠ 0) : (y * x) / y = x ∧ y * y = y ^ 2 := by
  constructor
  · field_simp
  · ring

end CvxVerif.Kernels
