import CvxVerif.Gen.CallArgs

/-!
C18 — the LAPACK return code.  Every wrapper of lapack.c that passes `&info` to a LAPACK routine turns *any* non-zero return code into an exception
(`if (info) err_lapack`: one such statement per wrapper, guarded by `info` itself), and the macro raises ValueError for a negative code (illegal argument) and
ArithmeticError for a positive one (exactly singular factor, not positive definite, no convergence).  Regenerated from lapack.c on every run
(`Gen/CallArgs.lean`, translator tools/translate/ccall2lean.py).
-/
namespace CvxVerif.C18Info
open CvxVerif.Gen.CallArgs

theorem C18_info_always_reported :
    ∀ g ∈ infoGuards, g.2.1 = ["info"] ∧ 1 ≤ g.2.2.1 ∧ g.2.2.2 = 1 := by decide +kernel

theorem C18_info_wrappers_present : 50 ≤ infoGuards.length := by decide +kernel

theorem C18_err_lapack_classes :
    errLapackDef = "PyErr_SetObject( (info < 0) ? PyExc_ValueError : PyExc_ArithmeticError, Py_BuildValue(\"i\",info) );" := by decide +kernel

end CvxVerif.C18Info
