import CvxVerif.Proofs.Sparse
/-!
# C16 (continued) — `partial=True`: the pattern of a sparse output operand is kept, its stored entries take the values of the full result

`Model/Sparse.lean` `partialUpdate`; the correspondence check compares the real `base.axpy / gemm / syrk(..., partial=True)` with the dense
computation restricted to the old pattern (`tools/corr/c19_base.py`, `partial-differs`).
-/
namespace CvxVerif.Sparse

theorem map_val_sorted (f : Entry → Rat) : ∀ (l : List Entry), Sorted l → Sorted (l.map fun e => { e with val := f e }) := by
  intro l h
  unfold Sorted at *
  rw [List.pairwise_map]
  exact h.imp (fun hab => by simpa [Entry.lt] using hab)

theorem lookup_map_val (f : Entry → Rat) : ∀ (l : List Entry) (c r : Nat),
    lookup (l.map fun e => { e with val := f e }) c r =
      match l.find? (fun x => x.col == c && x.row == r) with
      | some x => f x
      | none => 0 := by
  intro l c r
  induction l with
  | nil => simp [lookup]
  | cons x xs ih =>
    unfold lookup at ih ⊢
    simp only [List.map_cons, List.find?_cons]
    by_cases hx : (x.col == c && x.row == r) = true
    · simp [hx]
    · simp only [hx]
      exact ih

/-- **partial update.** The result is structurally valid with the same shape and the same positions in the same order (the arrays `colptr`
and `rowind` do not change); its dense image is `D` on the stored positions and zero elsewhere. -/
theorem C16_partial (C : SpMat) (D : Nat → Nat → Rat) (hC : C.Valid) :
    (partialUpdate C D).Valid ∧ (partialUpdate C D).nrows = C.nrows ∧ (partialUpdate C D).ncols = C.ncols ∧
    (partialUpdate C D).ents.map (fun e => (e.col, e.row)) = C.ents.map (fun e => (e.col, e.row)) ∧
    (∀ r c, (partialUpdate C D).get r c =
      if (C.ents.find? (fun x => x.col == c && x.row == r)).isSome then D r c else 0) := by
  refine ⟨⟨?_, ?_⟩, rfl, rfl, ?_, ?_⟩
  · exact map_val_sorted (fun e => D e.row e.col) C.ents hC.1
  · intro e he
    simp only [partialUpdate, List.mem_map] at he
    obtain ⟨e0, h0, rfl⟩ := he
    exact hC.2 e0 h0
  · simp [partialUpdate, List.map_map, Function.comp_def]
  · intro r c
    unfold SpMat.get partialUpdate
    simp only
    rw [lookup_map_val (fun e => D e.row e.col) C.ents c r]
    cases hf : C.ents.find? (fun x => x.col == c && x.row == r) with
    | none => simp
    | some x =>
      have := List.find?_some hf
      simp only [Bool.and_eq_true, beq_iff_eq] at this
      simp [this.1, this.2]

/-- a partial update with the matrix's own dense image changes nothing (`beta = 1`, `alpha = 0`) -/
theorem C16_partial_id (C : SpMat) (hC : C.Valid) : partialUpdate C (fun r c => C.get r c) = C := by
  unfold partialUpdate
  cases C with
  | mk m n ents =>
    simp only [SpMat.mk.injEq, true_and]
    conv => rhs; rw [← List.map_id ents]
    apply List.map_congr_left
    intro e he
    have hs : Sorted ents := hC.1
    -- the entry found at the position of `e` is `e` itself (positions are unique in a sorted list)
    have : lookup ents e.col e.row = e.val := by
      unfold lookup
      have hfind : ents.find? (fun x => x.col == e.col && x.row == e.row) = some e := by
        induction ents with
        | nil => cases he
        | cons x xs ih =>
          simp only [List.find?_cons]
          rcases List.mem_cons.mp he with rfl | hmem
          · simp
          · have hx : ¬ ((x.col == e.col && x.row == e.row) = true) := by
              intro hpos
              have hlt : x.lt e := (List.pairwise_cons.mp hs).1 e hmem
              simp only [Bool.and_eq_true, beq_iff_eq] at hpos
              unfold Entry.lt at hlt
              omega
            simp only [hx]
            exact ih ⟨(List.pairwise_cons.mp hs).2, fun e' he' => hC.2 e' (List.mem_cons_of_mem _ he')⟩ hmem (List.pairwise_cons.mp hs).2
      rw [hfind]
    simp only [SpMat.get, id]
    cases e with
    | mk c r v => simp only [Entry.mk.injEq, true_and]; simpa using this

end CvxVerif.Sparse
