import CvxVerif.Gen.C19Safe
import CvxVerif.Gen.C19SafeL
import CvxVerif.Proofs.Dense
/-!
# C19 — no argument values make the C extension access memory outside its matrices

* `Gen/C19Safe_<routine>.lean` (generated on every run): for each of the 34 wrappers of `blas.c`, the theorem
  `C19_safe_<routine>`: in ideal integer arithmetic, whenever the argument checks (translated from the C source)
  let a call through, every element the BLAS routine addresses lies inside the Python buffers — for all
  integer arguments, flags and buffer sizes.  Statements come from `tools/translate/footprints.py`.
* `Gen/C19SafeL_<routine>.lean` (generated on every run): the same for the 60 wrappers of `lapack.c`, theorem
  `C19_safe_lapack_<routine>`: every array the LAPACK routine touches is a matrix of the element type read, is present
  when the chosen job needs it, and contains the routine's footprint.  Statements from `tools/translate/footprints_lapack.py`.
* this file: the index paths of `dense.c` (model `Model/Dense.lean`, tied by C15's correspondence).
-/
namespace CvxVerif.C19
open CvxVerif.Dense

/-- an index accepted by `create_indexlist` / `matrix_subscr` addresses a position inside the buffer -/
theorem C19_index_safe (n : Nat) (i : Int) (h : outRng i n = false) : cwrap i n < n := cwrap_lt i n h

/-- two-argument access `A[i, j]`: the linear position `i' + j'·nrows` is inside a buffer of `nrows·ncols` elements -/
theorem C19_index2_safe (m n : Nat) (i j : Int) (hi : outRng i m = false) (hj : outRng j n = false) :
    cwrap i m + cwrap j n * m < m * n := by
  have h1 := cwrap_lt i m hi
  have h2 := cwrap_lt j n hj
  calc cwrap i m + cwrap j n * m < m + cwrap j n * m := by omega
    _ = (cwrap j n + 1) * m := by rw [Nat.add_mul]; omega
    _ ≤ n * m := Nat.mul_le_mul_right m h2
    _ = m * n := Nat.mul_comm n m

end CvxVerif.C19
