"""C01: the stopping test / result construction of conelp is regenerated into Lean (Gen/Decide.lean) and the
soundness theorems re-checked; the real conelp/lp/socp/sdp are run on planted problems in many presentations and
every 'optimal' answer is judged by the Lean rational checker (Model/CertCheck.lean) on the caller's data."""
import os, sys
import vlib
sys.path.insert(0, os.path.join(vlib.VERIF, 'tools', 'translate'))
from corr import certlib

LEAN_TARGETS = ['CvxVerif.Props.C01', 'CvxVerif.Props.C01Check', 'CvxVerif.Props.C01Start', 'CvxVerif.Props.C01Shift']
MODEL_FILES = ['CvxVerif.Model.LinAlgMachine', 'CvxVerif.Model.CertCheck', 'CvxVerif.Proofs.CertCheck', 'CvxVerif.Gen.Decide', 'CvxVerif.Gen.DecideStart', 'CvxVerif.Gen.Exits']
LEVEL = 'proof'
TRUSTED = ['translator tools/translate/py2lean_exits.py (the blocks that move a starting point into the cone -> Gen/Exits.lean, shifts / amount)',
           'translator py2lean.gen_decide (statistics block, stopping test, return dictionaries, rescalings of conelp/coneqp) and the '
           'fixed semantics Model/LinAlgMachine.lean of its target statements',
           'rational checker Model/CertCheck.lean (cone membership parts proved sound in Proofs/CertCheck.lean) run on the exact '
           'values of the returned doubles; rounding allowance feastol*(1+1e-6)+1e-13']
ASSUMPTIONS = ['floating-point rounding between the solver statistics and the exact residuals of the rounded output is not modelled (allowance stated)',
               "'s' blocks are identified with their lower triangles (misc.symm is the identity on that space)",
               'MOSEK branches cannot run (module absent); GLPK results are judged by the same checker']

def translate(ctx):
    import py2lean
    probs = []
    try: py2lean.gen_decide()
    except Exception as e: probs.append('py2lean.gen_decide: %s: %s' % (type(e).__name__, e))
    try:
        import py2lean_start; py2lean_start.gen_decide_start()
    except Exception as e: probs.append('py2lean_start.gen_decide_start: %s: %s' % (type(e).__name__, e))
    try:
        import py2lean_exits; py2lean_exits.gen_exits()
    except Exception as e: probs.append('py2lean_exits.gen_exits: %s: %s' % (type(e).__name__, e))
    return probs

def correspond(ctx):
    cvxopt = vlib.use_build(ctx.build)
    n = 25 if ctx.quick() else 500
    stats, tags, judged, lines = certlib.cone_runs(ctx, cvxopt, ['optimal', 'optimal', 'optimal', 'pinf', 'dinf'], n, 4 if ctx.quick() else 6, 'c01', rankdef=12 if ctx.quick() else 60)
    ctx.cov.update({'evaluations': stats['solves'], 'distinct_nontrivial': judged,
                    'rule': 'rank-deficient epigraph LPs (collinear columns; any status returned is judged) and planted cone LPs (random dims l/q/s incl. empty and order-0/1 blocks, p in 0..2; 60% strictly feasible pairs, 20% Farkas, '
                            '20% rays) x presentations (kktsolver names, callable KKT solver, sparse, junk upper triangles, start points (both, primal only, dual only), random '
                            'tolerance/refinement options, lp/socp/sdp wrappers, glpk); non-trivial = results judged by the Lean checker',
                    'statuses': stats, 'presentations': tags})
    ctx.samples += lines[:2]

def search(ctx, why):
    """a proof obligation about the statistics / normalisers / epilogues no longer checks: look for a concrete instance on which an
    'optimal' answer fails the documented conditions - problems with several 's' blocks, junk in the unreferenced triangles, objectives of small
    magnitude (so that the gap criterion is met before the residuals converge)"""
    import cvxopt            # already imported from the S0 build by correspond()
    n = 150 if ctx.quick() else 1500
    stats, tags, judged, lines = certlib.cone_runs(ctx, cvxopt, ['optimal', 'optimal', 'pinf', 'dinf'], n, 3, 'c01', focus='s-blocks')
    ctx.cov['search'] = {'instances': n, 'judged': judged, 'statuses': stats}
def replay(ctx, payload): correspond(ctx)
