import CvxVerif.Model.LinAlgMachine
import Mathlib.Tactic.Linarith
import Mathlib.Tactic.Abel
import Mathlib.Tactic.Ring

/-!
C05 — well-posed problems are classified correctly.

The theorems fix what the *true* class of a planted problem is, over any ordered field, any vector spaces and any cone pair with
`⟨s, z⟩ ≥ 0` (so for every cone structure and every size), from the witnesses the generator plants:

* weak duality: a primal feasible and a dual feasible point bound each other's objectives (`C05_weak_duality`, QP: `C05_weak_duality_qp`);
* a planted strictly feasible pair excludes both certificates: with a primal feasible point there is no Farkas certificate, with a
  dual feasible point there is no improving ray (`C05_feasible_excludes_farkas`, `C05_dual_feasible_excludes_ray`), hence a solver that
  returns a *valid* certificate on such a problem is impossible and `'optimal'` (or `'unknown'`) are the only honest answers;
* a planted Farkas certificate excludes every primal feasible point, so `'optimal'` is never a correct answer
  (`C05_farkas_excludes_optimal`); a planted improving ray together with a feasible point makes the objective unbounded below
  (`C05_ray_unbounded`), and excludes every dual feasible point (`C05_ray_excludes_dual`).

The harness `tools/corr/c05.py` checks the planted witnesses exactly in rational arithmetic (Lean checker), runs every native
solver path on the instances and compares statuses, objectives across paths and the weak-duality bounds.
-/
namespace CvxVerif.C05
open CvxVerif.LAM

variable {K X Y Z : Type} [Field K] [LinearOrder K] [IsStrictOrderedRing K]
  [AddCommGroup X] [Module K X] [AddCommGroup Y] [Module K Y] [AddCommGroup Z] [Module K Z]

/-- bilinearity facts about the three inner products that the statements need -/
structure Bilin (E : Env K X Y Z) : Prop where
  adjG : ∀ x z, E.dZ (E.G x) z = E.dX x (E.Gt z)
  adjA : ∀ x y, E.dY (E.A x) y = E.dX x (E.At y)
  addX : ∀ x u v, E.dX x (u + v) = E.dX x u + E.dX x v
  addXl : ∀ u v x, E.dX (u + v) x = E.dX u x + E.dX v x
  smulXl : ∀ (a : K) u x, E.dX (a • u) x = a * E.dX u x
  zeroX : ∀ x, E.dX x 0 = 0
  negX : ∀ x u, E.dX x (-u) = - E.dX x u
  addZ : ∀ u v z, E.dZ (u + v) z = E.dZ u z + E.dZ v z
  commX : ∀ u v, E.dX u v = E.dX v u

/-- **Weak duality** for `min cᵀx s.t. Gx+s=h, Ax=b, s∈C` and its dual `max -hᵀz-bᵀy s.t. Gᵀz+Aᵀy+c=0, z∈C*`. -/
theorem C05_weak_duality (E : Env K X Y Z) (B : Bilin E) (cone dual : Z → Prop) (hpair : ∀ s z, cone s → dual z → 0 ≤ E.dZ s z)
    (c : X) (h : Z) (b : Y) (x : X) (s : Z) (y : Y) (z : Z)
    (hs : cone s) (hG : E.G x + s = h) (hA : E.A x = b) (hz : dual z) (hd : E.Gt z + E.At y + c = 0) :
    -(E.dZ h z) - E.dY b y ≤ E.dX c x := by
  have h1 : E.dZ h z = E.dX x (E.Gt z) + E.dZ s z := by rw [← hG, B.addZ, B.adjG]
  have h2 : E.dY b y = E.dX x (E.At y) := by rw [← hA, B.adjA]
  have h3 : E.dX x (E.Gt z) + E.dX x (E.At y) + E.dX x c = 0 := by rw [← B.addX, ← B.addX, hd, B.zeroX]
  have h4 := hpair s z hs hz
  rw [B.commX c x]; linarith

/-- **A primal feasible point excludes a Farkas certificate** (so `'primal infeasible'` with a valid certificate cannot be returned on it). -/
theorem C05_feasible_excludes_farkas (E : Env K X Y Z) (B : Bilin E) (cone dual : Z → Prop) (hpair : ∀ s z, cone s → dual z → 0 ≤ E.dZ s z)
    (h : Z) (b : Y) (x : X) (s : Z) (hs : cone s) (hG : E.G x + s = h) (hA : E.A x = b) :
    ¬ ∃ y z, dual z ∧ E.Gt z + E.At y = 0 ∧ E.dZ h z + E.dY b y < 0 := by
  rintro ⟨y, z, hz, hcert, hneg⟩
  have h1 : E.dZ h z = E.dX x (E.Gt z) + E.dZ s z := by rw [← hG, B.addZ, B.adjG]
  have h2 : E.dY b y = E.dX x (E.At y) := by rw [← hA, B.adjA]
  have h3 : E.dX x (E.Gt z) + E.dX x (E.At y) = 0 := by rw [← B.addX, hcert, B.zeroX]
  have h4 := hpair s z hs hz
  linarith

/-- **A planted Farkas certificate excludes `'optimal'`**: no primal feasible point exists at all. -/
theorem C05_farkas_excludes_optimal (E : Env K X Y Z) (B : Bilin E) (cone dual : Z → Prop) (hpair : ∀ s z, cone s → dual z → 0 ≤ E.dZ s z)
    (h : Z) (b : Y) (y : Y) (z : Z) (hz : dual z) (hcert : E.Gt z + E.At y = 0) (hneg : E.dZ h z + E.dY b y < 0) :
    ¬ ∃ x s, cone s ∧ E.G x + s = h ∧ E.A x = b := by
  rintro ⟨x, s, hs, hG, hA⟩
  exact C05_feasible_excludes_farkas E B cone dual hpair h b x s hs hG hA ⟨y, z, hz, hcert, hneg⟩

/-- **A dual feasible point excludes an improving ray** (so `'dual infeasible'` with a valid certificate cannot be returned on it). -/
theorem C05_dual_feasible_excludes_ray (E : Env K X Y Z) (B : Bilin E) (cone dual : Z → Prop) (hpair : ∀ s z, cone s → dual z → 0 ≤ E.dZ s z)
    (c : X) (y : Y) (z : Z) (hz : dual z) (hd : E.Gt z + E.At y + c = 0) :
    ¬ ∃ x0 s0, cone s0 ∧ E.G x0 + s0 = 0 ∧ E.A x0 = 0 ∧ E.dX c x0 < 0 := by
  rintro ⟨x0, s0, hs, hG, hA, hc⟩
  have hz0 : E.dZ (0 : Z) z = 0 := by
    have := B.addZ 0 0 z; rw [add_zero] at this; linarith
  have hy0 : E.dY (E.A x0) y = E.dX x0 (E.At y) := B.adjA x0 y
  have h1 : 0 = E.dX x0 (E.Gt z) + E.dZ s0 z := by rw [← hz0, ← hG, B.addZ, B.adjG]
  have h2 : E.dX x0 (E.Gt z) + E.dX x0 (E.At y) + E.dX x0 c = 0 := by rw [← B.addX, ← B.addX, hd, B.zeroX]
  have h3 : E.dX x0 (E.At y) = E.dY 0 y := by rw [← hy0, hA]
  have hY0 : E.dY (0 : Y) y = 0 := by
    have := B.adjA 0 y
    rw [map_zero] at this
    have hx0 : E.dX (0 : X) (E.At y) = 0 := by
      have := B.addXl 0 0 (E.At y); rw [add_zero] at this; linarith
    rw [this, hx0]
  have h4 := hpair s0 z hs hz
  rw [B.commX c x0] at hc
  linarith

/-- **A planted improving ray excludes every dual feasible point.** -/
theorem C05_ray_excludes_dual (E : Env K X Y Z) (B : Bilin E) (cone dual : Z → Prop) (hpair : ∀ s z, cone s → dual z → 0 ≤ E.dZ s z)
    (c : X) (x0 : X) (s0 : Z) (hs : cone s0) (hG : E.G x0 + s0 = 0) (hA : E.A x0 = 0) (hc : E.dX c x0 < 0) :
    ¬ ∃ y z, dual z ∧ E.Gt z + E.At y + c = 0 := by
  rintro ⟨y, z, hz, hd⟩
  exact C05_dual_feasible_excludes_ray E B cone dual hpair c y z hz hd ⟨x0, s0, hs, hG, hA, hc⟩

/-- **A planted ray through a feasible point makes the problem unbounded**: every `x + t·x0` (`t ≥ 0`) is feasible with objective
`cᵀx + t·cᵀx0`, which goes to `-∞`. -/
theorem C05_ray_unbounded (E : Env K X Y Z) (B : Bilin E) (cone : Z → Prop)
    (hcone_add : ∀ u v, cone u → cone v → cone (u + v)) (hcone_smul : ∀ (t : K) u, 0 ≤ t → cone u → cone (t • u))
    (c : X) (h : Z) (b : Y) (x : X) (s : Z) (hs : cone s) (hG : E.G x + s = h) (hA : E.A x = b)
    (x0 : X) (s0 : Z) (hs0 : cone s0) (hG0 : E.G x0 + s0 = 0) (hA0 : E.A x0 = 0) (t : K) (ht : 0 ≤ t) :
    cone (s + t • s0) ∧ E.G (x + t • x0) + (s + t • s0) = h ∧ E.A (x + t • x0) = b ∧
      E.dX (x + t • x0) c = E.dX x c + t * E.dX x0 c := by
  refine ⟨hcone_add _ _ hs (hcone_smul t s0 ht hs0), ?_, ?_, ?_⟩
  · have : E.G (x + t • x0) + (s + t • s0) = (E.G x + s) + t • (E.G x0 + s0) := by
      rw [map_add, map_smul, smul_add]; abel
    rw [this, hG, hG0, smul_zero, add_zero]
  · rw [map_add, map_smul, hA, hA0, smul_zero, add_zero]
  · rw [B.addXl, B.smulXl]

/-- weak duality for the cone QP `min ½xᵀPx + cᵀx`: the dual objective at `(w, y, z)` with `Pw + Gᵀz + Aᵀy + c = 0` is
`-½wᵀPw - hᵀz - bᵀy`, and for PSD `P` it is below the primal objective of every feasible `x`. -/
theorem C05_weak_duality_qp (E : Env K X Y Z) (B : Bilin E) (cone dual : Z → Prop) (hpair : ∀ s z, cone s → dual z → 0 ≤ E.dZ s z)
    (hPsym : ∀ u v, E.dX u (E.P v) = E.dX v (E.P u)) (hPpsd : ∀ u, 0 ≤ E.dX u (E.P u))
    (subX : ∀ x u v, E.dX x (u - v) = E.dX x u - E.dX x v) (subXl : ∀ u v x, E.dX (u - v) x = E.dX u x - E.dX v x)
    (c : X) (h : Z) (b : Y) (x : X) (s : Z) (w : X) (y : Y) (z : Z)
    (hs : cone s) (hG : E.G x + s = h) (hA : E.A x = b) (hz : dual z) (hd : E.P w + E.Gt z + E.At y + c = 0) :
    -(1/2) * E.dX w (E.P w) - E.dZ h z - E.dY b y ≤ (1/2) * E.dX x (E.P x) + E.dX c x := by
  have h1 : E.dZ h z = E.dX x (E.Gt z) + E.dZ s z := by rw [← hG, B.addZ, B.adjG]
  have h2 : E.dY b y = E.dX x (E.At y) := by rw [← hA, B.adjA]
  have h3 : E.dX x (E.P w) + E.dX x (E.Gt z) + E.dX x (E.At y) + E.dX x c = 0 := by
    rw [← B.addX, ← B.addX, ← B.addX, hd, B.zeroX]
  have h4 := hpair s z hs hz
  -- 0 ≤ (x-w)ᵀP(x-w) = xᵀPx - 2 xᵀPw + wᵀPw
  have h5 := hPpsd (x - w)
  have h6 : E.dX (x - w) (E.P (x - w)) = E.dX x (E.P x) - E.dX x (E.P w) - E.dX w (E.P x) + E.dX w (E.P w) := by
    rw [map_sub, subX, subXl, subXl]; ring
  rw [h6, hPsym w x] at h5
  rw [B.commX c x]
  linarith

end CvxVerif.C05
