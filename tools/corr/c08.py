"""C08: cone-algebra kernels -- compiled (misc_solvers) and pure-Python (misc.py with use_C = False) implementations vs the
Lean model (Model/Kernels.lean) exactly on dyadic data, plus the defining identities on both implementations."""
import os, sys, random, math, types
from fractions import Fraction
import vlib

LEAN_TARGETS = ['CvxVerif.Props.C08', 'CvxVerif.Props.C08Pack']
MODEL_FILES = ['CvxVerif.Model.Kernels', 'CvxVerif.Proofs.Kernels']
LEVEL = 'proof'
TRUSTED = ['hand-written model lean/CvxVerif/Model/Kernels.lean (transcribed from the Python reference implementations in misc.py), tied by '
           'exact comparison with both implementations on dyadic data',
           'the Python fall-backs are obtained by executing the current misc.py with the line `use_C = True` replaced by `use_C = False`']
ASSUMPTIONS = ['scale2/max_step on s blocks involve eigenvalues: checked through identities with tolerance 1e-9, not modelled exactly; pack/unpack are modelled exactly up to the factor sqrt(2), which enters the comparison as a float (tolerance 1e-12)']

def frs(x):
    f = Fraction(x); return str(f.numerator) if f.denominator == 1 else '%d/%d' % (f.numerator, f.denominator)
def vtok(v): return ','.join(frs(a) for a in v) if len(v) else '-'

def load_python_misc(cvxopt):
    src = open(os.path.join(os.path.dirname(cvxopt.__file__), 'misc.py')).read()
    assert src.count('use_C = True') == 1
    mod = types.ModuleType('cvxopt_misc_py')
    mod.__dict__['__name__'] = 'cvxopt.misc_py'
    exec(compile(src.replace('use_C = True', 'use_C = False'), 'misc.py[use_C=False]', 'exec'), mod.__dict__)
    return mod

def gen_dims(rng):
    return {'l': rng.randint(0, 3), 'q': [rng.randint(1, 4) for _ in range(rng.randint(0, 2))], 's': [rng.randint(0, 3) for _ in range(rng.randint(0, 2))]}
def cdim(d, mnl=0): return mnl + d['l'] + sum(d['q']) + sum(k * k for k in d['s'])
def dtok(d, mnl): return '%d:%d:%s:%s' % (mnl, d['l'], ','.join(map(str, d['q'])) or '-', ','.join(map(str, d['s'])) or '-')
def dy(rng): return rng.choice([-3.0, -2.0, -1.0, -0.5, 0.0, 0.5, 1.0, 2.0, 3.0, 1.5])

def unimodular(rng, k):
    """integer matrix with integer inverse: product of a unit lower and a unit upper triangular matrix"""
    L = [[1 if i == j else (rng.randint(-2, 2) if j < i else 0) for j in range(k)] for i in range(k)]
    U = [[1 if i == j else (rng.randint(-1, 1) if j > i else 0) for j in range(k)] for i in range(k)]
    R = [[sum(L[i][t] * U[t][j] for t in range(k)) for j in range(k)] for i in range(k)]
    # inverse by Gauss-Jordan over fractions
    M = [[Fraction(R[i][j]) for j in range(k)] + [Fraction(int(i == j)) for j in range(k)] for i in range(k)]
    for c in range(k):
        p = next(r for r in range(c, k) if M[r][c] != 0); M[c], M[p] = M[p], M[c]
        M[c] = [a / M[c][c] for a in M[c]]
        for r in range(k):
            if r != c and M[r][c] != 0: M[r] = [a - M[r][c] * b for a, b in zip(M[r], M[c])]
    Inv = [[M[i][k + j] for j in range(k)] for i in range(k)]
    return R, Inv

def gen_W(rng, d, mnl, matrix):
    W = {}
    if mnl:
        e = [rng.choice([0.5, 1.0, 2.0, 4.0]) for _ in range(mnl)]
        W['dnl'] = matrix(e); W['dnli'] = matrix([1.0 / a for a in e])
    e = [rng.choice([0.25, 0.5, 1.0, 2.0, 4.0]) for _ in range(d['l'])]
    W['d'] = matrix(e, (d['l'], 1), 'd'); W['di'] = matrix([1.0 / a for a in e], (d['l'], 1), 'd')
    W['beta'], W['v'] = [], []
    for m in d['q']:
        W['beta'].append(rng.choice([0.5, 1.0, 2.0]))
        if m == 1: v = [1.0]
        else:
            a, b = rng.choice([(1.25, 0.75), (2.125, 1.875), (1.0, 0.0), (1.25, -0.75)])
            v = [a] + [0.0] * (m - 1); v[rng.randint(1, m - 1)] = b
        W['v'].append(matrix(v))
    W['r'], W['rti'] = [], []
    for k in d['s']:
        R, Inv = unimodular(rng, k)
        W['r'].append(matrix([[float(R[i][j]) for i in range(k)] for j in range(k)], (k, k), 'd'))
        W['rti'].append(matrix([[float(Inv[j][i]) for i in range(k)] for j in range(k)], (k, k), 'd'))   # inverse transpose
    return W

def Wtok(W, mnl):
    dd = (list(W['dnl']) if 'dnl' in W else []) + list(W['d'])
    di = (list(W['dnli']) if 'dnli' in W else []) + list(W['di'])
    return 'd=%s di=%s beta=%s v=%s r=%s rti=%s' % (vtok(dd), vtok(di), vtok(W['beta']), ';'.join(vtok(list(v)) for v in W['v']) or '-',
                                                     ';'.join(vtok(list(r)) for r in W['r']) or '-', ';'.join(vtok(list(r)) for r in W['rti']) or '-')

def correspond(ctx):
    cvxopt = vlib.use_build(ctx.build)
    from cvxopt import matrix, misc_solvers, blas, lapack
    import cvxopt.misc as misc_c
    misc_py = load_python_misc(cvxopt)
    assert misc_c.scale is misc_solvers.scale and misc_py.scale is not misc_solvers.scale
    impls = [('C', misc_c), ('python', misc_py)]
    rng = random.Random(ctx.seed * 13 + 8)
    n = 120 if ctx.quick() else 6000
    lines, obs, meta = [], [], []
    ident = 0
    for it in range(n):
        d = gen_dims(rng); mnl = rng.choice([0, 0, 1, 2])
        N = cdim(d, mnl)
        x = [dy(rng) for _ in range(N)]; y = [dy(rng) for _ in range(N)]
        dt = dtok(d, mnl)
        for name, M in impls:
            # sdot
            lines.append('sdot dims=%s x=%s y=%s' % (dt, vtok(x), vtok(y))); obs.append(frs(M.sdot(matrix(x, (N, 1), 'd'), matrix(y, (N, 1), 'd'), d, mnl))); meta.append(name)
            # symm / trisc / triusc act on the 's' part (no mnl argument: offsets)
            d0 = dtok(d, 0); N0 = cdim(d); x0 = x[mnl:]
            X = matrix(x0, (N0, 1), 'd'); ind = d['l'] + sum(d['q'])
            for k in d['s']:
                M.symm(X, k, ind); ind += k * k
            lines.append('symm dims=%s x=%s' % (d0, vtok(x0))); obs.append(vtok(list(X))); meta.append(name)
            X = matrix(x0, (N0, 1), 'd'); M.trisc(X, d); lines.append('trisc dims=%s x=%s' % (d0, vtok(x0))); obs.append(vtok(list(X))); meta.append(name)
            X = matrix(x0, (N0, 1), 'd'); M.triusc(X, d); lines.append('triusc dims=%s x=%s' % (d0, vtok(x0))); obs.append(vtok(list(X))); meta.append(name)
            # scale, all four flag combinations, two columns (second column = canary pattern)
            W = gen_W(random.Random(it), d, mnl, matrix)
            for tr in 'NT':
                for inv in 'NI':
                    X = matrix([x, y], (N, 2), 'd') if N else matrix(0.0, (0, 2))
                    M.scale(X, W, trans=tr, inverse=inv)
                    for col, src in ((0, x), (1, y)):
                        lines.append('scale dims=%s trans=%s inverse=%s %s x=%s' % (dt, tr, inv, Wtok(W, mnl), vtok(src)))
                        obs.append(vtok(list(X[:, col]))); meta.append(name)
            # sprod (diag='N')
            X = matrix(x, (N, 1), 'd'); Y = matrix(y, (N, 1), 'd'); M.sprod(X, Y, d, mnl)
            lines.append('sprod dims=%s x=%s y=%s' % (dt, vtok(x), vtok(y))); obs.append(vtok(list(X))); meta.append(name)
            if list(Y)[:mnl + d['l'] + sum(d['q'])] != y[:mnl + d['l'] + sum(d['q'])]:
                ctx.violation('c08:sprod-modifies-y:' + name, 'sprod changed the l/q part of its second argument', {'dims': d})
        # ---- identities on both implementations (random interior data, tolerance) ----
        xr = [rng.uniform(-2, 2) for _ in range(N)]; yr = [rng.uniform(-2, 2) for _ in range(N)]
        for name, M in impls:
            W = gen_W(random.Random(it), d, mnl, matrix)
            for tr in 'NT':
                X = matrix(xr, (N, 1), 'd'); M.scale(X, W, trans=tr); M.scale(X, W, trans=tr, inverse='I'); ident += 1
                Xs = matrix(xr, (N, 1), 'd'); ind = mnl + d['l'] + sum(d['q'])
                # the 's' part is only meaningful through its lower triangle
                def low(v):
                    out = list(v[:ind]); o = ind
                    for k in d['s']:
                        out += [v[o + j * k + i] for j in range(k) for i in range(j, k)]; o += k * k
                    return out
                if max([abs(a - b) for a, b in zip(low(X), low(Xs))] + [0]) > 1e-9:
                    ctx.violation('c08:scale-inverse:' + name, "scale(inverse='I') does not undo scale (trans=%s, %s implementation)" % (tr, name), {'dims': d, 'mnl': mnl})
            X = matrix(xr, (N, 1), 'd'); M.scale(X, W); Y = matrix(yr, (N, 1), 'd'); M.scale(Y, W, trans='T'); ident += 1
            a = M.sdot(X, matrix(yr, (N, 1), 'd'), d, mnl); b = M.sdot(matrix(xr, (N, 1), 'd'), Y, d, mnl)
            if abs(a - b) > 1e-9 * (1 + abs(a)):
                ctx.violation('c08:scale-adjoint:' + name, '<Wx, y> != <x, W^T y> (%s implementation)' % name, {'dims': d, 'mnl': mnl})
            # pack / unpack
            Np = mnl + d['l'] + sum(d['q']) + sum(k * (k + 1) // 2 for k in d['s'])
            P = matrix(0.0, (Np, 1)); M.pack(matrix(xr, (N, 1), 'd'), P, d, mnl); U = matrix(7.0, (N, 1)); M.unpack(P, U, d, mnl); ident += 1
            if max([abs(a - b) for a, b in zip(low(U), low(matrix(xr, (N, 1), 'd')))] + [0]) > 1e-12:
                ctx.violation('c08:unpack-pack:' + name, 'unpack(pack(x)) does not restore the lower triangles (%s implementation)' % name, {'dims': d, 'mnl': mnl})
            # the same through arbitrary, different offsets: identical values, nothing written before the offset
            ox, oy, ou = rng.randint(0, 3), rng.randint(0, 3), rng.randint(0, 3)
            Xo = matrix([9.0] * ox + list(xr), (ox + N, 1), 'd'); Po = matrix(5.0, (oy + Np, 1))
            M.pack(Xo, Po, d, mnl, offsetx=ox, offsety=oy); ident += 1
            if list(Po[:oy]) != [5.0] * oy or max([abs(a - b) for a, b in zip(Po[oy:], P)] + [0]) > 1e-12:
                ctx.violation('c08:pack-offsets:' + name, 'pack with offsetx=%d offsety=%d differs from pack at offset 0 (%s implementation)' % (ox, oy, name), {'dims': d, 'mnl': mnl, 'offsets': [ox, oy]})
            Uo = matrix(7.0, (ou + N, 1)); M.unpack(Po, Uo, d, mnl, offsetx=oy, offsety=ou); ident += 1
            if list(Uo[:ou]) != [7.0] * ou or max([abs(a - b) for a, b in zip(low(list(Uo[ou:])), low(list(U)))] + [0]) > 1e-12:
                ctx.violation('c08:unpack-offsets:' + name, 'unpack with offsetx=%d offsety=%d differs from unpack at offset 0 (%s implementation)' % (oy, ou, name), {'dims': d, 'mnl': mnl, 'offsets': [oy, ou]})
            P2 = matrix(0.0, (Np, 1)); M.pack(matrix(yr, (N, 1), 'd'), P2, d, mnl)
            if abs(blas.dot(P, P2) - M.sdot(matrix(xr, (N, 1), 'd'), matrix(yr, (N, 1), 'd'), d, mnl)) > 1e-9 * (1 + abs(blas.dot(P, P2))):
                ctx.violation('c08:pack-isometry:' + name, '<pack x, pack y> != <x, y>_S (%s implementation)' % name, {'dims': d, 'mnl': mnl})
            # max_step on l/q blocks: x + t e on the boundary
            if not d['s'] and N:
                t = M.max_step(matrix(xr, (N, 1), 'd'), d, mnl); ident += 1
                e = [1.0] * (mnl + d['l'])
                for m in d['q']: e += [1.0] + [0.0] * (m - 1)
                z = [a + t * b for a, b in zip(xr, e)]
                mins = [a for a in z[:mnl + d['l']]]; o = mnl + d['l']
                for m in d['q']:
                    mins.append(z[o] - math.sqrt(sum(a * a for a in z[o + 1:o + m]))); o += m
                if abs(min(mins)) > 1e-9:
                    ctx.violation('c08:max-step:' + name, 'x + max_step(x) e is not on the boundary of the cone (%s implementation)' % name, {'dims': d})
            # max_step with 's' blocks (orders 0, 1 and larger), with and without the eigenvalue decomposition: t puts x + t e on the boundary,
            # sigma holds the eigenvalues and the 's' blocks of x are overwritten with orthonormal eigenvectors: Q diag(sigma) Q' = sym(x_k)
            if d['s'] and N:
                for want_sigma in (False, True):
                    X = matrix(xr, (N, 1), 'd'); ns = sum(d['s'])
                    sig = matrix(0.0, (ns, 1)) if want_sigma else None
                    t = M.max_step(X, d, mnl, sig) if want_sigma else M.max_step(X, d, mnl); ident += 1
                    o = mnl + d['l']; margins = [a for a in xr[:o]]
                    for m_ in d['q']:
                        margins.append(xr[o] - math.sqrt(sum(a * a for a in xr[o + 1:o + m_]))); o += m_
                    os_ = 0
                    for k in d['s']:
                        S_ = matrix(0.0, (k, k))
                        for j in range(k):
                            for i in range(j, k): S_[i, j] = xr[o + j * k + i]; S_[j, i] = xr[o + j * k + i]
                        if k:
                            w_ = matrix(0.0, (k, 1)); lapack.syev(+S_, w_); margins.append(min(w_))
                            if want_sigma:
                                Q = matrix(list(X[o:o + k * k]), (k, k)); sg = list(sig[os_:os_ + k])
                                R = Q * matrix([[sg[c] if r == c else 0.0 for r in range(k)] for c in range(k)]) * Q.T
                                e1 = max(abs(R[i] - S_[i]) for i in range(k * k)); QtQ = Q.T * Q
                                e2 = max(abs(QtQ[i, j] - (1.0 if i == j else 0.0)) for i in range(k) for j in range(k))
                                e3 = max(abs(a - b) for a, b in zip(sorted(sg), sorted(w_)))
                                if max(e1, e2, e3) > 1e-8 * (1 + max(abs(a) for a in S_)):
                                    ctx.violation('c08:max-step-eig:' + name, "max_step(x, dims, mnl, sigma): an 's' block of order %d is not returned as eigenvalues and orthonormal "
                                                  'eigenvectors of the block (|Q S Q^T - A| = %.2e, |Q^T Q - I| = %.2e, eigenvalue error %.2e; %s implementation)' % (k, e1, e2, e3, name),
                                                  {'dims': d, 'mnl': mnl, 'order': k})
                        o += k * k; os_ += k
                    if margins and abs(t + min(margins)) > 1e-8 * (1 + abs(t)):
                        ctx.violation('c08:max-step:' + name, "x + max_step(x) e is not on the boundary of the cone with 's' blocks (t = %r, expected %r; sigma %s; %s implementation)"
                                      % (t, -min(margins), 'given' if want_sigma else 'omitted', name), {'dims': d, 'mnl': mnl})
    # ---- pack / unpack against the Lean model (Model/Kernels.lean packBlk / unpackBlk, theorems in Props/C08Pack.lean).  The kernels use
    # r = sqrt(2); packBlk is affine in r and unpackBlk in 1/r (x / 0 = 0 in Lean), so the model is evaluated exactly at r = 0 and r = 1 and
    # combined with the floating-point sqrt(2) here
    plines, pmeta = [], []
    for name, M in impls:
        for it in range(12 if ctx.quick() else 300):
            k = rng.randint(0, 4)
            blk = [float(rng.randint(-8, 8)) / rng.choice([1, 2, 4]) for _ in range(k * k)]
            pk = [float(rng.randint(-8, 8)) / rng.choice([1, 2, 4]) for _ in range(k * (k + 1) // 2)]
            d1 = {'l': 0, 'q': [], 's': [k]}
            P = matrix(5.0, (k * (k + 1) // 2, 1)); M.pack(matrix(blk, (k * k, 1), 'd'), P, d1)
            U = matrix(7.0, (k * k, 1)); M.unpack(matrix(pk, (len(pk), 1), 'd'), U, d1)
            for r_ in ('0', '1'):
                plines.append('packblk r=%s k=%d x=%s' % (r_, k, vtok(blk))); pmeta.append(('pack', name, k, list(P), r_))
                plines.append('unpackblk r=%s k=%d x=%s' % (r_, k, vtok(pk))); pmeta.append(('unpack', name, k, list(U), r_))
    pout = vlib.drive('C08', plines) if plines else []
    def pvec(t): return [] if t == '-' else [float(Fraction(a)) for a in t.split(',')]
    for q in range(0, len(plines), 4):
        (_, name, k, P, _), (_, _, _, U, _) = pmeta[q], pmeta[q + 1]
        P0, U0, P1, U1 = pvec(pout[q]), pvec(pout[q + 1]), pvec(pout[q + 2]), pvec(pout[q + 3])
        ident += 2
        if len(P0) != len(P) or len(U0) != len(U):
            ctx.violation('c08:pack-model:' + name, 'pack / unpack of an order-%d block: lengths differ from the model' % k, {'k': k}); continue
        expP = [a + math.sqrt(2.0) * (b - a) for a, b in zip(P0, P1)]
        if any(abs(a - b) > 1e-12 * (1 + abs(b)) for a, b in zip(P, expP)):
            ctx.violation('c08:pack-model:' + name, 'pack of an order-%d block differs from the model packBlk (%s implementation): %r vs %r' % (k, name, P, expP), {'k': k, 'line': plines[q]})
        expU = [a + (b - a) / math.sqrt(2.0) for a, b in zip(U0, U1)]
        for j in range(k):
            for i in range(k):
                if i < j: continue          # the strict upper triangle is not part of the result (the C kernel leaves it, the Python one rescales it)
                got, want = U[j * k + i], expU[j * k + i]
                if abs(got - want) > 1e-12 * (1 + abs(want)):
                    ctx.violation('c08:unpack-model:' + name, 'unpack of an order-%d block: entry (%d,%d) is %r, model %r (%s implementation)' % (k, i, j, got, want, name), {'k': k, 'line': plines[q + 1]})
    out = vlib.drive('C08', lines)
    dis = 0
    for l, o, m, name in zip(lines, obs, out, meta):
        if o != m:
            dis += 1
            if dis <= 4:
                ctx.violation('c08:%s:%s' % (l.split(' ')[0], name), 'kernel %s (%s implementation): `%s` gives `%s`, model `%s`' % (l.split(' ')[0], name, l[:200], o[:120], m[:120]),
                              {'line': l, 'impl': o, 'model': m, 'implementation': name})
    ctx.cov.update({'evaluations': len(lines) + ident, 'distinct_nontrivial': len(set(lines)),
                    'rule': '%d random cone structures (l 0..3, up to two q blocks of dimension 1..4, up to two s blocks of order 0..3, mnl 0..2) with dyadic '
                            'vectors and exactly invertible scalings (powers of two, Pythagorean v, unimodular r): sdot, symm, trisc, triusc, scale (all four '
                            'flag combinations, two columns), sprod compared exactly with the Lean model for BOTH implementations; inverse/adjoint/pack/'
                            'max_step identities on random data with tolerance 1e-9' % n,
                    'protocol_lines_compared': len(lines), 'disagreements_checked': dis, 'identity_checks': ident, 'implementations': ['C', 'python']})
    ctx.samples += lines[:3]

def search(ctx, why): return
def replay(ctx, payload): correspond(ctx)
