/-!
Model of the cone-algebra kernels of `cvxopt.misc` / `misc_solvers.c` on vectors of the product cone
`nl × l × q… × s…` (s blocks: column-major `k × k`, 'L' storage), over the rationals (the harness uses dyadic data
so that both implementations compute exactly).  Single-column versions; block level first, then whole vectors.
Core Lean only.
-/
namespace CvxVerif.Kernels

structure Dims where
  mnl : Nat := 0
  l : Nat
  q : List Nat
  s : List Nat
deriving Repr

def dot (a b : List Rat) : Rat := (List.zipWith (· * ·) a b).sum
def axpy (c : Rat) (a b : List Rat) : List Rat := List.zipWith (fun x y => c * x + y) a b   -- c·a + b
def smul (c : Rat) (a : List Rat) : List Rat := a.map (c * ·)

/-! ### 's' blocks as column-major lists -/
def ent (k : Nat) (b : List Rat) (i j : Nat) : Rat := b.getD (j * k + i) 0
def ofFn (k : Nat) (f : Nat → Nat → Rat) : List Rat := (List.range k).flatMap fun j => (List.range k).map fun i => f i j
/-- the symmetric matrix stored in the lower triangle -/
def symEnt (k : Nat) (b : List Rat) (i j : Nat) : Rat := if j ≤ i then ent k b i j else ent k b j i

/-- `symm`: fill the upper triangle from the lower one -/
def symmBlk (k : Nat) (b : List Rat) : List Rat := ofFn k (symEnt k b)
/-- `trisc`: upper triangle := 0, strictly lower triangle scaled by 2 -/
def triscBlk (k : Nat) (b : List Rat) : List Rat := ofFn k fun i j => if i < j then 0 else if j < i then 2 * ent k b i j else ent k b i j
/-- `triusc`: strictly lower triangle scaled by 1/2 -/
def triuscBlk (k : Nat) (b : List Rat) : List Rat := ofFn k fun i j => if j < i then ent k b i j / 2 else ent k b i j
/-- inner product of two 's' blocks: `tr(sym(x)·sym(y))` read from the lower triangles -/
def sdotBlk (k : Nat) (x y : List Rat) : Rat :=
  ((List.range k).map fun j => ((List.range k).map fun i =>
    if i == j then ent k x i j * ent k y i j else if j < i then 2 * (ent k x i j * ent k y i j) else 0).sum).sum
/-! packed storage of 's' blocks (`pack` / `unpack`): the lower triangle column by column; off-diagonal entries carry a factor `r`
(√2 in the code, so that the ordinary inner product of packed vectors is the 's' inner product) -/
/-- offset of column `j` in the packed storage of a block of order `k` -/
def poff (k : Nat) : Nat → Nat
  | 0 => 0
  | j + 1 => poff k j + (k - j)
def packBlk (r : Rat) (k : Nat) (b : List Rat) : List Rat :=
  (List.range k).flatMap fun j => (List.range (k - j)).map fun t => if t = 0 then ent k b j j else r * ent k b (j + t) j
/-- entry `(i, j)`, `j ≤ i`, of a packed block -/
def pent (k : Nat) (p : List Rat) (i j : Nat) : Rat := p.getD (poff k j + (i - j)) 0
/-- `unpack`: the lower triangle is restored (off-diagonal entries divided by `r`); the strict upper triangle is not written (0 here) -/
def unpackBlk (r : Rat) (k : Nat) (p : List Rat) : List Rat :=
  ofFn k fun i j => if i < j then 0 else if i = j then pent k p i j else pent k p i j / r
def matmul (k : Nat) (A B : Nat → Nat → Rat) (i j : Nat) : Rat := ((List.range k).map fun t => A i t * B t j).sum

/-! ### second-order-cone blocks `(x₀, x₁)` -/
def jdot (x y : List Rat) : Rat := x.headD 0 * y.headD 0 - dot x.tail y.tail
/-- `x := β(2vvᵀ − J)x` -/
def scaleQ (beta : Rat) (v x : List Rat) : List Rat :=
  let s := dot v x
  (beta * (2 * v.headD 0 * s - x.headD 0)) :: (axpy (2 * s) v.tail x.tail).map (beta * ·)
/-- `x := β⁻¹(2JvvᵀJ − J)x` -/
def scaleQinv (beta : Rat) (v x : List Rat) : List Rat :=
  let t := jdot v x
  ((2 * v.headD 0 * t - x.headD 0) / beta) :: (axpy (-(2 * t)) v.tail x.tail).map (· / beta)
/-- Jordan product `y ∘ x` on a 'q' block -/
def sprodQ (y x : List Rat) : List Rat := dot y x :: axpy (x.headD 0) y.tail (smul (y.headD 0) x.tail)
/-- inverse product `y ∘\ x` on a 'q' block (as coded) -/
def sinvQ (y x : List Rat) : List Rat :=
  let aa := jdot y y
  let cc := x.headD 0
  let dd := dot y.tail x.tail
  let l0 := y.headD 0
  ((cc * l0 - dd) / aa) :: (axpy (dd / l0 - cc) y.tail (smul (aa / l0) x.tail)).map (· / aa)

/-! ### whole vectors -/
def splitAtDims (d : Dims) (x : List Rat) : List Rat × List (List Rat) × List (List Rat) :=
  let n0 := d.mnl + d.l
  let lin := x.take n0
  let rec goQ (qs : List Nat) (r : List Rat) : List (List Rat) × List Rat :=
    match qs with
    | [] => ([], r)
    | m :: ms => let p := goQ ms (r.drop m); (r.take m :: p.1, p.2)
  let (qb, rest) := goQ d.q (x.drop n0)
  let rec goS (ss : List Nat) (r : List Rat) : List (List Rat) :=
    match ss with
    | [] => []
    | k :: ks => r.take (k * k) :: goS ks (r.drop (k * k))
  (lin, qb, goS d.s rest)

def join (p : List Rat × List (List Rat) × List (List Rat)) : List Rat := p.1 ++ p.2.1.flatten ++ p.2.2.flatten

/-- `sdot(x, y, dims, mnl)` -/
def sdot (d : Dims) (x y : List Rat) : Rat :=
  let a := splitAtDims d x; let b := splitAtDims d y
  dot a.1 b.1 + (List.zipWith dot a.2.1 b.2.1).sum + ((d.s.zip (a.2.2.zip b.2.2)).map fun t => sdotBlk t.1 t.2.1 t.2.2).sum

def mapS (d : Dims) (f : Nat → List Rat → List Rat) (x : List Rat) : List Rat :=
  let a := splitAtDims d x
  join (a.1, a.2.1, (d.s.zip a.2.2).map fun t => f t.1 t.2)

def symm (d : Dims) (x : List Rat) : List Rat := mapS d symmBlk x
def trisc (d : Dims) (x : List Rat) : List Rat := mapS d triscBlk x
def triusc (d : Dims) (x : List Rat) : List Rat := mapS d triuscBlk x

/-- the scaling `W`: `d` covers the nonlinear and 'l' components (`dnl ++ d`), one `(β, v)` per 'q' block,
one `r` (column-major `k × k`) per 's' block; `di`, `rti` are the stored inverses -/
structure Scaling where
  d : List Rat
  di : List Rat
  beta : List Rat
  v : List (List Rat)
  r : List (List Rat)
  rti : List (List Rat)
deriving Repr

/-- `x := W x` (`trans='N'`) or `Wᵀ x` (`'T'`), or with `inverse='I'` the inverses, on one column -/
def scale (dm : Dims) (W : Scaling) (trans inverse : Bool) (x : List Rat) : List Rat :=
  let a := splitAtDims dm x
  let lin := List.zipWith (· * ·) (if inverse then W.di else W.d) a.1
  let qb := (W.beta.zip (W.v.zip a.2.1)).map fun t => if inverse then scaleQinv t.1 t.2.1 t.2.2 else scaleQ t.1 t.2.1 t.2.2
  let sb := (dm.s.zip ((if inverse then W.rti else W.r).zip a.2.2)).map fun t =>
    let k := t.1; let R := ent k t.2.1; let X := symEnt k t.2.2
    -- N: rᵀ X r ; T: r X rᵀ ; inverse N: rti X rtiᵀ ; inverse T: rtiᵀ X rti   (result stored in the lower triangle, upper = old)
    let left : Nat → Nat → Rat := if trans != inverse then (fun i j => R i j) else (fun i j => R j i)
    let prod := matmul k (matmul k left X) (fun i j => left j i)
    ofFn k fun i j => if j ≤ i then prod i j else ent k t.2.2 i j
  join (lin, qb, sb)

/-- `sprod(x, y, dims)`: `x := y ∘ x` with full 's' blocks (`diag='N'`) -/
def sprod (dm : Dims) (y x : List Rat) : List Rat :=
  let a := splitAtDims dm x; let b := splitAtDims dm y
  let sb := (dm.s.zip (b.2.2.zip a.2.2)).map fun t =>
    let k := t.1; let Y := symEnt k t.2.1; let X := symEnt k t.2.2
    ofFn k fun i j => if j ≤ i then (matmul k X Y i j + matmul k Y X i j) / 2 else ent k t.2.2 i j
  join (List.zipWith (· * ·) b.1 a.1, List.zipWith sprodQ b.2.1 a.2.1, sb)

/-- `sinv(x, y, dims)`: `x := y ∘\ x`, the 's' part of `y` diagonal (stored as `Σ s` numbers after the 'q' blocks) -/
def sinv (dm : Dims) (y x : List Rat) : List Rat :=
  let a := splitAtDims dm x
  let n0 := dm.mnl + dm.l
  let ylin := y.take n0
  let rec goQ (qs : List Nat) (r : List Rat) : List (List Rat) × List Rat :=
    match qs with
    | [] => ([], r)
    | m :: ms => let p := goQ ms (r.drop m); (r.take m :: p.1, p.2)
  let (yq, yrest) := goQ dm.q (y.drop n0)
  let rec goD (ss : List Nat) (r : List Rat) : List (List Rat) :=
    match ss with
    | [] => []
    | k :: ks => r.take k :: goD ks (r.drop k)
  let yd := goD dm.s yrest
  let sb := (dm.s.zip (yd.zip a.2.2)).map fun t =>
    let k := t.1
    ofFn k fun i j => if j ≤ i then ent k t.2.2 i j / ((t.2.1.getD i 0 + t.2.1.getD j 0) / 2) else ent k t.2.2 i j
  join (List.zipWith (fun yv xv => xv / yv) ylin a.1, List.zipWith sinvQ yq a.2.1, sb)

/-- split a vector whose 's' parts are stored as diagonals (`Σ s` numbers after the 'q' blocks) -/
def splitDiag (d : Dims) (y : List Rat) : List Rat × List (List Rat) × List (List Rat) :=
  let n0 := d.mnl + d.l
  let rec goQ (qs : List Nat) (r : List Rat) : List (List Rat) × List Rat :=
    match qs with
    | [] => ([], r)
    | m :: ms => let p := goQ ms (r.drop m); (r.take m :: p.1, p.2)
  let (yq, yrest) := goQ d.q (y.drop n0)
  let rec goD (ss : List Nat) (r : List Rat) : List (List Rat) :=
    match ss with
    | [] => []
    | k :: ks => r.take k :: goD ks (r.drop k)
  (y.take n0, yq, goD d.s yrest)

/-- the diagonal Jordan product on one 's' block: entry `(i, j)` of the lower triangle is multiplied by `(y_i + y_j)/2` -/
def sprodDiagBlk (k : Nat) (yd x : List Rat) : List Rat :=
  ofFn k fun i j => if j ≤ i then ent k x i j * ((yd.getD i 0 + yd.getD j 0) / 2) else ent k x i j
/-- ... and its inverse -/
def sinvDiagBlk (k : Nat) (yd x : List Rat) : List Rat :=
  ofFn k fun i j => if j ≤ i then ent k x i j / ((yd.getD i 0 + yd.getD j 0) / 2) else ent k x i j

/-- `sprod(x, y, dims, mnl, diag='D')`: `x := y ∘ x`, the 's' part of `y` diagonal -/
def sprodDiag (dm : Dims) (y x : List Rat) : List Rat :=
  let a := splitAtDims dm x; let b := splitDiag dm y
  join (List.zipWith (· * ·) b.1 a.1, List.zipWith sprodQ b.2.1 a.2.1, (dm.s.zip (b.2.2.zip a.2.2)).map fun t => sprodDiagBlk t.1 t.2.1 t.2.2)

/-- `ssqr(x, y, dims, mnl)`: `x := y ∘ y` where the 's' parts of `x` and `y` are diagonals -/
def ssqr (dm : Dims) (y : List Rat) : List Rat :=
  let b := splitDiag dm y
  b.1.map (fun v => v * v) ++ (b.2.1.map fun q => sprodQ q q).flatten ++ (b.2.2.map fun dg => dg.map fun v => v * v).flatten

end CvxVerif.Kernels
