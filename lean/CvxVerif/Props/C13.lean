import CvxVerif.Proofs.OpStateInv
/-!
# C13 — an `op` object stays consistent under any sequence of edits

Property theorems only; helper lemmas are in `Proofs/OpState*.lean`, the model in `Model/OpState.lean`.
The model is tied to `/repo/src/python/modeling.py` by the correspondence check `tools/corr/c13.py`
(every operation of random edit histories is executed on the real `op` class and on `Drivers/C13.lean`).
-/
namespace CvxVerif.OpState

/-- typedness of the two constraint lists -/
def Typed (P : Pool) (a : Spec) : Prop :=
  (∀ c ∈ a.ineqs, P.isIneq c = true) ∧ (∀ c ∈ a.eqs, P.isIneq c = false)

def specRun (P : Pool) (a : Spec) (ops : List Op) : Spec := ops.foldl (specStep P) a

def specInit (P : Pool) (vs : List Var) (cs : List Cid) : Spec :=
  ⟨vs, cs.filter (fun c => P.isIneq c), cs.filter (fun c => !P.isIneq c)⟩

/-- **Invariant, all histories.** After `op(objective, constraints)` followed by any finite sequence of
`addconstraint`, `delconstraint`, objective reassignment and `solve`, the bookkeeping invariant holds. -/
theorem C13_reachable_inv (P : Pool) (hP : P.WF) (vs : List Var) (hvs : vs.Nodup) (cs : List Cid)
    (ops : List Op) (hops : ∀ op ∈ ops, op.WF) :
    Inv P (run P (init P vs cs) ops) :=
  inv_run P hP ops hops _ (inv_init P hP vs hvs cs)

/-- **Refinement, one step.** The concrete step commutes with the abstraction to (objective, inequalities,
equalities): editing an `op` is editing the problem that was written down. -/
theorem C13_refines_step (P : Pool) (s : St) (op : Op) : abs (step P s op) = specStep P (abs s) op :=
  abs_step P s op

theorem C13_refines_run (P : Pool) (s : St) (ops : List Op) :
    abs (run P s ops) = specRun P (abs s) ops := by
  induction ops generalizing s with
  | nil => rfl
  | cons op ops ih => simp only [run, specRun, List.foldl_cons] at ih ⊢; rw [ih, abs_step]

theorem abs_foldl_add (P : Pool) (cs : List Cid) (s : St) :
    abs (cs.foldl (addC P) s) =
      ⟨s.obj, s.ineqs ++ cs.filter (fun c => P.isIneq c), s.eqs ++ cs.filter (fun c => !P.isIneq c)⟩ := by
  induction cs generalizing s with
  | nil => simp [abs]
  | cons c cs ih =>
    rw [List.foldl_cons, ih]
    cases hi : P.isIneq c <;> simp [addC, hi]

theorem C13_refines_init (P : Pool) (vs : List Var) (cs : List Cid) :
    abs (init P vs cs) = specInit P vs cs := by
  unfold init
  rw [abs_foldl_add]
  have h1 := abs_foldl_add P (cs.filter (fun c => P.isIneq c)) (setObj empty vs)
  simp only [abs, Spec.mk.injEq] at h1
  obtain ⟨h1o, h1i, h1e⟩ := h1
  rw [h1o, h1i, h1e]
  simp [specInit, setObj, empty, List.filter_filter]

/-- **`variables()` is exact, all histories.** The set of keys of `op._variables` (what `variables()` returns)
is exactly the set of variables of the current objective and the current constraints. -/
theorem C13_variables_exact (P : Pool) (hP : P.WF) (vs : List Var) (hvs : vs.Nodup) (cs : List Cid)
    (ops : List Op) (hops : ∀ op ∈ ops, op.WF) (v : Var) :
    v ∈ (run P (init P vs cs) ops).keys ↔ (specRun P (specInit P vs cs) ops).hasVar P v := by
  rw [keys_spec P _ (C13_reachable_inv P hP vs hvs cs ops hops), C13_refines_run, C13_refines_init]

/-- `variables()` never lists a variable twice. -/
theorem C13_variables_nodup (P : Pool) (hP : P.WF) (vs : List Var) (hvs : vs.Nodup) (cs : List Cid)
    (ops : List Op) (hops : ∀ op ∈ ops, op.WF) :
    (run P (init P vs cs) ops).keys.Nodup :=
  (C13_reachable_inv P hP vs hvs cs ops hops).nodup

/-- **Editing equals rebuilding.**  Let `s` be the state after any edit history and `s'` the state of a
freshly constructed `op` with the objective and the constraint lists of `s`.  Then both describe the same
abstract problem and list the same variables (so `_inmatrixform` sees the same LP up to a permutation of
columns). -/
theorem C13_edit_eq_rebuild (P : Pool) (hP : P.WF) (vs : List Var) (hvs : vs.Nodup) (cs : List Cid)
    (ops : List Op) (hops : ∀ op ∈ ops, op.WF)
    (s : St) (hs : s = run P (init P vs cs) ops) (hobj : s.obj.Nodup) (ht : Typed P (abs s)) :
    let s' := init P s.obj (s.ineqs ++ s.eqs)
    abs s' = abs s ∧ ∀ v, v ∈ s'.keys ↔ v ∈ s.keys := by
  intro s'
  have hinv : Inv P s := hs ▸ C13_reachable_inv P hP vs hvs cs ops hops
  have hinv' : Inv P s' := inv_init P hP s.obj hobj _
  have habs : abs s' = abs s := by
    show abs (init P s.obj (s.ineqs ++ s.eqs)) = abs s
    rw [C13_refines_init]
    obtain ⟨hi, he⟩ := ht
    simp only [abs] at hi he
    have e1 : (s.ineqs ++ s.eqs).filter (fun c => P.isIneq c) = s.ineqs := by
      rw [List.filter_append, List.filter_eq_self.mpr (by simpa using hi),
        List.filter_eq_nil_iff.mpr (by intro c hc; simp [he c hc]), List.append_nil]
    have e2 : (s.ineqs ++ s.eqs).filter (fun c => !P.isIneq c) = s.eqs := by
      rw [List.filter_append, List.filter_eq_nil_iff.mpr (by intro c hc; simp [hi c hc]),
        List.filter_eq_self.mpr (by intro c hc; simp [he c hc]), List.nil_append]
    simp [specInit, abs, e1, e2]
  refine ⟨habs, fun v => ?_⟩
  rw [keys_spec P _ hinv', keys_spec P _ hinv, habs]

/-- typedness is preserved by every abstract step, hence holds on all reachable states -/
theorem C13_typed_step (P : Pool) (a : Spec) (op : Op) (h : Typed P a) : Typed P (specStep P a op) := by
  obtain ⟨hi, he⟩ := h
  cases op with
  | add c =>
    simp only [specStep]
    cases hc : P.isIneq c
    · refine ⟨hi, ?_⟩; intro c' hc'; simp at hc'; rcases hc' with h | h; exact he _ h; subst h; exact hc
    · refine ⟨?_, he⟩; intro c' hc'; simp at hc'; rcases hc' with h | h; exact hi _ h; subst h; exact hc
  | del c =>
    simp only [specStep]
    cases hc : P.isIneq c
    · exact ⟨hi, fun c' hc' => he _ (List.mem_of_mem_erase hc')⟩
    · exact ⟨fun c' hc' => hi _ (List.mem_of_mem_erase hc'), he⟩
  | setObj vs => exact ⟨hi, he⟩
  | solve => exact ⟨hi, he⟩

/-- the internal error paths of `delconstraint` (a `KeyError`, or a `ValueError` after a partial update) are
unreachable: deleting is all-or-nothing on every reachable state. -/
theorem C13_del_atomic (P : Pool) (hP : P.WF) (vs : List Var) (hvs : vs.Nodup) (cs : List Cid)
    (ops : List Op) (hops : ∀ op ∈ ops, op.WF) (c : Cid) :
    delErr P (run P (init P vs cs) ops) c = false :=
  del_no_error P _ c (C13_reachable_inv P hP vs hvs cs ops hops)

/-- deleting a constraint that is not in the problem changes nothing -/
theorem C13_del_absent (P : Pool) (s : St) (c : Cid) (h : c ∉ s.ineqs ∧ c ∉ s.eqs) :
    delC P s c = s := by
  unfold delC; cases hi : P.isIneq c <;> simp [h.1, h.2]

/-- adding a constraint twice and deleting it once leaves it in the problem once (multiset semantics) -/
theorem C13_add_twice_count (P : Pool) (s : St) (c : Cid) :
    ((abs (step P (step P s (.add c)) (.add c))).ineqs ++ (abs (step P (step P s (.add c)) (.add c))).eqs).count c
      = (s.ineqs ++ s.eqs).count c + 2 := by
  cases hi : P.isIneq c <;> simp [step, addC, abs, hi, List.count_append] <;> omega

/-! Non-vacuity: a concrete pool and history meeting every hypothesis. -/
def exPool : Pool := { cvars := fun c => if c = 0 then [0, 1] else if c = 1 then [1] else [], isIneq := fun c => c != 1 }
example : exPool.WF := by
  intro c; unfold exPool; simp only
  split
  · decide
  · split <;> decide
example : (run exPool (init exPool [2] [0, 1]) [.del 0, .setObj [1], .add 2, .del 1]).keys = [1] := by decide

end CvxVerif.OpState
