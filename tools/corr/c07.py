"""C07: the five built-in KKT factories against the documented block system (residual check, mutual agreement, factor/solve
histories on one factory object) and the Nesterov-Todd scaling invariants of every W handed to a user kktsolver."""
import os, sys, random, math, io, contextlib
import vlib

LEAN_TARGETS = ['CvxVerif.Props.C07']
MODEL_FILES = ['CvxVerif.Proofs.Kernels', 'CvxVerif.Model.Kernels']
LEVEL = 'proof'
TRUSTED = ['LAPACK / CHOLMOD factorisations are outside the proof: the harness checks the block system numerically (relative residual 1e-8)',
           'the Lean theorems are the linear-algebra content (block elimination, scaling inverse, rank invariance under positive diagonal scaling)']
ASSUMPTIONS = ['generated systems are well conditioned (integer data, scalings from interior points with margin)',
               'invariant drift is measured relative to the norms of the factors with tolerance 1e-9 (observed < 1e-13)']

def quiet(f, *a, **k):
    with contextlib.redirect_stdout(io.StringIO()):
        return f(*a, **k)

def correspond(ctx):
    cvxopt = vlib.use_build(ctx.build)
    from cvxopt import matrix, spmatrix, sparse, misc, blas, base, solvers
    from corr import problems as PR
    rng = random.Random(ctx.seed * 271 + 7)
    nsys = 60 if ctx.quick() else 2500
    evals = 0
    distinct = set()
    def interior(dims):
        return matrix(PR.interior_point(rng, dims), tc='d')
    def sgemv(G, x, y, dims, trans='N', alpha=1.0, beta=0.0): misc.sgemv(G, x, y, dims, trans=trans, alpha=alpha, beta=beta)
    rng_keep0, rng_m = rng, random.Random(ctx.seed * 947 + 71)
    for it in range(nsys + nsys // 4):
        # the last fifth: componentwise cones with 4..7 inequalities, 3..5 variables, 1..2 equality constraints, no P, in mixed storage (own stream)
        mixed = it >= nsys
        if mixed: rng = rng_m
        dims = PR.rand_dims(rng)
        N = PR.cdim(dims)
        n = rng.randint(1, min(4, N)); p = rng.randint(0, min(2, n - 1))
        if mixed:
            n = rng.randint(5, 8); N = n + rng.randint(2, 4); dims = {'l': N, 'q': [], 's': []}; p = rng.randint(1, 2)
        pr = None
        # every fourth system: free variables (exactly zero columns of G, zero rows / columns of P, at any position) fixed by the equality
        # constraints: Rank(A) = p and Rank([P; A; G]) = n hold although G'W^-2 G is exactly singular ('l' cone, so that kkt_chol2 takes part)
        free = []
        if it % 4 == 3 and not mixed:
            dims = {'l': rng.randint(2, 6), 'q': [], 's': []}; N = dims['l']
            n = rng.randint(2, min(5, N + 1)); free = rng.sample(range(n), rng.randint(1, min(2, n - 1))); p = rng.randint(len(free), n - 1)
        for _ in range(30):
            Gc = [PR.sym_vector(rng, dims) for _ in range(n)]
            if mixed:
                # a genuinely sparse G (a diagonal part plus rows that couple two variables): S = G'W^-2 G has a pattern for which the fill-reducing
                # ordering of the sparse Cholesky factorisation is not the identity
                Gc = [[0.0] * N for _ in range(n)]
                for j in range(n): Gc[j][j] = float(rng.choice([1, 2, -1, -2]))
                for r_ in range(n, N):
                    j1, j2 = rng.sample(range(n), 2); Gc[j1][r_] = float(rng.choice([1, -1, 2])); Gc[j2][r_] = float(rng.choice([1, -1, 3]))
            for j in free: Gc[j] = [0.0] * N
            Ac = [[PR.rint(rng) for _ in range(p)] for _ in range(n)]
            if PR.rank_cols(Gc, Ac if free else [[] for _ in range(n)]) == n and PR.rank_rows(Ac, p) == p: break
        else: continue
        G = matrix([x for col in Gc for x in col], (N, n), 'd'); A = matrix([x for col in Ac for x in col], (p, n), 'd')
        sp = rng.random() < 0.4
        Gm, Am = (sparse(G), sparse(A)) if sp else (G, A)
        # mixed storage (every fifth / sixth system): G sparse with A dense, G dense with A sparse - branches of their own in kkt_chol2 / kkt_chol
        if it % 5 == 1 or (mixed and it % 2 == 0): Gm, Am, sp = sparse(G), A, 'G sparse, A dense'
        elif it % 6 == 2 or mixed: Gm, Am, sp = G, sparse(A), 'G dense, A sparse'
        hasQS = bool(dims['q'] or dims['s'])
        useP = rng.random() < 0.5; junkP = rng.random() < 0.5
        if mixed: useP = False
        B = matrix([PR.rint(rng, 2) for _ in range(n * n)], (n, n))
        for j in free: B[:, j] = 0.0
        P = B.T * B if useP else None
        names = ['ldl', 'ldl2', 'chol'] + ([] if hasQS else ['chol2']) + ([] if useP else ['qr'])
        facs = {}
        for nm in names:
            try: facs[nm] = getattr(misc, 'kkt_' + nm)(Gm, dims, Am)
            except Exception as e: ctx.violation('c07:factory-exception:' + nm, 'misc.kkt_%s(G, dims, A) raised %s' % (nm, e), {'dims': dims}); 
        # a history of scalings on the same factory objects
        hist = []
        for step in range(rng.randint(1, 3)):
            s, z = interior(dims), interior(dims)
            lm = matrix(0.0, (dims['l'] + sum(dims['q']) + sum(dims['s']), 1))
            W = misc.compute_scaling(s, z, lm, dims)
            check_W(ctx, cvxopt, W, s, z, lm, dims, 'compute_scaling', None)
            if rng.random() < 0.5:
                # update with a small interior step (as the solvers do): s := W^{-T} s~, z := W z~ for scaled points near lambda
                pass
            sols = {}; failed = []
            rhs0 = (matrix([PR.rint(rng) for _ in range(n)], (n, 1), 'd'), matrix([PR.rint(rng) for _ in range(p)], (p, 1), 'd'),
                    matrix(PR.sym_vector(rng, dims), (N, 1), 'd'))
            for nm, fac in facs.items():
                try:
                    if useP and junkP:
                        # only the lower triangle of H / P is documented to be read: hand the factory a copy with arbitrary values above the diagonal
                        Pj = +P
                        for jj in range(n):
                            for ii in range(jj): Pj[ii, jj] = float(rng.randint(-9, 9))
                        f = fac(W, Pj)
                    else:
                        f = fac(W, P) if useP else fac(W)
                except ArithmeticError:
                    failed.append(nm); continue
                for rep in range(rng.randint(1, 2)):
                    bx = matrix([PR.rint(rng) for _ in range(n)], (n, 1), 'd'); by = matrix([PR.rint(rng) for _ in range(p)], (p, 1), 'd')
                    bz = matrix(PR.sym_vector(rng, dims), (N, 1), 'd')
                    if rep == 0: bx, by, bz = (+rhs0[0], +rhs0[1], +rhs0[2])
                    x, y, zz = +bx, +by, +bz
                    f(x, y, zz); evals += 1
                    # documented: on exit x = ux, y = uy, z = W*uz ;  residual of  [P A' G'; A 0 0; G 0 -W'W] (ux,uy,uz) = (bx,by,bz)
                    uz = +zz; misc.scale(uz, W, inverse='I')             # uz = W^{-1} (W uz)
                    r1 = -bx
                    if useP: base.symv(P, x, r1, beta=1.0)
                    base.gemv(Am, y, r1, trans='T', beta=1.0); sgemv(Gm, uz, r1, dims, trans='T', beta=1.0)
                    r2 = -by; base.gemv(Am, x, r2, beta=1.0)
                    wz = +zz; misc.scale(wz, W, trans='T')               # W' (W uz)
                    r3 = -bz - wz; sgemv(Gm, x, r3, dims, beta=1.0)
                    # compare through the cone inner product (upper triangles of 's' blocks carry no information)
                    res = math.sqrt(blas.dot(r1, r1) + blas.dot(r2, r2) + abs(misc.sdot(r3, r3, dims)))
                    scale_ = 1.0 + math.sqrt(blas.dot(bx, bx) + blas.dot(by, by) + abs(misc.sdot(bz, bz, dims))) + blas.nrm2(x) + blas.nrm2(zz)
                    if res > 1e-7 * scale_:
                        ctx.violation('c07:kkt-residual:' + nm, 'kkt_%s: residual %.3g of the documented block system (dims %s, %s, history step %d)' %
                                      (nm, res / scale_, dims, sp if isinstance(sp, str) else ('sparse' if sp else 'dense'), step), {'dims': dims, 'solver': nm, 'sparse': sp, 'step': step})
                    if rep == 0: sols[nm] = (list(x), list(y), +zz)
            distinct.add((tuple(sorted(dims.items(), key=str)) if False else str(dims), sp, useP, step))
            if free and failed and sols:
                ctx.violation('c07:factor-fails:free-variables:' + failed[0], 'kkt_%s raised ArithmeticError on a system with exactly zero columns %s of G (and P) that satisfies the rank '
                              'assumptions (kkt_%s solves it), dims %s, %s, history step %d' % (failed[0], free, sorted(sols)[0], dims, 'sparse' if sp else 'dense', step),
                              {'dims': dims, 'solver': failed[0], 'sparse': sp, 'step': step, 'G': Gc, 'A': Ac, 'free': free})
            # all solvers agree on the same system
            ref = None
            for nm, (sx, sy, sz) in sols.items():
                if ref is None: ref = (nm, sx, sy, sz); continue
                d1 = max([abs(a - b) for a, b in zip(sx + sy, ref[1] + ref[2])] + [0.0])
                dz = sz - ref[3]; d2 = math.sqrt(abs(misc.sdot(dz, dz, dims)))
                if max(d1, d2) > 1e-6 * (1 + max(abs(a) for a in ref[1] + ref[2] + [0.0])):
                    ctx.violation('c07:solvers-disagree:%s-vs-%s' % (nm, ref[0]), 'kkt_%s and kkt_%s give different solutions of the same KKT system (diff %.3g)' % (nm, ref[0], max(d1, d2)),
                                  {'dims': dims, 'sparse': sp})
    rng = rng_keep0
    # ---- the same block system WITH the nonlinear block (cp / cpl): GG = [Df; G], W acts on (znl, zl), the factories take mnl and the factor call takes
    # H and Df.  kkt_qr has no nonlinear variant; kkt_chol2 takes part on 'l'-only cones.
    nnl = 40 if ctx.quick() else 1500
    nl_systems = 0
    rng_main, rng = rng, random.Random(ctx.seed * 613 + 77)          # own stream: the families below keep the instances they had before this one existed
    def interior(dims):
        return matrix(PR.interior_point(rng, dims), tc='d')
    for it in range(nnl):
        dims = PR.rand_dims(rng)
        if it % 3 == 0: dims = {'l': rng.randint(0, 2), 'q': [3] if rng.random() < 0.5 else [], 's': [rng.randint(2, 3) for _ in range(rng.randint(1, 2))]}
        N = PR.cdim(dims)
        if N == 0: continue
        mnl = rng.randint(1, 2)
        n = rng.randint(1, min(4, N)); p = rng.randint(0, min(2, n - 1))
        for _ in range(30):
            Gc = [PR.sym_vector(rng, dims) for _ in range(n)]
            Ac = [[PR.rint(rng) for _ in range(p)] for _ in range(n)]
            if PR.rank_cols(Gc, [[] for _ in range(n)]) == n and PR.rank_rows(Ac, p) == p: break
        else: continue
        G = matrix([x for col in Gc for x in col], (N, n), 'd'); A = matrix([x for col in Ac for x in col], (p, n), 'd')
        Df = matrix([PR.rint(rng) for _ in range(mnl * n)], (mnl, n), 'd')
        B = matrix([PR.rint(rng, 2) for _ in range(n * n)], (n, n)); H = B.T * B
        sp = rng.random() < 0.4
        Gm, Am = (sparse(G), sparse(A)) if sp else (G, A)
        Dfm = sparse(Df) if rng.random() < 0.3 else Df
        Hm = sparse(H) if rng.random() < 0.3 else H
        hasQS = bool(dims['q'] or dims['s'])
        s_ = matrix([1.0 + rng.randint(0, 3) for _ in range(mnl)] + PR.interior_point(rng, dims), tc='d')
        z_ = matrix([1.0 + rng.randint(0, 3) for _ in range(mnl)] + PR.interior_point(rng, dims), tc='d')
        lm = matrix(0.0, (mnl + dims['l'] + sum(dims['q']) + sum(dims['s']), 1))
        W = misc.compute_scaling(s_, z_, lm, dims, mnl)
        bx = matrix([PR.rint(rng) for _ in range(n)], (n, 1), 'd'); by = matrix([PR.rint(rng) for _ in range(p)], (p, 1), 'd')
        bz = matrix([PR.rint(rng) for _ in range(mnl)] + PR.sym_vector(rng, dims), (mnl + N, 1), 'd')
        sols = {}
        nl_systems += 1
        for nm in ['ldl', 'ldl2', 'chol'] + ([] if hasQS else ['chol2']):
            try:
                f = getattr(misc, 'kkt_' + nm)(Gm, dims, Am, mnl)(W, Hm, Dfm)
            except ArithmeticError: continue
            except Exception as e:
                ctx.violation('c07:factory-exception:nonlinear:' + nm, 'misc.kkt_%s(G, dims, A, %d)(W, H, Df) raised %s: %s' % (nm, mnl, type(e).__name__, e), {'dims': dims, 'mnl': mnl}); continue
            x, y, zz = +bx, +by, +bz
            f(x, y, zz); evals += 1
            uz = +zz; misc.scale(uz, W, inverse='I')
            uznl, uzl = uz[:mnl], matrix(uz[mnl:], (N, 1))
            r1 = H * x - bx + Df.T * uznl + matrix([misc.sdot(matrix(list(G[:, j]), (N, 1)), uzl, dims) for j in range(n)], (n, 1), 'd')
            if p: r1 = r1 + A.T * y
            r2 = A * x - by
            wz = +zz; misc.scale(wz, W, trans='T')
            r3 = matrix([Df * x, G * x]) - wz - bz
            r3l = matrix(r3[mnl:], (N, 1))
            res = math.sqrt(blas.dot(r1, r1) + blas.dot(r2, r2) + blas.dot(r3[:mnl], r3[:mnl]) + abs(misc.sdot(r3l, r3l, dims)))
            scale_ = 1.0 + blas.nrm2(bx) + blas.nrm2(by) + blas.nrm2(bz) + blas.nrm2(x) + blas.nrm2(zz)
            if not (res <= 1e-7 * scale_):
                ctx.violation('c07:kkt-residual:nonlinear:' + nm, 'kkt_%s with mnl = %d: residual %.3g of the documented block system [H A\' GG\'; A 0 0; GG 0 -W\'W], GG = [Df; G] '
                              '(dims %s, %s)' % (nm, mnl, res / scale_, dims, 'sparse' if sp else 'dense'), {'dims': dims, 'mnl': mnl, 'solver': nm, 'sparse': sp})
            sols[nm] = (list(x) + list(y), +zz)
        ref = None
        for nm, (sxy, sz) in sols.items():
            if ref is None: ref = (nm, sxy, sz); continue
            d1 = max([abs(a - b) for a, b in zip(sxy, ref[1])] + [0.0])
            dz = sz - ref[2]; d2 = math.sqrt(blas.dot(dz[:mnl], dz[:mnl]) + abs(misc.sdot(matrix(dz[mnl:], (N, 1)), matrix(dz[mnl:], (N, 1)), dims)))
            if max(d1, d2) > 1e-6 * (1 + max(abs(a) for a in ref[1] + [0.0])):
                ctx.violation('c07:solvers-disagree:nonlinear:%s-vs-%s' % (nm, ref[0]), 'kkt_%s and kkt_%s (mnl = %d) give different solutions of the same KKT system (diff %.3g)'
                              % (nm, ref[0], mnl, max(d1, d2)), {'dims': dims, 'mnl': mnl, 'sparse': sp})
    ctx.cov['systems_with_nonlinear_block'] = nl_systems
    rng = rng_main
    # ---- W handed to a user kktsolver during real solves
    nsolve = 10 if ctx.quick() else 300
    for it in range(nsolve):
        qp = rng.random() < 0.4
        pr = PR.planted_conelp(rng, 'optimal', P_rank=(rng.randint(1, 3) if qp else None))
        c, G, h, A, b, P = PR.to_cvx(cvxopt, pr)
        dims = pr.dims
        seen = []
        fac = misc.kkt_ldl(G, dims, A)
        def kkt(W, fac=fac):
            seen.append({k: (+v if hasattr(v, 'size') else [(+a if hasattr(a, 'size') else a) for a in v]) for k, v in W.items()})
            return fac(W, P) if qp else fac(W)
        try:
            if qp: quiet(solvers.coneqp, P, c, G, h, dims, A, b, kktsolver=kkt, options={'show_progress': False})
            else: quiet(solvers.conelp, c, G, h, dims, A, b, kktsolver=kkt, options={'show_progress': False})
        except Exception: continue
        for k, W in enumerate(seen):
            evals += 1
            check_W(ctx, cvxopt, W, None, None, None, dims, 'coneqp' if qp else 'conelp', k)
    # ---- the same for the nonlinear solver: cpl saves its state (scaling included) when a full step gives insufficient decrease and may later
    # resume from it; badly scaled problems with a quartic constraint, an LMI ('s' block), optionally a second-order cone and linear inequalities
    from cvxopt import spdiag
    ncpl = 40 if ctx.quick() else 600
    restores = 0
    for it in range(ncpl):
        n = 3; ms = rng.choice([2, 3]); mq = rng.choice([0, 0, 3]); ml = rng.choice([0, 2])
        sc = rng.choice([1.0, 3.0, 9.0])
        Aq = matrix([rng.uniform(-sc, sc) for _ in range(n * n)], (n, n))
        c = matrix([rng.uniform(-1.5, 1.5) for _ in range(n)])
        cols = []
        for j in range(n):
            col = [rng.uniform(-1, 1) for _ in range(ml)]
            col += [rng.uniform(-1, 1) for _ in range(mq)]
            S_ = [[0.0] * ms for _ in range(ms)]
            for a in range(ms):
                for b in range(a, ms):
                    v = rng.uniform(-4, 4); S_[a][b] = v; S_[b][a] = v
            col += [S_[a][b] for b in range(ms) for a in range(ms)]
            cols.append(col)
        G = matrix(cols)
        h = [2.0] * ml + ([3.0] + [0.0] * (mq - 1) if mq else [])
        h += [2.0 if a == b else 0.0 for b in range(ms) for a in range(ms)]
        h = matrix(h)
        dims = {'l': ml, 'q': [mq] if mq else [], 's': [ms]}
        def F(x=None, z=None, Aq=Aq, n=n):
            if x is None: return 1, matrix(0.0, (n, 1))
            y = Aq * x
            f = matrix(sum(y ** 4) - 1.0); Df = (Aq.T * (4 * y ** 3)).T
            if z is None: return f, Df
            return f, Df, z[0] * (Aq.T * spdiag(12 * y ** 2) * Aq)
        fac = misc.kkt_ldl(G, dims, matrix(0.0, (0, n)), 1)
        seen = []
        def kkt(x, znl, W, fac=fac, F=F):
            seen.append({k: (+v if hasattr(v, 'size') else [(+a if hasattr(a, 'size') else a) for a in v]) for k, v in W.items()})
            f, Df, H = F(x, znl)
            return fac(W, H, Df)
        try: quiet(solvers.cpl, c, F, G, h, dims, kktsolver=kkt, options={'show_progress': False, 'maxiters': 60})
        except Exception: pass
        for k, W in enumerate(seen):
            evals += 1
            for a, b in zip(W['dnl'], W['dnli']):
                if not a > 0 or abs(a * b - 1) > 1e-9:
                    ctx.violation('c07:scaling-invariant:cpl:dnl', 'scaling from cpl (call %d) violates dnl*dnli = 1' % k, {'dims': dims}); break
            check_W(ctx, cvxopt, W, None, None, None, dims, 'cpl', k)
    ctx.cov.update({'evaluations': evals, 'distinct_nontrivial': len(distinct), 'cpl_solves_with_user_kktsolver': ncpl,
                    'rule': '%d KKT systems (integer G of full column rank, A of full row rank, optional P = B\'B, random cone structure, dense/sparse) x every '
                            'factory the structure admits x histories of 1-3 scalings on the same factory object x 1-2 right-hand sides: residual of the '
                            'documented block system, mutual agreement; the same with a nonlinear block (mnl = 1..2, H and Df given, factories ldl / ldl2 / chol / chol2); invariants of compute_scaling and of every W passed to a user kktsolver in %d solves' % (nsys, nsolve)})
    ctx.samples += ['residual of [P A\' G\'; A 0 0; G 0 -W\'W](ux,uy,uz) = (bx,by,bz) with (x,y,z) = (ux,uy,W uz)', 'W invariants: d*di=1, beta>0, v0>0, v\'Jv=1, r\' rti = I, W z = W^-T s = lambda']

def check_W(ctx, cvxopt, W, s, z, lm, dims, where, k):
    """documented invariants of a scaling dictionary"""
    from cvxopt import matrix, misc, blas
    tol = 1e-9
    def bad(what):
        ctx.violation('c07:scaling-invariant:%s:%s' % (where, what.split(' ')[0]), 'scaling from %s%s violates: %s' % (where, '' if k is None else ' (call %d)' % k, what), {'dims': dims})
    for a, b in zip(W['d'], W['di']):
        if not a > 0: bad('d > 0')
        if abs(a * b - 1) > tol: bad('d*di = 1')
    for beta, v in zip(W['beta'], W['v']):
        if not beta > 0: bad('beta > 0')
        if not v[0] > 0: bad('v0 > 0')
        j = v[0] ** 2 - sum(a * a for a in v[1:])
        if abs(j - 1) > tol * (1 + v[0] ** 2): bad("v'Jv = 1 (is %.15g)" % j)
    for r, rti in zip(W['r'], W['rti']):
        m = r.size[0]
        if m == 0: continue
        I = r.T * rti
        err = max(abs(I[i, j] - (1.0 if i == j else 0.0)) for i in range(m) for j in range(m))
        if err > tol * (1 + blas.nrm2(r) * blas.nrm2(rti)): bad("r' * rti = I (error %.3g)" % err)
    if s is not None:
        # W z = W^{-T} s = lambda
        N = len(s)
        wz = +z; misc.scale(wz, W)
        ws = +s; misc.scale(ws, W, trans='T', inverse='I')
        # lambda: the 's' part is stored as the diagonal
        lam = matrix(0.0, (N, 1)); ind = dims['l'] + sum(dims['q']); ind2 = ind
        blas.copy(lm, lam, n=ind)
        for m in dims['s']:
            for i in range(m): lam[ind + i * (m + 1)] = lm[ind2 + i]
            ind += m * m; ind2 += m
        for name, vec in (('W z = lambda', wz), ('W^-T s = lambda', ws)):
            d = vec - lam
            # compare lower triangles only
            e = math.sqrt(abs(misc.sdot(d, d, dims)))
            if e > 1e-8 * (1 + blas.nrm2(lam)): bad('%s (error %.3g)' % (name, e))

def search(ctx, why): return
def replay(ctx, payload): correspond(ctx)
