#!/bin/bash
# development aid, not a registered check: which parts of cvxopt do the quick (or thorough) correspondence runs execute?
# builds /repo once with gcc --coverage -O0, runs every check against that build, then prints per-file line coverage (gcov for src/C,
# coverage.py for src/python) and the functions that were never entered.  usage: tools/covaudit.sh [quick|thorough] [outdir]
tier=${1:-quick}; out=${2:-/tmp/covaudit}
here="$(cd "$(dirname "$0")/.." && pwd)"
rm -rf "$out"; mkdir -p "$out/build" "$out/py"
/venv/bin/python "$here/tools/buildrepo.py" "$out/build" --coverage >/dev/null || exit 2
cd "$here"
for p in $(python3 -c "import json; print(' '.join(c['property_id'] for c in json.load(open('MANIFEST.json'))['checks']))"); do
  VERIF_PREBUILT="$out/build" VERIF_PYCOV="$out/py" VERIF_LEANCHECKER=0 VERIF_NO_ESCALATE=1 ./check $p --tier $tier 2>&1 | grep -E "tier=" | cut -c1-120
done
cd "$out/build/_obj" && for u in base dense sparse blas lapack misc_solvers; do gcov -f -o . /repo/src/C/$u.c > "$out/gcov_$u.txt" 2>/dev/null; done
python3 - "$out" <<'PY'
import re, sys, os
out = sys.argv[1]
for u in ['base', 'dense', 'sparse', 'blas', 'lapack', 'misc_solvers']:
    t = open(os.path.join(out, 'gcov_%s.txt' % u)).read()
    never = []
    for m in re.finditer(r"Function '([^']+)'\nLines executed:([\d.]+)% of (\d+)", t):
        if float(m.group(2)) == 0.0: never.append(m.group(1))
    tot = re.findall(r"File '/repo/src/C/%s.c'\nLines executed:([\d.]+)%% of (\d+)" % u, t)
    print('%-14s lines executed %s%% of %s; functions never entered: %s' % (u + '.c', tot[0][0] if tot else '?', tot[0][1] if tot else '?', ', '.join(never) or '-'))
PY
cd "$out/py" && /venv/bin/python -m coverage combine -q . >/dev/null 2>&1; /venv/bin/python -m coverage report --data-file="$out/py/.coverage" 2>/dev/null | tail -15
