import CvxVerif.Gen.Options
import CvxVerif.Proofs.PyVal
/-!
# C09 — solver calls are isolated, configurable and repeatable

The option handling of every entry point is *generated from the source on every run*
(`Gen/Options.lean`, by `tools/translate/py2lean.py`); the theorems below are re-checked against it.
-/
namespace CvxVerif.C09
open CvxVerif.Py CvxVerif.OptFlow CvxVerif.Gen.Options

/-- the documented solver entry points -/
def entryPoints : List String := ["conelp", "coneqp", "lp", "qp", "socp", "sdp", "cpl", "cp", "gp", "op.solve"]

/-- **Override.** For every entry point, when the keyword `options=d` is given, every option dictionary that
is consulted during the call (by the entry point itself or by the solvers it delegates to) is `d`, never the
module-level dictionary `g`; and some dictionary is consulted. -/
theorem C09_override {α : Type} (d g : α) :
    ∀ e ∈ entryPoints, seen flows 4 e (some d) g ≠ [] ∧ ∀ x ∈ seen flows 4 e (some d) g, x = d := by
  intro e he
  simp only [entryPoints, List.mem_cons, List.not_mem_nil, or_false] at he
  rcases he with rfl | rfl | rfl | rfl | rfl | rfl | rfl | rfl | rfl | rfl <;>
    simp [seen, flows, List.find?]

/-- without the keyword, the module-level dictionary `solvers.options` is used -/
theorem C09_default_global {α : Type} (g : α) :
    ∀ e ∈ entryPoints, seen flows 4 e none g ≠ [] ∧ ∀ x ∈ seen flows 4 e none g, x = g := by
  intro e he
  simp only [entryPoints, List.mem_cons, List.not_mem_nil, or_false] at he
  rcases he with rfl | rfl | rfl | rfl | rfl | rfl | rfl | rfl | rfl | rfl <;>
    simp [seen, flows, List.find?]

/-- every entry point accepts `**kwargs` -/
theorem C09_kwargs_accepted : ∀ e ∈ entryPoints, ∃ f ∈ flows, f.name = e ∧ f.hasKwargs = true := by
  decide

/-- what an accepted configuration guarantees -/
structure Good (env : List (String × Val)) : Prop where
  maxiters : (lookup env "MAXITERS").isInst ["int", "long"] = true ∧
             Val.cmp .lt (lookup env "MAXITERS") (Val.int 1) = .ok false
  feastol : (lookup env "FEASTOL").isInst ["float", "int", "long"] = true ∧
            Val.cmp .le (lookup env "FEASTOL") (Val.flt 0) = .ok false
  tols : (lookup env "ABSTOL").isInst ["float", "int", "long"] = true ∧
         (lookup env "RELTOL").isInst ["float", "int", "long"] = true ∧
         (Val.cmp .le (lookup env "RELTOL") (Val.flt 0) = .ok false ∨
          Val.cmp .le (lookup env "ABSTOL") (Val.flt 0) = .ok false)
  refinement : (lookup env "refinement").isInst ["int", "long"] = true ∧
               Val.cmp .lt (lookup env "refinement") (Val.int 0) = .ok false
  kktreg : (lookup env "KKTREG") = Val.none ∨
           ((lookup env "KKTREG").isInst ["float", "int", "long"] = true ∧
            Val.cmp .lt (lookup env "KKTREG") (Val.flt 0) = .ok false)

syntax "opts_sym" ident : tactic
macro_rules
  | `(tactic| opts_sym $h:ident) => `(tactic|
      simp only [raiseIf_bind_ok, pyOr_false, pyAnd_false, pyNot_pure_false, pyNot_ok_false, pure_eq_ok_false,
        pure_eq_ok_true, Bool.not_eq_false', Bool.not_eq_true', pure, Except.pure, ok_bind, bind_assoc,
        Except.ok.injEq] at $h:ident)

theorem good_refinement_default (qs : Bool) :
    (if qs = true then Val.int 1 else Val.int 0).isInst ["int", "long"] = true ∧
    Val.cmp .lt (if qs = true then Val.int 1 else Val.int 0) (Val.int 0) = .ok false := by
  cases qs <;> exact ⟨rfl, rfl⟩

theorem C09_validation_conelp (opt : String → Option Val) (qs : Bool) (env : List (String × Val))
    (h : conelp_opts opt qs = .ok env) : Good env := by
  unfold conelp_opts at h
  opts_sym h
  -- the facts come in the order in which the source reads the options; they are used by type, not by position
  obtain ⟨h1, h2, h3, h4, h5, h6, h7, rfl⟩ := h
  have hq := good_refinement_default qs
  have hn : ∀ v : Val, Val.isNone v = true → v = Val.none := by intro v; cases v <;> simp [Val.isNone]
  refine ⟨?_, ?_, ?_, ?_, ?_⟩ <;> simp only [lookup, List.find?, String.reduceBEq]
  all_goals first | assumption | grind


theorem num_tys1 : ∀ t ∈ ["float", "int", "long"], t = "float" ∨ t = "int" ∨ t = "long" := by simp
theorem num_tys2 : ∀ t ∈ ["int", "long"], t = "float" ∨ t = "int" ∨ t = "long" := by simp

/-- the only exception the option block of `conelp` can raise is `ValueError` -/
theorem C09_errors_conelp (opt : String → Option Val) (qs : Bool) (x : String)
    (h : conelp_opts opt qs = .error x) : x = "ValueError" := by
  unfold conelp_opts at h
  simp only [raiseIf_bind_error, pyOr_error, pyAnd_error, pyOr_true, pyAnd_true, pyOr_false, pyAnd_false,
    pyNot_ok_error, pyNot_ok_true, pyNot_ok_false, pure, Except.pure, reduceCtorEq, false_or, or_false,
    and_false, Except.ok.injEq, Bool.not_eq_true', Bool.not_eq_false'] at h
  have e1 : ∀ op v c, Val.isInst ["float", "int", "long"] v = true → Val.cmp op v (Val.flt c) = .error x → False :=
    fun op v c h1 h2 => cmp_no_error op x h1 num_tys1 ⟨_, rfl⟩ h2
  have e2 : ∀ op v c, Val.isInst ["int", "long"] v = true → Val.cmp op v (Val.int c) = .error x → False :=
    fun op v c h1 h2 => cmp_no_error op x h1 num_tys2 ⟨_, rfl⟩ h2
  grind


theorem C09_validation_cpl (opt : String → Option Val) (qs : Bool) (env : List (String × Val))
    (h : cpl_opts opt qs = .ok env) : Good env := by
  unfold cpl_opts at h
  opts_sym h
  obtain ⟨h1, h2, h3, h4, h5, h6, h7, rfl⟩ := h
  have hq := good_refinement_default qs
  have hn : ∀ v : Val, Val.isNone v = true → v = Val.none := by intro v; cases v <;> simp [Val.isNone]
  refine ⟨?_, ?_, ?_, ?_, ?_⟩ <;> simp only [lookup, List.find?, String.reduceBEq]
  all_goals first | assumption | grind

theorem C09_errors_cpl (opt : String → Option Val) (qs : Bool) (x : String)
    (h : cpl_opts opt qs = .error x) : x = "ValueError" := by
  unfold cpl_opts at h
  simp only [raiseIf_bind_error, pyOr_error, pyAnd_error, pyOr_true, pyAnd_true, pyOr_false, pyAnd_false,
    pyNot_ok_error, pyNot_ok_true, pyNot_ok_false, pure, Except.pure, reduceCtorEq, false_or, or_false,
    and_false, Except.ok.injEq, Bool.not_eq_true', Bool.not_eq_false'] at h
  have e1 : ∀ op v c, Val.isInst ["float", "int", "long"] v = true → Val.cmp op v (Val.flt c) = .error x → False :=
    fun op v c h1 h2 => cmp_no_error op x h1 num_tys1 ⟨_, rfl⟩ h2
  have e2 : ∀ op v c, Val.isInst ["int", "long"] v = true → Val.cmp op v (Val.int c) = .error x → False :=
    fun op v c h1 h2 => cmp_no_error op x h1 num_tys2 ⟨_, rfl⟩ h2
  grind

theorem C09_validation_coneqp (opt : String → Option Val) (qs : Bool) (env : List (String × Val))
    (h : coneqp_opts opt qs = .ok env) : Good env := by
  unfold coneqp_opts at h
  cases hopt : opt "refinement" <;> simp only [hopt] at h <;> opts_sym h
  · obtain ⟨h1, h2, h3, h4, h5, h6, rfl⟩ := h
    have hq := good_refinement_default qs
    have hn : ∀ v : Val, Val.isNone v = true → v = Val.none := by intro v; cases v <;> simp [Val.isNone]
    refine ⟨?_, ?_, ?_, ?_, ?_⟩ <;> simp only [lookup, List.find?, String.reduceBEq]
    all_goals first | assumption | grind
  · obtain ⟨h1, h2, h3, h4, h5, h6, h7, rfl⟩ := h
    have hq := good_refinement_default qs
    have hn : ∀ v : Val, Val.isNone v = true → v = Val.none := by intro v; cases v <;> simp [Val.isNone]
    refine ⟨?_, ?_, ?_, ?_, ?_⟩ <;> simp only [lookup, List.find?, String.reduceBEq]
    all_goals first | assumption | grind

theorem C09_errors_coneqp (opt : String → Option Val) (qs : Bool) (x : String)
    (h : coneqp_opts opt qs = .error x) : x = "ValueError" := by
  unfold coneqp_opts at h
  have e1 : ∀ op v c, Val.isInst ["float", "int", "long"] v = true → Val.cmp op v (Val.flt c) = .error x → False :=
    fun op v c h1 h2 => cmp_no_error op x h1 num_tys1 ⟨_, rfl⟩ h2
  have e2 : ∀ op v c, Val.isInst ["int", "long"] v = true → Val.cmp op v (Val.int c) = .error x → False :=
    fun op v c h1 h2 => cmp_no_error op x h1 num_tys2 ⟨_, rfl⟩ h2
  cases hopt : opt "refinement" <;> simp only [hopt] at h <;>
  simp only [raiseIf_bind_error, pyOr_error, pyAnd_error, pyOr_true, pyAnd_true, pyOr_false, pyAnd_false,
    pyNot_ok_error, pyNot_ok_true, pyNot_ok_false, pure, Except.pure, reduceCtorEq, false_or, or_false,
    and_false, Except.ok.injEq, Bool.not_eq_true', Bool.not_eq_false', ok_bind, bind_assoc] at h <;>
  grind

/-- the main loop of every native solver runs `for iters in range(MAXITERS + 1)` (together with the exit
`iters == MAXITERS` of the generated stopping tests, C01/C03/C04, this bounds `iterations` by `maxiters`) -/
theorem C09_loop_bound : ∀ p ∈ loopRange, p.2 = "MAXITERS+1" := by decide

theorem C09_loop_bound_all : ∀ s ∈ ["conelp", "coneqp", "cpl"], ∃ p ∈ loopRange, p.1 = s := by decide

/-! ### History independence (model level)

A solver call is modelled as a function of its own arguments and of the option dictionary it sees.  Given
that (which is what the correspondence check establishes about the code: byte images of all arguments and of
every module-level object before and after each call), results do not depend on the history. -/

structure Call (Args Opts : Type) where
  entry : String
  args : Args
  kw : Option Opts

/-- executing a history of calls against a global option dictionary that the *caller* may edit between calls -/
def exec {Args Opts Res : Type} (run : String → Args → Opts → Res)
    (hist : List (Call Args Opts × Opts)) : List Res :=
  hist.map (fun p => run p.1.entry p.1.args (p.1.kw.getD p.2))

/-- **History independence.** The result of the last call of any history equals the result of that call
executed alone. -/
theorem C09_history_independent {Args Opts Res : Type} (run : String → Args → Opts → Res)
    (pre : List (Call Args Opts × Opts)) (c : Call Args Opts) (g : Opts) :
    (exec run (pre ++ [(c, g)])).getLast? = (exec run [(c, g)]).getLast? := by
  simp [exec]

/-- per-call options make the result independent of the global dictionary altogether -/
theorem C09_percall_independent_of_global {Args Opts Res : Type} (run : String → Args → Opts → Res)
    (c : Call Args Opts) (d g g' : Opts) (h : c.kw = some d) :
    exec run [(c, g)] = exec run [(c, g')] := by
  simp [exec, h]

end CvxVerif.C09
