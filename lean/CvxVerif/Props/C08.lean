import CvxVerif.Proofs.Kernels
/-!
# C08 — cone-algebra kernels match their mathematical definition

Theorems about the block-level definitions of `Model/Kernels.lean` (any block dimension), which the
correspondence check compares exactly with BOTH implementations (compiled `misc_solvers` and the pure-Python
fall-backs of `misc.py`).
-/
namespace CvxVerif.Kernels

/-- **`scale(inverse='I')` undoes `scale` on a 'q' block**, for every dimension: with `vᵀJv = 1` and `β ≠ 0`,
`β⁻¹(2JvvᵀJ − J) · β(2vvᵀ − J) = I`. -/
theorem C08_scale_inv_q (beta v0 x0 : Rat) (v1 x1 : List Rat) (hb : beta ≠ 0) (hl : v1.length = x1.length)
    (hv : v0 * v0 - dot v1 v1 = 1) :
    scaleQinv beta (v0 :: v1) (scaleQ beta (v0 :: v1) (x0 :: x1)) = x0 :: x1 := by
  unfold scaleQinv scaleQ
  simp only [List.headD_cons, List.tail_cons, jdot, dot_cons]
  have h1 : dot v1 ((axpy (2 * (v0 * x0 + dot v1 x1)) v1 x1).map (beta * ·)) =
      beta * (2 * (v0 * x0 + dot v1 x1) * dot v1 v1 + dot v1 x1) := by
    rw [dot_map_mul, dot_axpy _ _ _ hl]
  have ht : v0 * (beta * (2 * v0 * (v0 * x0 + dot v1 x1) - x0)) -
      dot v1 ((axpy (2 * (v0 * x0 + dot v1 x1)) v1 x1).map (beta * ·)) = beta * (v0 * x0 + dot v1 x1) := by
    rw [h1]
    have : v0 * v0 = 1 + dot v1 v1 := by linarith
    calc _ = beta * ((2 * (v0 * x0 + dot v1 x1)) * (v0 * v0 - dot v1 v1) - (v0 * x0 + dot v1 x1)) := by ring
      _ = _ := by rw [hv]; ring
  rw [ht]
  congr 1
  · field_simp; ring
  · have := axpy_cancel beta (2 * (v0 * x0 + dot v1 x1)) hb v1 x1 hl
    have e : -(2 * (beta * (v0 * x0 + dot v1 x1))) = -(beta * (2 * (v0 * x0 + dot v1 x1))) := by ring
    rw [e]; exact this

/-- **`scale(inverse='I')` undoes `scale` on the componentwise ('l' / nonlinear) part** when `d ∘ di = 1`. -/
theorem C08_scale_inv_l (d di x : List Rat) (h : ∀ i, d.getD i 1 * di.getD i 1 = 1) (hl1 : d.length = x.length)
    (hl2 : di.length = x.length) : List.zipWith (· * ·) di (List.zipWith (· * ·) d x) = x := by
  induction x generalizing d di with
  | nil => simp
  | cons a x ih =>
    cases d with
    | nil => simp at hl1
    | cons p d => cases di with
      | nil => simp at hl2
      | cons q di =>
        simp only [List.zipWith_cons_cons, List.cons.injEq]
        refine ⟨?_, ih d di (fun i => by simpa using h (i + 1)) (by simpa using hl1) (by simpa using hl2)⟩
        have h0 : p * q = 1 := by simpa using h 0
        calc q * (p * a) = (p * q) * a := by ring
          _ = a := by rw [h0]; ring

/-- **`sinv` undoes `sprod` on a 'q' block**: `y ∘\ (y ∘ x) = x` for `y` with `y₀ ≠ 0` and `y₀² − ‖y₁‖² ≠ 0`
(in particular for `y` in the interior of the cone). -/
theorem C08_sinv_sprod_q (y0 x0 : Rat) (y1 x1 : List Rat) (hl : y1.length = x1.length) (hy0 : y0 ≠ 0)
    (haa : y0 * y0 - dot y1 y1 ≠ 0) : sinvQ (y0 :: y1) (sprodQ (y0 :: y1) (x0 :: x1)) = x0 :: x1 := by
  unfold sinvQ sprodQ
  simp only [List.headD_cons, List.tail_cons, jdot, dot_cons]
  have hlen : y1.length = (smul y0 x1).length := by simp [smul, hl]
  have hdd : dot y1 (axpy x0 y1 (smul y0 x1)) = x0 * dot y1 y1 + y0 * dot y1 x1 := by
    rw [dot_axpy _ _ _ hlen, dot_smul_right]
  rw [hdd]
  congr 1
  · rw [div_eq_iff haa]; ring
  · apply axpy_cancel2 _ _ x0 _ haa _ y1 x1 hl y0
    · field_simp
    · field_simp
      ring

/-- **`ssqr` is `sprod` with itself on a 'q' block**: `(y ∘ y)₀ = ‖y‖²`, `(y ∘ y)₁ = 2y₀y₁`. -/
theorem C08_ssqr_q (y0 : Rat) (y1 : List Rat) :
    sprodQ (y0 :: y1) (y0 :: y1) = (y0 * y0 + dot y1 y1) :: y1.map (2 * y0 * ·) := by
  unfold sprodQ
  simp only [List.headD_cons, List.tail_cons, dot_cons, List.cons.injEq, true_and]
  induction y1 with
  | nil => rfl
  | cons a y1 ih => simp only [axpy, smul, List.map_cons, List.zipWith_cons_cons, List.cons.injEq] at ih ⊢
                    exact ⟨by ring, ih⟩

/-- **`triusc ∘ trisc` restores the lower triangle** of an 's' block of any order (the upper triangle is zeroed,
which is what `sgemv(trans='T')` relies on). -/
theorem C08_trisc_triusc (k : Nat) (b : List Rat) (i j : Nat) (hi : i < k) (hj : j < k) :
    ent k (triuscBlk k (triscBlk k b)) i j = if j ≤ i then ent k b i j else 0 := by
  unfold triuscBlk
  rw [ent_ofFn k _ i j hi hj]
  unfold triscBlk
  rw [ent_ofFn k _ i j hi hj]
  by_cases h1 : j < i
  · have : ¬ i < j := by omega
    simp only [h1, this, if_true, if_false]
    have : j ≤ i := by omega
    simp only [this, if_true]; ring
  · by_cases h2 : i < j
    · have : ¬ j ≤ i := by omega
      simp [h1, h2, this]
    · have : j ≤ i := by omega
      simp [h1, h2, this]

/-- **`symm` produces a symmetric matrix that agrees with the input on the lower triangle.** -/
theorem C08_symm (k : Nat) (b : List Rat) (i j : Nat) (hi : i < k) (hj : j < k) :
    ent k (symmBlk k b) i j = ent k (symmBlk k b) j i ∧ (j ≤ i → ent k (symmBlk k b) i j = ent k b i j) := by
  unfold symmBlk
  rw [ent_ofFn k _ i j hi hj, ent_ofFn k _ j i hj hi]
  unfold symEnt
  constructor
  · by_cases h : j ≤ i
    · by_cases h' : i ≤ j
      · have : i = j := by omega
        subst this; rfl
      · simp [h, h']
    · have : i ≤ j := by omega
      simp [h, this]
  · intro h; simp [h]

/-- the inner product of two 's' blocks is symmetric in its arguments -/
theorem C08_sdot_comm (k : Nat) (x y : List Rat) : sdotBlk k x y = sdotBlk k y x := by
  unfold sdotBlk
  congr 1; apply List.map_congr_left; intro j _
  congr 1; apply List.map_congr_left; intro i _
  split
  · ring
  · split
    · ring
    · rfl

/-- non-vacuity: a concrete second-order-cone scaling with hyperbolic norm one -/
example : scaleQinv 2 [5/4, 3/4, 0] (scaleQ 2 [5/4, 3/4, 0] [1, -2, 3]) = [1, -2, 3] := by decide +kernel

end CvxVerif.Kernels
