import CvxVerif.Gen.Decide
import Mathlib.Tactic.Module
import Mathlib.Tactic.FieldSimp
import Mathlib.Tactic.Linarith
import Mathlib.Tactic.Positivity
/-!
# C02 — infeasibility statuses carry valid Farkas certificates

Theorems about the generated termination block of `conelp` (`Gen/Decide.lean`): the two certificate
returns, their normalisations `1/(−hᵀz−bᵀy)` and `1/(−cᵀx)`, and the `None`-ing of the other half; plus the
mathematical content of "is a proof": a Farkas certificate excludes every feasible point.
-/
namespace CvxVerif.C02
open CvxVerif.LAM CvxVerif.Gen.Decide

variable {K X Y Z : Type} [Field K] [LinearOrder K] [IsStrictOrderedRing K]
  [AddCommGroup X] [Module K X] [AddCommGroup Y] [Module K Y] [AddCommGroup Z] [Module K Z]

theorem optCmp_some {o : Option K} {t : K} (h1 : o.isSome = true)
    (h2 : optCmp (fun a b => decide (a ≤ b)) o t = true) : ∃ r, o = some r ∧ r ≤ t := by
  cases o with
  | none => simp at h1
  | some r => exact ⟨r, rfl, by simpa [optCmp] using h2⟩

/-- **'primal infeasible' is a certificate.** If the termination block takes the third return, then with
`(y, z)` rescaled in place by `1/(−hᵀz−bᵀy)`: `hᵀz + bᵀy = −1` and `‖Gᵀz + Aᵀy‖ ≤ feastol · max(1,‖c‖)`
(`resx0`), and the reported residual is exactly that relative residual. -/
theorem C02_pinf_sound (E : Env K X Y Z) (hE : E.Lawful) (i : conelp.In K X Y Z)
    (ABSTOL FEASTOL RELTOL : K) (MAXITERS iters : Nat) (hx0 : 0 < i.resx0) :
    let st := conelp.stats E i
    conelp.branch ABSTOL FEASTOL MAXITERS RELTOL st.dinfres st.dres i.gap st.pinfres st.pres st.relgap iters
        = conelp.Branch.ret 2 →
    let r := conelp.epilogue2 i.x i.y i.s i.z st.by_ st.hz
    E.dZ i.h r.2.2.2 + E.dY i.b r.2.1 = -1 ∧
    E.nX (E.Gt r.2.2.2 + E.At r.2.1) ≤ FEASTOL * i.resx0 ∧
    st.pinfres = some (E.nX (E.Gt r.2.2.2 + E.At r.2.1) / i.resx0) := by
  intro st hb r
  have hc : st.pinfres.isSome = true ∧ optCmp (fun a b => decide (a ≤ b)) st.pinfres FEASTOL = true := by
    simp only [conelp.branch] at hb
    split at hb
    · split at hb <;> cases hb
    · split at hb
      · rename_i h; simpa using h
      · split at hb <;> cases hb
  obtain ⟨rg, hrg, hle⟩ := optCmp_some hc.1 hc.2
  -- pinfres is `some` only when hz + by < 0
  have hdef : st.pinfres = if decide (st.hz + st.by_ < 0) then
      some (E.nX ((-(1:K)) • E.Gt i.z + (1:K) • ((-(1:K)) • E.At i.y + (0:K) • 0)) / i.resx0 / (-st.hz - st.by_)) else none := rfl
  have hneg : st.hz + st.by_ < 0 := by
    by_contra hcon
    rw [hdef] at hrg; simp [hcon] at hrg
  have hpos : 0 < -st.hz - st.by_ := by linarith
  have hne : -st.hz - st.by_ ≠ 0 := hpos.ne'
  rw [hdef] at hrg
  simp only [hneg, decide_true, if_true, Option.some.injEq] at hrg
  have e1 : E.Gt r.2.2.2 + E.At r.2.1 =
      (-(1 / (-st.hz - st.by_))) • ((-(1:K)) • E.Gt i.z + (1:K) • ((-(1:K)) • E.At i.y + (0:K) • 0)) := by
    simp only [r, conelp.epilogue2, map_smul]
    match_scalars <;> first | (field_simp; done) | ring | (field_simp; ring)
  have habs : |(-(1 / (-st.hz - st.by_)))| = 1 / (-st.hz - st.by_) := by
    rw [abs_neg, abs_of_pos (by positivity)]
  have hval : E.nX (E.Gt r.2.2.2 + E.At r.2.1) / i.resx0 = rg := by
    rw [e1, hE.nX_smul, habs, ← hrg]; field_simp
  refine ⟨?_, ?_, ?_⟩
  · show E.dZ i.h ((1 / (-st.hz - st.by_)) • i.z) + E.dY i.b ((1 / (-st.hz - st.by_)) • i.y) = -1
    rw [hE.dZ_smul, hE.dY_smul]
    have h1 : E.dZ i.h i.z = st.hz := rfl
    have h2 : E.dY i.b i.y = st.by_ := rfl
    rw [h1, h2]; field_simp; ring
  · rw [← hval] at hle
    rwa [div_le_iff₀ hx0] at hle
  · rw [hdef]; simp only [hneg, decide_true, if_true, Option.some.injEq]; rw [hrg, hval]

/-- **'dual infeasible' is a certificate.** With `(x, s)` rescaled by `1/(−cᵀx)`: `cᵀx = −1`,
`‖Gx + s‖ ≤ feastol·max(1,‖h‖)` and `‖Ax‖ ≤ feastol·max(1,‖b‖)`. -/
theorem C02_dinf_sound (E : Env K X Y Z) (hE : E.Lawful) (i : conelp.In K X Y Z)
    (ABSTOL FEASTOL RELTOL : K) (MAXITERS iters : Nat) (hy0 : 0 < i.resy0) (hz0 : 0 < i.resz0) :
    let st := conelp.stats E i
    conelp.branch ABSTOL FEASTOL MAXITERS RELTOL st.dinfres st.dres i.gap st.pinfres st.pres st.relgap iters
        = conelp.Branch.ret 3 →
    let r := conelp.epilogue3 i.x i.y i.s i.z st.cx
    E.dX i.c r.1 = -1 ∧
    E.nY (E.A r.1) ≤ FEASTOL * i.resy0 ∧
    E.nZ (E.G r.1 + r.2.2.1) ≤ FEASTOL * i.resz0 := by
  intro st hb r
  have hc : st.dinfres.isSome = true ∧ optCmp (fun a b => decide (a ≤ b)) st.dinfres FEASTOL = true := by
    simp only [conelp.branch] at hb
    split at hb
    · split at hb <;> cases hb
    · split at hb
      · cases hb
      · split at hb
        · rename_i h; simpa using h
        · cases hb
  obtain ⟨rg, hrg, hle⟩ := optCmp_some hc.1 hc.2
  have hdef : st.dinfres = if decide (st.cx < 0) then
      some (max (E.nY ((1:K) • E.A i.x + (0:K) • 0) / i.resy0)
                (E.nZ ((1:K) • E.G i.x + (0:K) • 0 + (1:K) • i.s) / i.resz0) / (-st.cx)) else none := by
    first | rfl | (rw [max_comm]; rfl)          -- (the order of the two arguments of max in the source does not matter)
  have hneg : st.cx < 0 := by
    by_contra hcon
    rw [hdef] at hrg; simp [hcon] at hrg
  have hpos : 0 < -st.cx := by linarith
  have hne : -st.cx ≠ 0 := hpos.ne'
  rw [hdef] at hrg
  simp only [hneg, decide_true, if_true, Option.some.injEq] at hrg
  have habs : |(1 / (-st.cx))| = 1 / (-st.cx) := abs_of_pos (by positivity)
  have e2 : E.A r.1 = (1 / (-st.cx)) • ((1:K) • E.A i.x + (0:K) • 0) := by
    simp only [r, conelp.epilogue3, map_smul]
    match_scalars <;> first | (field_simp; done) | ring | (field_simp; ring)
  have e3 : E.G r.1 + r.2.2.1 = (1 / (-st.cx)) • ((1:K) • E.G i.x + (0:K) • 0 + (1:K) • i.s) := by
    simp only [r, conelp.epilogue3, map_smul]
    match_scalars <;> first | (field_simp; done) | ring | (field_simp; ring)
  have hmax := hrg ▸ hle
  rw [div_le_iff₀ hpos] at hmax
  refine ⟨?_, ?_, ?_⟩
  · show E.dX i.c ((1 / (-st.cx)) • i.x) = -1
    rw [hE.dX_smul]
    have h1 : E.dX i.c i.x = st.cx := rfl
    have hcx : st.cx ≠ 0 := hneg.ne
    rw [h1]; field_simp
  · rw [e2, hE.nY_smul, habs]
    have h1 : E.nY ((1:K) • E.A i.x + (0:K) • 0) / i.resy0 ≤ _ := le_trans (by first | exact le_max_left _ _ | exact le_max_right _ _) hmax
    rw [div_le_iff₀ hy0] at h1
    calc _ = E.nY ((1:K) • E.A i.x + (0:K) • 0) / (-st.cx) := by ring
      _ ≤ _ := by rw [div_le_iff₀ hpos]; linarith
  · rw [e3, hE.nZ_smul, habs]
    have h1 : E.nZ ((1:K) • E.G i.x + (0:K) • 0 + (1:K) • i.s) / i.resz0 ≤ _ := le_trans (by first | exact le_max_left _ _ | exact le_max_right _ _) hmax
    rw [div_le_iff₀ hz0] at h1
    calc _ = E.nZ ((1:K) • E.G i.x + (0:K) • 0 + (1:K) • i.s) / (-st.cx) := by ring
      _ ≤ _ := by rw [div_le_iff₀ hpos]; linarith

/-- **The certificate residuals are normalised as documented**: the residual of a dual infeasibility certificate is measured against
`max(1, ‖h‖)` with the *cone* norm of `h` (only the lower triangles of its 's' blocks are read) and `max(1, ‖b‖)`, that of a primal
infeasibility certificate against `max(1, ‖c‖)` — the same normalisers `C02_pinf_sound` / `C02_dinf_sound` take as `resx0`, `resy0`, `resz0`. -/
theorem C02_normalisers (E : Env K X Y Z) (c : X) (b : Y) (h : Z) :
    conelp.resx0Def E c b h = max 1 (E.nX c) ∧ conelp.resy0Def E c b h = max 1 (E.nY b) ∧ conelp.resz0Def E c b h = max 1 (E.nZ h) :=
  ⟨by first | rfl | (rw [max_comm]; rfl), by first | rfl | (rw [max_comm]; rfl), by first | rfl | (rw [max_comm]; rfl)⟩

/-- the certificate returns set the other half of the solution to `None` and report the documented constants -/
theorem C02_result_maps :
    (conelp.returns[2]?).map (fun r => (r.1.filter (fun kv => ["x", "s", "y", "z", "status", "primal objective", "dual objective",
        "residual as primal infeasibility certificate"].contains kv.1))) = some
      [("x", "None"), ("y", "y"), ("s", "None"), ("z", "z"), ("status", "'primal infeasible'"),
       ("primal objective", "None"), ("dual objective", "1.0"),
       ("residual as primal infeasibility certificate", "pinfres")] ∧
    (conelp.returns[3]?).map (fun r => (r.1.filter (fun kv => ["x", "s", "y", "z", "status", "primal objective", "dual objective",
        "residual as dual infeasibility certificate"].contains kv.1))) = some
      [("x", "x"), ("y", "None"), ("s", "s"), ("z", "None"), ("status", "'dual infeasible'"),
       ("primal objective", "-1.0"), ("dual objective", "None"),
       ("residual as dual infeasibility certificate", "dinfres")] := by decide

/-- the certificate vectors handed out by the two infeasibility returns have all their 's' blocks symmetrised with the correct
offsets (start after the 'l' and 'q' parts, stride `m²`): a wrong walk corrupts `z` / `s` only when there are several 's' blocks -/
theorem C02_certificate_symm_walk :
    (conelp.returns[2]?).map (·.2.filter (·.1 = "symm")) = some [("symm", "z", "order m over dims['s'] from dims['l'] + sum(dims['q']) step m ** 2")] ∧
    (conelp.returns[3]?).map (·.2.filter (·.1 = "symm")) = some [("symm", "s", "order m over dims['s'] from dims['l'] + sum(dims['q']) step m ** 2")] := by decide

/-- **A Farkas certificate is a proof of infeasibility** (the mathematical content, over any ordered field
and any cone pair with `⟨s, z⟩ ≥ 0`): if `Gᵀz + Aᵀy = 0` and `hᵀz + bᵀy < 0` with `z` in the dual cone, then no
`x` and `s` in the cone satisfy `Gx + s = h`, `Ax = b`.  `dX, dY, dZ` are only required to be adjoint-compatible. -/
theorem C02_farkas_primal (E : Env K X Y Z)
    (adjG : ∀ x z, E.dZ (E.G x) z = E.dX x (E.Gt z)) (adjA : ∀ x y, E.dY (E.A x) y = E.dX x (E.At y))
    (addX : ∀ x u v, E.dX x (u + v) = E.dX x u + E.dX x v) (zeroX : ∀ x, E.dX x 0 = 0)
    (addZ : ∀ u v z, E.dZ (u + v) z = E.dZ u z + E.dZ v z)
    (cone : Z → Prop) (dual : Z → Prop) (hpair : ∀ s z, cone s → dual z → 0 ≤ E.dZ s z)
    (h : Z) (b : Y) (y : Y) (z : Z) (hz : dual z)
    (hcert : E.Gt z + E.At y = 0) (hneg : E.dZ h z + E.dY b y < 0) :
    ¬ ∃ x s, cone s ∧ E.G x + s = h ∧ E.A x = b := by
  rintro ⟨x, s, hs, hG, hA⟩
  have h1 : E.dZ h z = E.dX x (E.Gt z) + E.dZ s z := by rw [← hG, addZ, adjG]
  have h2 : E.dY b y = E.dX x (E.At y) := by rw [← hA, adjA]
  have h3 : E.dX x (E.Gt z) + E.dX x (E.At y) = 0 := by rw [← addX, hcert, zeroX]
  have h4 := hpair s z hs hz
  linarith

end CvxVerif.C02
