import CvxVerif.Model.CertCheck
import Mathlib.Algebra.BigOperators.Intervals
import Mathlib.Tactic.Linarith
/-! Soundness of the cone-membership parts of the rational certificate checker. -/
namespace CvxVerif.Cert
open Finset

theorem list_range_sum (f : ℕ → Rat) (n : ℕ) : ((List.range n).map f).sum = ∑ i ∈ Finset.range n, f i := by
  induction n with
  | zero => simp
  | succ n ih => rw [List.sum_range_succ, Finset.sum_range_succ, ih]

/-- the quadratic form of the symmetric matrix stored in the lower triangle of `blk` -/
def quadForm (k : ℕ) (blk : List Rat) (u : ℕ → Rat) : Rat :=
  ∑ i ∈ Finset.range k, ∑ j ∈ Finset.range k, u i * symEntry k blk i j * u j

theorem quad_of_factor (k : ℕ) (S : ℕ → ℕ → Rat) (L : ℕ → ℕ → Rat) (D : ℕ → Rat) (u : ℕ → Rat)
    (hS : ∀ i ∈ Finset.range k, ∀ j ∈ Finset.range k, S i j = ∑ t ∈ Finset.range k, L i t * D t * L j t) :
    ∑ i ∈ Finset.range k, ∑ j ∈ Finset.range k, u i * S i j * u j =
      ∑ t ∈ Finset.range k, D t * (∑ i ∈ Finset.range k, u i * L i t) ^ 2 := by
  have h1 : ∑ i ∈ Finset.range k, ∑ j ∈ Finset.range k, u i * S i j * u j =
      ∑ i ∈ Finset.range k, ∑ j ∈ Finset.range k, ∑ t ∈ Finset.range k, D t * ((u i * L i t) * (u j * L j t)) := by
    apply Finset.sum_congr rfl; intro i hi
    apply Finset.sum_congr rfl; intro j hj
    rw [hS i hi j hj, Finset.mul_sum, Finset.sum_mul]
    apply Finset.sum_congr rfl; intro t _; ring
  rw [h1]
  have h2 : ∀ i ∈ Finset.range k, ∑ j ∈ Finset.range k, ∑ t ∈ Finset.range k, D t * ((u i * L i t) * (u j * L j t)) =
      ∑ t ∈ Finset.range k, ∑ j ∈ Finset.range k, D t * ((u i * L i t) * (u j * L j t)) :=
    fun i _ => Finset.sum_comm
  rw [Finset.sum_congr rfl h2, Finset.sum_comm]
  apply Finset.sum_congr rfl; intro t _
  rw [sq, Finset.sum_mul_sum, Finset.mul_sum]
  apply Finset.sum_congr rfl; intro i _
  rw [Finset.mul_sum]

/-- **Soundness of the PSD witness check.** If `S = L·diag(D)·Lᵀ` entrywise and `D ≥ 0`, the quadratic form
of `S` is nonnegative for every vector. -/
theorem psdWitness_sound (k : ℕ) (blk : List Rat) (L : List (List Rat)) (D : List Rat)
    (h : psdWitnessOk k blk L D = true) (u : ℕ → Rat) : 0 ≤ quadForm k blk u := by
  simp only [psdWitnessOk, Bool.and_eq_true, List.all_eq_true, List.mem_range, beq_iff_eq,
    decide_eq_true_eq] at h
  obtain ⟨hS, hD⟩ := h
  unfold quadForm
  rw [quad_of_factor k (symEntry k blk) (fun i t => (L.getD i []).getD t 0) (fun t => D.getD t 0) u]
  · apply Finset.sum_nonneg; intro t ht
    exact mul_nonneg (hD t (Finset.mem_range.mp ht)) (sq_nonneg _)
  · intro i hi j hj
    rw [hS i (Finset.mem_range.mp hi) j (Finset.mem_range.mp hj), list_range_sum]

/-- **Soundness of the semidefinite-cone check**: an accepted block has a positive semidefinite lower-triangle
symmetrisation (or is the empty block). -/
theorem inS1_sound (k : ℕ) (blk : List Rat) (h : inS1 k blk = true) (u : ℕ → Rat) : 0 ≤ quadForm k blk u := by
  unfold inS1 at h
  split at h
  · have : k = 0 := by simpa using h
    subst this; simp [quadForm]
  · exact psdWitness_sound k blk _ _ h u

/-- **Soundness of the second-order-cone check** (squares instead of square roots):
`0 ≤ s₀` and `Σ s₁ᵢ² ≤ s₀²`. -/
theorem inQ_sound (s0 : Rat) (t : List Rat) (h : inQ (s0 :: t) = true) :
    0 ≤ s0 ∧ (t.map fun a => a * a).sum ≤ s0 * s0 := by
  simpa [inQ] using h

/-- comparison through squares is comparison of norms: for `0 ≤ r, 0 ≤ tol, 0 ≤ v`,
`r² ≤ tol²·max(1, v²)` iff `r ≤ tol·max(1, v)` -/
theorem relLe_sound (r tol v : Rat) (_hr : 0 ≤ r) (ht : 0 ≤ tol) (hv : 0 ≤ v)
    (h : relLe (r * r) tol (v * v) = true) : r ≤ tol * max 1 v := by
  simp only [relLe, decide_eq_true_eq] at h
  have hm : max 1 (v * v) = max 1 v * max 1 v := by
    rcases le_total 1 v with h1 | h1
    · have : 1 ≤ v * v := by nlinarith
      rw [max_eq_right this, max_eq_right h1]
    · have : v * v ≤ 1 := by nlinarith
      rw [max_eq_left this, max_eq_left h1]; ring
  rw [hm] at h
  have hpos : 0 ≤ tol * max 1 v := mul_nonneg ht (le_trans zero_le_one (le_max_left _ _))
  by_contra hcon
  rw [not_le] at hcon
  nlinarith

end CvxVerif.Cert
