import CvxVerif.Gen.LapackWrap
import Mathlib.Tactic.SplitIfs

/-!
C18 — the wrappers that *generate* Q from elementary reflectors (`orgqr`, `ungqr`, `orglq`, `unglq`) return early without calling LAPACK only
when the result is empty.  With `k = 0` reflectors Q is the identity and LAPACK must still be called to write it: "nothing to do" is `m = 0 ∨ n = 0`,
not `k = 0` (that shortcut is right for the routines that *apply* Q, not for these).  The argument checks are regenerated from lapack.c on every
run (`Gen/LapackWrap.lean`).
-/
namespace CvxVerif.C18Quick
open CvxVerif.CWrap CvxVerif.Gen.Lapack

/-- `orgqr` skips the LAPACK call only for an empty result -/
theorem C18_orgqr_quick_return (A_id : Int) (A_isMat : Bool) (A_len A_ncols A_nrows tau_id : Int) (tau_isMat : Bool) (tau_len k ldA m n oA : Int) :
    orgqr A_id A_isMat A_len A_ncols A_nrows tau_id tau_isMat tau_len k ldA m n oA = .none →
      (if m < 0 then A_nrows else m) = 0 ∨ (if n < 0 then min A_nrows A_ncols else n) = 0 := by
  intro h
  unfold orgqr at h
  simp only [withVal] at h
  generalize (if m < 0 then A_nrows else m) = m1 at h ⊢
  generalize (if n < 0 then min A_nrows A_ncols else n) = n1 at h ⊢
  generalize (if k < 0 then tau_len else k) = k1 at h
  generalize (if ldA = 0 then max 1 A_nrows else ldA) = l1 at h
  split_ifs at h <;> simp_all

/-- `ungqr` skips the LAPACK call only for an empty result -/
theorem C18_ungqr_quick_return (A_id : Int) (A_isMat : Bool) (A_len A_ncols A_nrows tau_id : Int) (tau_isMat : Bool) (tau_len k ldA m n oA : Int) :
    ungqr A_id A_isMat A_len A_ncols A_nrows tau_id tau_isMat tau_len k ldA m n oA = .none →
      (if m < 0 then A_nrows else m) = 0 ∨ (if n < 0 then min A_nrows A_ncols else n) = 0 := by
  intro h
  unfold ungqr at h
  simp only [withVal] at h
  generalize (if m < 0 then A_nrows else m) = m1 at h ⊢
  generalize (if n < 0 then min A_nrows A_ncols else n) = n1 at h ⊢
  generalize (if k < 0 then tau_len else k) = k1 at h
  generalize (if ldA = 0 then max 1 A_nrows else ldA) = l1 at h
  split_ifs at h <;> simp_all

/-- `orglq` skips the LAPACK call only for an empty result -/
theorem C18_orglq_quick_return (A_id : Int) (A_isMat : Bool) (A_len A_ncols A_nrows tau_id : Int) (tau_isMat : Bool) (tau_len k ldA m n oA : Int) :
    orglq A_id A_isMat A_len A_ncols A_nrows tau_id tau_isMat tau_len k ldA m n oA = .none →
      (if m < 0 then min A_nrows A_ncols else m) = 0 ∨ (if n < 0 then A_ncols else n) = 0 := by
  intro h
  unfold orglq at h
  simp only [withVal] at h
  generalize (if m < 0 then min A_nrows A_ncols else m) = m1 at h ⊢
  generalize (if n < 0 then A_ncols else n) = n1 at h ⊢
  generalize (if k < 0 then tau_len else k) = k1 at h
  generalize (if ldA = 0 then max 1 A_nrows else ldA) = l1 at h
  split_ifs at h <;> simp_all

/-- `unglq` skips the LAPACK call only for an empty result -/
theorem C18_unglq_quick_return (A_id : Int) (A_isMat : Bool) (A_len A_ncols A_nrows tau_id : Int) (tau_isMat : Bool) (tau_len k ldA m n oA : Int) :
    unglq A_id A_isMat A_len A_ncols A_nrows tau_id tau_isMat tau_len k ldA m n oA = .none →
      (if m < 0 then min A_nrows A_ncols else m) = 0 ∨ (if n < 0 then A_ncols else n) = 0 := by
  intro h
  unfold unglq at h
  simp only [withVal] at h
  generalize (if m < 0 then min A_nrows A_ncols else m) = m1 at h ⊢
  generalize (if n < 0 then A_ncols else n) = n1 at h ⊢
  generalize (if k < 0 then tau_len else k) = k1 at h
  generalize (if ldA = 0 then max 1 A_nrows else ldA) = l1 at h
  split_ifs at h <;> simp_all

/-- not vacuous: a 4 x 3 array with no reflectors (`k = 0`, empty `tau`) reaches LAPACK -/
example : orgqr 1 true 12 3 4 1 true 0 (-1) 0 (-1) (-1) 0 = .call [0, 4, 4, 3, 0] := by decide

end CvxVerif.C18Quick
