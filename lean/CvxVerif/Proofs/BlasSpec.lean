import CvxVerif.Model.BlasSpec
/-! Frame lemmas for the reference BLAS semantics: an operation changes only the elements of its output view. -/
namespace CvxVerif.BlasSpec
open CvxVerif.Dense

theorem getD_set_ne (b : Buf) (p q : Nat) (v : Num) (h : p ≠ q) : (b.set p v).getD q zero = b.getD q zero := by
  simp [List.getD_eq_getElem?_getD, h]

theorem foldl_set_frame {α : Type} (l : List α) (pos : α → Nat) (val : α → Num) (b : Buf) (q : Nat)
    (hq : ∀ a ∈ l, pos a ≠ q) :
    (l.foldl (fun b a => b.set (pos a) (val a)) b).getD q zero = b.getD q zero := by
  induction l generalizing b with
  | nil => rfl
  | cons a as ih =>
    simp only [List.foldl_cons]
    rw [ih _ (fun x hx => hq x (List.mem_cons_of_mem _ hx))]
    exact getD_set_ne b _ _ _ (hq a List.mem_cons_self)

theorem foldl_set_length {α : Type} (l : List α) (pos : α → Nat) (val : α → Num) (b : Buf) :
    (l.foldl (fun b a => b.set (pos a) (val a)) b).length = b.length := by
  induction l generalizing b with
  | nil => rfl
  | cons a as ih => simp only [List.foldl_cons]; rw [ih]; simp

/-- **Frame of a strided write**: positions that are not of the form `vpos off n inc k`, `k < n`, keep their value. -/
theorem vwrite_frame (b : Buf) (off : Int) (n : Nat) (inc : Int) (vals : List Num) (q : Nat)
    (hq : ∀ k, k < n → vpos off n inc k ≠ q) : (vwrite b off n inc vals).getD q zero = b.getD q zero := by
  unfold vwrite
  apply foldl_set_frame
  intro a ha
  have : a.1 < n := by
    have := List.of_mem_zip ha
    simpa using this.1
  exact hq a.1 this

theorem vwrite_length (b : Buf) (off : Int) (n : Nat) (inc : Int) (vals : List Num) :
    (vwrite b off n inc vals).length = b.length := by
  unfold vwrite; exact foldl_set_length _ _ _ _

/-- **Frame of a block update**: a double loop of `mset` over `i < m`, `j < n` changes only the positions
`off + i + j·ld` of the block. -/
theorem block_frame (m n : Nat) (off ld : Int) (f : Buf → Nat → Nat → Num) (b : Buf) (q : Nat)
    (hq : ∀ i j, i < m → j < n → (off + i + j * ld).toNat ≠ q) :
    ((List.range n).foldl (fun B j => (List.range m).foldl (fun B i => mset B off ld i j (f B i j)) B) b).getD q zero
      = b.getD q zero := by
  have inner : ∀ (j : Nat), j < n → ∀ (B : Buf) (l : List Nat), (∀ i ∈ l, i < m) →
      (l.foldl (fun B i => mset B off ld i j (f B i j)) B).getD q zero = B.getD q zero := by
    intro j hj B l
    induction l generalizing B with
    | nil => intro _; rfl
    | cons i is ih =>
      intro hl
      simp only [List.foldl_cons]
      rw [ih _ (fun x hx => hl x (List.mem_cons_of_mem _ hx))]
      exact getD_set_ne B _ _ _ (hq i j (hl i List.mem_cons_self) hj)
  have outer : ∀ (l : List Nat), (∀ j ∈ l, j < n) → ∀ (B : Buf),
      (l.foldl (fun B j => (List.range m).foldl (fun B i => mset B off ld i j (f B i j)) B) B).getD q zero = B.getD q zero := by
    intro l
    induction l with
    | nil => intro _ B; rfl
    | cons j js ih =>
      intro hl B
      simp only [List.foldl_cons]
      rw [ih (fun x hx => hl x (List.mem_cons_of_mem _ hx))]
      exact inner j (hl j List.mem_cons_self) B _ (fun i hi => List.mem_range.mp hi)
  exact outer _ (fun j hj => List.mem_range.mp hj) b

/-- **Frame of any double loop of updates**: if every single update leaves position `q` alone, so does the nested fold -/
theorem fold2_frame {α β : Type} (l1 : List α) (l2 : List β) (g : Buf → α → β → Buf) (q : Nat)
    (hg : ∀ (B : Buf) a b, a ∈ l1 → b ∈ l2 → (g B a b).getD q zero = B.getD q zero) (b0 : Buf) :
    (l1.foldl (fun B a => l2.foldl (fun B b => g B a b) B) b0).getD q zero = b0.getD q zero := by
  have inner : ∀ a, a ∈ l1 → ∀ (l : List β), (∀ b ∈ l, b ∈ l2) → ∀ (B : Buf),
      (l.foldl (fun B b => g B a b) B).getD q zero = B.getD q zero := by
    intro a ha l
    induction l with
    | nil => intro _ B; rfl
    | cons b bs ih =>
      intro hl B
      simp only [List.foldl_cons]
      rw [ih (fun x hx => hl x (List.mem_cons_of_mem _ hx))]
      exact hg B a b ha (hl b List.mem_cons_self)
  have outer : ∀ (l : List α), (∀ a ∈ l, a ∈ l1) → ∀ (B : Buf),
      (l.foldl (fun B a => l2.foldl (fun B b => g B a b) B) B).getD q zero = B.getD q zero := by
    intro l
    induction l with
    | nil => intro _ B; rfl
    | cons a as ih =>
      intro hl B
      simp only [List.foldl_cons]
      rw [ih (fun x hx => hl x (List.mem_cons_of_mem _ hx))]
      exact inner a (hl a List.mem_cons_self) l2 (fun _ h => h) B
  exact outer l1 (fun _ h => h) b0

end CvxVerif.BlasSpec
