import CvxVerif.Proofs.Kernels
import Mathlib.Data.List.GetD
import Mathlib.Algebra.BigOperators.Group.List.Basic
/-! Indexing and inner products of the packed storage of 's' blocks. -/
namespace CvxVerif.Kernels

/-- element `t` of piece `j` of a flattened list of lists sits at (total length of the earlier pieces) + t -/
theorem getD_flatten_offset (L : List (List Rat)) (j t : Nat) (hj : j < L.length) (ht : t < (L[j]).length) (d : Rat) :
    (L.flatten).getD (((L.take j).map List.length).sum + t) d = (L[j]).getD t d := by
  induction L generalizing j with
  | nil => simp at hj
  | cons l L ih =>
    cases j with
    | zero =>
      simp only [List.take_zero, List.map_nil, List.sum_nil, Nat.zero_add, List.flatten_cons, List.getElem_cons_zero]
      simp only [List.getElem_cons_zero] at ht
      rw [List.getD_append _ _ _ _ ht]
    | succ j =>
      simp only [List.take_succ_cons, List.map_cons, List.sum_cons, List.flatten_cons, List.getElem_cons_succ]
      simp only [List.getElem_cons_succ] at ht
      have hj' : j < L.length := by simpa using hj
      rw [List.getD_append_right _ _ _ _ (by omega)]
      have : l.length + ((L.take j).map List.length).sum + t - l.length = ((L.take j).map List.length).sum + t := by omega
      rw [this]
      exact ih j hj' ht

/-- the pieces of a packed block: column `j` has `k - j` entries, so column `j` starts at `poff k j` -/
theorem sum_lengths_pack (k : Nat) (f : Nat → List Rat) (hf : ∀ j, (f j).length = k - j) (j : Nat) (hj : j ≤ k) :
    ((((List.range k).map f).take j).map List.length).sum = poff k j := by
  induction j with
  | zero => simp [poff]
  | succ j ih =>
    have hjk : j < k := by omega
    have hlen : j < ((List.range k).map f).length := by simpa using hjk
    rw [List.take_succ_eq_append_getElem hlen, List.map_append, List.sum_append, ih (by omega)]
    simp [poff, hf]

theorem pent_packBlk (r : Rat) (k : Nat) (b : List Rat) (i j : Nat) (hi : i < k) (hji : j ≤ i) :
    pent k (packBlk r k b) i j = if i = j then ent k b j j else r * ent k b i j := by
  unfold pent packBlk
  set f : Nat → List Rat := fun j => (List.range (k - j)).map fun t => if t = 0 then ent k b j j else r * ent k b (j + t) j with hf
  have hlenf : ∀ c, (f c).length = k - c := by intro c; simp [hf]
  have hjk : j < k := by omega
  have hL : j < ((List.range k).map f).length := by simpa using hjk
  have hpiece : ((List.range k).map f)[j] = f j := by simp
  have ht : i - j < (((List.range k).map f)[j]).length := by rw [hpiece, hlenf]; omega
  have h := getD_flatten_offset ((List.range k).map f) j (i - j) hL ht 0
  rw [sum_lengths_pack k f hlenf j (by omega)] at h
  rw [List.flatMap_def, h, hpiece]
  have hij : i - j < k - j := by omega
  simp only [hf, List.getD_eq_getElem?_getD, List.getElem?_map, List.getElem?_range hij, Option.map_some, Option.getD_some]
  by_cases e : i = j
  · subst e; simp
  · have : i - j ≠ 0 := by omega
    have h2 : j + (i - j) = i := by omega
    simp [this, e, h2]

/-- inner product of two flattened families with piecewise equal lengths -/
theorem dot_flatMap (l : List Nat) (f g : Nat → List Rat) (h : ∀ a, (f a).length = (g a).length) :
    dot (l.flatMap f) (l.flatMap g) = (l.map fun a => dot (f a) (g a)).sum := by
  induction l with
  | nil => simp [dot]
  | cons a l ih =>
    simp only [List.flatMap_cons, List.map_cons, List.sum_cons]
    unfold dot at ih ⊢
    rw [List.zipWith_append (h a), List.sum_append, ih]

theorem dot_map_range (n : Nat) (p q : Nat → Rat) :
    dot ((List.range n).map p) ((List.range n).map q) = ((List.range n).map fun t => p t * q t).sum := by
  unfold dot
  rw [List.zipWith_map_left, List.zipWith_map_right]
  congr 1
  induction List.range n with
  | nil => rfl
  | cons a l ih => simp [ih]

/-- a sum over `range (j + d)` whose terms vanish below `j` -/
theorem sum_range_shift (g : Nat → Rat) (j d : Nat) (h0 : ∀ i, i < j → g i = 0) :
    ((List.range (j + d)).map g).sum = ((List.range d).map fun t => g (j + t)).sum := by
  induction d with
  | zero =>
    simp only [Nat.add_zero, List.range_zero, List.map_nil, List.sum_nil]
    apply List.sum_eq_zero
    intro x hx
    simp only [List.mem_map, List.mem_range] at hx
    obtain ⟨i, hi, rfl⟩ := hx
    exact h0 i hi
  | succ d ih =>
    rw [← Nat.add_assoc, List.range_succ, List.map_append, List.sum_append, ih, List.range_succ, List.map_append, List.sum_append]
    simp

end CvxVerif.Kernels
