"""C10: fault injection into the KKT factor / solve calls of conelp, coneqp, cpl, cp (exhaustive over the calls of the
fault-free run) vs the generated site model (Gen/Faults.lean via Drivers/C10.lean); domain-refusing F; malformed
arguments."""
import os, sys, json, random, io, contextlib, math
import vlib
sys.path.insert(0, os.path.join(vlib.VERIF, 'tools', 'translate'))

LEAN_TARGETS = ['CvxVerif.Props.C10', 'CvxVerif.Props.C10Exits']
MODEL_FILES = ['CvxVerif.Model.Faults', 'CvxVerif.Gen.Faults', 'CvxVerif.Gen.Exits']
LEVEL = 'proof'
TRUSTED = ['translator tools/translate/py2lean_exits.py (every `return {...}` of the main loops with its rescalings, symmetrisation walks and slack definitions -> Gen/Exits.lean)',
           'translator tools/translate/py2lean.py gen_faults (KKT call sites, enclosing except ArithmeticError handlers and their '
           'control paths, raise statements) and the fixed semantics Model/Faults.lean; every injected fault is located in the '
           'generated table through the live Python frame (line number, iters, relaxed_iters) and its real outcome is compared '
           'with the outcome the model predicts']
ASSUMPTIONS = ['a failure of the KKT solver is an ArithmeticError raised by the callable passed as kktsolver (what LAPACK/CHOLMOD '
               'wrappers raise); the numerical quality of the state restored by cpl is not modelled']

def translate(ctx):
    import py2lean
    probs = []
    try: py2lean.gen_faults()
    except Exception as e: probs.append('py2lean.gen_faults: %s: %s' % (type(e).__name__, e))
    try:
        import py2lean_exits; py2lean_exits.gen_exits()
    except Exception as e: probs.append('py2lean_exits.gen_exits: %s: %s' % (type(e).__name__, e))
    return probs

def quiet(f, *a, **k):
    with contextlib.redirect_stdout(io.StringIO()):
        return f(*a, **k)

class Injector:
    def __init__(self, frame_name, make_solver, fail_factor=(), fail_solve=()):
        self.frame_name, self.make = frame_name, make_solver
        self.ff, self.fs = set(fail_factor), set(fail_solve)
        self.nf = self.ns = 0
        self.log = []
        self.failed_at = None
    def where(self):
        f = sys._getframe(2)
        while f is not None:
            if f.f_code.co_name == self.frame_name and f.f_code.co_filename.endswith(('coneprog.py', 'cvxprog.py')):
                L = f.f_locals
                ri, mx = L.get('relaxed_iters'), L.get('MAX_RELAXED_ITERS')
                return {'line': f.f_lineno, 'iters': L.get('iters'),
                        'started': bool(L.get('primalstart')) and bool(L.get('dualstart')),
                        'relaxedMid': (ri is not None and mx is not None and 0 < ri < mx)}
            f = f.f_back
        return None
    def kktsolver(self, *args):
        self.nf += 1
        w = self.where()
        self.log.append(('factor', self.nf, w))
        if self.nf in self.ff:
            if self.failed_at is None: self.failed_at = ('factor', self.nf, w)
            raise ArithmeticError('injected factor failure %d' % self.nf)
        f = self.make(*args)
        def solve(x, y, z):
            self.ns += 1
            w2 = self.where()
            self.log.append(('solve', self.ns, w2))
            if self.ns in self.fs:
                if self.failed_at is None: self.failed_at = ('solve', self.ns, w2)
                raise ArithmeticError('injected solve failure %d' % self.ns)
            return f(x, y, z)
        return solve

DATA = {}

def base_problems(cvxopt, rng, count):
    """list of (name, frame_name, run(inj) -> result) with fresh data"""
    from cvxopt import matrix, spmatrix, solvers, misc, log, div, spdiag, blas
    out = []
    def rmat(m, n): return matrix([rng.randint(-3, 3) + rng.random() for _ in range(m * n)], (m, n))
    for i in range(count):
        n = rng.randint(2, 3)
        # --- conelp: min c'x s.t. Gx + s = h, s in l(m) x q(3) ; feasible by construction
        ml = n + 2
        G = matrix([rmat(ml, n), rmat(3, n)])
        x0 = rmat(n, 1)
        s0 = matrix([1.0 + rng.random() for _ in range(ml)] + [2.0, 0.5, -0.5])
        h = G * x0 + s0
        z0 = matrix([1.0 + rng.random() for _ in range(ml)] + [2.0, -0.3, 0.4])
        c = -G.T * z0
        dims = {'l': ml, 'q': [3], 's': []}
        A0 = matrix(0.0, (0, n))
        started = rng.random() < 0.3
        def run_conelp(inj, G=G, h=h, c=c, dims=dims, A0=A0, x0=x0, s0=s0, z0=z0, started=started):
            factor = misc.kkt_ldl(G, dims, A0)
            inj.make = lambda W: factor(W)
            kw = {}
            if started:
                kw = {'primalstart': {'x': +x0, 's': +s0}, 'dualstart': {'y': matrix(0.0, (0, 1)), 'z': +z0}}
            return quiet(solvers.conelp, c, G, h, dims, kktsolver=inj.kktsolver, options={'show_progress': False}, **kw)
        out.append(('conelp%d' % i, 'conelp', run_conelp))
        DATA['conelp%d' % i] = {'dims': dims, 'G': G, 'h': h, 'c': c, 'P': None}
        # --- conelp with an equality constraint: the multiplier y is part of what a failure exit hands back
        AE = rmat(1, n); bE = AE * x0; yE = matrix([rng.randint(-2, 2) + rng.random()])
        cE = -G.T * z0 - AE.T * yE
        def run_conelpE(inj, G=G, h=h, cE=cE, dims=dims, AE=AE, bE=bE):
            factor = misc.kkt_ldl(G, dims, AE)
            inj.make = lambda W: factor(W)
            return quiet(solvers.conelp, cE, G, h, dims, AE, bE, kktsolver=inj.kktsolver, options={'show_progress': False})
        out.append(('conelpE%d' % i, 'conelp', run_conelpE))
        DATA['conelpE%d' % i] = {'dims': dims, 'G': G, 'h': h, 'c': cE, 'P': None, 'A': AE, 'b': bE}
        # --- coneqp
        B = rmat(n, n); P = B.T * B + matrix([1.0 if a == b else 0.0 for a in range(n) for b in range(n)], (n, n)) * 0.1
        q = rmat(n, 1)
        def run_coneqp(inj, P=P, q=q, G=G, h=h, dims=dims, A0=A0):
            factor = misc.kkt_ldl(G, dims, A0)
            inj.make = lambda W: factor(W, P)
            return quiet(solvers.coneqp, P, q, G, h, dims, kktsolver=inj.kktsolver, options={'show_progress': False})
        out.append(('coneqp%d' % i, 'coneqp', run_coneqp))
        DATA['coneqp%d' % i] = {'dims': dims, 'G': G, 'h': h, 'c': q, 'P': P}
        # --- conelp / coneqp with two semidefinite blocks (orders 2 and 3) next to a componentwise block
        dS = {'l': 2, 'q': [], 's': [2, 3]}
        def symcol():
            col = [rng.randint(-3, 3) + rng.random() for _ in range(2)]
            for k in (2, 3):
                M_ = [[0.0] * k for _ in range(k)]
                for a in range(k):
                    for b_ in range(a, k):
                        v = rng.randint(-3, 3) + rng.random(); M_[a][b_] = v; M_[b_][a] = v
                col += [M_[a][b_] for b_ in range(k) for a in range(k)]
            return col
        GS = matrix([symcol() for _ in range(n)])
        eyeS = [1.5, 1.2] + [2.0, 0.3, 0.3, 1.5] + [2.0, 0.2, 0.0, 0.2, 1.8, -0.1, 0.0, -0.1, 1.6]
        s0S = matrix(eyeS); z0S = matrix([1.1, 0.9] + [1.0, -0.2, -0.2, 1.3] + [1.2, 0.0, 0.1, 0.0, 1.0, 0.2, 0.1, 0.2, 1.4])
        xS = rmat(n, 1); hS = GS * xS + s0S; cS = -GS.T * z0S
        def run_conelpS(inj, GS=GS, hS=hS, cS=cS, dS=dS, A0=A0):
            factor = misc.kkt_ldl(GS, dS, A0)
            inj.make = lambda W: factor(W)
            return quiet(solvers.conelp, cS, GS, hS, dS, kktsolver=inj.kktsolver, options={'show_progress': False})
        out.append(('conelpS%d' % i, 'conelp', run_conelpS))
        DATA['conelpS%d' % i] = {'dims': dS, 'G': GS, 'h': hS, 'c': cS, 'P': None}
        def run_coneqpS(inj, P=P, q=q, GS=GS, hS=hS, dS=dS, A0=A0):
            factor = misc.kkt_ldl(GS, dS, A0)
            inj.make = lambda W: factor(W, P)
            return quiet(solvers.coneqp, P, q, GS, hS, dS, kktsolver=inj.kktsolver, options={'show_progress': False})
        out.append(('coneqpS%d' % i, 'coneqp', run_coneqpS))
        DATA['coneqpS%d' % i] = {'dims': dS, 'G': GS, 'h': hS, 'c': q, 'P': P}
        # --- coneqp without inequality constraints (direct solve)
        Ae = rmat(1, n); be = rmat(1, 1)
        def run_coneqp0(inj, P=P, q=q, Ae=Ae, be=be, n=n):
            G0 = matrix(0.0, (0, n)); d0 = {'l': 0, 'q': [], 's': []}
            factor = misc.kkt_ldl(G0, d0, Ae)
            inj.make = lambda W: factor(W, P)
            return quiet(solvers.coneqp, P, q, None, None, None, Ae, be, kktsolver=inj.kktsolver,
                         options={'show_progress': False})
        out.append(('coneqp_nocone%d' % i, 'coneqp', run_coneqp0))
        # --- conelp / coneqp with user-defined vector types: x is a Python list of two dense blocks, G and A are functions, the KKT solver
        # works on the blocks (the documented xnewcopy / xdot / xaxpy / xscal interface): the solver must go through these hooks everywhere
        n1 = 1
        def xsplit(v): return [matrix(v[:n1], (n1, 1)), matrix(v[n1:], (len(v) - n1, 1))]
        def xjoin(u): return matrix([u[0], u[1]])
        def xnewcopy(u): return [+u[0], +u[1]]
        def xdot(u, v): return blas.dot(u[0], v[0]) + blas.dot(u[1], v[1])
        def xaxpy(u, v, alpha=1.0): blas.axpy(u[0], v[0], alpha); blas.axpy(u[1], v[1], alpha)
        def xscal(alpha, u): blas.scal(alpha, u[0]); blas.scal(alpha, u[1])
        def mkG(Gm):
            def Gf(u, v, alpha=1.0, beta=0.0, trans='N'):
                if trans == 'N':
                    blas.scal(beta, v); blas.gemv(Gm, xjoin(u), v, alpha=alpha, beta=1.0)
                else:
                    w_ = Gm.T * u; xscal(beta, v); blas.axpy(w_[:n1], v[0], alpha); blas.axpy(w_[n1:], v[1], alpha)
            return Gf
        def Afun(u, v, alpha=1.0, beta=0.0, trans='N'):
            if trans == 'N': blas.scal(beta, v)
            else: xscal(beta, v)
        def wrap_solver(f):
            def solve(x, y, z):
                xv = xjoin(x); f(xv, y, z); x[0][:] = xv[:n1]; x[1][:] = xv[n1:]
            return solve
        def run_conelp_custom(inj, G=G, h=h, c=c, dims=dims, A0=A0, xsplit=xsplit, mkG=mkG, Afun=Afun, wrap_solver=wrap_solver):
            factor = misc.kkt_ldl(G, dims, A0)
            inj.make = lambda W: wrap_solver(factor(W))
            return quiet(solvers.conelp, xsplit(c), mkG(G), h, dims, Afun, matrix(0.0, (0, 1)), kktsolver=inj.kktsolver, xnewcopy=xnewcopy, xdot=xdot, xaxpy=xaxpy, xscal=xscal,
                         options={'show_progress': False})
        out.append(('conelpX%d' % i, 'conelp', run_conelp_custom))
        def Pfun(u, v, alpha=1.0, beta=0.0, P=P):
            w_ = P * xjoin(u); xscal(beta, v); blas.axpy(w_[:n1], v[0], alpha); blas.axpy(w_[n1:], v[1], alpha)
        def run_coneqp_custom(inj, P=P, q=q, G=G, h=h, dims=dims, A0=A0, xsplit=xsplit, mkG=mkG, Afun=Afun, wrap_solver=wrap_solver, Pfun=Pfun):
            factor = misc.kkt_ldl(G, dims, A0)
            inj.make = lambda W: wrap_solver(factor(W, P))
            return quiet(solvers.coneqp, Pfun, xsplit(q), mkG(G), h, dims, Afun, matrix(0.0, (0, 1)), kktsolver=inj.kktsolver, xnewcopy=xnewcopy, xdot=xdot, xaxpy=xaxpy, xscal=xscal,
                         options={'show_progress': False})
        out.append(('coneqpX%d' % i, 'coneqp', run_coneqp_custom))
        # --- cpl / cp : min c'x - sum log(1 - x_i^2)-type constraint / objective, |x_i| < 1, plus box rows
        Gc = matrix([[1.0 if a == b else 0.0 for a in range(n)] for b in range(n)]); hc = matrix([0.3 + 0.5 * rng.random() for _ in range(n)])
        dl = {'l': n, 'q': [], 's': []}
        cc = rmat(n, 1)
        def Fcpl(x=None, z=None, n=n):
            if x is None: return 1, matrix(0.0, (n, 1))
            if max(abs(x)) >= 1.0: return None
            u = 1 - x**2
            f = matrix(-sum(log(u)) - 1.0)
            Df = div(2 * x, u).T
            if z is None: return f, Df
            return f, Df, spdiag(2 * z[0] * div(1 + x**2, u**2))
        def run_cpl(inj, Fcpl=Fcpl, Gc=Gc, hc=hc, dl=dl, cc=cc, A0=A0):
            factor = misc.kkt_ldl(Gc, dl, A0, 1)
            def mk(x, z, W):
                f, Df, H = Fcpl(x, z)
                return factor(W, H, Df)
            inj.make = mk
            return quiet(solvers.cpl, cc, Fcpl, Gc, hc, dl, kktsolver=inj.kktsolver, options={'show_progress': False})
        out.append(('cpl%d' % i, 'cpl', run_cpl))
        DATA['cpl%d' % i] = {'dims': dl, 'nonlinear': True}
        # --- cpl with second-order and semidefinite blocks behind the nonlinear constraint (offsets of the cone parts start at mnl)
        dQ = {'l': 2, 'q': [3], 's': [2]}
        GQ = matrix([[rng.randint(-2, 2) + rng.random() for _ in range(2 + 3)] + (lambda a, b_, d: [a, b_, b_, d])(rng.random(), rng.random(), rng.random()) for _ in range(n)])
        hQ = matrix([1.0 + rng.random(), 1.0 + rng.random(), 3.0, 0.4, -0.3, 2.0, 0.2, 0.2, 1.5])
        def run_cplQ(inj, Fcpl=Fcpl, GQ=GQ, hQ=hQ, dQ=dQ, cc=cc, A0=A0):
            factor = misc.kkt_ldl(GQ, dQ, A0, 1)
            def mk(x, z, W):
                f, Df, H = Fcpl(x, z)
                return factor(W, H, Df)
            inj.make = mk
            return quiet(solvers.cpl, cc, Fcpl, GQ, hQ, dQ, kktsolver=inj.kktsolver, options={'show_progress': False})
        out.append(('cplQ%d' % i, 'cpl', run_cplQ))
        DATA['cplQ%d' % i] = {'dims': dQ, 'nonlinear': True}
        def Fcp(x=None, z=None, n=n, cc=cc):
            if x is None: return 0, matrix(0.0, (n, 1))
            if max(abs(x)) >= 1.0: return None
            u = 1 - x**2
            f = matrix(-sum(log(u)) + blas.dot(cc, x))
            Df = (div(2 * x, u) + cc).T
            if z is None: return f, Df
            return f, Df, spdiag(2 * z[0] * div(1 + x**2, u**2))
        def run_cp(inj, Fcp=Fcp, Gc=Gc, hc=hc, dl=dl, A0=A0):
            factor = misc.kkt_ldl(Gc, dl, A0, 0)
            def mk(x, z, W):
                f, Df, H = Fcp(x, z)
                return factor(W, H, Df[1:, :])
            inj.make = mk
            return quiet(solvers.cp, Fcp, Gc, hc, dl, kktsolver=inj.kktsolver, options={'show_progress': False})
        out.append(('cp%d' % i, 'cpl', run_cp))
        DATA['cp%d' % i] = {'dims': dl, 'nonlinear': True, 'epigraph': True}
    return out

def precision_runs(ctx, cvxopt, rng):
    """well-posed planted problems solved with tolerances below what double precision can deliver (1e-13): the iteration breaks down
    numerically (an iterate leaves the cone by rounding, a step length divides by zero).  The documented outcomes are 'optimal' or 'unknown';
    any exception that leaves the solver is reported per entry point and exception type."""
    from corr import problems as PR
    from cvxopt import solvers
    n = 40 if ctx.quick() else 500
    seen = {}; stat = {}
    for i in range(n):
        qp = rng.random() < 0.4
        pr = PR.planted_conelp(rng, 'optimal', P_rank=(rng.randint(1, 3) if qp else None))
        c, G, h, A, b, P = PR.to_cvx(cvxopt, pr)
        o = {'show_progress': False, 'feastol': 1e-13, 'abstol': 1e-13, 'reltol': 1e-13}
        ent = 'coneqp' if qp else 'conelp'
        try:
            r = quiet(solvers.coneqp, P, c, G, h, pr.dims, A, b, options=o) if qp else quiet(solvers.conelp, c, G, h, pr.dims, A, b, options=o)
            k = ent + ':' + r['status']
        except Exception as e:
            k = ent + ':' + type(e).__name__
            if (ent, type(e).__name__) not in seen:
                seen[(ent, type(e).__name__)] = True
                ctx.violation('c10:numerical-breakdown-escapes:%s:%s' % (ent, type(e).__name__),
                              "%s with tolerances 1e-13 on a strictly feasible planted problem raised %s (%s) instead of returning 'unknown'" % (ent, type(e).__name__, str(e)[:60]),
                              {'entry': ent, 'dims': pr.dims, 'c': pr.c, 'G': pr.G, 'h': pr.h, 'A': pr.A, 'b': pr.b, 'P': pr.P, 'options': {k_: v for k_, v in o.items()}})
        stat[k] = stat.get(k, 0) + 1
    ctx.cov['precision_runs'] = stat
    return n

def min_slack(v, dims, mnl=0):
    """distance of v to the boundary of the cone in the sense of the documentation: min over the componentwise entries, v0 - ||v1|| of the
    'q' blocks, smallest eigenvalue of the 's' blocks (computed here, not with misc.max_step)"""
    from cvxopt import matrix, lapack
    vals = [v[i] for i in range(mnl + dims['l'])]
    k = mnl + dims['l']
    for m in dims['q']:
        vals.append(v[k] - math.sqrt(sum(v[k + 1 + j]**2 for j in range(m - 1)))); k += m
    for m in dims['s']:
        if m:
            M_ = matrix(list(v[k:k + m * m]), (m, m)); w = matrix(0.0, (m, 1)); lapack.syev(M_, w)
            vals.append(w[0])
        k += m * m
    return min(vals) if vals else None

def judge_slacks(r, D):
    """'primal slack' / 'dual slack' of a result that hands out s and z are the slacks of those very vectors"""
    from cvxopt import matrix
    dims = D['dims']
    if D.get('nonlinear'):
        if r.get('snl') is None or r.get('sl') is None: return None
        mnl = len(r['snl'])
        pairs = (('primal slack', matrix([r['snl'], r['sl']])), ('dual slack', matrix([r['znl'], r['zl']])))
    else:
        if r.get('s') is None or r.get('z') is None: return None
        mnl = 0
        pairs = (('primal slack', r['s']), ('dual slack', r['z']))
    for key, v in pairs:
        rec = min_slack(v, dims, mnl); rep = r.get(key)
        if rec is None or rep is None: continue
        if D.get('epigraph'):
            # cp reports the fields of cpl applied to the epigraph form: the slack of the epigraph constraint f0(x) <= t (not handed out) takes part
            if not (-1e-12 < rep <= rec + 1e-6 * (1 + abs(rec))): return "'%s' is %r, not in (0, %r] (the slack of the returned vector)" % (key, rep, rec)
        elif abs(rep - rec) > 1e-6 * (1 + abs(rec)): return "'%s' is %r but the returned vector has slack %r" % (key, rep, rec)
    return None

def judge_unknown(cvxopt, r, D):
    """an 'unknown' result of conelp / coneqp with 's' blocks: s and z are the last iterates - symmetric blocks, strictly inside the cone - and
    the accuracy fields are those of the returned vectors (gap = <s, z>, primal infeasibility = ||Gx + s - h|| / max(1, ||h||))"""
    from cvxopt import matrix, misc, blas, lapack
    dims, G, h = D['dims'], D['G'], D['h']
    x, s_, z_ = r.get('x'), r.get('s'), r.get('z')
    if x is None or s_ is None or z_ is None: return None
    for key, v in (('s', s_), ('z', z_)):
        k = dims['l']
        if any(not (v[i] > 0) for i in range(k)): return '%s is not strictly inside the cone' % key
        for m in dims['q']:
            if not (v[k] > math.sqrt(sum(v[k + 1 + j]**2 for j in range(m - 1)))): return '%s is not strictly inside the cone' % key
            k += m
        for m in dims['s']:
            M_ = matrix(list(v[k:k + m * m]), (m, m))
            asym = max(abs(M_[a, b] - M_[b, a]) for a in range(m) for b in range(m))
            if asym > 1e-9 * (1 + max(abs(t) for t in M_)): return "an 's' block of %s is not symmetric (asymmetry %.3g)" % (key, asym)
            try: lapack.potrf(+M_)
            except ArithmeticError: return "an 's' block of %s is not positive definite" % key
            k += m * m
    gap = misc.sdot(s_, z_, dims)
    if r.get('gap') is not None and abs(r['gap'] - gap) > 1e-6 * (1 + abs(gap)): return "'gap' is %r but <s, z> = %r" % (r['gap'], gap)
    res = G * x + s_ - h
    pres = math.sqrt(abs(misc.sdot(res, res, dims))) / max(1.0, math.sqrt(abs(misc.sdot(h, h, dims))))
    A, b = D.get('A'), D.get('b')
    if A is not None:
        ry = A * x - b
        pres = max(pres, blas.nrm2(ry) / max(1.0, blas.nrm2(b)))
    rep = r.get('primal infeasibility')
    if rep is not None and abs(rep - pres) > 1e-6 * (1 + pres) + 1e-9: return "'primal infeasibility' is %r but max(||Ax - b|| / max(1, ||b||), ||Gx + s - h|| / max(1, ||h||)) = %r" % (rep, pres)
    # dual residual of the returned (x, y, z): P x + G'z + A'y + c
    c = D['c']
    rx = +c + matrix([misc.sdot(matrix(list(G[:, j])), z_, dims) for j in range(G.size[1])])          # <G_j, z> in the trace inner product
    if A is not None and r.get('y') is not None: rx = rx + A.T * r['y']
    if D.get('P') is not None: rx = rx + D['P'] * x
    dres = blas.nrm2(rx) / max(1.0, blas.nrm2(c))
    rep = r.get('dual infeasibility')
    if rep is not None and abs(rep - dres) > 1e-6 * (1 + dres) + 1e-9: return "'dual infeasibility' is %r but ||Px + G'z + A'y + c|| / max(1, ||c||) = %r" % (rep, dres)
    return None

def interior(v, dims, mnl=0):
    """strict cone membership of a returned slack vector (l and q blocks)"""
    if v is None: return True
    k = mnl + dims['l']
    if any(not (v[i] > 0) for i in range(k)): return False
    for m in dims['q']:
        if not (v[k] > math.sqrt(sum(v[k + 1 + j]**2 for j in range(m - 1)))): return False
        k += m
    return True

def classify(run, inj):
    try:
        r = run(inj)
    except ValueError as e:
        return ('valueError' if 'Rank' in str(e) else 'bad:ValueError:' + str(e)[:40]), None
    except ArithmeticError as e:
        return 'escape', None
    except Exception as e:
        return 'bad:%s' % type(e).__name__, None
    return r['status'], r

def correspond(ctx):
    cvxopt = vlib.use_build(ctx.build)
    rng = random.Random(ctx.seed * 31337 + 10)
    nbase = 2 if ctx.quick() else 12
    probs = base_problems(cvxopt, rng, nbase)
    lines, expect, meta = [], [], []
    evals = 0
    distinct = set()
    for name, frame, run in probs:
        inj0 = Injector(frame, None)
        st0, r0 = classify(run, inj0)
        evals += 1
        if st0 != 'optimal':
            ctx.notes.append('base problem %s ended %s without faults' % (name, st0)); continue
        plans = [('factor', (k,), ()) for k in range(1, inj0.nf + 1)] + [('solve', (), (j,)) for j in range(1, inj0.ns + 1)]
        if frame == 'cpl':
            plans += [('factor2', (k, k + 1), ()) for k in range(1, inj0.nf + 1)]
        for kind, ff, fs in plans:
            inj = Injector(frame, None, ff, fs)
            st, r = classify(run, inj)
            evals += 1
            if inj.failed_at is None: continue
            w = inj.failed_at[2]
            what = '%s: injected ArithmeticError at %s call #%d (line %s, iters=%s)' % (
                name, inj.failed_at[0], inj.failed_at[1], w and w['line'], w and w['iters'])
            case = {'problem': name, 'seed': ctx.seed, 'plan': [kind, list(ff), list(fs)], 'where': w, 'observed': st}
            # property oracle on the real outcome ---------------------------------------------
            if st == 'escape':
                ctx.violation('c10:arithmetic-error-escapes:%s:%s' % (frame if not name.startswith('cp') or name.startswith('cpl') else 'cpl',
                                                                       'startup' if (w and w['iters'] is None) else 'loop'),
                              what + ' escapes the solver', case)
            elif st.startswith('bad'):
                ctx.violation('c10:undocumented-exception:%s' % st, what + ' gives ' + st, case)
            elif st == 'valueError':
                pass
            if st == 'unknown' and name in DATA:
                bad = judge_slacks(r, DATA[name])
                if bad:
                    ctx.violation('c10:unknown-slack-fields:' + frame, what + ": status 'unknown' but " + bad, case)
            if st == 'unknown' and name in DATA and not DATA[name].get('nonlinear'):
                bad = judge_unknown(cvxopt, r, DATA[name])
                if bad:
                    ctx.violation('c10:unknown-inconsistent:' + frame, what + ": status 'unknown' but " + bad, case)
            elif st == 'unknown' and name in DATA:
                # cpl / cp: the cone parts sl, zl of an 'unknown' result are the last accepted iterates, strictly inside the cone
                for key in ('sl', 'zl'):
                    v = r.get(key)
                    if v is not None and len(v) > 0 and not (min_slack(v, DATA[name]['dims']) > 0):
                        ctx.violation('c10:unknown-not-interior:' + frame, what + ": status 'unknown' but %s is not strictly inside the cone" % key, case)
            elif st == 'unknown':
                dims = {'l': 0, 'q': [], 's': []}
                # s and z of an 'unknown' result are the last accepted iterates: strictly inside the cone
                for key in ('s', 'z', 'sl', 'zl'):
                    v = r.get(key)
                    if v is not None and len(v) > 0:
                        d = {'l': len(v) - 3, 'q': [3], 's': []} if name.startswith('cone') and len(v) > 3 else {'l': len(v), 'q': [], 's': []}
                        if not interior(v, d):
                            ctx.violation('c10:unknown-not-interior:' + frame, what + ": status 'unknown' but %s is not strictly inside the cone" % key, case)
            # statuses 'optimal' etc. are legitimate only if the failure was recovered from (cpl) -- compared below
            # model prediction ------------------------------------------------------------------
            if w is None: continue
            retry_ok = 0 if kind == 'factor2' else 1
            lines.append('fault %s %d %d %d %d %d' % (frame, w['line'], 1 if w['iters'] == 0 else 0, 1 if w['started'] else 0,
                                                       1 if w['relaxedMid'] else 0, retry_ok))
            # a start-up site has iters unset; the model ignores iters0 there
            obs = st if st in ('valueError', 'unknown', 'escape') else ('recovered' if not st.startswith('bad') else st)
            expect.append(obs); meta.append(case)
            distinct.add((frame, w['line'], w['iters'] == 0, w['started'], w['relaxedMid'], retry_ok))
    out = vlib.drive('C10', lines) if lines else []
    dis = 0
    for l, e, o, m in zip(lines, expect, out, meta):
        pred = o.split(' ')[-1]
        if pred != e:
            # a second injected failure of plan factor2 may hit a later, unrelated site when no retry takes place
            if m['plan'][0] == 'factor2' and pred in ('unknown', 'valueError') and e in ('unknown', 'valueError'): continue
            dis += 1
            if dis <= 3: ctx.broke('correspondence C10 (generated site model vs real outcome)', {'line': l, 'impl': e, 'model': o, 'case': m})
    evals += malformed(ctx, cvxopt)
    evals += domain_runs(ctx, cvxopt, rng)
    evals += precision_runs(ctx, cvxopt, rng)
    ctx.cov.update({'evaluations': evals, 'distinct_nontrivial': len(distinct),
                    'rule': 'for each of %d base problems per solver (conelp l+q cone, coneqp, coneqp without cone, cpl, cp): a fault-free '
                            'run counts the KKT factor and solve calls, then one run per call index with an ArithmeticError injected '
                            'there (cpl/cp: also two consecutive factor failures); distinct = (solver, source line of the call site, '
                            'iters==0, start points given, relaxed state, retry outcome)' % nbase,
                    'protocol_lines_compared': len(lines), 'disagreements_checked': dis,
                    'fault_sites_hit': sorted({(m['where']['line']) for m in meta if m['where']})})
    ctx.samples += lines[:4] + [json.dumps(meta[0])] if lines else []

def malformed(ctx, cvxopt):
    """argument errors must be TypeError / ValueError"""
    from cvxopt import matrix, solvers, blas
    n = 0
    c = matrix([1.0, 1.0]); G = matrix([[-1.0, 0.0], [0.0, -1.0]]); h = matrix([0.0, 0.0])
    P = matrix([[1.0, 0.0], [0.0, 1.0]])
    def F(x=None, z=None):
        if x is None: return 0, matrix(1.0, (2, 1))
        f = matrix(sum(x**2)); Df = (2 * x).T
        if z is None: return f, Df
        return f, Df, 2 * z[0] * P
    ykw = dict(ynewcopy=matrix, ydot=blas.dot, yaxpy=blas.axpy, yscal=blas.scal)
    dummy = lambda *a: (lambda x, y, z: None)
    cases = [
        ('coneqp custom y without b', lambda: solvers.coneqp(P, c, G, h, kktsolver=dummy, **ykw)),
        ('conelp custom y without b', lambda: solvers.conelp(c, G, h, kktsolver=dummy, **ykw)),
        ('cpl custom y without b', lambda: solvers.cpl(c, F, G, h, kktsolver=dummy, **ykw)),
        ('cp custom y without b', lambda: solvers.cp(F, G, h, kktsolver=dummy, **ykw)),
        ('sdp Gs with non-square number of rows', lambda: solvers.sdp(c, Gs=[matrix(0.0, (3, 2))], hs=[matrix(0.0, (2, 2))])),
        ('sdp hs of wrong size', lambda: solvers.sdp(c, Gs=[matrix(0.0, (4, 2))], hs=[matrix(0.0, (3, 3))])),
        ('socp hq of wrong length', lambda: solvers.socp(c, Gq=[matrix(0.0, (3, 2))], hq=[matrix(0.0, (2, 1))])),
        ('lp h of wrong length', lambda: solvers.lp(c, G, matrix([0.0]))),
        ('qp q of wrong length', lambda: solvers.qp(P, matrix([1.0]), G, h)),
        ('conelp bad dims', lambda: solvers.conelp(c, G, h, {'l': -1, 'q': [], 's': []})),
        ('conelp c not a matrix', lambda: solvers.conelp([1.0, 1.0], G, h)),
        ('gp K inconsistent', lambda: solvers.gp([3], matrix(1.0, (2, 2)), matrix(0.0, (2, 1)))),
    ]
    for what, f in cases:
        n += 1
        try:
            quiet(f)
            continue
        except (TypeError, ValueError):
            continue
        except Exception as e:
            ctx.violation('c10:argument-error-class:%s:%s' % (what.split(' ')[0], type(e).__name__),
                          'malformed call (%s) raises %s: %s instead of TypeError/ValueError' % (what, type(e).__name__, e),
                          {'call': what})
    return n

def domain_runs(ctx, cvxopt, rng):
    """F refuses points outside a convex domain (a shrunken box): the solver must backtrack, never return an x
    outside the domain, never raise"""
    from cvxopt import matrix, solvers, log, div, spdiag, blas
    n_runs = 30 if ctx.quick() else 200
    for i in range(n_runs):
        n = rng.randint(1, 3)
        rho = 0.35 + 0.6 * rng.random()            # domain: |x_i| < rho  (subset of |x_i| < 1)
        cc = matrix([rng.uniform(-1, 1) * rng.choice([3, 30, 300]) for _ in range(n)])     # steep objectives make the line search leave dom F
        refused = [0]; calls = [0]
        form = ('None', 'pair')[i % 2]             # both documented ways of refusing a point: None and (None, None)
        def F(x=None, z=None, form=form):
            if x is None: return 0, matrix(0.0, (n, 1))
            calls[0] += 1
            if max(abs(x)) >= rho:
                refused[0] += 1; return None if form == 'None' else (None, None)
            u = rho**2 - x**2
            f = matrix(-sum(log(u)) + blas.dot(cc, x))
            Df = (div(2 * x, u) + cc).T
            if z is None: return f, Df
            return f, Df, spdiag(2 * z[0] * div(rho**2 + x**2, u**2))
        try:
            r = quiet(solvers.cp, F, options={'show_progress': False})
        except Exception as e:
            ctx.violation('c10:domain-exception:%s' % type(e).__name__, 'cp with a domain-restricted F (refusing by %s, %d refusals) raised %s: %s' % (
                              'None' if form == 'None' else '(None, None)', refused[0], type(e).__name__, e), {'n': n, 'rho': rho, 'c': list(cc), 'refusal': form}); continue
        x = r['x']
        if x is not None and max(abs(x)) >= rho:
            ctx.violation('c10:x-outside-domain', 'cp returned x outside dom F (|x|max=%g, rho=%g)' % (max(abs(x)), rho),
                          {'n': n, 'rho': rho, 'c': list(cc)})
    return n_runs

def search(ctx, why):
    return

def replay(ctx, payload):
    correspond(ctx)
