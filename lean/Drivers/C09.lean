import CvxVerif.Gen.Options
import CvxVerif.Model.Proto
open CvxVerif CvxVerif.Py CvxVerif.OptFlow CvxVerif.Gen.Options CvxVerif.Proto

def parseVal (s : String) : Option Val :=
  if s == "none" then some Val.none
  else if s == "b1" then some (Val.bool true)
  else if s == "b0" then some (Val.bool false)
  else if s == "inf" then some (Val.inf false)
  else if s == "-inf" then some (Val.inf true)
  else if s == "nan" then some Val.nan
  else if s == "other" then some Val.other
  else if s.startsWith "i" then (s.drop 1).toString.toInt?.map Val.int
  else if s.startsWith "s" then some (Val.str (s.drop 1).toString)
  else if s.startsWith "f" then
    match (s.drop 1).toString.splitOn "/" with
    | [a, b] => match a.toInt?, b.toNat? with
      | some n, some d => some (Val.flt (mkRat n d))
      | _, _ => none
    | _ => none
  else none

def showVal : Val → String
  | .none => "none"
  | .bool b => if b then "b1" else "b0"
  | .int n => s!"i{n}"
  | .flt q => s!"f{q.num}/{q.den}"
  | .inf n => if n then "-inf" else "inf"
  | .nan => "nan"
  | .str s => "s" ++ s
  | .other => "other"

def stepLine (u : Unit) (line : String) : Unit × String :=
  match words line with
  | "parse" :: ep :: qs :: kvs =>
    let dict : List (String × Val) := kvs.filterMap (fun kv =>
      match kv.splitOn "=" with
      | [k, v] => (parseVal v).map (fun x => (k, x))
      | _ => none)
    if dict.length != kvs.length then (u, "bad-op") else
    match parsers.find? (·.1 == ep) with
    | none => (u, "no-parser")
    | some p =>
      match p.2 (fun k => (dict.find? (·.1 == k)).map (·.2)) (qs == "1") with
      | .ok env => (u, "ok " ++ " ".intercalate (env.map (fun kv => kv.1 ++ "=" ++ showVal kv.2)))
      | .error e => (u, "error " ++ e)
  | ["flow", ep] =>
    let s1 := seen flows 4 ep (some 1) (0 : Nat)
    let s0 := seen flows 4 ep none (0 : Nat)
    (u, s!"override={!s1.isEmpty && s1.all (· == 1)} default={!s0.isEmpty && s0.all (· == 0)}")
  | _ => (u, "bad-op")

def main : IO Unit := loop stepLine ()
