import CvxVerif.Proofs.Sparse

/-! Lemmas for indexed assignment (`insertSet`) and for the product (`mul`) of the sparse model. -/
namespace CvxVerif.Sparse

theorem insertSet_pos (e : Entry) (l : List Entry) :
    ∀ z ∈ insertSet e l, (z.col = e.col ∧ z.row = e.row) ∨ ∃ y ∈ l, z.col = y.col ∧ z.row = y.row := by
  induction l with
  | nil => intro z hz; simp [insertSet] at hz; subst hz; exact Or.inl ⟨rfl, rfl⟩
  | cons x xs ih =>
    intro z hz
    unfold insertSet at hz
    split at hz
    · rcases List.mem_cons.mp hz with h | h
      · subst h; exact Or.inl ⟨rfl, rfl⟩
      · exact Or.inr ⟨z, List.mem_cons_of_mem _ h, rfl, rfl⟩
    · split at hz
      · rcases List.mem_cons.mp hz with h | h
        · subst h; exact Or.inl ⟨rfl, rfl⟩
        · exact Or.inr ⟨z, h, rfl, rfl⟩
      · rcases List.mem_cons.mp hz with h | h
        · subst h; exact Or.inr ⟨z, List.mem_cons_self, rfl, rfl⟩
        · rcases ih z h with h' | ⟨y, hy, h'⟩
          · exact Or.inl h'
          · exact Or.inr ⟨y, List.mem_cons_of_mem _ hy, h'⟩

/-- **Assignment keeps the storage order.** -/
theorem insertSet_sorted (e : Entry) (l : List Entry) (h : Sorted l) : Sorted (insertSet e l) := by
  induction l with
  | nil => simp [insertSet, Sorted]
  | cons x xs ih =>
    unfold Sorted at h ⊢
    rw [List.pairwise_cons] at h
    obtain ⟨hx, hxs⟩ := h
    unfold insertSet
    split
    · rename_i hs
      simp only [Entry.samePos, Bool.and_eq_true, beq_iff_eq] at hs
      rw [List.pairwise_cons]
      refine ⟨fun y hy => ?_, hxs⟩
      have := hx y hy
      unfold Entry.lt at *; omega
    · split
      · rename_i hlt
        rw [List.pairwise_cons]
        refine ⟨fun y hy => ?_, List.pairwise_cons.mpr ⟨hx, hxs⟩⟩
        rcases List.mem_cons.mp hy with h | h
        · subst h; exact hlt
        · exact Entry.lt_trans hlt (hx y h)
      · rename_i hns hnlt
        rw [List.pairwise_cons]
        refine ⟨fun z hz => ?_, ih hxs⟩
        rcases insertSet_pos e xs z hz with ⟨hc, hr⟩ | ⟨y, hy, hc, hr⟩
        · have : x.lt e := Entry.tri (by simpa using hns) hnlt
          exact lt_of_pos_eq this hc hr
        · exact lt_of_pos_eq (hx y hy) hc hr

theorem insertSet_inRange (m n : Nat) (e : Entry) (l : List Entry) (he : e.row < m ∧ e.col < n) (h : InRange m n l) :
    InRange m n (insertSet e l) := by
  intro z hz
  rcases insertSet_pos e l z hz with ⟨hc, hr⟩ | ⟨y, hy, hc, hr⟩
  · omega
  · have := h y hy; omega

/-- **Assignment replaces exactly one position of the dense image.** -/
theorem lookup_insertSet (e : Entry) (l : List Entry) (h : Sorted l) (c r : Nat) :
    lookup (insertSet e l) c r = if e.col = c ∧ e.row = r then e.val else lookup l c r := by
  induction l with
  | nil =>
    simp only [insertSet, lookup, List.find?]
    by_cases hp : e.col = c ∧ e.row = r
    · simp [hp.1, hp.2]
    · have : (e.col == c && e.row == r) = false := by
        simp only [Bool.and_eq_false_iff, beq_eq_false_iff_ne]; omega
      simp [this, hp]
  | cons x xs ih =>
    unfold Sorted at h
    rw [List.pairwise_cons] at h
    obtain ⟨hx, hxs⟩ := h
    unfold insertSet
    split
    · rename_i hs
      simp only [Entry.samePos, Bool.and_eq_true, beq_iff_eq] at hs
      unfold lookup
      simp only [List.find?]
      by_cases hp : e.col = c ∧ e.row = r
      · have : (e.col == c && e.row == r) = true := by simp [hp.1, hp.2]
        simp [this, hp]
      · have h1 : (e.col == c && e.row == r) = false := by
          simp only [Bool.and_eq_false_iff, beq_eq_false_iff_ne]; omega
        have h2 : (x.col == c && x.row == r) = false := by
          simp only [Bool.and_eq_false_iff, beq_eq_false_iff_ne]; omega
        simp [h1, h2, hp]
    · split
      · rename_i hns hlt
        unfold lookup
        simp only [List.find?]
        by_cases hp : e.col = c ∧ e.row = r
        · have : (e.col == c && e.row == r) = true := by simp [hp.1, hp.2]
          simp [this, hp]
        · have : (e.col == c && e.row == r) = false := by
            simp only [Bool.and_eq_false_iff, beq_eq_false_iff_ne]; omega
          simp [this, hp]
      · rename_i hns hnlt
        have hxe : x.lt e := Entry.tri (by simpa using hns) hnlt
        unfold lookup
        simp only [List.find?]
        by_cases hp : x.col = c ∧ x.row = r
        · have : (x.col == c && x.row == r) = true := by simp [hp.1, hp.2]
          simp only [this]
          have hp' : ¬ (e.col = c ∧ e.row = r) := by unfold Entry.lt at hxe; omega
          simp [hp']
        · have : (x.col == c && x.row == r) = false := by
            simp only [Bool.and_eq_false_iff, beq_eq_false_iff_ne]; omega
          simp only [this]
          have := ih hxs
          unfold lookup at this
          exact this

/-- the structural products `A(i,k)·B(k,j)` in the order `mul` visits them -/
def products (A B : List Entry) : List Entry :=
  B.flatMap fun b => (A.filter fun a => a.col == b.row).map fun a => ⟨b.col, a.row, a.val * b.val⟩

theorem foldl_map_insertAcc (f : Entry → Entry) (as : List Entry) (l0 : List Entry) :
    as.foldl (fun l a => insertAcc (f a) l) l0 = (as.map f).foldl (fun l e => insertAcc e l) l0 := by
  induction as generalizing l0 with
  | nil => rfl
  | cons a t ih => simp only [List.foldl_cons, List.map_cons, ih]

/-- the nested loops of `mul` are one pass of the accumulator over the list of structural products -/
theorem mul_foldl (A B : List Entry) (l0 : List Entry) :
    B.foldl (fun l b => (A.filter (fun a => a.col == b.row)).foldl (fun l a => insertAcc ⟨b.col, a.row, a.val * b.val⟩ l) l) l0
      = (products A B).foldl (fun l e => insertAcc e l) l0 := by
  induction B generalizing l0 with
  | nil => rfl
  | cons b t ih =>
    simp only [List.foldl_cons, products, List.flatMap_cons, List.foldl_append]
    rw [foldl_map_insertAcc (fun a => ⟨b.col, a.row, a.val * b.val⟩)]
    exact ih _

end CvxVerif.Sparse
