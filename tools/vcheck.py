#!/usr/bin/env python3
"""./check Cxx [--tier quick|thorough] [--replay file]   (protocol S0..S5 of DESIGN.md 2.2)

Each property module tools/corr/<cxx>.py defines
   LEAN_TARGETS : list of lake targets with the property theorems (S2)
   MODEL_FILES  : lean modules scanned for forbidden constructs
   LEVEL        : evidence level
   def translate(ctx)            (optional, S1) -> list of problems (strings)
   def correspond(ctx)           (S3) -> Result
   def search(ctx, why)          (S4, optional) -> list of violations
   def replay(ctx, payload)      (optional)
Result / violation conventions: see class Ctx below.
"""
import os, sys, json, time, importlib, traceback, signal
sys.path.insert(0, os.path.dirname(os.path.abspath(__file__)))
import vlib

class Ctx:
    def __init__(self, prop, tier):
        self.prop, self.tier, self.seed = prop, tier, vlib.seed()
        self.violations = []      # dicts: signature, what, replay(payload dict)
        self.broken = []          # broken ties/proofs: dicts name, detail
        self.cov = {}             # coverage keys for the evidence file
        self.samples = []
        self.assumptions = []
        self.notes = []
        self.build = None
    def quick(self): return self.tier == 'quick'
    def violation(self, signature, what, payload):
        self.violations.append({'signature': signature, 'what': what, 'payload': payload})
    def broke(self, name, detail):
        self.broken.append({'name': name, 'detail': detail})

def main():
    a = sys.argv[1:]
    if not a: print(__doc__); return 2
    prop = a[0]
    tier = os.environ.get('VERIF_TIER', 'quick')
    if '--tier' in a: tier = a[a.index('--tier') + 1]
    replay = a[a.index('--replay') + 1] if '--replay' in a else None
    if replay:
        # a replay re-creates the run that wrote the file: same seed, same tier (the generators are deterministic functions of both)
        try:
            _pl = json.load(open(replay))
            if 'seed' in _pl: os.environ['VERIF_SEED'] = str(_pl['seed'])
            if _pl.get('tier') in ('quick', 'thorough') and '--tier' not in a: tier = _pl['tier']
        except Exception: pass
    t0 = time.time()
    limit = int(os.environ.get('VERIF_TIMEOUT', '1500' if tier == 'quick' else '7200'))
    def on_alarm(sig, frm):
        print('TIMEOUT property=%s after %ds' % (prop, limit)); sys.stdout.flush(); os._exit(2)
    signal.signal(signal.SIGALRM, on_alarm); signal.alarm(limit)

    mod = importlib.import_module('corr.' + prop.lower())
    ctx = Ctx(prop, tier)
    if os.environ.get('VERIF_PYCOV'):
        # development aid (tools/covaudit.sh): line coverage of the Python sources of the build under test
        import coverage, atexit
        _cov = coverage.Coverage(data_file=os.path.join(os.environ['VERIF_PYCOV'], '.coverage'), data_suffix=True, include=[os.path.join(os.environ.get('VERIF_PREBUILT', '/nonexistent'), 'cvxopt', '*.py')])
        _cov.start(); atexit.register(lambda: (_cov.stop(), _cov.save()))
    obligations, discharged, axioms = 0, 0, {}
    stages = {}
    tlast = [time.time()]
    def stage(name):
        now = time.time(); stages[name] = round(now - tlast[0], 2); tlast[0] = now
    try:
        # S0 build
        ctx.build = vlib.build_repo()
        stage('S0 build')
        # S1 translate
        if hasattr(mod, 'translate'):
            for p in mod.translate(ctx) or []:
                ctx.broke('translate', p)
        stage('S1 translate')
        # S2 prove + audit
        names = vlib.theorem_names(prop)
        obligations = len(names)
        ok, log = vlib.lean_build(mod.LEAN_TARGETS)
        if not ok:
            ctx.broke('lake build ' + ' '.join(mod.LEAN_TARGETS), log[:6000])
        else:
            ok2, axioms, problems = vlib.lean_audit(prop)
            for p in problems: ctx.broke('audit', p)
            discharged = len([n for n in names if n in axioms and
                              all(x in vlib.ALLOWED_AXIOMS for x in axioms[n])])
            hits = vlib.grep_forbidden(vlib.lean_files_of(prop, mod.MODEL_FILES))
            for h in hits: ctx.broke('forbidden construct', h)
            if tier == 'thorough' and os.environ.get('VERIF_LEANCHECKER', '1') == '1':
                mods = [t for t in mod.LEAN_TARGETS if '.Props.' in t] or ['CvxVerif.Props.' + prop]          # every file that holds property theorems
                rc, out, err = vlib.run(['lake', 'env', 'leanchecker'] + mods, cwd=vlib.LEAN, timeout=3000)
                ctx.cov['leanchecker'] = 'ok' if rc == 0 else 'FAILED'
                if rc != 0: ctx.broke('leanchecker', (out + err)[-1000:])
        stage('S2 prove+audit')
        # replay mode
        if replay:
            payload = json.load(open(replay))
            mod.replay(ctx, payload)
        else:
            # S3 correspondence
            mod.correspond(ctx)
            # S4 search when a tie or proof is broken and no concrete violation is known yet
            _known = {(k['property'], k['signature']) for k in vlib.load_known().get('findings', [])}
            _new = [v for v in ctx.violations if (prop, v['signature']) not in _known]          # known findings do not count as a failing input
            if ((ctx.broken and not _new) or os.environ.get('VERIF_FORCE_SEARCH') == '1') and hasattr(mod, 'search'):
                mod.search(ctx, ctx.broken)
        stage('S3/S4 correspond+search')
    except Exception:
        ctx.broke('infrastructure', traceback.format_exc()[-3000:])
        sys.stderr.write(traceback.format_exc())
    # S5 report
    known = vlib.load_known()
    kf = {(k['property'], k['signature']): k for k in known.get('findings', [])}
    rc = 0
    nviol = 0
    seen_known = set(); reported = set()
    for v in ctx.violations:
        key = (prop, v['signature'])
        if key in kf:
            if key not in seen_known:
                print('KNOWN-FINDING: property=%s %s' % (prop, kf[key].get('what', v['what'])))
                seen_known.add(key)
            continue
        if key in reported: continue
        reported.add(key)
        nviol += 1
        path = vlib.write_replay(prop, {'property': prop, 'seed': ctx.seed, 'tier': tier,
                                        'signature': v['signature'], 'what': v['what'], 'case': v['payload'],
                                        'how_to_run': './check %s --replay <this file>' % prop})
        print('VIOLATION property=%s replay=%s  # %s' % (prop, path, v['what'][:200]))
        rc = 1
    escalated = None
    if ctx.broken and nviol == 0 and tier == 'quick' and not replay and os.environ.get('VERIF_NO_ESCALATE') != '1':
        # before giving up: the thorough-tier exploration of the same property (different seed stream, far more inputs) as a last search
        import subprocess
        signal.alarm(0)
        try:
            r = subprocess.run([sys.executable, os.path.abspath(__file__), prop, '--tier', 'thorough'], capture_output=True, text=True,
                               timeout=int(os.environ.get('VERIF_ESCALATE_TIMEOUT', '1800')),
                               env=dict(os.environ, VERIF_NO_ESCALATE='1', VERIF_LEANCHECKER='0'))
            escalated = [l for l in r.stdout.split('\n') if l.startswith('VIOLATION ') and 'no-failing-input-found' not in l]
        except subprocess.TimeoutExpired:
            escalated = []
        for l in escalated:
            print(l); nviol += 1; rc = 1
    if ctx.broken and nviol == 0:
        # a tie or a proof no longer checks and no failing input was found
        path = vlib.write_replay(prop, {'property': prop, 'seed': ctx.seed, 'tier': tier,
                                        'broken': ctx.broken,
                                        'note': 'proof obligation / correspondence no longer checks; '
                                                'search found no concrete failing input'})
        print('VIOLATION property=%s replay=%s no-failing-input-found' % (prop, path))
        nviol += 1
        rc = 1
    cov = dict(ctx.cov)
    if escalated is not None: cov['escalated_to_thorough'] = {'violations_found': len(escalated)}
    cov.setdefault('obligations', obligations)
    if discharged >= 1: cov.setdefault('discharged', discharged)
    else: cov['discharged_count'] = 0          # no obligation checks any more: the schema's proof keys need discharged >= 1, the generic counts stand in
    cov.setdefault('checker_cmd', 'cd lean && lake build %s && lake env lean <#print axioms of every %s_* theorem>'
                   % (' '.join(mod.LEAN_TARGETS), prop))
    cov.setdefault('trusted_base', ['Lean 4.33 kernel', 'axioms: ' + ', '.join(sorted({x for v in axioms.values() for x in v}) or ['none']),
                                    'correspondence harness tools/corr/%s.py (generator, canonicalisation, diff)' % prop.lower(),
                                    'S0 build recipe tools/buildrepo.py (gcc -O2; seven extension modules borrowed from the wheel)']
                   + list(getattr(mod, 'TRUSTED', [])))
    cov.setdefault('theorems', sorted(axioms.keys()))
    cov.setdefault('samples', ctx.samples[:8] or ['(no sample recorded)'])
    cov.setdefault('evaluations', 1); cov.setdefault('distinct_nontrivial', 0)
    cov['stage_wall_s'] = stages
    cov['known_findings_seen'] = sorted(s for (_, s) in seen_known)
    cov['broken'] = [b['name'] for b in ctx.broken]
    ev = {'property_id': prop, 'tier': tier, 'seed': ctx.seed, 'level': getattr(mod, 'LEVEL', 'proof'),
          'coverage': cov, 'assumptions': ctx.assumptions + list(getattr(mod, 'ASSUMPTIONS', [])),
          'wall_s': round(time.time() - t0, 2), 'violations': nviol}
    if not replay:
        os.makedirs(os.path.join(vlib.VERIF, 'evidence'), exist_ok=True)
        json.dump(ev, open(os.path.join(vlib.VERIF, 'evidence', prop + '.json'), 'w'), indent=1, default=str)
    print('%s tier=%s seed=%d obligations=%d discharged=%d evaluations=%s violations=%d wall=%.1fs'
          % (prop, tier, ctx.seed, obligations, discharged, cov.get('evaluations'), nviol, time.time() - t0))
    sys.stdout.flush()
    return rc

def supervise():
    """run the check in a child process: when the implementation under test kills the interpreter (SIGSEGV, SIGABRT from a double
    free, ...) during an in-process correspondence run, that is reported as a violation with the crash as the replay, not as a dead check"""
    import subprocess, tempfile, shutil, atexit
    a = sys.argv[1:]
    # scratch builds of the child live in a directory the supervisor removes whatever happens to the child (crash, time-out, kill)
    sc = tempfile.mkdtemp(prefix='cvxverif_sup_', dir=os.environ.get('VERIF_SCRATCH', '/tmp'))
    atexit.register(lambda: shutil.rmtree(sc, ignore_errors=True))
    env = dict(os.environ, VERIF_SUPERVISED='1', PYTHONFAULTHANDLER='1', VERIF_SCRATCH=sc)
    r = subprocess.run([sys.executable, os.path.abspath(__file__)] + a, env=env)
    if r.returncode in (0, 1, 2): return r.returncode
    prop = a[0]; tier = os.environ.get('VERIF_TIER', 'quick')
    if '--tier' in a: tier = a[a.index('--tier') + 1]
    # once more with the operation trace switched on (harnesses that support it log every operation before executing it)
    tr = tempfile.NamedTemporaryFile(prefix='vtrace_', suffix='.txt', delete=False); tr.close()
    try: r2 = subprocess.run([sys.executable, os.path.abspath(__file__)] + a, env=dict(env, VERIF_TRACE=tr.name, VERIF_NO_ESCALATE='1'), capture_output=True, text=True, timeout=900)
    except subprocess.TimeoutExpired as te:
        class _R: returncode = 'timeout'; stderr = (te.stderr or b'').decode('utf8', 'replace') if isinstance(te.stderr, bytes) else (te.stderr or '')
        r2 = _R()
    try: trace = open(tr.name).read().split('\n')[-40:]
    except Exception: trace = []
    try: os.unlink(tr.name)
    except Exception: pass
    sig = -r.returncode if r.returncode < 0 else r.returncode - 128
    try: signame = signal.Signals(sig).name
    except Exception: signame = 'exit status %d' % r.returncode
    what = 'the interpreter was killed (%s) while the correspondence run exercised the implementation' % signame
    path = vlib.write_replay(prop, {'property': prop, 'seed': vlib.seed(), 'tier': tier, 'signature': '%s:interpreter-crash:%s' % (prop.lower(), signame),
                                    'what': what, 'case': {'second_run_status': r2.returncode, 'stderr_tail': r2.stderr.split('\n')[-40:], 'last_operations': trace},
                                    'how_to_run': './check %s --tier %s (same seed)' % (prop, tier)})
    print('VIOLATION property=%s replay=%s  # %s' % (prop, path, what))
    if '--replay' not in a:
        ev = {'property_id': prop, 'tier': tier, 'seed': vlib.seed(), 'level': 'other',
              'coverage': {'explanation': 'the check died with the interpreter (%s) during the correspondence run; nothing else was established' % signame,
                           'evaluations': 1, 'distinct_nontrivial': 0, 'samples': trace[-5:] or ['(crash before any sample)'],
                           'trusted_base': ['supervisor of tools/vcheck.py (the check itself died with the interpreter)'], 'theorems': [],
                           'checker_cmd': './check %s --tier %s' % (prop, tier), 'broken': ['interpreter crash: ' + signame]},
              'assumptions': [], 'wall_s': 0.0, 'violations': 1}
        os.makedirs(os.path.join(vlib.VERIF, 'evidence'), exist_ok=True)
        json.dump(ev, open(os.path.join(vlib.VERIF, 'evidence', prop + '.json'), 'w'), indent=1, default=str)
    print('%s tier=%s seed=%d obligations=1 discharged=0 evaluations=1 violations=1 wall=0.0s' % (prop, tier, vlib.seed()))
    return 1

if __name__ == '__main__':
    if os.environ.get('VERIF_SUPERVISED') == '1' or len(sys.argv) < 2: sys.exit(main())
    sys.exit(supervise())
