import CvxVerif.Gen.Exits

/-!
Exits of the interior-point loops and the blocks that move a starting point into the cone, regenerated from coneprog.py / cvxprog.py on
every run (`Gen/Exits.lean`, translator tools/translate/py2lean_exits.py).

* C10 / C05: every *failure* exit (a `return {...}` inside an `except ArithmeticError` handler) reports `'unknown'` and leaves through
  exactly the same epilogue as the normal MAXITERS exit of the same solver: the same in-place rescalings of `x, y, s, z`, the same
  symmetrisation walks, the same definitions of the slacks (`misc.max_step` with the same arguments) and the same result fields.  The
  soundness theorems of the normal exit (Props/C01, C03, C04: the statistics are those of the returned, rescaled vectors) therefore carry
  over to the failure exits.
* C01 / C03: a starting point completed by the solver is moved strictly into the cone: every block adds `1 + t` to the diagonal of the
  vector whose `max_step` is `t` (so that the new `max_step` is `-1`).
-/
namespace CvxVerif.Exits
open CvxVerif.Gen.Exits

def _root_.CvxVerif.Gen.Exits.Exit.status (e : Exit) : Option String := e.fields.lookup "status"

/-- same result fields (apart from the status), whatever their order in the dictionary -/
def sameFields (a b : Exit) : Bool :=
  a.fields.length == b.fields.length &&
  a.fields.all fun kv => kv.1 == "status" || b.fields.lookup kv.1 == some kv.2

/-- same way out: rescalings, symmetrisation walks, definitions of the scalars that the dictionary reads, fields -/
def sameEpilogue (a b : Exit) : Bool :=
  a.solver == b.solver && a.scal == b.scal && a.symm == b.symm && a.defs == b.defs && sameFields a b

/-- the exit taken by the stopping test when the iteration limit is reached -/
def isMaxitersExit (e : Exit) : Bool :=
  !e.failure && (e.status == some "'unknown'" || e.status == some "'optimal'|'unknown'")

/-- **failure exits leave like the MAXITERS exit** (C10 "self-consistent accuracy fields", C05 "at worst `'unknown'` with the final iterate") -/
theorem C10_failure_exits_like_maxiters :
    ∀ e ∈ exits, e.failure = true →
      e.status = some "'unknown'" ∧ ∃ r ∈ exits, isMaxitersExit r = true ∧ sameEpilogue e r = true := by
  decide +kernel

/-- there are failure exits in all three solvers (the statement above is not vacuous) -/
theorem C10_failure_exits_present :
    ∀ s ∈ ["conelp", "coneqp", "cpl"], 2 ≤ (exits.filter fun e => e.failure && e.solver == s).length := by decide +kernel

/-- the slacks reported by `cpl` are taken over the whole of `s` / `z` including the `mnl` nonlinear components, at every exit -/
theorem C10_cpl_slack_definitions :
    ∀ e ∈ exits, e.solver = "cpl" →
      e.defs.lookup "ts" = some "misc.max_step(s, dims, mnl)" ∧ e.defs.lookup "tz" = some "misc.max_step(z, dims, mnl)" ∧
      e.fields.lookup "primal slack" = some "-ts" ∧ e.fields.lookup "dual slack" = some "-tz" := by
  decide +kernel

end CvxVerif.Exits
