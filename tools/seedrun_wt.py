#!/usr/bin/env python3
"""like tools/seedrun.py but never touches /repo: the patch is applied in a scratch worktree and the checks run with VERIF_REPO=<worktree>"""
import os, sys, json, subprocess, shutil, tempfile, time
V='/verif'
def sh(cmd, **kw): return subprocess.run(cmd, shell=isinstance(cmd,str), capture_output=True, text=True, **kw)
sid, prop, src = sys.argv[1], sys.argv[2], sys.argv[3]
sd=os.path.join(V,'seeded',sid); os.makedirs(sd, exist_ok=True)
shutil.copy(os.path.join(src,'patch.diff'), os.path.join(sd,'patch.diff'))
demos=[f for f in os.listdir(src) if f.startswith('demo_') and f.endswith('.py')]
shutil.copy(os.path.join(src,demos[0]), os.path.join(sd,'demo.py'))
wt=tempfile.mkdtemp(prefix='seedwt_'); os.rmdir(wt)
assert sh(['git','-C','/repo','worktree','add','-f',wt,'HEAD','-q']).returncode==0
meta={'id':sid,'property':prop,'round':int(os.environ.get('SEED_ROUND','4'))}
try:
    meta['repo_commit']=sh(['git','-C','/repo','rev-parse','--short','HEAD']).stdout.strip()
    tmp=tempfile.mkdtemp(prefix='seedrun_')
    conf={}
    sh(['/venv/bin/python',V+'/tools/buildrepo.py',tmp+'/orig','--repo',wt])
    r=sh(['/venv/bin/python',sd+'/demo.py'],env=dict(os.environ,PYTHONPATH=tmp+'/orig',OPENBLAS_NUM_THREADS='1'),cwd='/tmp',timeout=900); conf['demo_exit_original']=r.returncode
    r=sh(['git','-C',wt,'apply',sd+'/patch.diff']); meta['applies']=(r.returncode==0)
    sh(['/venv/bin/python',V+'/tools/buildrepo.py',tmp+'/mod','--repo',wt])
    env=dict(os.environ,PYTHONPATH=tmp+'/mod'); env.pop('CVXOPT_VERIF',None)
    r=sh(['/venv/bin/python','-m','pytest','-q','-p','no:cacheprovider','--timeout=900'],env=env,cwd=wt,timeout=3000); conf['existing_tests_exit']=r.returncode
    r=sh(['/venv/bin/python',sd+'/demo.py'],env=dict(os.environ,PYTHONPATH=tmp+'/mod',OPENBLAS_NUM_THREADS='1'),cwd='/tmp',timeout=900); conf['demo_exit_seeded']=r.returncode
    meta['confirmed']=conf
    det={}
    for tier in ('quick','thorough'):
        t0=time.time()
        r=sh([V+'/check',prop,'--tier',tier],env=dict(os.environ,VERIF_REPO=wt,VERIF_LEANCHECKER='0',VERIF_NO_ESCALATE='1'),cwd=V,timeout=7200)
        lines=[l for l in (r.stdout+r.stderr).splitlines() if l.startswith('VIOLATION')]
        det[tier]={'exit':r.returncode,'violations':len(lines),'first':[l[:300] for l in lines[:3]],'wall_s':round(time.time()-t0,1)}
        if lines and tier=='quick': break
    meta['detection']={prop:det}
    meta['caught_by']=sorted(prop+':'+t for t,d in det.items() if d['violations']>0)
    shutil.rmtree(tmp,ignore_errors=True)
finally:
    sh(['git','-C','/repo','worktree','remove','--force',wt])
json.dump(meta,open(os.path.join(sd,'meta.json'),'w'),indent=1)
c=meta.get('confirmed',{})
print('%s tests_exit=%s demo orig/seeded=%s/%s caught_by=%s' % (sid,c.get('existing_tests_exit'),c.get('demo_exit_original'),c.get('demo_exit_seeded'),meta.get('caught_by')))
