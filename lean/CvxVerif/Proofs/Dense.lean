import CvxVerif.Model.Dense
/-! Helper lemmas for C15 (core Lean only). -/
namespace CvxVerif.Dense

theorem length_flatMap_map {α β γ : Type} (jl : List β) (il : List α) (f : β → α → γ) :
    (jl.flatMap fun j => il.map (f j)).length = jl.length * il.length := by
  induction jl with
  | nil => simp
  | cons j js ih => simp only [List.flatMap_cons, List.length_append, List.length_map, ih, List.length_cons]; rw [Nat.add_mul]; omega

theorem getElem?_flatMap_map {α β γ : Type} (jl : List β) (il : List α) (f : β → α → γ) (a b : Nat)
    (ha : a < il.length) (hb : b < jl.length) :
    (jl.flatMap fun j => il.map (f j))[a + b * il.length]? = some (f (jl[b]) (il[a])) := by
  induction jl generalizing b with
  | nil => simp at hb
  | cons j js ih =>
    simp only [List.flatMap_cons]
    cases b with
    | zero =>
      simp only [Nat.zero_mul, Nat.add_zero, List.getElem_cons_zero]
      rw [List.getElem?_append_left (by simpa using ha)]
      simp [ha]
    | succ b =>
      have hb' : b < js.length := by simpa using hb
      have : a + (b + 1) * il.length = (a + b * il.length) + il.length := by rw [Nat.succ_mul]; omega
      rw [this, List.getElem?_append_right (by simp)]
      simp only [List.length_map, Nat.add_sub_cancel, List.getElem_cons_succ]
      exact ih b hb'

theorem getD_flatMap_map {α β γ : Type} (jl : List β) (il : List α) (f : β → α → γ) (a b : Nat)
    (ha : a < il.length) (hb : b < jl.length) (d : γ) :
    (jl.flatMap fun j => il.map (f j)).getD (a + b * il.length) d = f (jl[b]) (il[a]) := by
  rw [List.getD_eq_getElem?_getD, getElem?_flatMap_map jl il f a b ha hb]; rfl

theorem cwrap_lt (i : Int) (n : Nat) (h : outRng i n = false) : cwrap i n < n := by
  simp only [outRng, Bool.or_eq_false_iff, decide_eq_false_iff_not] at h
  unfold cwrap; split <;> omega

end CvxVerif.Dense

namespace CvxVerif.Dense

theorem adjustBound_pos (n step v : Int) (hn : 0 ≤ n) (hs : 0 < step) :
    0 ≤ adjustBound n step v ∧ adjustBound n step v ≤ n := by
  unfold adjustBound
  have h1 : ¬ step < 0 := by omega
  simp only [h1, if_false]
  split
  · split <;> omega
  · split <;> omega

theorem adjustBound_neg (n step v : Int) (hn : 0 ≤ n) (hs : step < 0) :
    -1 ≤ adjustBound n step v ∧ adjustBound n step v ≤ n - 1 := by
  unfold adjustBound
  simp only [hs, if_true]
  split
  · split <;> omega
  · split <;> omega

theorem sliceStart_pos (n step : Int) (a : Option Int) (hn : 0 ≤ n) (hs : 0 < step) :
    0 ≤ sliceStart n step a ∧ sliceStart n step a ≤ n := by
  unfold sliceStart; cases a with
  | none => have : ¬ step < 0 := by omega
            simp only [this, if_false]; omega
  | some v => exact adjustBound_pos n step v hn hs

theorem sliceStop_pos (n step : Int) (b : Option Int) (hn : 0 ≤ n) (hs : 0 < step) :
    0 ≤ sliceStop n step b ∧ sliceStop n step b ≤ n := by
  unfold sliceStop; cases b with
  | none => have : ¬ step < 0 := by omega
            simp only [this, if_false]; omega
  | some v => exact adjustBound_pos n step v hn hs

theorem sliceStart_neg (n step : Int) (a : Option Int) (hn : 0 ≤ n) (hs : step < 0) :
    -1 ≤ sliceStart n step a ∧ sliceStart n step a ≤ n - 1 := by
  unfold sliceStart; cases a with
  | none => simp only [hs, if_true]; omega
  | some v => exact adjustBound_neg n step v hn hs

theorem sliceStop_neg (n step : Int) (b : Option Int) (hn : 0 ≤ n) (hs : step < 0) :
    -1 ≤ sliceStop n step b ∧ sliceStop n step b ≤ n - 1 := by
  unfold sliceStop; cases b with
  | none => simp only [hs, if_true]; omega
  | some v => exact adjustBound_neg n step v hn hs

theorem sliceLen_nonneg (start stop step : Int) (hs : step ≠ 0) : 0 ≤ sliceLen start stop step := by
  unfold sliceLen
  split
  · split
    · have := Int.ediv_nonneg (a := start - stop - 1) (b := -step) (by omega) (by omega); omega
    · omega
  · split
    · have := Int.ediv_nonneg (a := stop - start - 1) (b := step) (by omega) (by omega); omega
    · omega

/-- every element `start + t·step`, `t < len`, of a positive-step slice lies in `[start, stop)` -/
theorem slice_elems_pos (start stop step : Int) (hs : 0 < step) (t : Nat) (ht : (t : Int) < sliceLen start stop step) :
    start ≤ start + t * step ∧ start + t * step < stop := by
  unfold sliceLen at ht
  have h1 : ¬ step < 0 := by omega
  simp only [h1, if_false] at ht
  split at ht
  · have h2 : (t : Int) ≤ (stop - start - 1) / step := by omega
    have h3 : (t : Int) * step ≤ stop - start - 1 := (Int.le_ediv_iff_mul_le hs).mp h2
    have h4 : 0 ≤ (t : Int) * step := Int.mul_nonneg (by omega) (by omega)
    omega
  · omega

/-- and the next element is not: the slice is the whole arithmetic progression inside `[start, stop)` -/
theorem slice_maximal_pos (start stop step : Int) (hs : 0 < step) :
    stop ≤ start + sliceLen start stop step * step ∨ sliceLen start stop step = 0 ∧ stop ≤ start := by
  unfold sliceLen
  have h1 : ¬ step < 0 := by omega
  simp only [h1, if_false]
  split
  · left
    have := Int.lt_ediv_add_one_mul_self (stop - start - 1) hs
    omega
  · right; omega

theorem slice_elems_neg (start stop step : Int) (hs : step < 0) (t : Nat) (ht : (t : Int) < sliceLen start stop step) :
    stop < start + t * step ∧ start + t * step ≤ start := by
  unfold sliceLen at ht
  simp only [hs, if_true] at ht
  split at ht
  · have h2 : (t : Int) ≤ (start - stop - 1) / (-step) := by omega
    have h3 : (t : Int) * (-step) ≤ start - stop - 1 := (Int.le_ediv_iff_mul_le (by omega)).mp h2
    have h4 : 0 ≤ (t : Int) * (-step) := Int.mul_nonneg (by omega) (by omega)
    have h5 : (t : Int) * (-step) = -((t : Int) * step) := by rw [Int.mul_neg]
    omega
  · omega

theorem slice_maximal_neg (start stop step : Int) (hs : step < 0) :
    start + sliceLen start stop step * step ≤ stop ∨ sliceLen start stop step = 0 ∧ start ≤ stop := by
  unfold sliceLen
  simp only [hs, if_true]
  split
  · left
    have := Int.lt_ediv_add_one_mul_self (start - stop - 1) (show 0 < -step by omega)
    have h5 : ((start - stop - 1) / (-step) + 1) * (-step) = -(((start - stop - 1) / (-step) + 1) * step) := by rw [Int.mul_neg]
    omega
  · right; omega

end CvxVerif.Dense
