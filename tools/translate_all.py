#!/usr/bin/env python3
"""S1 for all properties with a translator tie: regenerate lean/CvxVerif/Gen/*.lean from /repo."""
import sys, os, importlib
sys.path.insert(0, os.path.dirname(os.path.abspath(__file__)))
rc = 0
sys.path.insert(0, os.path.join(os.path.dirname(os.path.abspath(__file__)), 'translate'))
import py2lean
for g in ('options', 'faults', 'dispatch', 'decide', 'decide_nl'):
    try:
        getattr(py2lean, 'gen_' + g)()
    except Exception as e:
        print('translate %s: %s' % (g, e)); rc = 1
try:
    import py2lean_start
    py2lean_start.gen_decide_start()
except Exception as e:
    print('translate decide_start: %s' % e); rc = 1
try:
    import py2lean_exits
    py2lean_exits.gen_exits()
except Exception as e:
    print('translate exits: %s' % e); rc = 1
try:
    import ccall2lean
    ccall2lean.gen_callargs()
except Exception as e:
    print('translate callargs: %s' % e); rc = 1
try:
    import cwrap2lean
    _t = cwrap2lean.gen_blas_safety(); cwrap2lean.gen_blas_driver(_t); cwrap2lean.gen_blas_foot(_t)
    cwrap2lean.gen_base_safety()
    _tl = cwrap2lean.gen_lapack_safety(); cwrap2lean.gen_lapack_driver(_tl); cwrap2lean.gen_lapack_foot(_tl)
except Exception as e:
    print('translate cwrap2lean: %s' % e); rc = 1
sys.exit(rc)
