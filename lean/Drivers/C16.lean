import CvxVerif.Model.Sparse
import CvxVerif.Model.Proto
open CvxVerif CvxVerif.Sparse CvxVerif.Proto

structure DS where
  objs : List (String × SpMat) := []

def DS.get (d : DS) (n : String) : Option SpMat := (d.objs.find? (·.1 == n)).map (·.2)
def DS.put (d : DS) (n : String) (A : SpMat) : DS := { objs := (n, A) :: d.objs.filter (·.1 != n) }

def showCCS (A : SpMat) : String :=
  let c := toCCS A
  s!"sp {A.nrows} {A.ncols} cp={showNats c.1} ri={showNats c.2.1} v={if c.2.2.isEmpty then "-" else ",".intercalate (c.2.2.map showRat)}"

def parseTrip (s : String) : Option (List (Nat × Nat × Rat)) :=
  if s == "-" then some [] else
  (s.splitOn ";").mapM fun t =>
    match t.splitOn "," with
    | [i, j, v] => match i.toNat?, j.toNat?, parseRat v with
      | some i, some j, some v => some (i, j, v)
      | _, _, _ => none
    | _ => none

def stepLine (d : DS) (line : String) : DS × String :=
  match words line with
  | ["reset"] => ({}, "ok")
  | ["new", name, m, n, trip] =>
    match m.toNat?, n.toNat?, parseTrip trip with
    | some m, some n, some t =>
      match fromTriplets m n t with
      | some A => (d.put name A, showCCS A)
      | none => (d, "TypeError")
    | _, _, _ => (d, "bad-op")
  | ["dump", name] => match d.get name with
    | some A => (d, showCCS A)
    | none => (d, "bad-op")
  | ["trans", dst, a] => match d.get a with
    | some A => let R := transpose A; (d.put dst R, showCCS R)
    | none => (d, "bad-op")
  | ["neg", dst, a] => match d.get a with
    | some A => let R := neg A; (d.put dst R, showCCS R)
    | none => (d, "bad-op")
  | ["scal", dst, a, c] => match d.get a, parseRat c with
    | some A, some c => let R := scale c A; (d.put dst R, showCCS R)
    | _, _ => (d, "bad-op")
  | ["get", name, r, c] => match d.get name, r.toNat?, c.toNat? with
    | some A, some r, some c => (d, showRat (A.get r c))
    | _, _, _ => (d, "bad-op")
  | [op, dst, a, b] =>
    match d.get a, d.get b with
    | some A, some B =>
      let r := if op == "add" then add A B else if op == "sub" then sub A B else if op == "mul" then mul A B else none
      if op != "add" && op != "sub" && op != "mul" then (d, "bad-op") else
      match r with
      | some R => (d.put dst R, showCCS R)
      | none => (d, "TypeError")
    | _, _ => (d, "bad-op")
  | ["set", name, r, c, v] => match d.get name, r.toNat?, c.toNat?, parseRat v with
    | some A, some r, some c, some v => let R := setEntry A r c v; (d.put name R, showCCS R)
    | _, _, _, _ => (d, "bad-op")
  | _ => (d, "bad-op")

def main : IO Unit := loop stepLine {}
