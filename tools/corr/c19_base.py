"""C19, base.c: generic products (axpy, gemm, gemv, syrk, symv with dense or sparse operands), elementwise operations (emul, ediv, emax, emin)
and the block constructors (sparse, spdiag), called with operands of every kind, typecode and shape and with every integer keyword, in a
crash-safe worker whose allocator puts a guard page after every buffer.  A call either raises or returns; accepted calls with sparse operands
are repeated on the dense images and must give the same numbers."""
import os, random
import vlib
from corr.c19_lapack import Worker, WIDE

INTS = [-1, 0, 0, 1, 1, 2, 2, 3, 4, 5]

def operand(rng, m, n, kinds='ds', tcs='dz', bad=0.0):
    if rng.random() < bad: m = max(0, m + rng.choice([-1, 1, 2])); 
    if rng.random() < bad: n = max(0, n + rng.choice([-1, 1, 2]))
    tc = rng.choice(tcs)
    if rng.choice(kinds) == 's': return {'sp': [tc, m, n, rng.randint(0, 5)]}
    return {'mat': [tc, m, n]}

def num(rng): return rng.choice([{'num': 1.0}, {'num': -2.0}, {'num': 0.0}, {'num': 2}, {'num': [1.0, -1.0]}])

def gen_case(rng, cid):
    r = rng.choice(['axpy', 'gemm', 'gemv', 'gemv', 'syrk', 'symv', 'symv', 'emul', 'ediv', 'emax', 'emin'])
    valid = rng.random() < 0.5
    bad = 0.0 if valid else 0.3
    tcs = rng.choice(['d', 'z']) if rng.random() < 0.9 else 'dzi'
    m, n, k = rng.randint(0, 4), rng.randint(0, 4), rng.randint(0, 4)
    args, pos = {}, []
    def opt(name, v, p=0.5):
        if rng.random() < p: args[name] = v
    if r == 'axpy':
        args['x'] = operand(rng, m, n, 'ds', tcs, bad); args['y'] = operand(rng, m, n, 'ds', tcs, bad); pos = ['x', 'y']
        opt('alpha', num(rng)); opt('partial', {'bool': rng.random() < 0.5}, 0.3)
    elif r == 'gemm':
        tA, tB = rng.choice('NTC'), rng.choice('NTC')
        args['A'] = operand(rng, *( (m, k) if tA == 'N' else (k, m)), 'ds', tcs, bad)
        args['B'] = operand(rng, *( (k, n) if tB == 'N' else (n, k)), 'ds', tcs, bad)
        args['C'] = operand(rng, m, n, 'ds', tcs, bad); pos = ['A', 'B', 'C']
        args['transA'] = {'chr': tA}; args['transB'] = {'chr': tB if rng.random() > 0.03 else 'X'}
        opt('alpha', num(rng)); opt('beta', num(rng)); opt('partial', {'bool': rng.random() < 0.5}, 0.3)
    elif r == 'gemv':
        t = rng.choice('NTC')
        ix, iy = (rng.choice([1, 1, 2, -1, -2]), rng.choice([1, 1, 2, -1])) if valid else (rng.choice(INTS), rng.choice(INTS))
        ox, oy = (rng.choice([0, 0, 1, 2]), rng.choice([0, 0, 1])) if valid else (rng.choice(INTS), rng.choice(INTS))
        lx, ly = ((n, m) if t == 'N' else (m, n))
        args['A'] = operand(rng, m, n, 'ds', tcs, bad)
        args['x'] = {'mat': [args['A'].get('mat', args['A'].get('sp'))[0], ox + max(0, (lx - 1) * abs(ix) + 1 if lx else 0), 1]}
        args['y'] = {'mat': [args['A'].get('mat', args['A'].get('sp'))[0], oy + max(0, (ly - 1) * abs(iy) + 1 if ly else 0), 1]}
        if not valid:
            for v in ('x', 'y'):
                if rng.random() < 0.4: args[v]['mat'][1] = max(0, args[v]['mat'][1] + rng.choice([-2, -1, 1]))
                if rng.random() < 0.1: args[v]['mat'][0] = rng.choice('dzi')
        pos = ['A', 'x', 'y']; args['trans'] = {'chr': t}
        opt('alpha', num(rng)); opt('beta', num(rng))
        if ix != 1 or rng.random() < 0.3: args['incx'] = {'int': ix}
        if iy != 1 or rng.random() < 0.3: args['incy'] = {'int': iy}
        if ox or rng.random() < 0.2: args['offsetx'] = {'int': ox}
        if oy or rng.random() < 0.2: args['offsety'] = {'int': oy}
        if not valid:
            opt('m', {'int': rng.choice(INTS)}, 0.4); opt('n', {'int': rng.choice(INTS)}, 0.4); opt('offsetA', {'int': rng.choice(INTS)}, 0.4)
        else:
            opt('m', {'int': m}, 0.2); opt('n', {'int': n}, 0.2)
    elif r == 'syrk':
        t = rng.choice('NT')
        args['A'] = operand(rng, *((n, k) if t == 'N' else (k, n)), 'ds', tcs, bad); args['C'] = operand(rng, n, n, 'ds', tcs, bad); pos = ['A', 'C']
        args['trans'] = {'chr': t if rng.random() > 0.03 else 'C'}; opt('uplo', {'chr': rng.choice('LU')})
        opt('alpha', num(rng)); opt('beta', num(rng)); opt('partial', {'bool': rng.random() < 0.5}, 0.3)
    elif r == 'symv':
        ix, iy = (rng.choice([1, 1, 2, -1]), rng.choice([1, 1, 2, -1])) if valid else (rng.choice(INTS), rng.choice(INTS))
        ox, oy = (rng.choice([0, 0, 1]), rng.choice([0, 0, 2])) if valid else (rng.choice(INTS), rng.choice(INTS))
        args['A'] = operand(rng, n, n, 'ds', tcs, bad)
        tc = args['A'].get('mat', args['A'].get('sp'))[0]
        args['x'] = {'mat': [tc, ox + ((n - 1) * abs(ix) + 1 if n else 0), 1]}; args['y'] = {'mat': [tc, oy + ((n - 1) * abs(iy) + 1 if n else 0), 1]}
        if not valid:
            for v in ('x', 'y'):
                if rng.random() < 0.4: args[v]['mat'][1] = max(0, args[v]['mat'][1] + rng.choice([-2, -1, 1]))
        pos = ['A', 'x', 'y']; opt('uplo', {'chr': rng.choice('LU')}); opt('alpha', num(rng)); opt('beta', num(rng))
        if ix != 1 or rng.random() < 0.3: args['incx'] = {'int': ix}
        if iy != 1 or rng.random() < 0.3: args['incy'] = {'int': iy}
        if ox or rng.random() < 0.2: args['offsetx'] = {'int': ox}
        if oy or rng.random() < 0.2: args['offsety'] = {'int': oy}
        if not valid: opt('n', {'int': rng.choice(INTS)}, 0.4); opt('offsetA', {'int': rng.choice(INTS)}, 0.4)
    else:
        a = operand(rng, m, n, 'ds', tcs, bad)
        b = operand(rng, m, n, 'ds', tcs, bad) if rng.random() < 0.8 else num(rng)
        args['a'] = a; args['b'] = b; pos = ['a', 'b']
    # symv is documented for real matrices only; emax / emin of a sparse and a dense operand are defined on the dense images already
    twin = valid and not args.get('partial', {}).get('bool') and r not in ('emax', 'emin') and not (r == 'symv' and 'z' in str(args['A']))
    return {'kind': 'base', 'id': cid, 'routine': r, 'args': args, 'pos': pos, 'twin': twin, 'valid': valid}

def show(case):
    return 'base.%s(%s)' % (case['routine'], ', '.join('%s=%s' % (k, list(v.values())[0]) for k, v in case['args'].items()))

def base_probes(ctx, rng, gb, prop='C19'):
    """prop = 'C19': faults are reported; prop = 'C16': sparse / dense disagreements are reported"""
    n = 6000 if ctx.quick() else 120000
    w = Worker(gb)
    stat = {}; per = {}
    cid = 7 * 10**6
    try:
        for it in range(n):
            case = gen_case(rng, cid); cid += 1
            res = w.run(case)
            if res.startswith('crash') or res == 'worker-died':
                w2 = Worker(gb, WIDE); res2 = w2.run(dict(case)); w2.close()
                if res2.startswith('crash') or res2 == 'worker-died':
                    if prop == 'C19': ctx.violation('c19:base-out-of-bounds:' + case['routine'], '%s touches memory outside its buffers (%s)' % (show(case), res2), case)
                    continue
                stat['library_overread'] = stat.get('library_overread', 0) + 1; res = res2
            if res == 'twin-differs' and prop == 'C16':
                ctx.violation('c16:sparse-dense-differ:' + case['routine'], '%s: the result with sparse operands differs from the result on their dense images' % show(case), case)
            if res == 'ccs-invalid' and prop == 'C16':
                ctx.violation('c16:ccs-invalid:' + case['routine'], '%s leaves a sparse argument with invalid compressed-column arrays' % show(case), case)
            key = 'ok' if res == 'ok' else 'exception' if res not in ('twin-differs', 'ccs-invalid') else res
            stat[key] = stat.get(key, 0) + 1
            if res == 'ok': per[case['routine']] = per.get(case['routine'], 0) + 1
    finally:
        w.close()
    ctx.cov['base_probes'] = dict(stat, calls=n, accepted_per_routine=per)
    return n
