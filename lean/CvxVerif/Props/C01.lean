import CvxVerif.Gen.Decide
import Mathlib.Tactic.Module
import Mathlib.Tactic.FieldSimp
import Mathlib.Tactic.Linarith
import Mathlib.Tactic.Positivity
/-!
# C01 — 'optimal' from the cone-LP solver is an independently checkable certificate

`Gen/Decide.lean` is regenerated from `coneprog.py` on every run: the statistics block of the main loop of
`conelp` (every vector statement and scalar assignment), the stopping test, the four `return` dictionaries
and the in-place rescalings that precede each `return`.  The theorems below are re-checked against it.
They hold over every ordered field, every vector space and every linear `A, G` (any size, any cone).
-/
namespace CvxVerif.C01
open CvxVerif.LAM CvxVerif.Gen.Decide

variable {K X Y Z : Type} [Field K] [LinearOrder K] [IsStrictOrderedRing K]
  [AddCommGroup X] [Module K X] [AddCommGroup Y] [Module K Y] [AddCommGroup Z] [Module K Z]

/-- the status strings of the four `return`s of the termination block, in source order -/
theorem C01_return_statuses :
    (conelp.returns.map (fun r => (r.1.find? (·.1 == "status")).map (·.2))) =
      [some "'unknown'", some "'optimal'", some "'primal infeasible'", some "'dual infeasible'"] := by decide

/-- **Soundness of 'optimal'.**  If the stopping test takes the `'optimal'` return, then the vectors that are
returned (the homogeneous iterates after the in-place rescaling by `1/τ`) satisfy the documented conditions
against the caller's own data: relative dual residual, relative primal residuals and the gap criterion. -/
theorem C01_optimal_sound (E : Env K X Y Z) (hE : E.Lawful) (i : conelp.In K X Y Z)
    (ABSTOL FEASTOL RELTOL : K) (MAXITERS iters : Nat)
    (htau : 0 < i.tau) (hx0 : 0 < i.resx0) (hy0 : 0 < i.resy0) (hz0 : 0 < i.resz0) :
    let st := conelp.stats E i
    conelp.branch ABSTOL FEASTOL MAXITERS RELTOL st.dinfres st.dres i.gap st.pinfres st.pres st.relgap iters
        = conelp.Branch.ret 1 →
    let r := conelp.epilogue1 i.x i.y i.s i.z i.tau
    E.nX (E.At r.2.1 + E.Gt r.2.2.2 + i.c) ≤ FEASTOL * i.resx0 ∧
    E.nY (E.A r.1 - i.b) ≤ FEASTOL * i.resy0 ∧
    E.nZ (r.2.2.1 + E.G r.1 - i.h) ≤ FEASTOL * i.resz0 ∧
    (i.gap ≤ ABSTOL ∨ ∃ rg, st.relgap = some rg ∧ rg ≤ RELTOL) ∧
    iters ≠ MAXITERS := by
  intro st hb r
  -- 1. the stopping test
  have hne : iters ≠ MAXITERS := by
    intro h; subst h; simp [conelp.branch] at hb
  have hc : (decide (st.pres ≤ FEASTOL) && decide (st.dres ≤ FEASTOL) &&
      (decide (i.gap ≤ ABSTOL) || (st.relgap.isSome && optCmp (fun a b => decide (a ≤ b)) st.relgap RELTOL))) = true := by
    have hne' : (iters == MAXITERS) = false := by simpa using hne
    simp only [conelp.branch, hne', Bool.or_false, Bool.false_eq_true, if_false] at hb
    by_contra hcon
    simp only [hcon, if_false] at hb
    split at hb
    · cases hb
    · split at hb <;> cases hb
  simp only [Bool.and_eq_true, Bool.or_eq_true, decide_eq_true_eq] at hc
  obtain ⟨⟨hpres, hdres⟩, hgap⟩ := hc
  have ht : i.tau ≠ 0 := htau.ne'
  have habs : |(-(1 / i.tau))| = 1 / i.tau := by
    rw [abs_neg, abs_of_pos (by positivity)]
  have habs' : |(1 / i.tau)| = 1 / i.tau := abs_of_pos (by positivity)
  -- 2. the three residual identities: residual of the returned vectors = (±1/τ) • (homogeneous residual)
  have e1 : E.At r.2.1 + E.Gt r.2.2.2 + i.c =
      (-(1 / i.tau)) • ((-(1:K)) • E.Gt i.z + (1:K) • ((-(1:K)) • E.At i.y + (0:K) • 0) + (-i.tau) • i.c) := by
    simp only [r, conelp.epilogue1, map_smul]
    match_scalars <;> first | (field_simp; done) | ring | (field_simp; ring)
  have e2 : E.A r.1 - i.b = (1 / i.tau) • ((1:K) • E.A i.x + (0:K) • 0 + (-i.tau) • i.b) := by
    simp only [r, conelp.epilogue1, map_smul]
    match_scalars <;> first | (field_simp; done) | ring | (field_simp; ring)
  have e3 : r.2.2.1 + E.G r.1 - i.h =
      (1 / i.tau) • ((0:K) • i.rz + (1:K) • ((1:K) • E.G i.x + (0:K) • 0 + (1:K) • i.s) + (-i.tau) • i.h) := by
    simp only [r, conelp.epilogue1, map_smul]
    match_scalars <;> first | (field_simp; done) | ring | (field_simp; ring)
  refine ⟨?_, ?_, ?_, ?_, hne⟩
  · rw [e1, hE.nX_smul, habs]
    have : st.dres = E.nX ((-(1:K)) • E.Gt i.z + (1:K) • ((-(1:K)) • E.At i.y + (0:K) • 0) + (-i.tau) • i.c) / i.tau / i.resx0 := rfl
    rw [this, div_le_iff₀ hx0] at hdres
    calc _ = _ / i.tau := by ring
      _ ≤ _ := hdres
  · rw [e2, hE.nY_smul, habs']
    have h1 : E.nY ((1:K) • E.A i.x + (0:K) • 0 + (-i.tau) • i.b) / i.tau / i.resy0 ≤ st.pres := by first | exact le_max_left _ _ | exact le_max_right _ _
    have h2 := le_trans h1 hpres
    rw [div_le_iff₀ hy0] at h2
    calc _ = _ / i.tau := by ring
      _ ≤ _ := h2
  · rw [e3, hE.nZ_smul, habs']
    have h1 : E.nZ ((0:K) • i.rz + (1:K) • ((1:K) • E.G i.x + (0:K) • 0 + (1:K) • i.s) + (-i.tau) • i.h) / i.tau / i.resz0 ≤ st.pres := by
      first | exact le_max_left _ _ | exact le_max_right _ _
    have h2 := le_trans h1 hpres
    rw [div_le_iff₀ hz0] at h2
    calc _ = _ / i.tau := by ring
      _ ≤ _ := h2
  · rcases hgap with h | ⟨h1, h2⟩
    · exact Or.inl h
    · right
      cases hrg : st.relgap with
      | none => rw [hrg] at h1; simp at h1
      | some rg => rw [hrg] at h2; exact ⟨rg, rfl, by simpa [optCmp] using h2⟩


/-- **Objective fields.**  The reported primal and dual objective are `cᵀx` and `−hᵀz − bᵀy` of the returned
(rescaled) vectors. -/
theorem C01_fields_consistent (E : Env K X Y Z) (hE : E.Lawful) (i : conelp.In K X Y Z) (htau : 0 < i.tau) :
    let st := conelp.stats E i
    let r := conelp.epilogue1 i.x i.y i.s i.z i.tau
    st.pcost = E.dX i.c r.1 ∧ st.dcost = -(E.dY i.b r.2.1 + E.dZ i.h r.2.2.2) := by
  intro st r
  have ht : i.tau ≠ 0 := htau.ne'
  constructor
  · show E.dX i.c i.x / i.tau = E.dX i.c ((1 / i.tau) • i.x)
    rw [hE.dX_smul]; field_simp
  · show -(E.dY i.b i.y + E.dZ i.h i.z) / i.tau = -(E.dY i.b ((1 / i.tau) • i.y) + E.dZ i.h ((1 / i.tau) • i.z))
    rw [hE.dY_smul, hE.dZ_smul]; field_simp

/-- the result dictionary of the `'optimal'` return maps every documented key to the statistic of that name,
and the two certificate-residual fields to `None` -/
theorem C01_result_map :
    (conelp.returns[1]?).map (·.1) = some
      [("x", "x"), ("y", "y"), ("s", "s"), ("z", "z"), ("status", "'optimal'"), ("gap", "gap"),
       ("relative gap", "relgap"), ("primal objective", "pcost"), ("dual objective", "dcost"),
       ("primal infeasibility", "pres"), ("dual infeasibility", "dres"), ("primal slack", "-ts"),
       ("dual slack", "-tz"), ("residual as primal infeasibility certificate", "None"),
       ("residual as dual infeasibility certificate", "None"), ("iterations", "iters")] := by decide

/-- **The residuals are normalised as documented**: `resx0 = max(1, ‖c‖)`, `resy0 = max(1, ‖b‖)` and `resz0 = max(1, ‖h‖)` with the *cone*
norm of `h` (which reads only the lower triangles of the 's' blocks) — not the norm of the stored array. -/
theorem C01_normalisers (E : Env K X Y Z) (c : X) (b : Y) (h : Z) :
    conelp.resx0Def E c b h = max 1 (E.nX c) ∧ conelp.resy0Def E c b h = max 1 (E.nY b) ∧ conelp.resz0Def E c b h = max 1 (E.nZ h) :=
  ⟨rfl, rfl, rfl⟩

/-- how the 's' blocks must be walked: block orders `m` from `dims['s']`, first block after the 'l' and 'q' parts, stride `m²` -/
def symmWalk : String := "order m over dims['s'] from dims['l'] + sum(dims['q']) step m ** 2"

/-- every return of `conelp` that hands out `s` or `z` symmetrises all of their 's' blocks with the correct offsets
(a wrong start or stride corrupts the returned vectors only for particular cone structures) -/
theorem C01_symm_walk : ∀ r ∈ conelp.returns, ∀ e ∈ r.2, e.1 = "symm" → e.2.2 = symmWalk := by decide

/-- before the `'optimal'` return all four iterates are rescaled and both cone vectors are symmetrised -/
theorem C01_epilogue_map :
    (conelp.returns[1]?).map (·.2) = some
      [("scal", "x", "1.0 / tau"), ("scal", "y", "1.0 / tau"), ("scal", "s", "1.0 / tau"),
       ("scal", "z", "1.0 / tau"), ("symm", "s", symmWalk), ("symm", "z", symmWalk)] := by decide

/-- the iteration counter of a returned result never exceeds `maxiters`: the loop is
`for iters in range(MAXITERS+1)` (C09_loop_bound) and at `iters = MAXITERS` the stopping test returns -/
theorem C01_maxiters_exit (ABSTOL FEASTOL RELTOL : K) (M : Nat) (d p rg : Option K) (dr g pr : K) :
    conelp.branch ABSTOL FEASTOL M RELTOL d dr g p pr rg M = conelp.Branch.ret 0 := by
  simp [conelp.branch]

end CvxVerif.C01
