import CvxVerif.Proofs.BlasSpec
import CvxVerif.Gen.BlasWrap
/-!
# C17 — BLAS wrappers compute the reference operation on exactly the addressed data

`Model/BlasSpec.lean` is the reference semantics (hand-written from the BLAS definitions); the correspondence
check `tools/corr/c17.py` feeds the integer arguments through the *generated* argument prefix of each wrapper
(`Gen/BlasWrap.lean`: defaults, accept/reject) and compares every argument of the real call with the reference
result, exactly.  Theorems: frames (no element outside the addressed output view changes) and documented defaults.
-/
namespace CvxVerif.BlasSpec
open CvxVerif.Dense CvxVerif.CWrap

/-- **Frame, level 1.** `scal`, `copy`, `axpy` and both results of `swap` differ from the input buffers only at the
positions `vpos off n inc k`, `k < n`, of the output vector. -/
theorem C17_frame_scal (a : Num) (x : Buf) (n : Nat) (ox ix : Int) (q : Nat) (hq : ∀ k, k < n → vpos ox n ix k ≠ q) :
    (scal a x n ox ix).getD q zero = x.getD q zero := vwrite_frame _ _ _ _ _ _ hq

theorem C17_frame_copy (x y : Buf) (n : Nat) (ox ix oy iy : Int) (q : Nat) (hq : ∀ k, k < n → vpos oy n iy k ≠ q) :
    (copy x y n ox ix oy iy).getD q zero = y.getD q zero := vwrite_frame _ _ _ _ _ _ hq

theorem C17_frame_axpy (a : Num) (x y : Buf) (n : Nat) (ox ix oy iy : Int) (q : Nat) (hq : ∀ k, k < n → vpos oy n iy k ≠ q) :
    (axpy a x y n ox ix oy iy).getD q zero = y.getD q zero := vwrite_frame _ _ _ _ _ _ hq

theorem C17_frame_swap (x y : Buf) (n : Nat) (ox ix oy iy : Int) (q : Nat) :
    ((∀ k, k < n → vpos ox n ix k ≠ q) → (swap x y n ox ix oy iy).1.getD q zero = x.getD q zero) ∧
    ((∀ k, k < n → vpos oy n iy k ≠ q) → (swap x y n ox ix oy iy).2.getD q zero = y.getD q zero) :=
  ⟨fun h => vwrite_frame _ _ _ _ _ _ h, fun h => vwrite_frame _ _ _ _ _ _ h⟩

/-- **Frame, level 2 (vector outputs).** `gemv`, `symv/hemv` change only the addressed elements of `y`;
`trmv/tbmv/trsv/tbsv` only those of `x`.  `A` is not an output at all (it is not returned). -/
theorem C17_frame_gemv (alpha beta : Num) (A x y : Buf) (trans : Int) (m n : Nat) (oA ldA ox ix oy iy : Int) (q : Nat)
    (hq : ∀ k, k < (if trans = 78 then m else n) → vpos oy (if trans = 78 then m else n) iy k ≠ q) :
    (gemv alpha beta A x y trans m n oA ldA ox ix oy iy).getD q zero = y.getD q zero := by
  unfold gemv
  by_cases ht : trans = 78 <;> simp only [ht, if_true, if_false] at hq ⊢ <;> exact vwrite_frame _ _ _ _ _ _ hq

theorem C17_frame_symv (herm : Bool) (alpha beta : Num) (A x y : Buf) (uplo : Int) (n : Nat) (oA ldA ox ix oy iy : Int)
    (q : Nat) (hq : ∀ k, k < n → vpos oy n iy k ≠ q) :
    (symv herm alpha beta A x y uplo n oA ldA ox ix oy iy).getD q zero = y.getD q zero :=
  vwrite_frame _ _ _ _ _ _ hq

theorem C17_frame_trmv (A x : Buf) (uplo trans diag : Int) (n : Nat) (oA ldA ox ix : Int) (q : Nat)
    (hq : ∀ k, k < n → vpos ox n ix k ≠ q) :
    (trmv A x uplo trans diag n oA ldA ox ix).getD q zero = x.getD q zero := vwrite_frame _ _ _ _ _ _ hq

theorem C17_frame_trsv (A x : Buf) (uplo trans diag : Int) (n : Nat) (oA ldA ox ix : Int) (q : Nat)
    (hq : ∀ k, k < n → vpos ox n ix k ≠ q) :
    (trsv A x uplo trans diag n oA ldA ox ix).getD q zero = x.getD q zero := vwrite_frame _ _ _ _ _ _ hq

theorem C17_frame_tbmv (A x : Buf) (uplo trans diag : Int) (n k : Nat) (oA ldA ox ix : Int) (q : Nat)
    (hq : ∀ j, j < n → vpos ox n ix j ≠ q) :
    (tbmv A x uplo trans diag n k oA ldA ox ix).getD q zero = x.getD q zero := vwrite_frame _ _ _ _ _ _ hq

/-- **Frame, matrix outputs.** `gemm` changes only the `m × n` block of `C`, `ger/geru` only the `m × n` block of `A`,
`trmm` only the `m × n` block of `B` (positions `off + i + j·ld`). -/
theorem C17_frame_gemm (alpha beta : Num) (A B C : Buf) (tA tB : Int) (m n k : Nat) (oA ldA oB ldB oC ldC : Int) (q : Nat)
    (hq : ∀ i j, i < m → j < n → (oC + i + j * ldC).toNat ≠ q) :
    (gemm alpha beta A B C tA tB m n k oA ldA oB ldB oC ldC).getD q zero = C.getD q zero := by
  unfold gemm
  exact block_frame m n oC ldC (fun _ i j => (alpha.mul (sum ((List.range k).map fun l =>
    (opGet A oA ldA tA i l).mul (opGet B oB ldB tB l j)))).add (beta.mul (mget C oC ldC i j))) C q hq

theorem C17_frame_ger (cj : Bool) (alpha : Num) (x y A : Buf) (m n : Nat) (ox ix oy iy oA ldA : Int) (q : Nat)
    (hq : ∀ i j, i < m → j < n → (oA + i + j * ldA).toNat ≠ q) :
    (ger cj alpha x y A m n ox ix oy iy oA ldA).getD q zero = A.getD q zero := by
  unfold ger
  exact block_frame m n oA ldA (fun B i j => (mget B oA ldA i j).add ((alpha.mul ((vread x ox m ix).getD i zero)).mul
    (if cj then ((vread y oy n iy).getD j zero).conj else (vread y oy n iy).getD j zero))) A q hq

theorem C17_frame_trmm (alpha : Num) (A B : Buf) (side uplo tA diag : Int) (m n : Nat) (oA ldA oB ldB : Int) (q : Nat)
    (hq : ∀ i j, i < m → j < n → (oB + i + j * ldB).toNat ≠ q) :
    (trmm alpha A B side uplo tA diag m n oA ldA oB ldB).getD q zero = B.getD q zero := by
  unfold trmm
  exact block_frame m n oB ldB (fun _ i j => alpha.mul (if side = 76 then
      sum ((List.range m).map fun l => (opTri (triGet A oA ldA uplo diag) tA i l).mul (mget B oB ldB l j))
    else sum ((List.range n).map fun l => (mget B oB ldB i l).mul (opTri (triGet A oA ldA uplo diag) tA l j)))) B q hq

/-- buffers never change length -/
theorem C17_length_axpy (a : Num) (x y : Buf) (n : Nat) (ox ix oy iy : Int) :
    (axpy a x y n ox ix oy iy).length = y.length := vwrite_length _ _ _ _ _

/-- **Documented default of `n` (level 1)**, read off the generated prefix of `blas.scal`:
`n = (len(x) >= offset+1) ? 1 + (len(x)-offset-1)/inc : 0`. -/
theorem C17_default_n_scal (x_isMat : Bool) (x_len ix n ox ix' n' ox' : Int)
    (h : CvxVerif.Gen.Blas.scal x_isMat x_len ix n ox = .call [ix', n', ox']) (hn : n < 0) :
    n' = if x_len ≥ ox + 1 then 1 + Int.tdiv (x_len - ox - 1) ix else 0 := by
  unfold CvxVerif.Gen.Blas.scal withVal at h
  generalize Int.tdiv (x_len - ox - 1) ix = q at h ⊢
  grind (splits := 30)

/-- **Documented defaults of `gemv`**: `m = A.size[0]`, `n = A.size[1]`, `ldA = max(1, A.size[0])`. -/
theorem C17_defaults_gemv (A_id : Int) (A_isMat : Bool) (A_len A_ncols A_nrows x_id : Int) (x_isMat : Bool) (x_len y_id : Int)
    (y_isMat : Bool) (y_len ix iy iy1 ldA m n oA ox oy trans : Int) (ao bo opq : Bool) (ix' iy' iy1' ldA' m' n' oA' ox' oy' trans' : Int)
    (h : CvxVerif.Gen.Blas.gemv A_id A_isMat A_len A_ncols A_nrows x_id x_isMat x_len y_id y_isMat y_len ix iy iy1 ldA m n oA ox oy
      trans ao bo opq = .call [ix', iy', iy1', ldA', m', n', oA', ox', oy', trans']) :
    (m < 0 → m' = A_nrows) ∧ (n < 0 → n' = A_ncols) ∧ (ldA = 0 → ldA' = max 1 A_nrows) := by
  unfold CvxVerif.Gen.Blas.gemv withVal at h
  grind (splits := 60)

end CvxVerif.BlasSpec
