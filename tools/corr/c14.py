"""C14: MPS writer/reader of modeling.op vs the record-level model Model/Mps.lean.
 A. tofile on generated LPs: the records of the real file == Mps.write of the flattened LP (names, order, 6-digit values);
 B. fromfile on generated fixed-format files over the supported subset == Mps.read (constraints in order, errors by class);
 C. tofile -> fromfile on the real code: same sizes, coefficients to 6 digits, same status / optimal value."""
import os, sys, random, io, contextlib, tempfile
from fractions import Fraction
import vlib

LEAN_TARGETS = ['CvxVerif.Props.C14']
MODEL_FILES = ['CvxVerif.Model.Mps']
LEVEL = 'proof'
TRUSTED = ['record-level model lean/CvxVerif/Model/Mps.lean of the MPS subset (read = meaning of the format in the order fromfile builds constraints; write = tofile)',
           'the harness: cutting fixed-format lines into fields at the standard columns, the flattening of a modeling LP into scalar rows/columns and the '
           'label rule name[:7-len(str(i))]+"_"+str(i), number formatting %7.5E']
ASSUMPTIONS = ['character-level layout (column positions, number formatting) is checked by the harness tokenizer, not proved',
               'files outside the supported subset (negative UP bounds conventions, RANGES on N rows, OBJSENSE, free-format) are not generated']

def enc(s):
    if s == '': return '%e'
    return s.replace('%', '%25').replace(' ', '%20').replace(',', '%2C').replace(':', '%3A').replace('|', '%7C').replace('=', '%3D')
def frs(x):
    f = Fraction(x); return str(f.numerator) if f.denominator == 1 else '%d/%d' % (f.numerator, f.denominator)

# ---------------------------------------------------------------- tokenizer (fixed format)
def cut(path):
    """fields of every data line by section; returns dict section -> list of tuples"""
    rec = {'NAME': None, 'ROWS': [], 'COLUMNS': [], 'RHS': [], 'RANGES': [], 'BOUNDS': []}
    sec = None
    collabel = None
    for s in open(path):
        s = s.rstrip('\n')
        if not s.strip() or s[0] == '*': continue
        if s[0] != ' ':
            sec = s.split()[0]
            if sec == 'NAME': rec['NAME'] = s[14:22].strip()
            continue
        if sec == 'ROWS': rec['ROWS'].append((s[1:3].strip(), s[4:12].strip()))
        elif sec == 'COLUMNS':
            if s[4:12].strip(): collabel = s[4:12].strip()
            rec['COLUMNS'].append((collabel, s[14:22].strip(), s[24:36]))
            if s[39:47].strip(): rec['COLUMNS'].append((collabel, s[39:47].strip(), s[49:61]))
        elif sec in ('RHS', 'RANGES'):
            rec[sec].append((s[4:12].strip(), s[14:22].strip(), s[24:36]))
            if s[39:47].strip(): rec[sec].append((s[4:12].strip(), s[39:47].strip(), s[49:61]))
        elif sec == 'BOUNDS':
            rec['BOUNDS'].append((s[1:3].strip(), s[4:12].strip(), s[14:22].strip(), s[24:36]))
    return rec

# ---------------------------------------------------------------- A / C: generated LPs through tofile
NAMES = ['', '', 'x', 'y', 'z1', 'cost', 'price', 'alpha beta', 'averyveryverylongname', 'averyveryverylongname2', 'a_0', '0', '1', 'capacity', 'u%v']

def label(name, k, i):
    nm = name if name else str(k)
    return (nm[:(7 - len(str(i)))] + '_' + str(i))[:8]

def gen_lp(rng, M, cv, distinct=True, big=False):
    """returns (op, flat) where flat = dict(cols, rows, A, c) of the flattened LP"""
    # big: two-digit positions, component indices and row indices (the 8-character labels are cut differently for them)
    nv = rng.choice([1, 2, 11]) if big else rng.randint(1, 3)
    pool = list(NAMES); rng.shuffle(pool)
    vnames, cnames = [], []
    def pick(used):
        for _ in range(50):
            nm = rng.choice(pool)
            if not distinct or nm == '' or nm not in used: return nm
        return ''
    vs = []
    for k in range(nv):
        nm = pick(vnames); vnames.append(nm)
        vs.append(M.variable(rng.choice([1, 2, 11, 12]) if big else rng.randint(1, 3), nm))
    def coefmat(m, n, allow_compact=True):
        """returns (matrix-like coefficient for a*v, dense list rows m x n)"""
        r = rng.random()
        val = lambda: float(rng.choice([0, 0, 1, -1, 2, -3, 0.5, 1.25, 1e-3, 123456.789, -7e5]))
        if allow_compact and m == n and r < 0.2:
            a = val() or 1.0; return a, [[a if i == j else 0.0 for j in range(n)] for i in range(m)]
        if allow_compact and r < 0.4 and m > 1:
            row = [val() for _ in range(n)]
            if not any(row): row[0] = 1.0
            A = cv.matrix(row, (1, n));
            return (cv.sparse(A) if rng.random() < 0.3 else A), [row[:] for _ in range(m)]
        rows = [[val() for _ in range(n)] for _ in range(m)]
        if not any(any(r_) for r_ in rows): rows[0][0] = 2.0
        A = cv.matrix([[rows[i][j] for i in range(m)] for j in range(n)])
        return (cv.sparse(A) if rng.random() < 0.4 else A), rows
    # objective
    obj = None; cflat = {}
    for k, v in enumerate(vs):
        if rng.random() < 0.8:
            row = [float(rng.choice([0, 1, -1, 2.5, 3])) for _ in range(len(v))]
            if not any(row): row[0] = 1.0
            t = M.dot(cv.matrix(row), v)
            obj = t if obj is None else obj + t
            for i, a in enumerate(row): cflat[(k, i)] = a
    if obj is None:
        obj = M.dot(cv.matrix([1.0] * len(vs[0])), vs[0])
        for i in range(len(vs[0])): cflat[(0, i)] = 1.0
    if rng.random() < 0.5: obj = obj + float(rng.randint(-3, 3))
    cons, rows, Aflat = [], [], {}
    for j in range(rng.choice([2, 3, 11, 12]) if big else rng.randint(1, 4)):
        nm = pick(cnames); cnames.append(nm)
        m = rng.choice([1, 2, 11, 12]) if big else rng.choice([1, 2, 3])
        f = None; used = []
        for k, v in enumerate(vs):
            if rng.random() < 0.7 or (f is None and k == len(vs) - 1):
                # a scalar (length-1) variable may enter a vector constraint by broadcasting
                a, dense = coefmat(m, len(v))
                if isinstance(a, float):
                    if len(v) != m: a, dense = coefmat(m, len(v), False)
                t = a * v
                f = t if f is None else f + t
                used.append((k, dense))
        lg = len(f)
        if lg != m: continue
        rhs = [float(rng.choice([0, 1, -2, 4.5, 10])) for _ in range(m)]
        rh = cv.matrix(rhs) if (m > 1 and rng.random() < 0.7) else rhs[0]
        if not isinstance(rh, float): pass
        else: rhs = [rhs[0]] * m
        ty = rng.choice(['<', '<', '='])
        c = (f <= rh) if ty == '<' else (f == rh)
        c.name = nm
        cons.append(c)
        for i in range(m):
            rows.append((len(cons) - 1, i, nm, 'L' if ty == '<' else 'E', rhs[i]))
        for k, dense in used:
            for i in range(m):
                for q in range(len(vs[k])):
                    Aflat[(len(cons) - 1, i, k, q)] = Aflat.get((len(cons) - 1, i, k, q), 0.0) + dense[i][q]
    if not cons: return None
    p = M.op(obj, cons)
    p.name = rng.choice(['', 'lp1', 'a long problem name'])
    return p, vs, cons, cflat, rows, Aflat

def flat_lines(p, vs, cons, cflat, rows, Aflat):
    """protocol lines for Mps.write, following op.variables() / op.constraints() order"""
    variables = p.variables(); constraints = p.constraints()
    vk = {id(v): k for k, v in enumerate(vs)}
    ck = {id(c): k for k, c in enumerate(cons)}
    cols = []     # (label, k_orig, i)
    for k, v in enumerate(variables):
        for i in range(len(v)): cols.append((label(v.name, k, i), vk[id(v)], i))
    lines = ['reset'] + ['wcol ' + enc(c[0]) for c in cols]
    lines.append('wobj ' + (','.join(frs(cflat.get((c[1], c[2]), 0.0)) for c in cols) or '-'))
    rlabels = []
    for k, c in enumerate(constraints):
        ko = ck[id(c)]
        for (kk, i, nm, ty, rhs) in rows:
            if kk != ko: continue
            lab = label(c.name, k, i); rlabels.append(lab)
            lines.append('wrow %s %s %s %s' % (ty, enc(lab), frs(rhs), ','.join(frs(Aflat.get((ko, i, c_[1], c_[2]), 0.0)) for c_ in cols)))
    lines.append('write')
    return lines, [c[0] for c in cols], rlabels

def fmt(x):
    v = float(Fraction(x))
    return '% 7.5E' % (0.0 if v == 0 else v)
def nz(t): return ' 0.00000E+00'.strip() if t.strip() in ('-0.00000E+00', '0.00000E+00') else t.strip()

# ---------------------------------------------------------------- B: generated files through fromfile
def gen_file(rng):
    """a fixed-format MPS text over the supported subset + its record lines for Mps.read"""
    nrows = rng.randint(1, 4); ncols = rng.randint(1, 4)
    rl = ['R%d' % i for i in range(nrows)]; cl = ['C%d' % j for j in range(ncols)]
    if rng.random() < 0.2: rl[-1] = 'row two'
    if rng.random() < 0.2: cl[-1] = 'col x'
    types = [rng.choice(['L', 'G', 'E']) for _ in rl]
    out = ['NAME          ' + rng.choice(['', 'TESTLP', 'AB CD']), 'ROWS']
    rec = ['reset']
    rows = [('N', 'COST')] + list(zip(types, rl))
    if rng.random() < 0.1: rows.append(('N', 'FREE2'))
    if rng.random() < 0.05: rows.append((rng.choice(['X', 'LL']), 'BAD'))
    if rng.random() < 0.05: rows.append((rng.choice(['L', 'G']), rl[0]))         # repeated label
    for t, l in rows:
        out.append(' %-2s %-8s' % (t, l)); rec.append('row %s %s' % (enc(t), enc(l)))
        if rng.random() < 0.1: out.append('* a comment')
    out.append('COLUMNS')
    val = lambda: rng.choice([1.0, -1.0, 2.5, 3.0, -0.125, 40.0, 1e-3])
    for c in cl:
        ents = []
        targets = ['COST'] + rl
        rng.shuffle(targets)
        for r in targets[:rng.randint(0 if rng.random() < 0.1 else 1, len(targets))]: ents.append((r, val()))
        if rng.random() < 0.04: ents.append(('NOPE', 1.0))
        if rng.random() < 0.05 and ents: ents.append((ents[0][0], val()))          # repeated entry: the later one counts
        i = 0
        first = True
        while i < len(ents):
            lab = c if (first or rng.random() < 0.7) else ''
            first = False
            if i + 1 < len(ents) and rng.random() < 0.5:
                out.append('    %-8s  %-8s  %12s   %-8s  %12s' % (lab, ents[i][0], fmt(ents[i][1]).strip().rjust(12), ents[i + 1][0], fmt(ents[i + 1][1]).strip().rjust(12)))
                rec += ['col %s %s %s' % (enc(c), enc(ents[i][0]), frs(float(fmt(ents[i][1])))), 'col %s %s %s' % (enc(c), enc(ents[i + 1][0]), frs(float(fmt(ents[i + 1][1]))))]
                i += 2
            else:
                out.append('    %-8s  %-8s  %12s' % (lab, ents[i][0], fmt(ents[i][1]).strip().rjust(12)))
                rec.append('col %s %s %s' % (enc(c), enc(ents[i][0]), frs(float(fmt(ents[i][1])))))
                i += 1
    out.append('RHS')
    vecs = ['RHS1'] + (['RHS2'] if rng.random() < 0.2 else [])
    for r in ['COST'] + rl:
        for vname in vecs:
            if rng.random() < 0.6:
                v = rng.choice([0.0, 1.0, -2.0, 7.5, 100.0])
                out.append('    %-8s  %-8s  %12s' % (vname, r, fmt(v).strip().rjust(12))); rec.append('rhs %s %s %s' % (enc(vname), enc(r), frs(float(fmt(v)))))
    if rng.random() < 0.5:
        out.append('RANGES')
        for r in rl:
            if rng.random() < 0.5:
                v = rng.choice([0.0, 1.0, -2.0, 3.5])
                out.append('    %-8s  %-8s  %12s' % ('RNG', r, fmt(v).strip().rjust(12))); rec.append('range %s %s %s' % (enc('RNG'), enc(r), frs(float(fmt(v)))))
    if rng.random() < 0.8:
        out.append('BOUNDS')
        for c in cl + (['NOCOL'] if rng.random() < 0.04 else []):
            for _ in range(rng.choice([0, 1, 1, 2])):
                t = rng.choice(['LO', 'UP', 'FX', 'FR', 'MI', 'PL'] + (['BV'] if rng.random() < 0.03 else []))
                v = rng.choice([0.0, 1.0, -1.0, 5.0, 10.0])
                if t in ('FR', 'MI', 'PL'):
                    out.append(' %-2s %-8s  %-8s' % (t, 'BND', c)); v = 0.0
                else:
                    out.append(' %-2s %-8s  %-8s  %12s' % (t, 'BND', c, fmt(v).strip().rjust(12)))
                rec.append('bound %s %s %s %s' % (enc(t), enc('BND'), enc(c), frs(float(fmt(v)))))
    out.append('ENDATA')
    rec.append('read')
    return '\n'.join(out) + '\n', rec

def canon_op(p):
    """canonical text of a real op after fromfile, in the format of the driver's `lp` line (coefficients sorted by label)"""
    def coef(f):
        d = {}
        for v, c in f._linear._coeff.items(): d[v.name] = d.get(v.name, 0) + float(c[0])
        return d
    def con(c): return (c.name, coef(c._f), float(c._f._constant[0]))
    return {'cols': sorted(v.name for v in p.variables()), 'obj': coef(p.objective), 'objc': float(p.objective._constant[0]),
            'ineq': [con(c) for c in p._inequalities], 'eq': [con(c) for c in p._equalities]}

def dec(s):
    if s == '%e': return ''
    return s.replace('%20', ' ').replace('%2C', ',').replace('%3A', ':').replace('%7C', '|').replace('%3D', '=').replace('%25', '%')

def parse_lp(line):
    d = dict(kv.split('=', 1) for kv in line[3:].split(' '))
    def coef(s):
        if s == '-': return {}
        out = {}
        for t in s.split(','):
            k, v = t.rsplit('=', 1); out[dec(k)] = float(Fraction(v))
        return out
    def cons(s):
        if s == '-': return []
        out = []
        for t in s.split('|'):
            nm, cf, const = t.split(':'); out.append((dec(nm), coef(cf), float(Fraction(const))))
        return out
    return {'cols': sorted(dec(c) for c in d['cols'].split(',')) if d['cols'] != '-' else [], 'obj': coef(d['obj']), 'objc': float(Fraction(d['objc'])),
            'ineq': cons(d['ineq']), 'eq': cons(d['eq'])}

def err_kind(e):
    s = str(e)
    if isinstance(e, KeyError): return 'KeyError:norow'
    if isinstance(e, ValueError):
        for k, w in (('unknown row type', 'rowtype'), ('unknown column label', 'nocol'), ('repeated', 'repeated'), ('unknown bound type', 'boundtype'), ('has no variables', 'infeasible')):
            if k in s: return 'ValueError:' + w
    return type(e).__name__ + ':' + s[:40]

def correspond(ctx):
    cvxopt = vlib.use_build(ctx.build)
    import cvxopt.modeling as M
    from cvxopt import solvers
    solvers.options['show_progress'] = False
    solvers.options['glpk'] = {'msg_lev': 'GLP_MSG_OFF', 'tm_lim': 3000}      # GLPK's simplex can cycle on degenerate instances: bounded, status 'unknown' is tolerated below
    rng = random.Random(ctx.seed * 151 + 14)
    nA = 150 if ctx.quick() else 3000
    nB = 300 if ctx.quick() else 6000
    tmpd = tempfile.mkdtemp(prefix='c14_')
    path = os.path.join(tmpd, 'p.mps')
    lines, jobs = [], []
    stat = {}
    def bump(k): stat[k] = stat.get(k, 0) + 1
    try:
        # ---------------- A and C
        for it in range(nA):
            g = gen_lp(rng, M, cvxopt, big=(it % 6 == 5))
            if g is None: continue
            p, vs, cons, cflat, rows, Aflat = g
            fl, clabels, rlabels = flat_lines(p, vs, cons, cflat, rows, Aflat)
            desc = {'variables': [(v.name, len(v)) for v in p.variables()], 'constraints': [(c.name, c.type(), len(c)) for c in p.constraints()]}
            try: p.tofile(path)
            except Exception as e:
                ctx.violation('c14:tofile-raises:' + type(e).__name__, 'tofile raised %s: %s' % (type(e).__name__, e), desc); continue
            rec = cut(path)
            collide = len(set(clabels)) != len(clabels) or len(set(rlabels)) != len(rlabels) or 'cost' in rlabels
            jobs.append(('A', len(lines) + len(fl) - 1, rec, desc, collide)); lines += fl
            bump('A:files')
            # C: read back with the real reader
            q = M.op()
            try:
                with contextlib.redirect_stdout(io.StringIO()): q.fromfile(path)
            except Exception as e:
                empty = [c for c in clabels if not any(r[0] == c for r in rec['COLUMNS'])]
                if 'has no variables' in str(e): bump('C:constant-row-refused'); continue       # a row 0 <= -2: fromfile documents this refusal
                if collide: bump('C:label-collision'); sig = 'c14:roundtrip:label-collision'
                elif empty: sig = 'c14:roundtrip:column-without-entries'
                else: sig = 'c14:roundtrip-raises:' + type(e).__name__
                ctx.violation(sig, 'fromfile(tofile(lp)) raised %s: %s' % (type(e).__name__, e), dict(desc, labels=clabels + rlabels)); continue
            nvar = sum(len(v) for v in p.variables()); ni = sum(len(c) for c in p.inequalities()); ne = sum(len(c) for c in p.equalities())
            for (kk, i, nm, ty, rhs) in rows:
                if not any(val != 0 for key, val in Aflat.items() if key[0] == kk and key[1] == i):
                    if ty == 'L': ni -= 1
                    else: ne -= 1
            got = (len(q.variables()), sum(len(c) for c in q.inequalities()), sum(len(c) for c in q.equalities()))
            if got != (nvar, ni, ne):
                sig = 'c14:roundtrip:label-collision' if collide else 'c14:roundtrip:sizes'
                ctx.violation(sig, 'after tofile/fromfile the problem has %r variables/inequality rows/equality rows, before %r' % (got, (nvar, ni, ne)),
                              dict(desc, labels=clabels + rlabels)); continue
            bump('C:roundtrips')
            # same status and optimal value of the linear part when both solve
            try:
                with contextlib.redirect_stdout(io.StringIO()):
                    p.solve('dense', 'glpk'); s1 = p.status; v1 = None if s1 != 'optimal' else float((p.objective - p.objective._constant).value()[0])
                    q.solve('dense', 'glpk'); s2 = q.status; v2 = None if s2 != 'optimal' else float((q.objective - q.objective._constant).value()[0])
                if {s1, s2} <= {'primal infeasible', 'dual infeasible'}: pass
                elif s1 != s2 and 'unknown' not in (s1, s2):
                    ctx.violation('c14:roundtrip:label-collision' if collide else 'c14:roundtrip:status', 'status %r before, %r after tofile/fromfile' % (s1, s2), desc)
                elif s1 == 'optimal' and abs(v1 - v2) > 1e-4 * (1 + abs(v1)):
                    ctx.violation('c14:roundtrip:label-collision' if collide else 'c14:roundtrip:value', 'optimal value of the linear part %r before, %r after' % (v1, v2), desc)
                bump('C:solved:' + s1)
            except (TypeError, ValueError, ArithmeticError, IndexError): bump('C:solve-skipped')
        # ---------------- D: tofile refuses problems that are not linear programs (piecewise-linear objective or constraints), and writes nothing useful
        for it in range(12 if ctx.quick() else 200):
            x = M.variable(rng.randint(2, 3), 'x'); y = M.variable(1, 'y')        # (max over the components of a length-1 variable is affine)
            pw = rng.choice([lambda: M.max(x), lambda: M.sum(abs(x)), lambda: M.sum(M.max(x, y)), lambda: abs(y), lambda: M.sum(M.max(x, 0.0))])
            kind = rng.choice(['objective', 'constraint', 'both'])
            obj = (pw() + y) if kind in ('objective', 'both') else (M.sum(x) + y)
            cons = [x >= -1, y >= -2, M.sum(x) + y <= 5]
            if kind in ('constraint', 'both'): cons.append(pw() <= 3)
            rng.shuffle(cons)
            pb = M.op(obj, cons); bump('D:non-lp')
            try:
                pb.tofile(path)
                ctx.violation('c14:tofile-accepts-non-lp', 'tofile wrote a file for a problem with a piecewise-linear %s (it must refuse: the MPS format holds linear programs only)' % kind,
                              {'kind': kind, 'len_x': len(x)})
            except TypeError: pass
            except Exception as e:
                ctx.violation('c14:tofile-raises:' + type(e).__name__, 'tofile on a piecewise-linear problem raised %s (%s) instead of TypeError' % (type(e).__name__, e), {'kind': kind, 'len_x': len(x)})
        # ---------------- B
        for it in range(nB):
            text, rec = gen_file(rng)
            open(path, 'w').write(text)
            q = M.op()
            try:
                with contextlib.redirect_stdout(io.StringIO()): q.fromfile(path)
                obs = canon_op(q)
            except Exception as e:
                obs = 'error ' + err_kind(e)
            jobs.append(('B', len(lines) + len(rec) - 1, obs, text, None)); lines += rec
        out = vlib.drive('C14', lines)
        for kind, idx, a, b, collide in jobs:
            o = out[idx]
            if kind == 'A':
                rec, desc = a, b
                d = dict(kv.split('=', 1) for kv in o[5:].split(' '))
                want_rows = [tuple(dec(x) for x in t.split(':')) for t in d['rows'].split(',')]
                want_cols = [] if d['cols'] == '-' else [t.split(':') for t in d['cols'].split(',')]
                want_rhs = [] if d['rhs'] == '-' else [t.split(':') for t in d['rhs'].split(',')]
                want_bnd = [] if d['bounds'] == '-' else [t.split(':') for t in d['bounds'].split(',')]
                got_rows = [(t, l) for t, l in rec['ROWS']]
                got_cols = [(c, r, nz(v)) for c, r, v in rec['COLUMNS']]
                got_rhs = [(r, nz(v)) for _, r, v in rec['RHS']]
                got_bnd = [(t, c) for t, _, c, _ in rec['BOUNDS']]
                exp_cols = [(dec(c), dec(r), fmt(v).strip()) for c, r, v in want_cols]
                exp_rhs = [(dec(r), fmt(v).strip()) for r, v in want_rhs]
                exp_bnd = [(t, dec(c)) for t, c in want_bnd]
                if collide:
                    ctx.violation('c14:roundtrip:label-collision', 'distinct names give equal 8-character MPS labels: the written file does not determine the problem', desc)
                    continue
                if got_rows != want_rows or got_cols != exp_cols or got_rhs != exp_rhs or got_bnd != exp_bnd or rec['RANGES']:
                    what = 'ROWS' if got_rows != want_rows else 'COLUMNS' if got_cols != exp_cols else 'RHS' if got_rhs != exp_rhs else 'BOUNDS'
                    ctx.violation('c14:tofile-differs:' + what, 'tofile wrote a %s section that differs from the model: file %r, model %r' % (
                        what, {'ROWS': got_rows, 'COLUMNS': got_cols, 'RHS': got_rhs, 'BOUNDS': got_bnd}[what][:6],
                        {'ROWS': want_rows, 'COLUMNS': exp_cols, 'RHS': exp_rhs, 'BOUNDS': exp_bnd}[what][:6]), desc)
            else:
                obs, text = a, b
                if o.startswith('error'):
                    bump('B:' + o)
                    if obs != o:
                        ctx.violation('c14:fromfile-error-differs', 'fromfile: %r, format model: %r' % (obs if isinstance(obs, str) else 'accepted', o), {'file': text})
                    continue
                bump('B:read')
                if isinstance(obs, str):
                    ctx.violation('c14:fromfile-refuses:' + obs.split(' ')[1], 'fromfile raised %s on a well-formed file the format model reads' % obs, {'file': text}); continue
                exp = parse_lp(o)
                def near(x, y): return abs(x - y) <= 1e-9 * (1 + abs(x))
                def same_coef(a, b): return set(a) == set(b) and all(near(a[k], b[k]) for k in a)
                def same_con(a, b): return a[0] == b[0] and same_coef(a[1], b[1]) and near(a[2], b[2])
                ok = (exp['cols'] == obs['cols'] or set(obs['cols']) <= set(exp['cols'])) and same_coef(exp['obj'], obs['obj']) and near(exp['objc'], obs['objc']) \
                    and len(exp['ineq']) == len(obs['ineq']) and all(same_con(a, b) for a, b in zip(exp['ineq'], obs['ineq'])) \
                    and len(exp['eq']) == len(obs['eq']) and all(same_con(a, b) for a, b in zip(exp['eq'], obs['eq']))
                if not ok:
                    ctx.violation('c14:fromfile-differs', 'fromfile built %r, the format defines %r' % (obs, exp), {'file': text})
    finally:
        import shutil; shutil.rmtree(tmpd, ignore_errors=True)
    ctx.cov.update({'evaluations': len(jobs), 'distinct_nontrivial': stat.get('A:files', 0) + stat.get('B:read', 0),
                    'rule': '%d generated LPs (1-3 variables of length 1-3, names from a list with long / empty / spaced / numeric names, 1-4 constraints with '
                            'scalar, row and matrix coefficients dense or sparse, broadcast right-hand sides) through tofile, the records compared with '
                            'Mps.write and read back by fromfile (sizes, status, value); %d generated fixed-format files (N/L/G/E rows, extra N rows, '
                            'comments, two-entry lines, continuation lines, two RHS vectors, RANGES, all bound types, malformed entries) through fromfile vs Mps.read' % (nA, nB),
                    'outcomes': stat, 'protocol_lines_compared': len(lines)})

def search(ctx, why): return
def replay(ctx, payload): correspond(ctx)
