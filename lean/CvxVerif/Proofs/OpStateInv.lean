import CvxVerif.Proofs.OpState
namespace CvxVerif.OpState

/-- pool well-formedness: `c.variables()` never lists a variable twice (`_function.variables`). -/
def Pool.WF (P : Pool) : Prop := ∀ c, (P.cvars c).Nodup

/-- The bookkeeping invariant of `op._variables`. -/
structure Inv (P : Pool) (s : St) : Prop where
  nodup  : s.keys.Nodup
  nogarb : ∀ v ∈ s.keys, (s.ent v).o = true ∨ (s.ent v).i ≠ [] ∨ (s.ent v).e ≠ []
  objIn  : ∀ v ∈ s.obj, v ∈ s.keys
  ineqIn : ∀ c ∈ s.ineqs, ∀ v ∈ P.cvars c, v ∈ s.keys
  eqIn   : ∀ c ∈ s.eqs, ∀ v ∈ P.cvars c, v ∈ s.keys
  flag   : ∀ v ∈ s.keys, (s.ent v).o = decide (v ∈ s.obj)
  cntI   : ∀ v ∈ s.keys, ∀ c, (s.ent v).i.count c = if v ∈ P.cvars c then s.ineqs.count c else 0
  cntE   : ∀ v ∈ s.keys, ∀ c, (s.ent v).e.count c = if v ∈ P.cvars c then s.eqs.count c else 0

theorem inv_empty (P : Pool) : Inv P empty := by
  constructor <;> simp [empty]

theorem count_zero_of_forall {l : List Cid} {c : Cid} (h : c ∉ l) : l.count c = 0 :=
  List.count_eq_zero.mpr h


theorem count_singleton' (c c' : Cid) : List.count c' [c] = if c = c' then 1 else 0 := by
  by_cases h : c = c' <;> simp [h]

theorem inv_add (P : Pool) (hP : P.WF) (s : St) (c : Cid) (h : Inv P s) : Inv P (addC P s c) := by
  have hm := add_fold_mem (P.isIneq c) c (P.cvars c) s.keys s.ent
  have he := add_fold_ent (P.isIneq c) c (P.cvars c) (hP c) s.keys s.ent
  have hI : ∀ c' v, v ∉ s.keys → v ∈ P.cvars c' → s.ineqs.count c' = 0 :=
    fun c' v hv hv' => count_zero_of_forall (fun hc => hv (h.ineqIn c' hc v hv'))
  have hE : ∀ c' v, v ∉ s.keys → v ∈ P.cvars c' → s.eqs.count c' = 0 :=
    fun c' v hv hv' => count_zero_of_forall (fun hc => hv (h.eqIn c' hc v hv'))
  have hfl := h.flag
  have hcI := h.cntI
  have hcE := h.cntE
  have hoi := h.objIn
  constructor
  · exact add_fold_nodup _ _ _ _ _ h.nodup
  · intro v hv
    simp only [addC] at hv ⊢
    rw [he]
    rw [hm] at hv
    by_cases h1 : v ∈ P.cvars c
    · by_cases h2 : v ∈ s.keys <;> cases hi : P.isIneq c <;> simp [h1, h2, pushC, freshC]
    · simp only [h1, if_false]; exact h.nogarb v (hv.resolve_right h1)
  · intro v hv; simp only [addC] at hv ⊢; rw [hm]; exact Or.inl (h.objIn v hv)
  · intro c' hc' v hv
    simp only [addC] at hc' ⊢; rw [hm]
    cases hi : P.isIneq c <;> simp [hi] at hc'
    · exact Or.inl (h.ineqIn c' hc' v hv)
    · rcases hc' with hc' | hc'
      · exact Or.inl (h.ineqIn c' hc' v hv)
      · subst hc'; exact Or.inr hv
  · intro c' hc' v hv
    simp only [addC] at hc' ⊢; rw [hm]
    cases hi : P.isIneq c <;> simp [hi] at hc'
    · rcases hc' with hc' | hc'
      · exact Or.inl (h.eqIn c' hc' v hv)
      · subst hc'; exact Or.inr hv
    · exact Or.inl (h.eqIn c' hc' v hv)
  · intro v hv
    simp only [addC] at hv ⊢
    rw [he]; rw [hm] at hv
    cases hi : P.isIneq c <;> simp only [pushC, freshC] <;> grind
  · intro v hv c'
    simp only [addC] at hv ⊢
    rw [he]; rw [hm] at hv
    cases hi : P.isIneq c <;> simp only [pushC, freshC] <;>
      grind [count_singleton']
  · intro v hv c'
    simp only [addC] at hv ⊢
    rw [he]; rw [hm] at hv
    cases hi : P.isIneq c <;> simp only [pushC, freshC] <;>
      grind [count_singleton']


theorem isGarbage_iff (x : Entry) : isGarbage x = true ↔ x.o = false ∧ x.i = [] ∧ x.e = [] := by
  simp [isGarbage, List.isEmpty_iff, and_assoc]

theorem count_erase' (l : List Cid) (c c' : Cid) :
    (l.erase c).count c' = l.count c' - (if c = c' then 1 else 0) := by
  rw [List.count_erase]; by_cases h : c = c' <;> simp [h]

theorem inv_del (P : Pool) (hP : P.WF) (s : St) (c : Cid) (h : Inv P s) : Inv P (delC P s c) := by
  by_cases hc : c ∈ (if P.isIneq c then s.ineqs else s.eqs)
  case neg => simp only [delC, hc, if_false]; exact h
  simp only [delC, hc, if_true]
  have he := rem_fold_ent (P.isIneq c) c (P.cvars c) (hP c) s.ent
  have hm := gc_fold_mem ((P.cvars c).foldl (remVar (P.isIneq c) c) s.ent) (P.cvars c) s.keys h.nodup
  have hfl := h.flag
  have hcI := h.cntI
  have hcE := h.cntE
  have hoi := h.objIn
  have hng := h.nogarb
  have hiI := h.ineqIn
  have hiE := h.eqIn
  have hz : ∀ (l : List Cid), l = [] → ∀ c', l.count c' = 0 := by intro l hl c'; subst hl; rfl
  have hpos : ∀ (l : List Cid) c', c' ∈ l → 0 < l.count c' := fun l c' hm => List.count_pos_iff.mpr hm
  have hne : ∀ (l : List Cid) c', 0 < l.count c' → l ≠ [] := by
    intro l c' hp hl; subst hl; simp at hp
  have hmemE : ∀ (l : List Cid) (a b : Cid), a ∈ l.erase b → a ∈ l := fun l a b => List.mem_of_mem_erase
  constructor
  · exact gc_fold_nodup _ _ _ h.nodup
  · intro v hv
    simp only at hv ⊢
    rw [hm] at hv
    rw [he] at hv ⊢
    simp only [isGarbage_iff] at hv
    cases hi : P.isIneq c <;> simp only [hi, eraseC, ↓reduceIte, Bool.false_eq_true] at hv ⊢ <;> grind
  · intro v hv
    simp only at hv ⊢
    rw [hm, he]
    simp only [isGarbage_iff]
    cases hi : P.isIneq c <;> simp only [eraseC] <;> grind
  · intro c' hc' v hv
    simp only at hc' ⊢
    rw [hm, he]
    simp only [isGarbage_iff]
    cases hi : P.isIneq c <;> simp only [hi, eraseC, ↓reduceIte, Bool.false_eq_true] at hc' hc ⊢
    · have := hpos _ _ hc'
      have := hne (s.ent v).i c'
      grind
    · have h1 := hpos _ _ hc'
      rw [count_erase'] at h1
      have := hne ((s.ent v).i.erase c) c'
      have := count_erase' (s.ent v).i c c'
      grind
  · intro c' hc' v hv
    simp only at hc' ⊢
    rw [hm, he]
    simp only [isGarbage_iff]
    cases hi : P.isIneq c <;> simp only [hi, eraseC, ↓reduceIte, Bool.false_eq_true] at hc' hc ⊢
    · have h1 := hpos _ _ hc'
      rw [count_erase'] at h1
      have := hne ((s.ent v).e.erase c) c'
      have := count_erase' (s.ent v).e c c'
      grind
    · have := hpos _ _ hc'
      have := hne (s.ent v).e c'
      grind
  · intro v hv
    simp only at hv ⊢
    rw [hm] at hv
    rw [he]
    cases hi : P.isIneq c <;> simp only [eraseC] <;> grind
  · intro v hv c'
    simp only at hv ⊢
    rw [hm] at hv
    rw [he]
    cases hi : P.isIneq c <;> simp only [hi, eraseC, ↓reduceIte, Bool.false_eq_true] at hc ⊢ <;> grind [count_erase']
  · intro v hv c'
    simp only at hv ⊢
    rw [hm] at hv
    rw [he]
    cases hi : P.isIneq c <;> simp only [hi, eraseC, ↓reduceIte, Bool.false_eq_true] at hc ⊢ <;> grind [count_erase']


theorem inv_setObj (P : Pool) (s : St) (vs : List Var) (hvs : vs.Nodup) (h : Inv P s) :
    Inv P (setObj s vs) := by
  have hk1 : (s.keys.filter (fun v => !((s.ent v).i.isEmpty && (s.ent v).e.isEmpty))).Nodup :=
    h.nodup.filter _
  have hm := obj_fold_mem vs (s.keys.filter (fun v => !((s.ent v).i.isEmpty && (s.ent v).e.isEmpty)))
    (fun v => { s.ent v with o := false })
  have he := obj_fold_ent vs hvs (s.keys.filter (fun v => !((s.ent v).i.isEmpty && (s.ent v).e.isEmpty)))
    (fun v => { s.ent v with o := false })
  have hcI := h.cntI
  have hcE := h.cntE
  have hiI := h.ineqIn
  have hiE := h.eqIn
  have hpos : ∀ (l : List Cid) c', c' ∈ l → 0 < l.count c' := fun l c' hm => List.count_pos_iff.mpr hm
  have hz : ∀ (l : List Cid), l = [] → ∀ c', l.count c' = 0 := by intro l hl c'; subst hl; rfl
  have hmf : ∀ w, w ∈ s.keys.filter (fun v => !((s.ent v).i.isEmpty && (s.ent v).e.isEmpty)) ↔
      w ∈ s.keys ∧ ¬ ((s.ent w).i = [] ∧ (s.ent w).e = []) := by
    intro w; simp only [List.mem_filter]; grind
  constructor
  · exact obj_fold_nodup _ _ _ hk1
  · intro v hv
    simp only [setObj] at hv ⊢
    rw [hm, hmf] at hv; rw [he]; grind
  · intro v hv
    simp only [setObj] at hv ⊢
    rw [hm]; exact Or.inr hv
  · intro c hc v hv
    simp only [setObj] at hc ⊢
    rw [hm, hmf]
    have := hpos _ _ hc
    grind
  · intro c hc v hv
    simp only [setObj] at hc ⊢
    rw [hm, hmf]
    have := hpos _ _ hc
    grind
  · intro v hv
    simp only [setObj] at hv ⊢
    rw [hm, hmf] at hv; rw [he]; grind
  · intro v hv c
    simp only [setObj] at hv ⊢
    rw [hm, hmf] at hv; rw [he]
    by_cases h1 : v ∈ s.keys
    · grind
    · have h2 : ∀ c, v ∈ P.cvars c → s.ineqs.count c = 0 :=
        fun c hvc => count_zero_of_forall (fun hc => h1 (hiI c hc v hvc))
      grind
  · intro v hv c
    simp only [setObj] at hv ⊢
    rw [hm, hmf] at hv; rw [he]
    by_cases h1 : v ∈ s.keys
    · grind
    · have h2 : ∀ c, v ∈ P.cvars c → s.eqs.count c = 0 :=
        fun c hvc => count_zero_of_forall (fun hc => h1 (hiE c hc v hvc))
      grind

/-- well-formed operations: the variable list of an objective has no duplicates (`_function.variables`). -/
def Op.WF : Op → Prop
  | .setObj vs => vs.Nodup
  | _ => True

theorem inv_step (P : Pool) (hP : P.WF) (s : St) (op : Op) (hop : op.WF) (h : Inv P s) :
    Inv P (step P s op) := by
  cases op with
  | add c => exact inv_add P hP s c h
  | del c => exact inv_del P hP s c h
  | setObj vs => exact inv_setObj P s vs hop h
  | solve => exact h

theorem inv_run (P : Pool) (hP : P.WF) (ops : List Op) (hops : ∀ op ∈ ops, op.WF) (s : St) (h : Inv P s) :
    Inv P (run P s ops) := by
  induction ops generalizing s with
  | nil => exact h
  | cons op ops ih =>
    simp only [run, List.foldl_cons]
    exact ih (fun o ho => hops o (List.mem_cons_of_mem _ ho)) _
      (inv_step P hP s op (hops op (List.mem_cons_self)) h)

theorem inv_foldl_add (P : Pool) (hP : P.WF) (cs : List Cid) (s : St) (h : Inv P s) :
    Inv P (cs.foldl (addC P) s) := by
  induction cs generalizing s with
  | nil => exact h
  | cons c cs ih => exact ih _ (inv_add P hP s c h)

theorem inv_init (P : Pool) (hP : P.WF) (vs : List Var) (hvs : vs.Nodup) (cs : List Cid) :
    Inv P (init P vs cs) := by
  unfold init
  exact inv_foldl_add P hP _ _ (inv_foldl_add P hP _ _ (inv_setObj P empty vs hvs (inv_empty P)))

/-- Under the invariant, the key set is exactly the documented variable set. -/
theorem keys_spec (P : Pool) (s : St) (h : Inv P s) (v : Var) :
    v ∈ s.keys ↔ (abs s).hasVar P v := by
  simp only [Spec.hasVar, abs]
  constructor
  · intro hv
    rcases h.nogarb v hv with ho | hi | he
    · left; have := h.flag v hv; rw [ho] at this; exact of_decide_eq_true this.symm
    · right
      obtain ⟨c, hc⟩ := List.exists_mem_of_ne_nil _ hi
      have h1 := h.cntI v hv c
      have h2 : 0 < (s.ent v).i.count c := List.count_pos_iff.mpr hc
      by_cases hvc : v ∈ P.cvars c
      · rw [if_pos hvc] at h1
        exact ⟨c, Or.inl (List.count_pos_iff.mp (by omega)), hvc⟩
      · rw [if_neg hvc] at h1; omega
    · right
      obtain ⟨c, hc⟩ := List.exists_mem_of_ne_nil _ he
      have h1 := h.cntE v hv c
      have h2 : 0 < (s.ent v).e.count c := List.count_pos_iff.mpr hc
      by_cases hvc : v ∈ P.cvars c
      · rw [if_pos hvc] at h1
        exact ⟨c, Or.inr (List.count_pos_iff.mp (by omega)), hvc⟩
      · rw [if_neg hvc] at h1; omega
  · rintro (ho | ⟨c, hc | hc, hv⟩)
    · exact h.objIn v ho
    · exact h.ineqIn c hc v hv
    · exact h.eqIn c hc v hv

/-- Under the invariant the error paths that the model of `delconstraint` totalises are unreachable. -/
theorem del_no_error (P : Pool) (s : St) (c : Cid) (h : Inv P s) : delErr P s c = false := by
  cases hd : delErr P s c with
  | false => rfl
  | true =>
    exfalso
    simp only [delErr, Bool.and_eq_true, decide_eq_true_eq, List.any_eq_true, Bool.or_eq_true,
      Bool.not_eq_true', decide_eq_false_iff_not] at hd
    obtain ⟨hc, v, hv, hbad⟩ := hd
    cases hi : P.isIneq c
    · simp only [hi, Bool.false_eq_true, ↓reduceIte] at hc hbad
      have hk := h.eqIn c hc v hv
      rcases hbad with hb | hb
      · exact hb hk
      · have h1 := h.cntE v hk c
        rw [if_pos hv] at h1
        have : 0 < s.eqs.count c := List.count_pos_iff.mpr hc
        exact hb (List.count_pos_iff.mp (by omega))
    · simp only [hi, ↓reduceIte] at hc hbad
      have hk := h.ineqIn c hc v hv
      rcases hbad with hb | hb
      · exact hb hk
      · have h1 := h.cntI v hk c
        rw [if_pos hv] at h1
        have : 0 < s.ineqs.count c := List.count_pos_iff.mpr hc
        exact hb (List.count_pos_iff.mp (by omega))

theorem abs_step (P : Pool) (s : St) (op : Op) : abs (step P s op) = specStep P (abs s) op := by
  cases op with
  | add c => simp only [step, addC, abs, specStep]; cases P.isIneq c <;> simp
  | del c =>
    simp only [step, abs, specStep]
    by_cases hc : c ∈ (if P.isIneq c then s.ineqs else s.eqs)
    · simp only [delC, hc, if_true]; cases hi : P.isIneq c <;> simp
    · simp only [delC, hc, if_false]
      cases hi : P.isIneq c <;> simp only [hi, Bool.false_eq_true, ↓reduceIte] at hc ⊢
      · rw [List.erase_of_not_mem hc]
      · rw [List.erase_of_not_mem hc]
  | setObj vs => rfl
  | solve => rfl

end CvxVerif.OpState
