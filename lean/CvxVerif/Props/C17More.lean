import CvxVerif.Proofs.BlasSpec
/-!
# C17 (continued) — frames of the band, rank-2, symmetric / Hermitian level-3 routines and of the triangular solve

For each routine of `Model/BlasSpec.lean` that the correspondence check `tools/corr/c17.py` compares with the real wrapper: the
result differs from the output buffer only inside the addressed view (vector positions `vpos off n inc k`, block positions
`off + i + j·ld`, for the triangular routines only the positions of the `uplo` triangle).
-/
namespace CvxVerif.BlasSpec
open CvxVerif.Dense

theorem C17_frame_gbmv (alpha beta : Num) (A x y : Buf) (trans : Int) (m n kl ku : Nat) (oA ldA ox ix oy iy : Int) (q : Nat)
    (hq : ∀ k, k < (if trans = 78 then m else n) → vpos oy (if trans = 78 then m else n) iy k ≠ q) :
    (gbmv alpha beta A x y trans m n kl ku oA ldA ox ix oy iy).getD q zero = y.getD q zero := by
  unfold gbmv
  by_cases ht : trans = 78 <;> simp only [ht, if_true, if_false] at hq ⊢ <;> exact vwrite_frame _ _ _ _ _ _ hq

theorem C17_frame_sbmv (herm : Bool) (alpha beta : Num) (A x y : Buf) (uplo : Int) (n k : Nat) (oA ldA ox ix oy iy : Int)
    (q : Nat) (hq : ∀ j, j < n → vpos oy n iy j ≠ q) :
    (sbmv herm alpha beta A x y uplo n k oA ldA ox ix oy iy).getD q zero = y.getD q zero :=
  vwrite_frame _ _ _ _ _ _ hq

/-- positions of the `uplo` triangle of an `n × n` block -/
def inTri (uplo : Int) (i j : Nat) : Bool := (uplo = 76 && j ≤ i) || (uplo ≠ 76 && i ≤ j)

theorem C17_frame_syr (herm : Bool) (alpha : Num) (x A : Buf) (uplo : Int) (n : Nat) (ox ix oA ldA : Int) (q : Nat)
    (hq : ∀ i j, i < n → j < n → inTri uplo i j = true → (oA + i + j * ldA).toNat ≠ q) :
    (syr herm alpha x A uplo n ox ix oA ldA).getD q zero = A.getD q zero := by
  unfold syr
  split
  · rfl
  · apply fold2_frame
    intro B j i hj hi
    simp only
    split
    · rename_i hc
      exact getD_set_ne B _ _ _ (hq i j (List.mem_range.mp hi) (List.mem_range.mp hj) (by simpa [inTri] using hc))
    · rfl

theorem C17_frame_syr2 (herm : Bool) (alpha : Num) (x y A : Buf) (uplo : Int) (n : Nat) (ox ix oy iy oA ldA : Int) (q : Nat)
    (hq : ∀ i j, i < n → j < n → inTri uplo i j = true → (oA + i + j * ldA).toNat ≠ q) :
    (syr2 herm alpha x y A uplo n ox ix oy iy oA ldA).getD q zero = A.getD q zero := by
  unfold syr2
  split
  · rfl
  · apply fold2_frame
    intro B j i hj hi
    simp only
    split
    · rename_i hc
      exact getD_set_ne B _ _ _ (hq i j (List.mem_range.mp hi) (List.mem_range.mp hj) (by simpa [inTri] using hc))
    · rfl

theorem C17_frame_symm (herm : Bool) (alpha beta : Num) (A B C : Buf) (side uplo : Int) (m n : Nat) (oA ldA oB ldB oC ldC : Int) (q : Nat)
    (hq : ∀ i j, i < m → j < n → (oC + i + j * ldC).toNat ≠ q) :
    (symm herm alpha beta A B C side uplo m n oA ldA oB ldB oC ldC).getD q zero = C.getD q zero := by
  unfold symm
  apply fold2_frame
  intro B' j i hj hi
  exact getD_set_ne B' _ _ _ (hq i j (List.mem_range.mp hi) (List.mem_range.mp hj))

theorem C17_frame_syrk (alpha beta : Num) (A C : Buf) (uplo trans : Int) (n k : Nat) (oA ldA oC ldC : Int) (q : Nat)
    (hq : ∀ i j, i < n → j < n → inTri uplo i j = true → (oC + i + j * ldC).toNat ≠ q) :
    (syrk alpha beta A C uplo trans n k oA ldA oC ldC).getD q zero = C.getD q zero := by
  unfold syrk
  apply fold2_frame
  intro B j i hj hi
  simp only
  split
  · rename_i hc
    exact getD_set_ne B _ _ _ (hq i j (List.mem_range.mp hi) (List.mem_range.mp hj) (by simpa [inTri] using hc))
  · rfl

theorem C17_frame_herk (alpha beta : Num) (A C : Buf) (uplo trans : Int) (n k : Nat) (oA ldA oC ldC : Int) (q : Nat)
    (hq : ∀ i j, i < n → j < n → inTri uplo i j = true → (oC + i + j * ldC).toNat ≠ q) :
    (herk alpha beta A C uplo trans n k oA ldA oC ldC).getD q zero = C.getD q zero := by
  unfold herk
  split
  · rfl
  · apply fold2_frame
    intro B j i hj hi
    simp only
    split
    · rename_i hc
      exact getD_set_ne B _ _ _ (hq i j (List.mem_range.mp hi) (List.mem_range.mp hj) (by simpa [inTri] using hc))
    · rfl

theorem C17_frame_syr2k (herm : Bool) (alpha beta : Num) (A B C : Buf) (uplo trans : Int) (n k : Nat) (oA ldA oB ldB oC ldC : Int) (q : Nat)
    (hq : ∀ i j, i < n → j < n → inTri uplo i j = true → (oC + i + j * ldC).toNat ≠ q) :
    (syr2k herm alpha beta A B C uplo trans n k oA ldA oB ldB oC ldC).getD q zero = C.getD q zero := by
  unfold syr2k
  split
  · rfl
  · apply fold2_frame
    intro B' j i hj hi
    simp only
    split
    · rename_i hc
      exact getD_set_ne B' _ _ _ (hq i j (List.mem_range.mp hi) (List.mem_range.mp hj) (by simpa [inTri] using hc))
    · rfl

theorem C17_frame_trsm (alpha : Num) (A B : Buf) (side uplo tA diag : Int) (m n : Nat) (oA ldA oB ldB : Int) (q : Nat)
    (hq : ∀ i j, i < m → j < n → (oB + i + j * ldB).toNat ≠ q) :
    (trsm alpha A B side uplo tA diag m n oA ldA oB ldB).getD q zero = B.getD q zero := by
  unfold trsm
  simp only
  split
  · apply fold2_frame
    intro B' j i hj hi
    exact getD_set_ne B' _ _ _ (hq i j (List.mem_range.mp hi) (List.mem_range.mp hj))
  · apply fold2_frame
    intro B' i j hi hj
    exact getD_set_ne B' _ _ _ (hq i j (List.mem_range.mp hi) (List.mem_range.mp hj))

/-- the reference quick return of the Hermitian rank-k updates: with `beta = 1` and nothing to add, `C` is returned unchanged
(in particular the imaginary parts of its diagonal are not cleared) -/
theorem C17_herk_quick_return (alpha : Num) (A C : Buf) (uplo trans : Int) (n k : Nat) (oA ldA oC ldC : Int)
    (h : alpha = zero ∨ k = 0) : herk alpha one A C uplo trans n k oA ldA oC ldC = C := by
  unfold herk
  rcases h with h | h <;> simp [h]

/-- on a Hermitian band matrix the entries mirror each other: `A[j, i] = conj A[i, j]`, and the diagonal is real -/
theorem C17_sbGet_hermitian (b : Buf) (off ld : Int) (uplo : Int) (k i j : Nat) :
    sbGet b off ld uplo true k j i = (sbGet b off ld uplo true k i j).conj := by
  unfold sbGet
  rcases Nat.lt_trichotomy i j with h | h | h
  · have h1 : i ≤ j := Nat.le_of_lt h
    have h2 : ¬ j ≤ i := Nat.not_le.mpr h
    have h3 : (j == i) = false := by simp; omega
    have h4 : (i == j) = false := by simp; omega
    simp only [h1, h2, if_true, if_false, h3, h4]
    by_cases hk : j > i + k
    · simp [hk, Num.conj, zero]
    · simp only [hk, if_false]
      by_cases hu : uplo = 76
      · simp [hu, h, Nat.not_lt.mpr h1, Num.conj]
      · simp [hu, h, Nat.not_lt.mpr h1, Num.conj]
  · subst h
    simp only [Nat.le_refl, if_true, beq_self_eq_true]
    split
    · simp [Num.conj, zero]
    · simp [Num.conj]
  · have h1 : j ≤ i := Nat.le_of_lt h
    have h2 : ¬ i ≤ j := Nat.not_le.mpr h
    have h3 : (j == i) = false := by simp; omega
    have h4 : (i == j) = false := by simp; omega
    simp only [h1, h2, if_true, if_false, h3, h4]
    by_cases hk : i > j + k
    · simp [hk, Num.conj, zero]
    · simp only [hk, if_false]
      by_cases hu : uplo = 76
      · simp [hu, h, Nat.not_lt.mpr h1, Num.conj]
      · simp [hu, h, Nat.not_lt.mpr h1, Num.conj]

end CvxVerif.BlasSpec
