#!/usr/bin/env python3
"""Confirm a seeded change and run the registered checks against it.

usage: seedrun.py <seed-id> <property> [--from <dir with patch.diff and demo_*.py>] [--checks C01,C05] [--thorough] [--skip-confirm]

Keeps the seed under /verif/seeded/<seed-id>/ (patch.diff, demo.py, meta.json).  The patch is applied to /repo only for the
duration of the run (git apply ... git checkout -- .) and never committed."""
import os, sys, json, subprocess, shutil, tempfile, time
V = os.path.dirname(os.path.dirname(os.path.abspath(__file__)))
REPO = '/repo'

def sh(cmd, **kw):
    return subprocess.run(cmd, shell=isinstance(cmd, str), capture_output=True, text=True, **kw)

def build(dest):
    r = sh(['/venv/bin/python', os.path.join(V, 'tools', 'buildrepo.py'), dest])
    return r.returncode == 0, (r.stdout + r.stderr)[-2000:]

def run_demo(demo, dest):
    env = dict(os.environ, PYTHONPATH=dest, OPENBLAS_NUM_THREADS='1')
    r = sh(['/venv/bin/python', demo], env=env, timeout=900, cwd=tempfile.gettempdir())
    return r.returncode, (r.stdout + r.stderr)[-3000:]

def run_tests(dest):
    env = dict(os.environ, PYTHONPATH=dest)
    env.pop('CVXOPT_VERIF', None)
    r = sh(['/venv/bin/python', '-m', 'pytest', '-q', '-p', 'no:cacheprovider', '--timeout=900'], env=env, cwd=REPO, timeout=3000)
    return r.returncode, (r.stdout + r.stderr)[-800:]

def run_check(prop, tier, seed=None):
    env = dict(os.environ, VERIF_LEANCHECKER='0')
    if seed is not None: env['VERIF_SEED'] = str(seed)
    t0 = time.time()
    r = sh([os.path.join(V, 'check'), prop, '--tier', tier], env=env, cwd=V, timeout=7200)
    lines = [l for l in (r.stdout + r.stderr).splitlines() if l.startswith('VIOLATION')]
    return {'exit': r.returncode, 'violations': len(lines), 'first': [l[:300] for l in lines[:3]], 'wall_s': round(time.time() - t0, 1)}

def main():
    a = sys.argv[1:]
    sid, prop = a[0], a[1]
    src = a[a.index('--from') + 1] if '--from' in a else None
    checks = a[a.index('--checks') + 1].split(',') if '--checks' in a else [prop]
    sd = os.path.join(V, 'seeded', sid)
    os.makedirs(sd, exist_ok=True)
    if src:
        shutil.copy(os.path.join(src, 'patch.diff'), os.path.join(sd, 'patch.diff'))
        demos = [f for f in os.listdir(src) if f.startswith('demo_') and f.endswith('.py')]
        if demos: shutil.copy(os.path.join(src, demos[0]), os.path.join(sd, 'demo.py'))
    patch = os.path.join(sd, 'patch.diff'); demo = os.path.join(sd, 'demo.py')
    mp = os.path.join(sd, 'meta.json')
    meta = json.load(open(mp)) if os.path.exists(mp) else {'id': sid, 'property': prop}
    assert sh(['git', '-C', REPO, 'status', '--porcelain', '--untracked-files=no']).stdout.strip() == '', '/repo has uncommitted changes'
    meta['repo_commit'] = sh(['git', '-C', REPO, 'rev-parse', '--short', 'HEAD']).stdout.strip()
    tmp = tempfile.mkdtemp(prefix='seedrun_')
    shutil.copytree(os.path.join(V, 'evidence'), os.path.join(tmp, 'evidence_saved'))      # evidence must describe the unchanged tree
    try:
        if '--skip-confirm' not in a:
            conf = {}
            ok, _ = build(os.path.join(tmp, 'orig'))
            if os.path.exists(demo): conf['demo_exit_original'], conf['demo_tail_original'] = run_demo(demo, os.path.join(tmp, 'orig'))
        r = sh(['git', '-C', REPO, 'apply', patch])
        if r.returncode != 0:
            meta['applies'] = False; meta['apply_error'] = r.stderr[-500:]
            json.dump(meta, open(mp, 'w'), indent=1); print('patch does not apply:', r.stderr); return 1
        meta['applies'] = True
        try:
            if '--skip-confirm' not in a:
                ok, log = build(os.path.join(tmp, 'mod'))
                conf['builds'] = ok
                if ok:
                    rc, tail = run_tests(os.path.join(tmp, 'mod'))
                    conf['existing_tests_exit'] = rc; conf['existing_tests_tail'] = tail.strip().splitlines()[-1] if tail.strip() else ''
                    if os.path.exists(demo): conf['demo_exit_seeded'], conf['demo_tail_seeded'] = run_demo(demo, os.path.join(tmp, 'mod'))
                meta['confirmed'] = conf
            det = meta.setdefault('detection', {})
            for c in checks:
                d = det.setdefault(c, {})
                d['quick'] = run_check(c, 'quick')
                if d['quick']['violations'] == 0 or '--thorough' in a:
                    d['thorough'] = run_check(c, 'thorough')
        finally:
            sh(['git', '-C', REPO, 'checkout', '--', '.'])
    finally:
        for f in os.listdir(os.path.join(tmp, 'evidence_saved')):
            shutil.copy(os.path.join(tmp, 'evidence_saved', f), os.path.join(V, 'evidence', f))
        shutil.rmtree(tmp, ignore_errors=True)
    meta['caught_by'] = sorted(c + ':' + t for c, d in meta.get('detection', {}).items() for t in ('quick', 'thorough') if d.get(t, {}).get('violations', 0) > 0)
    json.dump(meta, open(mp, 'w'), indent=1)
    c = meta.get('confirmed', {})
    print('%s property=%s tests_exit=%s demo orig/seeded=%s/%s caught_by=%s' % (sid, prop, c.get('existing_tests_exit'), c.get('demo_exit_original'), c.get('demo_exit_seeded'), meta['caught_by']))
    return 0

if __name__ == '__main__':
    sys.exit(main())
