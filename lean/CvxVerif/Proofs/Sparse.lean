import CvxVerif.Model.Sparse
import Mathlib.Algebra.Order.Field.Rat
import Mathlib.Tactic.Ring
/-! Core lemmas for C16: insertion with accumulation keeps the storage order and adds to the dense image. -/
namespace CvxVerif.Sparse

theorem Entry.lt_trans {a b c : Entry} (h1 : a.lt b) (h2 : b.lt c) : a.lt c := by
  unfold Entry.lt at *; omega

theorem Entry.lt_irrefl_pos {a b : Entry} (h : a.samePos b = true) : ¬ a.lt b := by
  simp only [Entry.samePos, Bool.and_eq_true, beq_iff_eq] at h
  unfold Entry.lt; omega

theorem Entry.tri {a b : Entry} (h1 : a.samePos b = false) (h2 : ¬ a.lt b) : b.lt a := by
  simp only [Entry.samePos, Bool.and_eq_false_iff, beq_eq_false_iff_ne] at h1
  unfold Entry.lt at *; omega

/-- positions of `insertAcc e l`: the position of `e` or a position already in `l` -/
theorem insertAcc_pos (e : Entry) (l : List Entry) :
    ∀ z ∈ insertAcc e l, (z.col = e.col ∧ z.row = e.row) ∨ ∃ y ∈ l, z.col = y.col ∧ z.row = y.row := by
  induction l with
  | nil => intro z hz; simp [insertAcc] at hz; subst hz; exact Or.inl ⟨rfl, rfl⟩
  | cons x xs ih =>
    intro z hz
    unfold insertAcc at hz
    split at hz
    · rename_i hs
      simp only [Entry.samePos, Bool.and_eq_true, beq_iff_eq] at hs
      rcases List.mem_cons.mp hz with h | h
      · subst h; exact Or.inr ⟨x, List.mem_cons_self, rfl, rfl⟩
      · exact Or.inr ⟨z, List.mem_cons_of_mem _ h, rfl, rfl⟩
    · split at hz
      · rcases List.mem_cons.mp hz with h | h
        · subst h; exact Or.inl ⟨rfl, rfl⟩
        · exact Or.inr ⟨z, h, rfl, rfl⟩
      · rcases List.mem_cons.mp hz with h | h
        · subst h; exact Or.inr ⟨z, List.mem_cons_self, rfl, rfl⟩
        · rcases ih z h with h' | ⟨y, hy, h'⟩
          · exact Or.inl h'
          · exact Or.inr ⟨y, List.mem_cons_of_mem _ hy, h'⟩

theorem lt_of_pos_eq {a z y : Entry} (h : a.lt y) (hc : z.col = y.col) (hr : z.row = y.row) : a.lt z := by
  unfold Entry.lt at *; omega

/-- **Insertion keeps the storage order.** -/
theorem insertAcc_sorted (e : Entry) (l : List Entry) (h : Sorted l) : Sorted (insertAcc e l) := by
  induction l with
  | nil => simp [insertAcc, Sorted]
  | cons x xs ih =>
    unfold Sorted at h ⊢
    rw [List.pairwise_cons] at h
    obtain ⟨hx, hxs⟩ := h
    unfold insertAcc
    split
    · rename_i hs
      rw [List.pairwise_cons]
      refine ⟨fun y hy => ?_, hxs⟩
      have := hx y hy
      unfold Entry.lt at *; simpa using this
    · split
      · rename_i hlt
        rw [List.pairwise_cons]
        refine ⟨fun y hy => ?_, List.pairwise_cons.mpr ⟨hx, hxs⟩⟩
        rcases List.mem_cons.mp hy with h | h
        · subst h; exact hlt
        · exact Entry.lt_trans hlt (hx y h)
      · rename_i hns hnlt
        rw [List.pairwise_cons]
        refine ⟨fun z hz => ?_, ih hxs⟩
        rcases insertAcc_pos e xs z hz with ⟨hc, hr⟩ | ⟨y, hy, hc, hr⟩
        · have : x.lt e := Entry.tri (by simpa using hns) hnlt
          exact lt_of_pos_eq this hc hr
        · exact lt_of_pos_eq (hx y hy) hc hr

theorem insertAcc_inRange (m n : Nat) (e : Entry) (l : List Entry) (he : e.row < m ∧ e.col < n) (h : InRange m n l) :
    InRange m n (insertAcc e l) := by
  intro z hz
  rcases insertAcc_pos e l z hz with ⟨hc, hr⟩ | ⟨y, hy, hc, hr⟩
  · omega
  · have := h y hy; omega

/-- in a sorted list, nothing after the head has the head's position or a smaller one -/
theorem lookup_cons_of_lt (x : Entry) (xs : List Entry) (c r : Nat) (h : ∀ y ∈ xs, x.lt y)
    (hpos : c < x.col ∨ (c = x.col ∧ r ≤ x.row)) (hne : ¬ (x.col = c ∧ x.row = r)) : lookup (x :: xs) c r = 0 := by
  unfold lookup
  have h1 : (x :: xs).find? (fun y => y.col == c && y.row == r) = none := by
    rw [List.find?_eq_none]
    intro y hy
    simp only [Bool.and_eq_true, beq_iff_eq, not_and]
    rcases List.mem_cons.mp hy with h' | h'
    · subst h'; intro hc hr; exact hne ⟨hc, hr⟩
    · have := h y h'; unfold Entry.lt at this; omega
  rw [h1]

/-- **Insertion adds to the dense image**: the value at the position of `e` grows by `e.val`, all others are unchanged. -/
theorem lookup_insertAcc (e : Entry) (l : List Entry) (h : Sorted l) (c r : Nat) :
    lookup (insertAcc e l) c r = lookup l c r + (if e.col = c ∧ e.row = r then e.val else 0) := by
  induction l with
  | nil =>
    simp only [insertAcc, lookup, List.find?]
    by_cases hp : e.col = c ∧ e.row = r
    · simp [hp.1, hp.2]
    · have : (e.col == c && e.row == r) = false := by
        simp only [Bool.and_eq_false_iff, beq_eq_false_iff_ne]; omega
      simp [this, hp]
  | cons x xs ih =>
    unfold Sorted at h
    rw [List.pairwise_cons] at h
    obtain ⟨hx, hxs⟩ := h
    unfold insertAcc
    split
    · rename_i hs
      simp only [Entry.samePos, Bool.and_eq_true, beq_iff_eq] at hs
      unfold lookup
      simp only [List.find?]
      by_cases hp : x.col = c ∧ x.row = r
      · have : (x.col == c && x.row == r) = true := by simp [hp.1, hp.2]
        simp only [this]
        have hp' : e.col = c ∧ e.row = r := by omega
        simp [hp']
      · have : (x.col == c && x.row == r) = false := by
          simp only [Bool.and_eq_false_iff, beq_eq_false_iff_ne]; omega
        simp only [this]
        have hp' : ¬ (e.col = c ∧ e.row = r) := by omega
        simp [hp']
    · split
      · rename_i hns hlt
        by_cases hp : e.col = c ∧ e.row = r
        · have h0 : lookup (x :: xs) c r = 0 := by
            apply lookup_cons_of_lt x xs c r hx
            · unfold Entry.lt at hlt; omega
            · unfold Entry.lt at hlt; omega
          unfold lookup at h0 ⊢
          simp only [List.find?]
          have : (e.col == c && e.row == r) = true := by simp [hp.1, hp.2]
          simp only [this]
          simp only [List.find?] at h0
          rw [h0]; simp [hp]
        · unfold lookup
          simp only [List.find?]
          have : (e.col == c && e.row == r) = false := by
            simp only [Bool.and_eq_false_iff, beq_eq_false_iff_ne]; omega
          simp [this, hp]
      · rename_i hns hnlt
        have hxe : x.lt e := Entry.tri (by simpa using hns) hnlt
        unfold lookup
        simp only [List.find?]
        by_cases hp : x.col = c ∧ x.row = r
        · have : (x.col == c && x.row == r) = true := by simp [hp.1, hp.2]
          simp only [this]
          have hp' : ¬ (e.col = c ∧ e.row = r) := by unfold Entry.lt at hxe; omega
          simp [hp']
        · have : (x.col == c && x.row == r) = false := by
            simp only [Bool.and_eq_false_iff, beq_eq_false_iff_ne]; omega
          simp only [this]
          have := ih hxs
          unfold lookup at this
          exact this

end CvxVerif.Sparse

namespace CvxVerif.Sparse

/-- sum of the values of the entries at position `(c, r)` -/
def sumAt (l : List Entry) (c r : Nat) : Rat := ((l.filter fun e => e.col == c && e.row == r).map (·.val)).sum

theorem foldl_insertAcc (es : List Entry) (l0 : List Entry) (h : Sorted l0) :
    Sorted (es.foldl (fun l e => insertAcc e l) l0) ∧
    ∀ c r, lookup (es.foldl (fun l e => insertAcc e l) l0) c r = lookup l0 c r + sumAt es c r := by
  induction es generalizing l0 with
  | nil => exact ⟨h, fun c r => by simp [sumAt]⟩
  | cons e es ih =>
    simp only [List.foldl_cons]
    have hs := insertAcc_sorted e l0 h
    obtain ⟨h1, h2⟩ := ih _ hs
    refine ⟨h1, fun c r => ?_⟩
    rw [h2, lookup_insertAcc e l0 h]
    unfold sumAt
    simp only [List.filter_cons]
    by_cases hp : e.col = c ∧ e.row = r
    · have : (e.col == c && e.row == r) = true := by simp [hp.1, hp.2]
      simp [this, hp]; ring
    · have : (e.col == c && e.row == r) = false := by
        simp only [Bool.and_eq_false_iff, beq_eq_false_iff_ne]; omega
      simp [this, hp]

theorem foldl_insertAcc_inRange (m n : Nat) (es l0 : List Entry) (he : InRange m n es) (h0 : InRange m n l0) :
    InRange m n (es.foldl (fun l e => insertAcc e l) l0) := by
  induction es generalizing l0 with
  | nil => exact h0
  | cons e es ih =>
    simp only [List.foldl_cons]
    exact ih _ (fun z hz => he z (List.mem_cons_of_mem _ hz))
      (insertAcc_inRange m n e l0 (he e List.mem_cons_self) h0)

/-- in a sorted list every position occurs at most once, so the sum over a position is the looked-up value -/
theorem sumAt_sorted (l : List Entry) (h : Sorted l) (c r : Nat) : sumAt l c r = lookup l c r := by
  induction l with
  | nil => simp [sumAt, lookup]
  | cons x xs ih =>
    unfold Sorted at h
    rw [List.pairwise_cons] at h
    obtain ⟨hx, hxs⟩ := h
    unfold sumAt lookup
    simp only [List.filter_cons, List.find?]
    by_cases hp : x.col = c ∧ x.row = r
    · have hb : (x.col == c && x.row == r) = true := by simp [hp.1, hp.2]
      simp only [hb, if_true, List.map_cons, List.sum_cons]
      have hnone : xs.filter (fun e => e.col == c && e.row == r) = [] := by
        rw [List.filter_eq_nil_iff]
        intro y hy
        have := hx y hy
        simp only [Bool.and_eq_true, beq_iff_eq, not_and]
        unfold Entry.lt at this; omega
      simp [hnone]
    · have hb : (x.col == c && x.row == r) = false := by
        simp only [Bool.and_eq_false_iff, beq_eq_false_iff_ne]; omega
      simp only [hb]
      have := ih hxs
      unfold sumAt lookup at this
      simpa using this

end CvxVerif.Sparse
