import CvxVerif.Proofs.Kernels
import CvxVerif.Props.C08
import Mathlib.Analysis.Real.Sqrt
import Mathlib.Algebra.Module.LinearMap.Defs
import Mathlib.Algebra.Order.BigOperators.Ring.Finset
/-!
# C07 — KKT solvers and Nesterov–Todd scalings satisfy their linear-algebra contract

The numerical factorisations (LAPACK, CHOLMOD) are outside any proof; what is proved is the linear algebra the five
factories rely on, for all dimensions:
* the componentwise scaling computed by `compute_scaling` (`d = √(s/z)`, `di = 1/d`, `λ = √(s z)`) satisfies every
  documented invariant;
* a 'q'-block scaling with `vᵀJv = 1` is invertible with the coded inverse (`C08_scale_inv_q`);
* block elimination: a solution of the condensed system yields a solution of the documented 3×3 block system;
* positive diagonal rescaling does not change which directions `GᵀD G` annihilates (so the `singular` flag that
  `kkt_chol2` fixes at its first call is the same for every later scaling);
* two solutions of a nonsingular system coincide (all five solvers must agree).
-/
namespace CvxVerif.C07

/-- **'l' block of `compute_scaling`**: for `s, z > 0`, `d = √(s/z)`, `di = d⁻¹`, `λ = √(s·z)`:
`d > 0`, `d·di = 1`, `d·z = λ` and `s/d = λ`. -/
theorem C07_l_block (s z : ℝ) (hs : 0 < s) (hz : 0 < z) :
    let d := Real.sqrt (s / z); let di := d⁻¹; let lam := Real.sqrt (s * z)
    0 < d ∧ d * di = 1 ∧ d * z = lam ∧ s / d = lam := by
  intro d di lam
  have hd : 0 < d := Real.sqrt_pos.mpr (div_pos hs hz)
  have hzz : Real.sqrt (z * z) = z := by rw [Real.sqrt_mul_self hz.le]
  have h3 : d * z = lam := by
    show Real.sqrt (s / z) * z = Real.sqrt (s * z)
    have : Real.sqrt (s / z) * z = Real.sqrt (s / z) * Real.sqrt (z * z) := by rw [hzz]
    rw [this, ← Real.sqrt_mul (div_pos hs hz).le]
    congr 1; field_simp
  refine ⟨hd, mul_inv_cancel₀ hd.ne', h3, ?_⟩
  have hlam : lam = d * z := h3.symm
  have hdd : d * d = s / z := Real.mul_self_sqrt (div_pos hs hz).le
  rw [hlam, div_eq_iff hd.ne']
  calc s = (s / z) * z := by field_simp
    _ = d * d * z := by rw [hdd]
    _ = d * z * d := by ring

/-- the 'q' block: the coded inverse scaling is the inverse (any dimension) -/
theorem C07_q_block_inverse (beta v0 x0 : Rat) (v1 x1 : List Rat) (hb : beta ≠ 0) (hl : v1.length = x1.length)
    (hv : v0 * v0 - CvxVerif.Kernels.dot v1 v1 = 1) :
    CvxVerif.Kernels.scaleQinv beta (v0 :: v1) (CvxVerif.Kernels.scaleQ beta (v0 :: v1) (x0 :: x1)) = x0 :: x1 :=
  CvxVerif.Kernels.C08_scale_inv_q beta v0 x0 v1 x1 hb hl hv

section
variable {K X Y Z : Type*} [Field K] [AddCommGroup X] [Module K X] [AddCommGroup Y] [Module K Y] [AddCommGroup Z] [Module K Z]

/-- **Block elimination.** Let `S` be a right inverse of `WᵀW` on `Z`.  If `(ux, uy)` solves the condensed system
`(H + Gᵀ S G) ux + Aᵀ uy = bx + Gᵀ S bz`, `A ux = by`, then with `uz := S (G ux − bz)` the triple solves the
documented system `H ux + Aᵀuy + Gᵀuz = bx`, `A ux = by`, `G ux − WᵀW uz = bz`.  (What `kkt_chol`, `kkt_chol2` and,
after one more elimination, `kkt_qr` compute.) -/
theorem C07_reduction_sound (H : X →ₗ[K] X) (A : X →ₗ[K] Y) (At : Y →ₗ[K] X) (G : X →ₗ[K] Z) (Gt : Z →ₗ[K] X)
    (WtW S : Z →ₗ[K] Z) (hS : ∀ z, WtW (S z) = z) (bx ux : X) (bz : Z) (bvy : Y) (uy : Y)
    (h1 : H ux + Gt (S (G ux)) + At uy = bx + Gt (S bz)) (h2 : A ux = bvy) :
    let uz := S (G ux - bz)
    H ux + At uy + Gt uz = bx ∧ A ux = bvy ∧ G ux - WtW uz = bz := by
  intro uz
  refine ⟨?_, h2, ?_⟩
  · show H ux + At uy + Gt (S (G ux - bz)) = bx
    rw [map_sub, map_sub]
    have : H ux + At uy + (Gt (S (G ux)) - Gt (S bz)) = (H ux + Gt (S (G ux)) + At uy) - Gt (S bz) := by abel
    rw [this, h1]; abel
  · show G ux - WtW (S (G ux - bz)) = bz
    rw [hS]; abel

/-- **All solvers agree**: two solutions of an injective (nonsingular) KKT operator coincide. -/
theorem C07_five_agree {V : Type*} [AddCommGroup V] [Module K V] (Kkt : V →ₗ[K] V) (hinj : Function.Injective Kkt)
    (u u' rhs : V) (h : Kkt u = rhs) (h' : Kkt u' = rhs) : u = u' := hinj (h.trans h'.symm)
end

/-- **The `singular` decision of `kkt_chol2` does not depend on the scaling.** For positive weights `d`,
`xᵀ Gᵀ diag(d) G x = Σ dᵢ (Gx)ᵢ² = 0` exactly when `Gx = 0`: the matrix `GᵀW⁻²G` is singular for one positive diagonal
scaling iff it is singular for all of them, so the flag computed at the first `factor` call is valid for every
later call on the same factory (any history of scalings). -/
theorem C07_singular_invariant {ι : Type*} [Fintype ι] (d g : ι → ℝ) (hd : ∀ i, 0 < d i) :
    (∑ i, d i * (g i) ^ 2 = 0) ↔ ∀ i, g i = 0 := by
  constructor
  · intro h i
    have hnn : ∀ j ∈ Finset.univ, 0 ≤ d j * (g j) ^ 2 := fun j _ => mul_nonneg (hd j).le (sq_nonneg _)
    have := (Finset.sum_eq_zero_iff_of_nonneg hnn).mp h i (Finset.mem_univ i)
    have h2 : (g i) ^ 2 = 0 := by
      rcases mul_eq_zero.mp this with h' | h'
      · exact absurd h' (hd i).ne'
      · exact h'
    exact pow_eq_zero_iff (two_ne_zero) |>.mp h2
  · intro h; simp [h]

theorem C07_chol2_history {ι : Type*} [Fintype ι] (d d' g : ι → ℝ) (hd : ∀ i, 0 < d i) (hd' : ∀ i, 0 < d' i) :
    (∑ i, d i * (g i) ^ 2 = 0) ↔ (∑ i, d' i * (g i) ^ 2 = 0) := by
  rw [C07_singular_invariant d g hd, C07_singular_invariant d' g hd']

example : (0:ℝ) < Real.sqrt (4 / 1) := Real.sqrt_pos.mpr (by norm_num)

end CvxVerif.C07
