import CvxVerif.Model.Mps
import Mathlib.Algebra.Order.Field.Rat

/-!
C14 — writing an LP to MPS and reading it back preserves the problem (record level).

`Mps.write` is what `tofile` emits for a flattened LP and `Mps.read` the meaning of a file (both compared with the real code by
`tools/corr/c14.py`).  The theorems say what the reader finds in a written file, for every flattened LP with distinct column
labels, distinct row labels and no row labelled `cost`:

* every column is declared, in the original order (`C14_written_columns`);
* the coefficient of every (row, column) pair and of the objective is the original one (`C14_written_coefficient`,
  `C14_written_objective`);
* every right-hand side is the original one (`C14_written_rhs`);
* all bounds are free, so no bound constraints are created (`C14_written_bounds_free`);
* the written rows have types the reader knows and there are no RANGES (`C14_written_rows`).

The hypotheses are exactly the point where the real round trip can fail: two names that give the same 8-character label
(see known_findings.json).
-/
namespace CvxVerif.Mps

/-- entries of `E` for column `c` and row `r` -/
def sel (E : List (String × String × Rat)) (c r : String) : List (String × String × Rat) :=
  E.filter fun e => decide (e.1 = c) && decide (e.2.1 = r)

theorem sel_flatMap (cols : List String) (f : String → List (String × String × Rat)) (hf : ∀ c' e, e ∈ f c' → e.1 = c')
    (c r : String) (hn : cols.Nodup) (hc : c ∈ cols) : sel (cols.flatMap f) c r = sel (f c) c r := by
  induction cols with
  | nil => cases hc
  | cons a t ih =>
    have hother : ∀ a', a' ≠ c → sel (f a') c r = [] := by
      intro a' ha
      unfold sel
      rw [List.filter_eq_nil_iff]
      intro e he
      have := hf a' e he
      simp [this, ha]
    have hnil : ∀ l : List String, c ∉ l → sel (l.flatMap f) c r = [] := by
      intro l hl
      induction l with
      | nil => rfl
      | cons b u ihu =>
        simp only [List.flatMap_cons, sel, List.filter_append] at *
        have hb : b ≠ c := fun e => hl (e ▸ List.mem_cons_self ..)
        rw [show List.filter (fun e => decide (e.1 = c) && decide (e.2.1 = r)) (f b) = [] from hother b hb]
        rw [ihu (fun h => hl (List.mem_cons_of_mem _ h))]; rfl
    simp only [List.flatMap_cons]
    unfold sel; rw [List.filter_append]
    have hnd := List.nodup_cons.mp hn
    by_cases hac : a = c
    · subst hac
      have := hnil t hnd.1
      unfold sel at this; rw [this, List.append_nil]
    · have h1 := hother a hac
      unfold sel at h1; rw [h1, List.nil_append]
      have hct : c ∈ t := by
        rcases List.mem_cons.mp hc with h | h
        · exact absurd h.symm hac
        · exact h
      have := ih hnd.2 hct
      unfold sel at this; exact this

theorem nzEntries_col (p : Flat) (c' : String) : ∀ e ∈ nzEntries p c', e.1 = c' := by
  intro e he
  unfold nzEntries at he
  rcases List.mem_append.mp he with h | h
  · split at h
    · simp only [List.mem_singleton] at h; rw [h]
    · cases h
  · simp only [List.mem_filterMap] at h
    obtain ⟨r, _, hr⟩ := h
    split at hr
    · simp only [Option.some.injEq] at hr; rw [← hr]
    · cases hr

theorem colEntries_col (p : Flat) (c' : String) : ∀ e ∈ colEntries p c', e.1 = c' := by
  intro e he
  unfold colEntries at he
  split at he
  · simp only [List.mem_singleton] at he; rw [he]
  · exact nzEntries_col p c' e he

/-- the entry a row contributes to column `c` -/
def rowEntry (p : Flat) (c : String) (x : String × RTy × Rat) : Option (String × String × Rat) :=
  if p.A x.1 c ≠ 0 then some (c, x.1, p.A x.1 c) else none

theorem sel_rows_nil (p : Flat) (c r : String) (l : List (String × RTy × Rat)) (hl : r ∉ l.map (·.1)) :
    sel (l.filterMap (rowEntry p c)) c r = [] := by
  unfold sel
  rw [List.filter_eq_nil_iff]
  intro e he
  simp only [List.mem_filterMap] at he
  obtain ⟨x, hx, hxe⟩ := he
  unfold rowEntry at hxe
  split at hxe
  · simp only [Option.some.injEq] at hxe; subst hxe
    have : x.1 ≠ r := fun e => hl (e ▸ List.mem_map_of_mem hx)
    simp [this]
  · cases hxe

/-- the row part of a column: at most the one entry of row `r` -/
theorem sel_rows (p : Flat) (c r : String) (rows : List (String × RTy × Rat)) (hn : (rows.map (·.1)).Nodup) (hr : r ∈ rows.map (·.1)) :
    sel (rows.filterMap (rowEntry p c)) c r = if p.A r c ≠ 0 then [(c, r, p.A r c)] else [] := by
  induction rows with
  | nil => cases hr
  | cons a t ih =>
    have hn' : a.1 ∉ t.map (·.1) ∧ (t.map (·.1)).Nodup := by
      have h := hn; simp only [List.map_cons] at h; exact List.nodup_cons.mp h
    have hr' : r = a.1 ∨ r ∈ t.map (·.1) := by
      have h := hr; simp only [List.map_cons] at h; exact List.mem_cons.mp h
    by_cases hA : p.A a.1 c = 0
    · have hfm : (a :: t).filterMap (rowEntry p c) = t.filterMap (rowEntry p c) := by
        simp [rowEntry, hA]
      rw [hfm]
      by_cases har : a.1 = r
      · rw [sel_rows_nil p c r t (har ▸ hn'.1), ← har]; simp [hA]
      · rcases hr' with h | h
        · exact absurd h.symm har
        · exact ih hn'.2 h
    · have hfm : (a :: t).filterMap (rowEntry p c) = (c, a.1, p.A a.1 c) :: t.filterMap (rowEntry p c) := by
        simp [rowEntry, hA]
      rw [hfm]
      by_cases har : a.1 = r
      · have h2 := sel_rows_nil p c r t (har ▸ hn'.1)
        unfold sel at h2 ⊢
        rw [List.filter_cons, h2, ← har]
        simp [hA]
      · have h3 : sel (t.filterMap (rowEntry p c)) c r = if p.A r c ≠ 0 then [(c, r, p.A r c)] else [] := by
          rcases hr' with h | h
          · exact absurd h.symm har
          · exact ih hn'.2 h
        unfold sel at h3 ⊢
        rw [List.filter_cons]
        simp only [har, decide_false, Bool.and_false, Bool.false_eq_true, if_false]
        exact h3

theorem sel_rows_cost (p : Flat) (c : String) (rows : List (String × RTy × Rat)) (hc : "cost" ∉ rows.map (·.1)) :
    sel (rows.filterMap (rowEntry p c)) c "cost" = [] := sel_rows_nil p c "cost" rows hc

theorem nzEntries_eq (p : Flat) (c : String) :
    nzEntries p c = (if p.c c ≠ 0 then [(c, "cost", p.c c)] else []) ++ p.rows.filterMap (rowEntry p c) := rfl

/-- what the reader's coefficient lookup returns from a list of selected entries -/
def valOf (l : List (String × String × Rat)) : Rat := ((l.getLast?).map (·.2.2)).getD 0

/-- **Coefficients survive.**  In the file written for `p`, the entries for column `c` and row `r` carry the value `A r c`
(no entry exactly when it is zero, or a single explicit zero for an otherwise empty column). -/
theorem C14_written_coefficient (p : Flat) (hcols : p.cols.Nodup) (hrows : (p.rows.map (·.1)).Nodup) (hcost : "cost" ∉ p.rows.map (·.1))
    (c r : String) (hc : c ∈ p.cols) (hr : r ∈ p.rows.map (·.1)) :
    valOf (sel (write p).cols c r) = p.A r c := by
  have hrc : r ≠ "cost" := fun e => hcost (e ▸ hr)
  show valOf (sel (p.cols.flatMap (colEntries p)) c r) = p.A r c
  rw [sel_flatMap p.cols (colEntries p) (colEntries_col p) c r hcols hc]
  have hnz : sel (nzEntries p c) c r = if p.A r c ≠ 0 then [(c, r, p.A r c)] else [] := by
    rw [nzEntries_eq]
    have h2 := sel_rows p c r p.rows hrows hr
    unfold sel at h2 ⊢
    rw [List.filter_append]
    have h1 : List.filter (fun e : String × String × Rat => decide (e.1 = c) && decide (e.2.1 = r)) (if p.c c ≠ 0 then [(c, "cost", p.c c)] else []) = [] := by
      split <;> simp [Ne.symm hrc]
    rw [h1, List.nil_append]
    exact h2
  unfold colEntries
  split
  · rename_i he
    have hz : p.A r c = 0 := by
      by_cases hne : p.A r c = 0
      · exact hne
      exfalso
      have : sel (nzEntries p c) c r = [(c, r, p.A r c)] := by rw [hnz]; simp [hne]
      have hmem : (c, r, p.A r c) ∈ nzEntries p c := by
        have : (c, r, p.A r c) ∈ sel (nzEntries p c) c r := by rw [this]; exact List.mem_singleton.mpr rfl
        exact (List.mem_filter.mp this).1
      rw [List.isEmpty_iff] at he; rw [he] at hmem; cases hmem
    simp [sel, valOf, Ne.symm hrc, hz]
  · rw [hnz]; split
    · simp [valOf]
    · rename_i hz; simp only [ne_eq, Decidable.not_not] at hz; simp [valOf, hz]

/-- **The objective survives.** -/
theorem C14_written_objective (p : Flat) (hcols : p.cols.Nodup) (hcost : "cost" ∉ p.rows.map (·.1)) (c : String) (hc : c ∈ p.cols) :
    valOf (sel (write p).cols c "cost") = p.c c := by
  show valOf (sel (p.cols.flatMap (colEntries p)) c "cost") = p.c c
  rw [sel_flatMap p.cols (colEntries p) (colEntries_col p) c "cost" hcols hc]
  have hnz : sel (nzEntries p c) c "cost" = if p.c c ≠ 0 then [(c, "cost", p.c c)] else [] := by
    rw [nzEntries_eq]
    have := sel_rows_cost p c p.rows hcost
    unfold sel at this ⊢
    rw [List.filter_append, this, List.append_nil]
    split <;> simp
  unfold colEntries
  split
  · rename_i he
    have hz : p.c c = 0 := by
      by_cases hne : p.c c = 0
      · exact hne
      exfalso
      have h1 : sel (nzEntries p c) c "cost" = [(c, "cost", p.c c)] := by rw [hnz]; simp [hne]
      have hmem : (c, "cost", p.c c) ∈ nzEntries p c := by
        have : (c, "cost", p.c c) ∈ sel (nzEntries p c) c "cost" := by rw [h1]; exact List.mem_singleton.mpr rfl
        exact (List.mem_filter.mp this).1
      rw [List.isEmpty_iff] at he; rw [he] at hmem; cases hmem
    simp [sel, valOf, hz]
  · rw [hnz]; split
    · simp [valOf]
    · rename_i hz; simp only [ne_eq, Decidable.not_not] at hz; simp [valOf, hz]

theorem dedup_of_nodup : ∀ (l : List String), l.Nodup → dedup l = l
  | [], _ => rfl
  | a :: t, h => by
    have hnd := List.nodup_cons.mp h
    simp only [dedup, dedup_of_nodup t hnd.2]
    congr 1
    rw [List.filter_eq_self]
    intro x hx
    have : x ≠ a := fun e => hnd.1 (e ▸ hx)
    simp [this]

theorem dedup_append_self (a : String) (l : List String) : dedup (a :: a :: l) = dedup (a :: l) := by
  simp only [dedup]
  congr 1
  simp [List.filter_filter]

/-- dedup of a list in which equal labels are adjacent blocks: collapse of a block -/
theorem dedup_block (a : String) (n : Nat) (rest : List String) :
    dedup (List.replicate (n + 1) a ++ rest) = a :: (dedup rest).filter (· ≠ a) := by
  induction n with
  | zero => simp [dedup]
  | succ n ih =>
    have : List.replicate (n + 1 + 1) a ++ rest = a :: (List.replicate (n + 1) a ++ rest) := by simp [List.replicate_succ]
    rw [this]
    simp only [dedup, ih]
    congr 1
    simp [List.filter_filter]

theorem dedup_blocks (f : String → List (String × String × Rat)) (hblock : ∀ c, ∃ n, (f c).map (·.1) = List.replicate (n + 1) c) :
    ∀ (cols : List String), cols.Nodup → dedup ((cols.flatMap f).map (·.1)) = cols
  | [], _ => rfl
  | a :: t, hn => by
    have hnd := List.nodup_cons.mp hn
    simp only [List.flatMap_cons, List.map_append]
    obtain ⟨n, hn'⟩ := hblock a
    rw [hn', dedup_block, dedup_blocks f hblock t hnd.2]
    congr 1
    rw [List.filter_eq_self]
    intro x hx
    have : x ≠ a := fun e => hnd.1 (e ▸ hx)
    simp [this]

/-- **Every column is declared, in the original order.** -/
theorem C14_written_columns (p : Flat) (hcols : p.cols.Nodup) : dedup ((write p).cols.map (·.1)) = p.cols := by
  show dedup ((p.cols.flatMap (colEntries p)).map (·.1)) = p.cols
  apply dedup_blocks (colEntries p) _ p.cols hcols
  intro c
  have hall : ∀ e ∈ colEntries p c, e.1 = c := colEntries_col p c
  have hne : colEntries p c ≠ [] := by
    unfold colEntries; split
    · simp
    · rename_i h; intro e; rw [e] at h; simp at h
  refine ⟨(colEntries p c).length - 1, ?_⟩
  have hlen : (colEntries p c).length - 1 + 1 = ((colEntries p c).map (·.1)).length := by
    have : 0 < (colEntries p c).length := List.length_pos_iff.mpr hne
    simp; omega
  rw [hlen]
  exact List.eq_replicate_iff.mpr ⟨rfl, by intro b hb; obtain ⟨e, he, rfl⟩ := List.mem_map.mp hb; exact hall e he⟩

theorem filter_unique_row : ∀ (rows : List (String × RTy × Rat)), (rows.map (·.1)).Nodup → ∀ (r : String) (ty : RTy) (b : Rat), (r, ty, b) ∈ rows →
    (rows.map fun x => (x.1, x.2.2)).filter (fun e => e.1 = r) = [(r, b)]
  | [], _, _, _, _, hr => by cases hr
  | a :: t, hrows, r, ty, b, hr => by
    have hnd : a.1 ∉ t.map (·.1) ∧ (t.map (·.1)).Nodup := by
      have h := hrows; simp only [List.map_cons] at h; exact List.nodup_cons.mp h
    rcases List.mem_cons.mp hr with h | h
    · subst h
      have hnot : ∀ x ∈ t, x.1 ≠ r := fun x hx e => hnd.1 (by show r ∈ t.map (·.1); rw [← e]; exact List.mem_map_of_mem (f := (·.1)) hx)
      simp only [List.map_cons, List.filter_cons, decide_true, if_true]
      congr 1
      rw [List.filter_eq_nil_iff]
      intro e he
      obtain ⟨y, hy, rfl⟩ := List.mem_map.mp he
      simp [hnot y hy]
    · have har : a.1 ≠ r := fun e => hnd.1 (by rw [e]; exact List.mem_map_of_mem (f := (·.1)) h)
      simp only [List.map_cons, List.filter_cons, har, decide_false, Bool.false_eq_true, if_false]
      exact filter_unique_row t hnd.2 r ty b h

theorem firstVec_single (rows : List (String × RTy × Rat)) :
    firstVec (rows.map fun r => ("", r.1, r.2.2)) = rows.map fun r => (r.1, r.2.2) := by
  cases rows with
  | nil => rfl
  | cons a t =>
    simp only [List.map_cons, firstVec]
    rw [List.filter_eq_self.mpr (by intro x hx; simp only [List.mem_cons, List.mem_map] at hx; rcases hx with rfl | ⟨y, _, rfl⟩ <;> simp)]
    simp

/-- **Right-hand sides survive**: there is one RHS vector and the last (only) value recorded for a row is its right-hand side. -/
theorem C14_written_rhs (p : Flat) (hrows : (p.rows.map (·.1)).Nodup) (r : String) (ty : RTy) (b : Rat) (hr : (r, ty, b) ∈ p.rows) :
    lastVal (firstVec (write p).rhs) r = some b := by
  show lastVal (firstVec (p.rows.map fun r => ("", r.1, r.2.2))) r = some b
  rw [firstVec_single]
  unfold lastVal
  rw [filter_unique_row p.rows hrows r ty b hr]; rfl

/-- **All written bounds are free**: each is `FR`, which the reader turns into no constraint at all. -/
theorem C14_written_bounds_free (p : Flat) :
    (∀ b ∈ (write p).bounds, b.1 = "FR") ∧ applyBound (some 0, none) "FR" "" 0 = .ok (none, none) ∧ boundCons "" (none, none) = ([], []) := by
  refine ⟨?_, by simp [applyBound], rfl⟩
  intro b hb
  simp only [write, List.mem_map] at hb
  obtain ⟨c, _, rfl⟩ := hb; rfl

/-- **Row section**: an objective row `cost` followed by the rows with their types, all known to the reader; no RANGES. -/
theorem C14_written_rows (p : Flat) (hty : ∀ r ∈ p.rows, r.2.1 = .L ∨ r.2.1 = .E) :
    firstBad (write p).rows = none ∧ (write p).ranges = [] ∧ ((write p).rows.find? fun r => r.1 = "N").map (·.2) = some "cost" := by
  refine ⟨?_, rfl, by simp [write]⟩
  unfold firstBad
  rw [Option.map_eq_none_iff, List.find?_eq_none]
  intro x hx
  simp only [write, List.mem_cons, List.mem_map] at hx
  rcases hx with rfl | ⟨r, hr, rfl⟩
  · simp [parseRTy]
  · rcases hty r hr with h | h <;> simp [h, showRTy, parseRTy]

/-- the reader's meaning of ranges on each row type (the format's definition), spelled out -/
theorem C14_range_semantics (l : String) (coef : List (String × Rat)) (rhs r : Rat) :
    rowCons l .L coef rhs (some r) = ([⟨l, coef, -rhs⟩, ⟨l ++ "_lb", neg coef, rhs - rabs r⟩], []) ∧
    rowCons l .G coef rhs (some r) = ([⟨l, neg coef, rhs⟩, ⟨l ++ "_ub", coef, -rhs - rabs r⟩], []) ∧
    (0 < r → rowCons l .E coef rhs (some r) = ([⟨l ++ "_lb", neg coef, rhs⟩, ⟨l ++ "_ub", coef, -rhs - r⟩], [])) ∧
    (r < 0 → rowCons l .E coef rhs (some r) = ([⟨l ++ "_ub", coef, -rhs⟩, ⟨l ++ "_lb", neg coef, rhs + r⟩], [])) ∧
    rowCons l .E coef rhs (some 0) = ([], [⟨l, coef, -rhs⟩]) ∧ rowCons l .E coef rhs none = ([], [⟨l, coef, -rhs⟩]) := by
  refine ⟨rfl, rfl, ?_, ?_, by simp [rowCons], rfl⟩
  · intro h; have : r ≠ 0 := fun e => by rw [e] at h; exact absurd h (by decide)
    simp [rowCons, this, h]
  · intro h; have h0 : r ≠ 0 := fun e => by rw [e] at h; exact absurd h (by decide)
    have : ¬ 0 < r := fun h' => lt_asymm h h'
    simp [rowCons, h0, this]

/-! Non-vacuity: a two-column, two-row program satisfies the hypotheses. -/
example : (["x_0", "x_1"] : List String).Nodup ∧ (([("a_0", RTy.L, (1 : Rat)), ("b_0", RTy.E, 0)] : List (String × RTy × Rat)).map (·.1)).Nodup := by decide

end CvxVerif.Mps
