import CvxVerif.Spec.Expr
import CvxVerif.Model.Proto
/-! Prefix-token reader for `Expr` shared by the C11 and C12 drivers (not part of any theorem). -/
namespace CvxVerif.Expr
open CvxVerif.Proto

def pv (s : String) : Option (List Rat) := if s == "-" || s == "" then some [] else (s.splitOn ",").mapM parseRat
def sv (l : List Rat) : String := if l.isEmpty then "-" else ",".intercalate (l.map showRat)

/-- tokens of a prefix-notation expression: `add ( var 0 ) ...` written without parentheses since every operator has fixed arity -/
partial def parseE : List String → Option (Expr × List String)
  | "var" :: i :: r => i.toNat?.map fun n => (.var n, r)
  | "const" :: v :: r => (pv v).map fun l => (.const l, r)
  | "add" :: r => do let (a, r) ← parseE r; let (b, r) ← parseE r; pure (.add a b, r)
  | "sub" :: r => do let (a, r) ← parseE r; let (b, r) ← parseE r; pure (.sub a b, r)
  | "max2" :: r => do let (a, r) ← parseE r; let (b, r) ← parseE r; pure (.max2 a b, r)
  | "min2" :: r => do let (a, r) ← parseE r; let (b, r) ← parseE r; pure (.min2 a b, r)
  | "neg" :: r => do let (a, r) ← parseE r; pure (.neg a, r)
  | "abs" :: r => do let (a, r) ← parseE r; pure (.abs a, r)
  | "sum" :: r => do let (a, r) ← parseE r; pure (.sum a, r)
  | "maxv" :: r => do let (a, r) ← parseE r; pure (.maxv a, r)
  | "minv" :: r => do let (a, r) ← parseE r; pure (.minv a, r)
  | "smul" :: c :: r => do let c ← parseRat c; let (a, r) ← parseE r; pure (.smul c a, r)
  | "sdiv" :: c :: r => do let c ← parseRat c; let (a, r) ← parseE r; pure (.sdiv a c, r)
  | "idx" :: i :: r => do let i ← i.toInt?; let (a, r) ← parseE r; pure (.idx a i, r)
  | "slice" :: lo :: hi :: r => do let lo ← lo.toNat?; let hi ← hi.toNat?; let (a, r) ← parseE r; pure (.slice a lo hi, r)
  | "iadd" :: r => do let (a, r) ← parseE r; let (b, r) ← parseE r; pure (.iadd a b, r)
  | "isub" :: r => do let (a, r) ← parseE r; let (b, r) ← parseE r; pure (.isub a b, r)
  | "dot" :: c :: r => do let c ← pv c; let (a, r) ← parseE r; pure (.dot c a, r)
  | "mmul" :: m :: r => do
      let rows ← (m.splitOn ";").mapM pv
      let (a, r) ← parseE r; pure (.mmul rows a, r)
  | _ => none

def showCurv : Option Curv → String
  | some .num => "num" | some .const => "const" | some .affine => "affine" | some .convex => "convex" | some .concave => "concave" | none => "refused"


end CvxVerif.Expr
