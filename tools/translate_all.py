#!/usr/bin/env python3
"""S1 for all properties with a translator tie: regenerate lean/CvxVerif/Gen/*.lean from /repo."""
import sys, os, importlib
sys.path.insert(0, os.path.dirname(os.path.abspath(__file__)))
rc = 0
for name in ():
    pass
sys.exit(rc)
