import CvxVerif.Props.C17Calls

/-! C18 — lapack.c: every wrapper calls the LAPACK routine of its own name (or its listed real counterpart / the factorisation its driver keeps), in the
arithmetic of the `case` label it stands in.  Definitions and the alias list: Props/C17Calls.lean; table: `Gen/CallArgs.lean`. -/
namespace CvxVerif.C17Calls
open CvxVerif.Gen.CallArgs

theorem C18_routine_of_same_name :
    ∀ t ∈ fortranCalls, t.1 = "lapack.c" → nameOk t.2.1 t.2.2.2 = true ∧ typeOk t.2.2.1 t.2.2.2 = true := by decide +kernel

theorem C18_routines_present : 100 ≤ (fortranCalls.filter fun t => t.1 == "lapack.c").length := by decide +kernel

end CvxVerif.C17Calls
