/-! Target of `cwrap2lean`: outcomes of the argument-checking prefix of a C wrapper. Core Lean only. -/
namespace CvxVerif.CWrap

inductive Outcome where
  | reject (cls : String)                 -- a Python exception of this class is raised before the BLAS call
  | none                                  -- early `return None` (nothing to do)
  | call (vals : List Int)                -- the routine is called; final values of the integer arguments (see `<r>_callNames`)
deriving Repr, DecidableEq

/-- C `abs` on (ideal) integers -/
def iabs (a : Int) : Int := if a < 0 then -a else a

/-- the elements `off + k·|inc|`, `k < n`, of a strided vector lie inside a buffer of `len` elements -/
def VecFits (len off n inc : Int) : Prop := 0 ≤ off ∧ (0 < n → off + (n - 1) * iabs inc + 1 ≤ len)

/-- the `m × n` block with leading dimension `ld` starting at `off` lies inside a buffer of `len` elements -/
def MatFits (len off m n ld : Int) : Prop := 0 ≤ off ∧ (0 < m → 0 < n → m ≤ ld ∧ off + (n - 1) * ld + m ≤ len)

/-- every element `off + j·ld + i` (`i < m`, `j < n`) of a block lies inside a buffer of `len` elements (no statement about `m ≤ ld`: with a
smaller leading dimension the columns overlap but stay inside) -/
def MatIn (len off m n ld : Int) : Prop := 0 ≤ off ∧ 0 ≤ ld ∧ (0 < m → 0 < n → off + (n - 1) * ld + m ≤ len)

/-- `n` contiguous elements starting at `off` lie inside a buffer of `len` elements -/
def SegFits (len off n : Int) : Prop := 0 ≤ off ∧ (0 < n → off + n ≤ len)

instance (len off n inc : Int) : Decidable (VecFits len off n inc) := by unfold VecFits; infer_instance
instance (len off m n ld : Int) : Decidable (MatFits len off m n ld) := by unfold MatFits; infer_instance
instance (len off n : Int) : Decidable (SegFits len off n) := by unfold SegFits; infer_instance
instance (len off m n ld : Int) : Decidable (MatIn len off m n ld) := by unfold MatIn; infer_instance

theorem iabs_cases (a : Int) : (a < 0 ∧ iabs a = -a) ∨ (0 ≤ a ∧ iabs a = a) := by
  unfold iabs; split <;> omega

/-- `let v := x; f v`, kept opaque so that proofs can name the intermediate value -/
def withVal (x : Int) (f : Int → Outcome) : Outcome := f x
theorem withVal_beta (x : Int) (f : Int → Outcome) : withVal x f = f x := rfl

theorem rej_cond {c : Prop} [Decidable c] {s : String} {Y : Outcome} {v : List Int}
    (h : (if c then Outcome.reject s else Y) = .call v) : ¬ c := by
  intro hc; rw [if_pos hc] at h; cases h
theorem rej_rest {c : Prop} [Decidable c] {s : String} {Y : Outcome} {v : List Int}
    (h : (if c then Outcome.reject s else Y) = .call v) : Y = .call v := by
  by_cases hc : c
  · rw [if_pos hc] at h; cases h
  · rwa [if_neg hc] at h
theorem non_cond {c : Prop} [Decidable c] {Y : Outcome} {v : List Int}
    (h : (if c then Outcome.none else Y) = .call v) : ¬ c := by
  intro hc; rw [if_pos hc] at h; cases h
theorem non_rest {c : Prop} [Decidable c] {Y : Outcome} {v : List Int}
    (h : (if c then Outcome.none else Y) = .call v) : Y = .call v := by
  by_cases hc : c
  · rw [if_pos hc] at h; cases h
  · rwa [if_neg hc] at h

end CvxVerif.CWrap
