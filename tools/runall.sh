#!/bin/bash
# convenience: run every registered quick check and print one line per property
cd "$(dirname "$0")/.."
for p in $(python3 -c "import json; print(' '.join(c['property_id'] for c in json.load(open('MANIFEST.json'))['checks']))"); do
  ./check $p "$@" 2>&1 | grep -v "^KNOWN-FINDING" | tail -1 | cut -c1-180
done
