/-!
How the `options=` keyword travels through the solver entry points.  The table `flows` is generated from
the source (Gen/Options.lean); the semantics below is fixed.
-/
namespace CvxVerif.OptFlow

structure Flow where
  name : String
  hasKwargs : Bool                 -- the signature ends in `**kwargs`
  reads : Bool                     -- `options = kwargs.get('options', globals()['options'])`
  usesOptions : Bool               -- the body itself consults `options`
  calls : List (String × String)   -- calls of other entry points: (callee, "options" | "kwargs" | "none")
deriving Repr

/-- All option dictionaries that are consulted when entry point `e` is called with keyword `options = kw`
(`none` = keyword absent) while the module-level dictionary is `g`. -/
def seen {α : Type} (fl : List Flow) : Nat → String → Option α → α → List α
  | 0, _, _, _ => []
  | fuel + 1, e, kw, g =>
    match fl.find? (fun f => f.name == e) with
    | none => []
    | some f =>
      let d := if f.reads then kw.getD g else g
      (if f.usesOptions then [d] else []) ++
        f.calls.flatMap (fun c =>
          seen fl fuel c.1 (if c.2 == "options" then some d else if c.2 == "kwargs" then kw else none) g)

end CvxVerif.OptFlow
