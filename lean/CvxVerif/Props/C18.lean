import CvxVerif.Model.MatCheck
import Mathlib.Data.Matrix.Mul
import Mathlib.LinearAlgebra.Matrix.NonsingularInverse
import Mathlib.Tactic.Ring
import Mathlib.Tactic.FieldSimp

/-!
C18 — LAPACK wrappers return results that satisfy their defining equations.

The numerical routines are an external library; what is proved here is the *meaning of the checks* that `tools/corr/c18.py` applies
(in exact rational arithmetic, `Model/MatCheck.lean`) to what the wrappers return, for matrices of every size over every field:

* a small residual is a small backward error: `x̂` solves a system whose matrix differs from `A` by `E` with
  `‖E‖_F · ‖x̂‖ = ‖b − A x̂‖` (`C18_backward_error`, `C18_backward_error_norm`);
* factor-then-solve is the driver: from `P A = L U`, `L y = P b`, `U x = y` follows `A x = b` (`C18_lu_solve`); likewise Cholesky
  (`C18_cholesky_solve`) — so comparing the one-call driver with the two-call sequence is comparing two solutions of the same system;
* `A = Q R` with orthonormal columns of `Q` gives `AᵀA = RᵀR`, and `R x = Qᵀb` gives the normal equations (`C18_qr_normal_equations`);
* `A V = V diag(w)` with orthogonal `V` reconstructs `A = V diag(w) Vᵀ` (`C18_eig_reconstruct`); an SVD `A = U diag(s) Vᵀ` with orthonormal
  factors has `AᵀA = V diag(s²) Vᵀ` (`C18_svd_gram`).
-/
namespace CvxVerif.C18
open Matrix
set_option linter.unusedSectionVars false

variable {K : Type} [Field K] {m n : Type} [Fintype m] [Fintype n] [DecidableEq m] [DecidableEq n]

/-- **Backward error of a computed solution.** With `r = b − A x̂` and `x̂ᵀx̂ ≠ 0`, the perturbation `E = r x̂ᵀ / (x̂ᵀx̂)` makes `x̂` an
exact solution: `(A + E) x̂ = b`. -/
theorem C18_backward_error (A : Matrix m n K) (xh : n → K) (b : m → K) (hx : xh ⬝ᵥ xh ≠ 0) :
    (A + (xh ⬝ᵥ xh)⁻¹ • vecMulVec (b - A *ᵥ xh) xh) *ᵥ xh = b := by
  ext i
  simp only [add_mulVec, smul_mulVec, Pi.add_apply, Pi.smul_apply, smul_eq_mul]
  have h : (vecMulVec (b - A *ᵥ xh) xh *ᵥ xh) i = (b i - (A *ᵥ xh) i) * (xh ⬝ᵥ xh) := by
    simp only [mulVec, dotProduct, vecMulVec_apply, Pi.sub_apply, Finset.mul_sum, mul_assoc]
  rw [h]; field_simp; ring

/-- the squared Frobenius norm of that perturbation is `‖r‖² / ‖x̂‖²` -/
theorem C18_backward_error_norm (r : m → K) (xh : n → K) (hx : xh ⬝ᵥ xh ≠ 0) :
    ∑ i, ∑ j, ((xh ⬝ᵥ xh)⁻¹ • vecMulVec r xh) i j * ((xh ⬝ᵥ xh)⁻¹ • vecMulVec r xh) i j = (r ⬝ᵥ r) / (xh ⬝ᵥ xh) := by
  have h1 : ∀ i j, ((xh ⬝ᵥ xh)⁻¹ • vecMulVec r xh) i j * ((xh ⬝ᵥ xh)⁻¹ • vecMulVec r xh) i j
      = ((xh ⬝ᵥ xh)⁻¹ * (xh ⬝ᵥ xh)⁻¹) * ((r i * r i) * (xh j * xh j)) := by
    intro i j; simp only [Matrix.smul_apply, vecMulVec_apply, smul_eq_mul]; ring
  have h2 : ∑ i, ∑ j, (r i * r i) * (xh j * xh j) = (r ⬝ᵥ r) * (xh ⬝ᵥ xh) := by
    simp only [dotProduct, Finset.sum_mul_sum]
  calc ∑ i, ∑ j, ((xh ⬝ᵥ xh)⁻¹ • vecMulVec r xh) i j * ((xh ⬝ᵥ xh)⁻¹ • vecMulVec r xh) i j
      = ∑ i, ∑ j, ((xh ⬝ᵥ xh)⁻¹ * (xh ⬝ᵥ xh)⁻¹) * ((r i * r i) * (xh j * xh j)) := by simp only [h1]
    _ = ((xh ⬝ᵥ xh)⁻¹ * (xh ⬝ᵥ xh)⁻¹) * ∑ i, ∑ j, (r i * r i) * (xh j * xh j) := by simp only [Finset.mul_sum]
    _ = (r ⬝ᵥ r) / (xh ⬝ᵥ xh) := by rw [h2]; field_simp

/-- **Factor then solve = the driver (LU).** -/
theorem C18_lu_solve (A L U P : Matrix n n K) (hP : IsUnit P.det) (hfac : P * A = L * U) (x y b : n → K)
    (h1 : L *ᵥ y = P *ᵥ b) (h2 : U *ᵥ x = y) : A *ᵥ x = b := by
  have h3 : P *ᵥ (A *ᵥ x) = P *ᵥ b := by rw [mulVec_mulVec, hfac, ← mulVec_mulVec, h2, h1]
  have h4 := congrArg (fun v => P⁻¹ *ᵥ v) h3
  simp only [mulVec_mulVec, ← Matrix.mul_assoc, Matrix.nonsing_inv_mul P hP, Matrix.one_mul, one_mulVec] at h4
  exact h4

/-- **Factor then solve = the driver (Cholesky).** -/
theorem C18_cholesky_solve (A L : Matrix n n K) (hfac : A = L * Lᵀ) (x y b : n → K) (h1 : L *ᵥ y = b) (h2 : Lᵀ *ᵥ x = y) : A *ᵥ x = b := by
  rw [hfac, ← mulVec_mulVec, h2, h1]

/-- **QR.** With `QᵀQ = 1` and `A = QR`: `AᵀA = RᵀR`, and the solution of `R x = Qᵀ b` satisfies the normal equations `Aᵀ(Ax − b) = 0`. -/
theorem C18_qr_normal_equations (A Q : Matrix m n K) (R : Matrix n n K) (hQ : Qᵀ * Q = 1) (hA : A = Q * R) (x : n → K) (b : m → K)
    (hx : R *ᵥ x = Qᵀ *ᵥ b) : Aᵀ * A = Rᵀ * R ∧ Aᵀ *ᵥ (A *ᵥ x - b) = 0 := by
  constructor
  · rw [hA, transpose_mul, Matrix.mul_assoc, ← Matrix.mul_assoc Qᵀ, hQ, Matrix.one_mul]
  · rw [mulVec_sub, hA, transpose_mul, mulVec_mulVec, Matrix.mul_assoc, ← Matrix.mul_assoc Qᵀ, hQ, Matrix.one_mul, ← mulVec_mulVec, hx,
      ← mulVec_mulVec, sub_self]

/-- **Eigendecomposition.** `A V = V diag(w)` and `V Vᵀ = 1` reconstruct `A = V diag(w) Vᵀ`. -/
theorem C18_eig_reconstruct (A V : Matrix n n K) (w : n → K) (hV : V * Vᵀ = 1) (hAV : A * V = V * diagonal w) : A = V * diagonal w * Vᵀ := by
  rw [← hAV, Matrix.mul_assoc, hV, Matrix.mul_one]

/-- **SVD.** `A = U diag(s) Vᵀ` with `UᵀU = 1`: `AᵀA = V diag(s)² Vᵀ`. -/
theorem C18_svd_gram (A : Matrix m n K) (U : Matrix m n K) (V : Matrix n n K) (s : n → K) (hU : Uᵀ * U = 1) (hA : A = U * diagonal s * Vᵀ) :
    Aᵀ * A = V * (diagonal s * diagonal s) * Vᵀ := by
  rw [hA]
  simp only [transpose_mul, transpose_transpose, diagonal_transpose]
  calc V * (diagonal s * Uᵀ) * (U * diagonal s * Vᵀ)
      = V * (diagonal s * (Uᵀ * U) * diagonal s) * Vᵀ := by simp only [Matrix.mul_assoc]
    _ = V * (diagonal s * diagonal s) * Vᵀ := by rw [hU, Matrix.mul_one]

/-! Non-vacuity of the checker: `[[2,0],[0,2]] · [1,1]ᵀ − [2,2]ᵀ` has Frobenius norm 0. -/
example : (MatCheck.eval [("A", ⟨2, 2, [[2, 0], [0, 2]]⟩), ("x", ⟨2, 1, [[1], [1]]⟩), ("b", ⟨2, 1, [[2], [2]]⟩)]
    (.sub (.mul (.var "A") (.var "x")) (.var "b"))).map MatCheck.fro2 = some 0 := by decide +kernel

end CvxVerif.C18
