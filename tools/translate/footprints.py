"""Hand-written specification (from the reference BLAS definitions): the memory footprint each BLAS routine needs in each of
its matrix arguments, as Lean propositions over the *final* integer arguments of the call (primed names) and the lengths of the
Python buffers.  VecFits len off n inc / MatFits len off m n ld are defined in Model/CWrap.lean.  Character flags are their
ASCII codes ('N' = 78, 'T' = 84, 'C' = 67, 'L' = 76, 'R' = 82, 'U' = 85)."""
V = "VecFits %s_len %s' %s %s'"
def vec(x, off, n, inc): return "VecFits %s_len %s' (%s) %s'" % (x, off, n, inc)
def mat(A, off, m, n, ld): return "MatFits %s_len %s' (%s) (%s) %s'" % (A, off, m, n, ld)
def N(flag, a, b): return "if %s' = 78 then %s else %s" % (flag, a, b)      # flag == 'N' ? a : b
def L(flag, a, b): return "if %s' = 76 then %s else %s" % (flag, a, b)      # side == 'L' ? a : b

FOOT = {
 'swap': [vec('x', 'ox', "n'", 'ix'), vec('y', 'oy', "n'", 'iy')],
 'copy': [vec('x', 'ox', "n'", 'ix'), vec('y', 'oy', "n'", 'iy')],
 'axpy': [vec('x', 'ox', "n'", 'ix'), vec('y', 'oy', "n'", 'iy')],
 'dot':  [vec('x', 'ox', "n'", 'ix'), vec('y', 'oy', "n'", 'iy')],
 'dotu': [vec('x', 'ox', "n'", 'ix'), vec('y', 'oy', "n'", 'iy')],
 'scal': [vec('x', 'ox', "n'", 'ix')], 'nrm2': [vec('x', 'ox', "n'", 'ix')], 'asum': [vec('x', 'ox', "n'", 'ix')],
 'iamax': [vec('x', 'ox', "n'", 'ix')],
 'gemv': [mat('A', 'oA', "m'", "n'", 'ldA'), vec('x', 'ox', N('trans', "n'", "m'"), 'ix'), vec('y', 'oy', N('trans', "m'", "n'"), 'iy')],
 # reference dgbmv returns at once when m <= 0 or n <= 0: the band array is touched only for m > 0
 'gbmv': [mat('A', 'oA', "if 0 < m' then kl' + ku' + 1 else 0", "n'", 'ldA'), vec('x', 'ox', N('trans', "n'", "m'"), 'ix'), vec('y', 'oy', N('trans', "m'", "n'"), 'iy')],
 'symv': [mat('A', 'oA', "n'", "n'", 'ldA'), vec('x', 'ox', "n'", 'ix'), vec('y', 'oy', "n'", 'iy')],
 'hemv': [mat('A', 'oA', "n'", "n'", 'ldA'), vec('x', 'ox', "n'", 'ix'), vec('y', 'oy', "n'", 'iy')],
 'sbmv': [mat('A', 'oA', "k' + 1", "n'", 'ldA'), vec('x', 'ox', "n'", 'ix'), vec('y', 'oy', "n'", 'iy')],
 'hbmv': [mat('A', 'oA', "k' + 1", "n'", 'ldA'), vec('x', 'ox', "n'", 'ix'), vec('y', 'oy', "n'", 'iy')],
 'trmv': [mat('A', 'oA', "n'", "n'", 'ldA'), vec('x', 'ox', "n'", 'ix')],
 'trsv': [mat('A', 'oA', "n'", "n'", 'ldA'), vec('x', 'ox', "n'", 'ix')],
 'tbmv': [mat('A', 'oA', "k' + 1", "n'", 'ldA'), vec('x', 'ox', "n'", 'ix')],
 'tbsv': [mat('A', 'oA', "k' + 1", "n'", 'ldA'), vec('x', 'ox', "n'", 'ix')],
 'ger':  [mat('A', 'oA', "m'", "n'", 'ldA'), vec('x', 'ox', "m'", 'ix'), vec('y', 'oy', "n'", 'iy')],
 'geru': [mat('A', 'oA', "m'", "n'", 'ldA'), vec('x', 'ox', "m'", 'ix'), vec('y', 'oy', "n'", 'iy')],
 'syr':  [mat('A', 'oA', "n'", "n'", 'ldA'), vec('x', 'ox', "n'", 'ix')],
 'her':  [mat('A', 'oA', "n'", "n'", 'ldA'), vec('x', 'ox', "n'", 'ix')],
 'syr2': [mat('A', 'oA', "n'", "n'", 'ldA'), vec('x', 'ox', "n'", 'ix'), vec('y', 'oy', "n'", 'iy')],
 'her2': [mat('A', 'oA', "n'", "n'", 'ldA'), vec('x', 'ox', "n'", 'ix'), vec('y', 'oy', "n'", 'iy')],
 'gemm': [mat('A', 'oA', N('transA', "m'", "k'"), N('transA', "k'", "m'"), 'ldA'),
          mat('B', 'oB', N('transB', "k'", "n'"), N('transB', "n'", "k'"), 'ldB'), mat('C', 'oC', "m'", "n'", 'ldC')],
 'symm': [mat('A', 'oA', L('side', "m'", "n'"), L('side', "m'", "n'"), 'ldA'), mat('B', 'oB', "m'", "n'", 'ldB'), mat('C', 'oC', "m'", "n'", 'ldC')],
 'hemm': [mat('A', 'oA', L('side', "m'", "n'"), L('side', "m'", "n'"), 'ldA'), mat('B', 'oB', "m'", "n'", 'ldB'), mat('C', 'oC', "m'", "n'", 'ldC')],
 'syrk': [mat('A', 'oA', N('trans', "n'", "k'"), N('trans', "k'", "n'"), 'ldA'), mat('C', 'oC', "n'", "n'", 'ldC')],
 'herk': [mat('A', 'oA', N('trans', "n'", "k'"), N('trans', "k'", "n'"), 'ldA'), mat('C', 'oC', "n'", "n'", 'ldC')],
 'syr2k': [mat('A', 'oA', N('trans', "n'", "k'"), N('trans', "k'", "n'"), 'ldA'), mat('B', 'oB', N('trans', "n'", "k'"), N('trans', "k'", "n'"), 'ldB'),
           mat('C', 'oC', "n'", "n'", 'ldC')],
 'her2k': [mat('A', 'oA', N('trans', "n'", "k'"), N('trans', "k'", "n'"), 'ldA'), mat('B', 'oB', N('trans', "n'", "k'"), N('trans', "k'", "n'"), 'ldB'),
           mat('C', 'oC', "n'", "n'", 'ldC')],
 'trmm': [mat('A', 'oA', L('side', "m'", "n'"), L('side', "m'", "n'"), 'ldA'), mat('B', 'oB', "m'", "n'", 'ldB')],
 'trsm': [mat('A', 'oA', L('side', "m'", "n'"), L('side', "m'", "n'"), 'ldA'), mat('B', 'oB', "m'", "n'", 'ldB')],
}
