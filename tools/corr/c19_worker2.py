"""worker of the C19 LAPACK / generic-product probes: executes wrapper calls given as JSON lines on stdin in the guard-page build.
A case is announced before it runs so that a crash of the interpreter can be attributed."""
import sys, json, gc
build = sys.argv[1]
sys.path.insert(0, build)
import cvxopt
from cvxopt import matrix, lapack, base, spmatrix, sparse

def mk(spec):
    if spec is None: return None
    tc, m, n = spec
    if tc == 'i': return matrix([(i % 3) + 1 for i in range(m * n)], (m, n), 'i')
    if tc == 'd':
        M = matrix([float((i * 7) % 5 - 2) for i in range(m * n)], (m, n), 'd')
    else:
        M = matrix([complex((i * 7) % 5 - 2, (i * 3) % 4 - 1) for i in range(m * n)], (m, n), 'z')
    for i in range(min(m, n)): M[i, i] += 9.0          # mostly nonsingular / positive diagonals
    return M

for line in sys.stdin:
    case = json.loads(line)
    print('START %d' % case['id']); sys.stdout.flush()
    try:
        kw = {}
        for name, v in case['args'].items():
            if 'mat' in v: kw[name] = mk(v['mat'])
            elif 'int' in v: kw[name] = v['int']
            elif 'chr' in v: kw[name] = v['chr']
            elif 'flt' in v: kw[name] = v['flt']
        mod = {'lapack': lapack, 'base': base}[case['kind']]
        getattr(mod, case['routine'])(**kw)
        # touch the results
        for v in kw.values():
            if hasattr(v, 'size'): list(v)
        kw = None; gc.collect()          # free the buffers now: the allocator verifies the canaries behind them
        print('RESULT %d ok' % case['id'])
    except Exception as e:
        kw = None; gc.collect()
        print('RESULT %d exc %s' % (case['id'], type(e).__name__))
    sys.stdout.flush()
