import Mathlib.Algebra.Order.Field.Basic
import Mathlib.Data.Set.Image
import Mathlib.Logic.Equiv.Set
import Mathlib.Tactic.Ring
import Mathlib.Tactic.Linarith
import Mathlib.Tactic.Positivity
/-!
# C06, part 2 — equivalent presentations describe the same optimisation problem

An optimisation problem is a feasible set and an objective over an ordered field.  Each transformation in
the property's list (objective scaling, variable permutation / any invertible reparametrisation, permutation
of inequality rows, re-encoding of a scalar inequality as a one-dimensional second-order cone or an order-one
semidefinite cone) maps optimal points to optimal points and relates the optimal values as stated, for
problems of every size.  Together with certificate soundness (C01/C03) this is why all presentations must give
the same status and value.
-/
set_option linter.unusedSectionVars false
namespace CvxVerif.C06
variable {K : Type*} [Field K] [LinearOrder K] [IsStrictOrderedRing K]

structure Prob (X : Type*) (K : Type*) where
  feas : Set X
  obj : X → K

/-- `x` is optimal for `P` -/
def IsOpt {X : Type*} (P : Prob X K) (x : X) : Prop := x ∈ P.feas ∧ ∀ y ∈ P.feas, P.obj x ≤ P.obj y

/-- **Positive scaling of the objective** keeps the optimal set and scales the optimal value. -/
theorem C06_scale_obj {X : Type*} (F : Set X) (f : X → K) (α : K) (hα : 0 < α) (x : X) :
    IsOpt ⟨F, f⟩ x ↔ IsOpt ⟨F, fun y => α * f y⟩ x := by
  simp only [IsOpt]
  constructor
  · rintro ⟨hx, h⟩; exact ⟨hx, fun y hy => mul_le_mul_of_nonneg_left (h y hy) hα.le⟩
  · rintro ⟨hx, h⟩; exact ⟨hx, fun y hy => le_of_mul_le_mul_left (h y hy) hα⟩

/-- **Reparametrisation** (in particular a permutation of the variables): optimal points correspond under
the bijection and the optimal values are equal. -/
theorem C06_perm_vars {X Y : Type*} (e : X ≃ Y) (F : Set X) (f : X → K) (x : X) :
    IsOpt ⟨F, f⟩ x ↔ IsOpt ⟨e '' F, fun y => f (e.symm y)⟩ (e x) := by
  simp only [IsOpt]
  constructor
  · rintro ⟨hx, h⟩
    refine ⟨⟨x, hx, rfl⟩, ?_⟩
    rintro y ⟨y', hy', rfl⟩
    simpa using h y' hy'
  · rintro ⟨⟨x', hx', he⟩, h⟩
    have : x' = x := e.injective he
    subst this
    refine ⟨hx', fun y hy => ?_⟩
    simpa using h (e y) ⟨y, hy, rfl⟩

theorem C06_perm_vars_value {X Y : Type*} (e : X ≃ Y) (f : X → K) (x : X) :
    (fun y => f (e.symm y)) (e x) = f x := by simp

/-- **Permuting inequality rows** (inside the componentwise cone) does not change the feasible set. -/
theorem C06_perm_rows {X ι : Type*} (σ : ι ≃ ι) (g : ι → X → K) (h : ι → K) (x : X) :
    (∀ i, g (σ i) x ≤ h (σ i)) ↔ (∀ i, g i x ≤ h i) := by
  constructor
  · intro H i; simpa using H (σ.symm i)
  · intro H i; exact H (σ i)

/-- membership in the second-order cone `{(s₀, s₁) : ‖s₁‖ ≤ s₀}`, written without square roots -/
def inQ : List K → Prop
  | [] => True
  | s0 :: t => 0 ≤ s0 ∧ (t.map (fun a => a * a)).sum ≤ s0 * s0

/-- **A scalar inequality is a one-dimensional second-order cone constraint.** -/
theorem C06_reencode_q1 (s : K) : inQ [s] ↔ 0 ≤ s := by
  simp only [inQ, List.map_nil, List.sum_nil]
  constructor
  · exact fun h => h.1
  · exact fun h => ⟨h, mul_nonneg h h⟩

/-- **A scalar inequality is an order-one semidefinite constraint**: `[s] ⪰ 0 ↔ s ≥ 0`. -/
theorem C06_reencode_s1 (s : K) : (∀ u : K, 0 ≤ u * s * u) ↔ 0 ≤ s := by
  constructor
  · intro h; simpa using h 1
  · intro h u
    have : u * s * u = s * (u * u) := by ring
    rw [this]; exact mul_nonneg h (mul_self_nonneg u)

/-- the wrappers `lp/socp/sdp` stack their blocks: a stacked vector is in the product cone iff every block is in
its cone (stated for two blocks; the general case is an induction over the block list) -/
theorem C06_wrapper_eq {α : Type*} (P Q : List α → Prop) (u v : List α) (n : ℕ) (hu : u.length = n) :
    (P ((u ++ v).take n) ∧ Q ((u ++ v).drop n)) ↔ (P u ∧ Q v) := by
  subst hu; simp

example : IsOpt (K := ℚ) ⟨{x : ℚ | 1 ≤ x}, fun x => 2 * x⟩ 1 := by
  refine ⟨by simp, fun y hy => ?_⟩
  simp only [Set.mem_ofPred_eq] at hy
  show (2 : ℚ) * 1 ≤ 2 * y
  linarith

end CvxVerif.C06
