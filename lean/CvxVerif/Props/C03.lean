import CvxVerif.Gen.Decide
import Mathlib.Tactic.Module
import Mathlib.Tactic.FieldSimp
import Mathlib.Tactic.Linarith
/-!
# C03 — 'optimal' from coneqp/qp satisfies the quadratic-program KKT conditions

Theorems about the generated statistics block and stopping test of `coneqp` (`Gen/Decide.lean`).
`E.P` is the product with the symmetric matrix stored in the lower triangle of `P` (what `fP`/`base.symv`
compute); that only the lower triangle is read is checked on the implementation (junk upper triangles in the
correspondence runs of C03/C06).
-/
namespace CvxVerif.C03
open CvxVerif.LAM CvxVerif.Gen.Decide

variable {K X Y Z : Type} [Field K] [LinearOrder K] [IsStrictOrderedRing K]
  [AddCommGroup X] [Module K X] [AddCommGroup Y] [Module K Y] [AddCommGroup Z] [Module K Z]

theorem C03_return_statuses :
    (coneqp.returns.map (fun r => (r.1.find? (·.1 == "status")).map (·.2))) =
      [some "'unknown'", some "'optimal'"] := by decide

/-- **Soundness of 'optimal' (cone QP).** If the stopping test takes the `'optimal'` return then the returned
`x, s, y, z` (not rescaled: there is no `τ`) satisfy `‖Px + Gᵀz + Aᵀy + q‖ ≤ feastol·resx0`,
`‖Ax − b‖ ≤ feastol·resy0`, `‖s + Gx − h‖ ≤ feastol·resz0` and the gap criterion. -/
theorem C03_optimal_sound (E : Env K X Y Z) (i : coneqp.In K X Y Z)
    (ABSTOL FEASTOL RELTOL : K) (MAXITERS iters : Nat)
    (hx0 : 0 < i.resx0) (hy0 : 0 < i.resy0) (hz0 : 0 < i.resz0) :
    let st := coneqp.stats E i
    coneqp.branch ABSTOL FEASTOL MAXITERS RELTOL st.dres i.gap st.pres st.relgap iters = coneqp.Branch.ret 1 →
    E.nX (E.P i.x + E.Gt i.z + E.At i.y + i.q) ≤ FEASTOL * i.resx0 ∧
    E.nY (E.A i.x - i.b) ≤ FEASTOL * i.resy0 ∧
    E.nZ (i.s + E.G i.x - i.h) ≤ FEASTOL * i.resz0 ∧
    (i.gap ≤ ABSTOL ∨ ∃ rg, st.relgap = some rg ∧ rg ≤ RELTOL) ∧ iters ≠ MAXITERS := by
  intro st hb
  have hne : iters ≠ MAXITERS := by
    intro h; subst h; simp [coneqp.branch] at hb
  have hc : (decide (st.pres ≤ FEASTOL) && decide (st.dres ≤ FEASTOL) &&
      (decide (i.gap ≤ ABSTOL) || (st.relgap.isSome && optCmp (fun a b => decide (a ≤ b)) st.relgap RELTOL))) = true := by
    have hne' : (iters == MAXITERS) = false := by simpa using hne
    simp only [coneqp.branch, hne', Bool.or_false, Bool.false_eq_true, if_false] at hb
    by_contra hcon
    simp only [hcon, if_false] at hb
    cases hb
  simp only [Bool.and_eq_true, Bool.or_eq_true, decide_eq_true_eq] at hc
  obtain ⟨⟨hpres, hdres⟩, hgap⟩ := hc
  have e1 : E.P i.x + E.Gt i.z + E.At i.y + i.q =
      (1:K) • E.Gt i.z + (1:K) • ((1:K) • E.At i.y + (1:K) • ((1:K) • E.P i.x + (1:K) • i.q)) := by module
  have e2 : E.A i.x - i.b = (1:K) • E.A i.x + (-(1:K)) • i.b := by module
  have e3 : i.s + E.G i.x - i.h = (1:K) • E.G i.x + (1:K) • (i.s + (-(1:K)) • i.h) := by module
  refine ⟨?_, ?_, ?_, ?_, hne⟩
  · rw [e1]
    have : st.dres = E.nX ((1:K) • E.Gt i.z + (1:K) • ((1:K) • E.At i.y + (1:K) • ((1:K) • E.P i.x + (1:K) • i.q))) / i.resx0 := rfl
    rw [this, div_le_iff₀ hx0] at hdres; exact hdres
  · rw [e2]
    have h1 : E.nY ((1:K) • E.A i.x + (-(1:K)) • i.b) / i.resy0 ≤ st.pres := by first | exact le_max_left _ _ | exact le_max_right _ _
    have h2 := le_trans h1 hpres
    rwa [div_le_iff₀ hy0] at h2
  · rw [e3]
    have h1 : E.nZ ((1:K) • E.G i.x + (1:K) • (i.s + (-(1:K)) • i.h)) / i.resz0 ≤ st.pres := by first | exact le_max_left _ _ | exact le_max_right _ _
    have h2 := le_trans h1 hpres
    rwa [div_le_iff₀ hz0] at h2
  · rcases hgap with h | ⟨h1, h2⟩
    · exact Or.inl h
    · right
      cases hrg : st.relgap with
      | none => rw [hrg] at h1; simp at h1
      | some rg => rw [hrg] at h2; exact ⟨rg, rfl, by simpa [optCmp] using h2⟩

/-- **Objective fields.** `primal objective = ½ xᵀPx + qᵀx` and
`dual objective = primal objective + yᵀ(Ax − b) + zᵀ(Gx − h)` (given the reported gap `sᵀz`). -/
theorem C03_fields_consistent (E : Env K X Y Z) (i : coneqp.In K X Y Z)
    (addX : ∀ x u v, E.dX x (u + v) = E.dX x u + E.dX x v) (smulX : ∀ (a : K) x u, E.dX x (a • u) = a * E.dX x u)
    (addZ : ∀ z u v, E.dZ z (u + v) = E.dZ z u + E.dZ z v) (smulZ : ∀ (a : K) z u, E.dZ z (a • u) = a * E.dZ z u)
    (hgap : i.gap = E.dZ i.z i.s) :
    let st := coneqp.stats E i
    st.pcost = (1 / 2) * E.dX i.x (E.P i.x) + E.dX i.x i.q ∧
    st.dcost = st.pcost + E.dY i.y (E.A i.x - i.b) + (E.dZ i.z (E.G i.x) - E.dZ i.z i.h) := by
  intro st
  have hp : st.pcost = (1 / 2) * (E.dX i.x ((1:K) • E.P i.x + (1:K) • i.q) + E.dX i.x i.q) := rfl
  have hp' : st.pcost = (1 / 2) * E.dX i.x (E.P i.x) + E.dX i.x i.q := by
    rw [hp, addX, smulX, smulX]; ring
  refine ⟨hp', ?_⟩
  have hd : st.dcost = st.pcost + E.dY i.y ((1:K) • E.A i.x + (-(1:K)) • i.b) +
      E.dZ i.z ((1:K) • E.G i.x + (1:K) • (i.s + (-(1:K)) • i.h)) - i.gap := rfl
  rw [hd, hgap]
  have e2 : (1:K) • E.A i.x + (-(1:K)) • i.b = E.A i.x - i.b := by module
  rw [e2, addZ, smulZ, smulZ, addZ, smulZ]; ring

theorem C03_result_map :
    (coneqp.returns[1]?).map (·.1) = some
      [("x", "x"), ("y", "y"), ("s", "s"), ("z", "z"), ("status", "'optimal'"), ("gap", "gap"),
       ("relative gap", "relgap"), ("primal objective", "pcost"), ("dual objective", "dcost"),
       ("primal infeasibility", "pres"), ("dual infeasibility", "dres"), ("primal slack", "-ts"),
       ("dual slack", "-tz"), ("iterations", "iters")] := by decide

/-- the residuals of `coneqp` are normalised by `max(1, ‖q‖)`, `max(1, ‖b‖)` and `max(1, ‖h‖)` with the cone norm of `h` -/
theorem C03_normalisers (E : Env K X Y Z) (q : X) (b : Y) (h : Z) :
    coneqp.resx0Def E q b h = max 1 (E.nX q) ∧ coneqp.resy0Def E q b h = max 1 (E.nY b) ∧ coneqp.resz0Def E q b h = max 1 (E.nZ h) :=
  ⟨rfl, rfl, rfl⟩

/-- no rescaling precedes the return: only the symmetrisation of the 's' blocks -/
theorem C03_epilogue_map :
    (coneqp.returns[1]?).map (·.2) = some [("symm", "s", "order m over dims['s'] from dims['l'] + sum(dims['q']) step m ** 2"), ("symm", "z", "order m over dims['s'] from dims['l'] + sum(dims['q']) step m ** 2")] := by decide

/-! ## The problem without inequality constraints (`if cdim == 0:`): one KKT solve, no iteration -/

def shortcutStatus (k : Nat) : Option String :=
  (coneqp.shortcut.returns[k]?).bind (fun r => (r.find? (·.1 == "status")).map (·.2))

theorem C03_shortcut_statuses :
    coneqp.shortcut.returns.map (fun r => (r.find? (·.1 == "status")).map (·.2)) = [some "'optimal'", some "'unknown'"] := by decide

/-- **Soundness of 'optimal' without inequalities.** Whatever the KKT solve produced as `x`, `y` (it is performed once, in floating
point, without refinement): if the block takes a `return` whose status is `'optimal'` then `‖Px + q + Aᵀy‖ ≤ feastol·resx0` and
`‖Ax − b‖ ≤ feastol·resy0` hold for the returned `x`, `y`. -/
theorem C03_shortcut_optimal_sound (E : Env K X Y Z) (i : coneqp.shortcut.In K X Y Z) (FEASTOL : K) (k : Nat)
    (hx0 : 0 < i.resx0) (hy0 : 0 < i.resy0) :
    let st := coneqp.shortcut.stats E i
    coneqp.shortcut.branch FEASTOL st.dres st.pres = coneqp.shortcut.Branch.ret k →
    shortcutStatus k = some "'optimal'" →
    E.nX (E.P i.x + i.q + E.At i.y) ≤ FEASTOL * i.resx0 ∧ E.nY (E.A i.x - i.b) ≤ FEASTOL * i.resy0 := by
  intro st hb hs
  by_cases hc : (decide (st.pres ≤ FEASTOL) && decide (st.dres ≤ FEASTOL)) = true
  · simp only [Bool.and_eq_true, decide_eq_true_eq] at hc
    obtain ⟨hpres, hdres⟩ := hc
    have e1 : E.P i.x + i.q + E.At i.y = (1:K) • E.At i.y + (1:K) • ((1:K) • E.P i.x + (1:K) • i.q) := by module
    have e2 : E.A i.x - i.b = (1:K) • E.A i.x + (-(1:K)) • i.b := by module
    have hd : st.dres = E.nX ((1:K) • E.At i.y + (1:K) • ((1:K) • E.P i.x + (1:K) • i.q)) / i.resx0 := rfl
    have hp : st.pres = E.nY ((1:K) • E.A i.x + (-(1:K)) • i.b) / i.resy0 := rfl
    rw [hd, div_le_iff₀ hx0] at hdres
    rw [hp, div_le_iff₀ hy0] at hpres
    exact ⟨by rw [e1]; exact hdres, by rw [e2]; exact hpres⟩
  · exfalso
    simp only [coneqp.shortcut.branch, hc, Bool.false_eq_true, if_false] at hb
    injection hb with hk
    subst hk
    revert hs; decide

/-- the fields of both returns: the solution of the KKT solve is returned unscaled, the reported infeasibilities are the residuals
the status was decided on, both objectives are `pcost` -/
theorem C03_shortcut_result_map :
    ∀ r ∈ coneqp.shortcut.returns,
      r.lookup "x" = some "x" ∧ r.lookup "y" = some "y" ∧ r.lookup "primal infeasibility" = some "pres" ∧
      r.lookup "dual infeasibility" = some "dres" ∧ r.lookup "primal objective" = some "pcost" ∧ r.lookup "dual objective" = some "pcost" := by
  decide

/-- `primal objective` of the shortcut is `½ xᵀPx + qᵀx` -/
theorem C03_shortcut_pcost (E : Env K X Y Z) (i : coneqp.shortcut.In K X Y Z)
    (addX : ∀ x u v, E.dX x (u + v) = E.dX x u + E.dX x v) (smulX : ∀ (a : K) x u, E.dX x (a • u) = a * E.dX x u) :
    (coneqp.shortcut.stats E i).pcost = (1 / 2) * E.dX i.x (E.P i.x) + E.dX i.x i.q := by
  have hp : (coneqp.shortcut.stats E i).pcost = (1 / 2) * (E.dX i.x ((1:K) • E.P i.x + (1:K) • i.q) + E.dX i.x i.q) := rfl
  rw [hp, addX, smulX, smulX]; ring

end CvxVerif.C03
