"""worker of the C19 harness: executes BLAS wrapper calls given as JSON lines on stdin; prints one line per case.
A case is announced before it runs so that a crash of the interpreter can be attributed."""
import sys, json
build = sys.argv[1]
sys.path.insert(0, build)
import cvxopt
from cvxopt import matrix, blas
def mk(spec):
    if spec is None: return None
    tc, m, n = spec
    return matrix([float(i % 7) for i in range(m * n)], (m, n), tc) if tc == 'd' else \
           matrix([complex(i % 5, i % 3) for i in range(m * n)], (m, n), tc) if tc == 'z' else matrix(list(range(m * n)), (m, n), 'i')
def kernel_case(case):
    """misc_solvers kernels: arguments of the documented lengths for `dims`, `mnl` (`short` names one argument that is built too short)"""
    from cvxopt import misc_solvers as ms, misc
    import random
    rng = random.Random(case['id'])
    dims, mnl, k = case['dims'], case['mnl'], case['kernel']
    N = mnl + dims['l'] + sum(dims['q']) + sum(m * m for m in dims['s'])
    Np = mnl + dims['l'] + sum(dims['q']) + sum(m * (m + 1) // 2 for m in dims['s'])
    Nd = mnl + dims['l'] + sum(dims['q']) + sum(dims['s'])
    short = case.get('short'); cut = case.get('cut', 1)
    def vec(name, n, ncols=1, lo=0.5):
        if short == name: n = max(0, n - cut)
        return matrix([lo + rng.random() for _ in range(n * ncols)], (n, ncols), 'd')
    def interior():
        v = matrix(0.0, (N, 1)); o = 0
        for i in range(mnl + dims['l']): v[i] = 1.0 + rng.random()
        o = mnl + dims['l']
        for m in dims['q']:
            v[o] = 3.0 + m
            for i in range(1, m): v[o + i] = rng.random() - 0.5
            o += m
        for m in dims['s']:
            for i in range(m): v[o + i * m + i] = 2.0 + m
            o += m * m
        return v
    if k == 'scale':
        lm = matrix(0.0, (Nd, 1)); W = misc.compute_scaling(interior(), interior(), lm, dims, mnl if mnl else None)
        ms.scale(vec('x', N, case.get('ncols', 1)), W, trans=case.get('trans', 'N'), inverse=case.get('inverse', 'N'))
    elif k == 'scale2': ms.scale2(vec('lmbda', Nd, lo=1.0), vec('x', N), dims, mnl, inverse=case.get('inverse', 'N'))
    elif k == 'pack':
        ox, oy = case.get('offsetx', 0), case.get('offsety', 0)
        ms.pack(vec('x', ox + N), vec('y', oy + Np), dims, mnl, offsetx=ox, offsety=oy)
    elif k == 'pack2': ms.pack2(vec('x', N), dims, mnl)
    elif k == 'unpack':
        ox, oy = case.get('offsetx', 0), case.get('offsety', 0)
        ms.unpack(vec('x', ox + Np), vec('y', oy + N), dims, mnl, offsetx=ox, offsety=oy)
    elif k == 'symm':
        n = case.get('n', 3); off = case.get('offset', 0)
        ms.symm(vec('x', off + n * n), n, off)
    elif k == 'sprod': ms.sprod(vec('x', N), vec('y', N if case.get('diag', 'N') == 'N' else Nd), dims, mnl, diag=case.get('diag', 'N'))
    elif k == 'sinv': ms.sinv(vec('x', N), vec('y', N, lo=2.0), dims, mnl)
    elif k == 'trisc':
        off = case.get('offset', 0); ms.trisc(vec('x', off + N - mnl), dims, off)
    elif k == 'triusc':
        off = case.get('offset', 0); ms.triusc(vec('x', off + N - mnl), dims, off)
    elif k == 'sdot': ms.sdot(vec('x', N), vec('y', N), dims, mnl)
    elif k == 'max_step':
        if case.get('sigma'):
            ms.max_step(vec('x', N), dims, mnl, vec('sigma', sum(dims['s'])))
        else: ms.max_step(vec('x', N), dims, mnl)
    else: raise KeyError(k)

def index_case(case):
    """indexing / indexed assignment on dense and sparse matrices with arbitrary index objects and right-hand sides of arbitrary shape"""
    from cvxopt import spmatrix, sparse
    def mkidx(sp):
        if isinstance(sp, int): return sp
        if sp[0] == 's': return slice(sp[1], sp[2], sp[3])
        if sp[0] == 'l': return list(sp[1])
        if sp[0] == 'm': return matrix(sp[1], (len(sp[1]), 1), 'i')
        raise KeyError(sp)
    def mkmat(spec):
        kind, tc, m, n = spec
        if kind == 'num': return 2.5 if tc == 'd' else (3 if tc == 'i' else (1 + 2j))
        M = mk((tc, m, n))
        return sparse(M) if kind == 'sparse' and tc != 'i' else M
    A = mkmat(case['A'])
    I = mkidx(case['I']); J = mkidx(case['J']) if case.get('J') is not None else None
    if case['op'] == 'get':
        r = A[I] if J is None else A[I, J]
        if hasattr(r, 'size'): len(r)
    else:
        V = mkmat(case['V'])
        if J is None: A[I] = V
        else: A[I, J] = V
        # touch the whole result: a corrupted structure would show here
        if hasattr(A, 'CCS'): list(A.V), list(A.I), list(A.J)
        else: list(A)

for line in sys.stdin:
    case = json.loads(line)
    print('START %d' % case['id']); sys.stdout.flush()
    if case.get('kind') == 'index':
        try:
            index_case(case); print('RESULT %d ok' % case['id'])
        except Exception as e:
            print('RESULT %d exc %s' % (case['id'], type(e).__name__))
        sys.stdout.flush(); continue
    if case.get('kind') == 'kernel':
        try:
            kernel_case(case); print('RESULT %d ok' % case['id'])
        except Exception as e:
            print('RESULT %d exc %s' % (case['id'], type(e).__name__))
        sys.stdout.flush(); continue
    try:
        kw = dict(case['kw'])
        for name, spec in zip(case['matnames'], case['mats']): kw[name] = mk(spec)
        getattr(blas, case['routine'])(**kw)
        print('RESULT %d ok' % case['id'])
    except Exception as e:
        print('RESULT %d exc %s' % (case['id'], type(e).__name__))
    sys.stdout.flush()
