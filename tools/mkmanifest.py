#!/usr/bin/env python3
"""Writes /verif/MANIFEST.json from the table below (kept in one place so it stays valid)."""
import json, os
V = os.path.dirname(os.path.dirname(os.path.abspath(__file__)))
ALL = ['C%02d' % i for i in range(1, 21)]
CHECKS = {
 'C13': dict(
   category='proof',
   text='Lean 4 theorems over a hand-written model of op bookkeeping: the invariant of op._variables holds after every finite '
        'history of add/del/objective/solve (induction over histories), variables() is exactly the variable set of the written '
        'problem, edits commute with the abstraction to (objective, inequalities, equalities), editing equals rebuilding. The model '
        'is tied to modeling.py by an exact correspondence check after every operation of generated histories, plus an independent '
        'oracle on the real class (accessor copies, solve of edited vs fresh op).',
   design_ref='DESIGN.md 5 C13',
   note='Trusted: Lean kernel (axioms propext, Classical.choice, Quot.sound), the correspondence harness and its generator, the '
        'abstraction of Python objects to identities. Solve equality is observed (LP solver is floating point), not proved.',
   technique='Lean 4 proof (invariant by induction + refinement) with model-vs-code correspondence'),
 'C09': dict(
   category='proof',
   text='The option handling of every entry point (the options= flow through wrappers, each options.get with its validation test '
        'and exception class, the main-loop range) is regenerated from the Python source into Lean on every run; theorems re-checked '
        'against it: per-call options override the global dictionary for all ten entry points, accepted configurations satisfy the '
        'documented constraints, the only exception is ValueError, the loop bound is maxiters, and (model level) results are independent '
        'of call history. The real entry points are run against the generated parsers and against purity/history/thread oracles.',
   design_ref='DESIGN.md 5 C09',
   note='Trusted: Lean kernel, translator py2lean.gen_options and the fixed semantics of its combinators (validated by running the '
        'generated parsers against the real code), byte-image purity oracle. Thread interleavings inside BLAS are observed only.',
   technique='Lean 4 proof over a model generated from source by a translator, plus correspondence and purity runs'),
 'C10': dict(
   category='proof',
   text='Every call site of the KKT factorisation and of a KKT solve in conelp, coneqp and cpl, its enclosing except-ArithmeticError '
        'handler and the control paths of that handler, and every raise statement of the nine entry points are regenerated from the '
        'source into a Lean table on every run. Theorems over that table (all sites, all solver states, all failure sequences): no '
        'failure escapes, start-up failures give the documented ValueError, later ones status unknown or a recovery (cpl), never '
        'optimal; every raise is TypeError/ValueError with all names bound. Every return inside the main loops is regenerated as well (tools/translate/py2lean_exits.py): '
        'each failure exit reports unknown and leaves with the rescalings, symmetrisation walks, slack definitions and fields of the MAXITERS exit of the same solver. Exhaustive fault injection over all KKT calls of the '
        'fault-free runs ties the table to the real solvers (site found through the live frame, outcome compared; slacks, gap and residuals of every unknown result recomputed from the returned vectors).',
   design_ref='DESIGN.md 5 C10',
   note='Trusted: Lean kernel, translator py2lean.gen_faults (AST walk; handler path enumeration) and Model/Faults.lean semantics, '
        'validated by the injection runs; the numerical state after a cpl restore is not modelled; backtracking into the domain is '
        'observed on domain-restricted F, not proved.',
   technique='Lean 4 proof (decide over a source-generated site table + induction over failure sequences) with fault-injection correspondence'),
 'C04': dict(
   category='proof',
   text='(T) The stopping test, the chain that assigns the relative gap, the two result dictionaries and the symmetrisation walk of cpl are regenerated from cvxprog.py into Lean on every '
        'run; theorems for all values of the statistics and tolerances: optimal is returned only when both residuals are within feastol and '
        'the absolute or defined relative gap is within tolerance and the iteration limit is not reached; the relative gap is gap/-pcost for pcost < 0, gap/dcost for dcost > 0, undefined otherwise; result keys come from the right '
        'slices; all s blocks of sl, zl are symmetrised with the correct offsets. (V) A Lean rational checker of the documented KKT conditions '
        'for convex quadratic F (f and Df re-evaluated exactly, normalisers recomputed from the documented starting point) judges what cpl and cp '
        'really return on planted QCQPs; its acceptance is proved to be exactly the documented list of conditions. Theorems for every convex F: the '
        'gap bounds the suboptimality at a Lagrangian minimiser; the x-part of an epigraph optimum minimises the original objective (cp). cp on '
        'a quadratic objective is compared with coneqp, gp with cp on the same log-sum-exp data, and restricted-domain F (None and (None, None) refusals) must end in dom F.',
   design_ref='DESIGN.md 5 C04',
   note='Trusted: Lean kernel, translator py2lean.gen_decide_nl, checker Model/CertCheckNL.lean (quadratic F only), float oracles for the log-barrier '
        'and log-sum-exp families, tolerance allowance (cp/gp: 10*feastol). The statistics block of cpl is tied by recomputation of every reported field, not translated.',
   technique='Lean 4 proof over a source-generated stopping test + proved-spec rational KKT checker applied to real solver outputs'),
 'C05': dict(
   category='proof',
   text='Lean 4 theorems, over any ordered field, vector spaces and cone pair with <s,z> >= 0 (every cone structure and size), that fix the '
        'true class of a planted instance from its witnesses: weak duality (LP and QP with PSD P), a primal feasible point excludes a Farkas '
        'certificate, a dual feasible point excludes an improving ray, a Farkas certificate excludes every feasible point (so optimal is never '
        'correct), a ray through a feasible point makes the objective unbounded and excludes dual feasibility. The harness plants instances, '
        'has every witness re-verified by the Lean rational checker, runs conelp, coneqp, lp/socp/sdp/qp wrappers and cpl (dense and sparse, '
        'default KKT solver) and requires the planted class, agreement of the objectives across paths and the planted weak-duality bounds; an '
        'unknown on a solvable instance is accepted only with recomputed residuals and gap <= 1e-4.',
   design_ref='DESIGN.md 5 C05',
   note='Trusted: Lean kernel, planted generator and the rational checker Model/CertCheck.lean, numeric comparison tolerances, translator py2lean_exits.py '
        '(every conelp exit that hands out the iterates rescales x, y, s, z by 1/tau: theorems over the regenerated table; unknown results are judged on residuals recomputed from the returned vectors). Termination '
        'within the iteration budget is observed, not proved. Known findings: exceptions escaping from coneqp/cpl on infeasible or unbounded '
        'inputs, the chol2 rank-deficient-G defect (shared with C06), cpl stalling on some plain LPs.',
   technique='Lean 4 proof (class of a planted instance from its witnesses) + planted-instance runs judged by a Lean rational checker'),
 'C06': dict(
   category='proof',
   text='(1) The kktsolver-name dispatch of conelp/coneqp/cpl/cp and the pass-through of the wrappers are regenerated from the source '
        'into Lean; theorem for every argument value (all strings): a name either selects an existing built-in factory with a compatible '
        'arity or is rejected with ValueError, never called as a user solver. (2) Lean theorems over ordered fields that each '
        'presentation map of the property (objective scaling, variable reparametrisation, row permutation, q1/s1 re-encoding, block '
        'stacking) preserves optimal points/values for problems of every size. The generated dispatch is compared with the real entry '
        'points exhaustively over a name list, and metamorphic pairs of planted problems are solved by the real code.',
   design_ref='DESIGN.md 5 C06',
   note='Trusted: Lean kernel, translator py2lean.gen_dispatch, harness. Agreement of two numerical solver paths to tolerance is '
        'observed, not proved (rounding). Two known findings (kkt_chol2 with rank-deficient G; rare ldl2 breakdowns) are listed.',
   technique='Lean 4 proof over a source-generated dispatch model + proved presentation lemmas, with metamorphic solver runs'),
 'C01': dict(
   category='proof',
   text='The statistics block, stopping test, return dictionaries and in-place rescalings of conelp are regenerated from coneprog.py into '
        'Lean on every run (every vector statement, over abstract vector spaces and an ordered field). Theorems re-checked against it: the '
        'optimal return implies the documented residual bounds and gap criterion for the *returned* (1/tau-rescaled) vectors; objective '
        'fields equal c.x and -h.z-b.y of the returned vectors; result-map and epilogue tables; maxiters exit; the starting-point shortcut; every block that moves a '
        'solver-completed starting point into the cone shifts by 1 + max_step of the vector it updates (regenerated by py2lean_exits.py). A Lean rational checker '
        '(cone membership proved sound: PSD by LDL witness, SOC, norms through squares) judges what conelp/lp/socp/sdp really return on '
        'planted problems in all listed presentations, on the caller data, exactly.',
   design_ref='DESIGN.md 5 C01',
   note='Trusted: Lean kernel, translator py2lean.gen_decide + LinAlgMachine semantics, the checker driver. Not proved: floating-point '
        'rounding (allowance feastol*(1+1e-6)+1e-13), the scaling invariant behind gap = s.z (observed, see C07), MOSEK branches.',
   technique='Lean 4 proof over a source-generated model of the termination block + proved-sound rational certificate checker on real outputs'),
 'C02': dict(
   category='proof',
   text='Theorems over the generated termination block of conelp: the primal-infeasible return implies h.z+b.y = -1 and the residual bound '
        'for the rescaled (y,z), the dual-infeasible return implies c.x = -1 and both residual bounds for the rescaled (x,s); result maps '
        'None the other half; Farkas lemma (a certificate excludes every feasible point) over any ordered field. Planted infeasible and '
        'unbounded problems run through conelp/lp/socp/sdp/op.solve and every infeasibility status is judged by the Lean checker.',
   design_ref='DESIGN.md 5 C02',
   note='Trusted as C01. Cone self-duality <s,z> >= 0 is a hypothesis of the Farkas theorem.',
   technique='Lean 4 proof over a source-generated model + rational certificate checker on real outputs'),
 'C03': dict(
   category='proof',
   text='Theorems over the generated statistics block and stopping test of coneqp: optimal implies the QP KKT residual bounds and gap '
        'criterion; objective fields are 1/2 x.Px+q.x and its Lagrangian form. The Lean checker (optimalOkQP, lower triangle of P only) '
        'judges what coneqp/qp return on planted QPs (rank-deficient P, no-inequality shortcut, initvals, operators, junk upper triangles).',
   design_ref='DESIGN.md 5 C03',
   note='Trusted as C01.',
   technique='Lean 4 proof over a source-generated model + rational certificate checker on real outputs'),
 'C15': dict(
   category='proof',
   text='Lean theorems about a reference column-major model of dense matrices: index normalisation (unbounded ints), slices stay in '
        'range and are exactly Python ranges, two-argument indexing gives shape |I|x|J| with entry (a,b)=A[I a,J b], assignment writes '
        'only addressed positions and read-after-write, type promotion is a join, in-place operators never change type or shape, size '
        'assignment keeps the buffer. The model is tied to dense.c by an op-sequence correspondence over a heap of aliased matrices '
        '(typecode, size, full contents, exception class, identity after every operation) and an exhaustive slice box against Python.',
   design_ref='DESIGN.md 5 C15',
   note='Trusted: Lean kernel, the hand-written model (validated by >100k compared operations per thorough run), harness. Out of the '
        'model: buffer-protocol constructors, elementwise functions, printing, integer overflow of i entries.',
   technique='Lean 4 proof over a hand-written reference model + op-sequence correspondence'),
 'C18': dict(
   category='proof',
   text='The numerical routines are the external LAPACK, so nothing about their code is proved. What is machine-checked is the meaning of the '
        'checks and the judge that applies them: Lean theorems (Mathlib matrices over any field, every size) that a small residual is a small '
        'backward error, that factor-then-solve (LU with pivoting, Cholesky) solves the same system as the driver, that QR gives the normal '
        'equations and eigen / SVD factors reconstruct the input; and an exact rational matrix-expression evaluator in Lean (products, '
        'transposes, triangles, Frobenius norms) that judges every result the wrappers return: ||AX-B|| <= 1e-9 ||A|| ||X|| for all drivers and '
        'factor/solve pairs (general, positive definite, symmetric, hermitian, triangular, band, tridiagonal; uplo/trans/diag options; arbitrary '
        'values in the unreferenced triangle; complex data through the real embedding), inverses, least squares, orthonormality and '
        'reconstruction for QR/LQ, eigenvalue routines, two SVD drivers and Schur; Python-side: driver == factor+solve, A unmodified without '
        'ipiv, sorted outputs, ArithmeticError on exactly singular / non-positive-definite input, TypeError/ValueError on inconsistent sizes and types; '
        'every wrapper called on plain matrices and on the same data embedded in larger buffers (offset / leading-dimension keywords) must give the same numbers. '
        'Over the argument checks regenerated from lapack.c (cwrap2lean.py): orgqr / ungqr / orglq / unglq skip the LAPACK call only for an empty result (theorems C18_*_quick_return); '
        'over the regenerated table of err_lapack statements (ccall2lean.py): every wrapper that passes &info reports any non-zero return code, negative as ValueError, positive as ArithmeticError.',
   design_ref='DESIGN.md 11.6',
   note='Level partial: the wrappers are judged through their results on generated inputs (orders 0..5); no model of the wrapper code exists '
        'beyond the regenerated argument checks and early returns (Gen/LapackWrap.lean). Trusted: Lean kernel, the harness (input construction, band-storage conversions), '
        'the fixed relative tolerance 1e-9.',
   technique='Lean 4 proof of the defining-equation algebra + exact rational result checker (Lean) applied to real LAPACK wrapper outputs'),
 'C19': dict(
   category='proof',
   text='The argument-checking prefix of all 34 wrappers of blas.c and all 60 wrappers of lapack.c is translated from the C source into Lean '
        'functions on every run; for each routine the theorem accept -> every array the routine touches is a matrix of the element type read, is '
        'present when the chosen job needs it, and contains the routine\'s footprint is re-proved for all integer arguments, flags, typecodes and '
        'buffer sizes (ideal arithmetic), against hand-written footprint specifications of the reference BLAS / LAPACK; every pointer the wrappers then hand to BLAS / LAPACK '
        '(398 arguments, regenerated table) is proved to be the matrix buffer plus that matrix\'s own offset; dense index paths are '
        'proved in range. The translated decisions are compared with the real wrappers (boundary boxes for BLAS, grammar-based calls built from the '
        'keyword lists in the source for LAPACK) in a crash-safe worker whose allocator puts a guard page after every buffer; the C-int evaluation '
        'of the same checks is searched for accepted tuples with a footprint outside the buffers, which are executed on the gcc -O2 build. '
        'misc_solvers kernels, dense/sparse indexing and assignment, and LAPACK calls embedded in sentinel-filled buffers are probed under the same allocator.',
   design_ref='DESIGN.md 5 C19',
   note='Trusted: Lean kernel, cwrap2lean (parser, emission), ccall2lean (regular-expression scan for pointer arguments), footprints.py, footprints_lapack.py, guard_alloc.h. The full-range statement in C int '
        'arithmetic is false: int overflow witnesses segfault 32 of 34 BLAS and 58 LAPACK wrappers (known findings, one per routine); the twelve '
        'misc_solvers kernels do not validate lengths (known findings). base.c products, sparse.c and misc_solvers.c are probed, not translated.',
   technique='Lean 4 proof over Lean functions translated from C + differential run against the real wrappers under guard pages + overflow witness search'),
 'C17': dict(
   category='proof',
   text='Lean reference semantics of 23 BLAS routines on strided / leading-dimension views (hand-written from the BLAS definitions) with '
        'frame theorems (only the addressed output view changes, buffers keep their length) for all sizes, offsets, increments and flags; '
        'documented defaults proved about the argument prefix generated from blas.c; over a table regenerated from blas.c, every wrapper calls the BLAS routine of its own name (or a listed alias) with the type prefix of its case label. The real wrappers are compared exactly (all arguments, '
        'integer/Gaussian data, d and z) with the reference semantics applied to the integers produced by the generated prefix.',
   design_ref='DESIGN.md 5 C17',
   note='Trusted: Lean kernel, Model/BlasSpec.lean (the specification), cwrap2lean, the external BLAS kernel on exact data. Routines '
        'without a reference model yet: gbmv sbmv hbmv syr2 her2 symm hemm herk syr2k her2k trsm (their argument logic is covered by C19). '
        'Known finding: k=0 skips leading-dimension checks.',
   technique='Lean 4 reference semantics + frame proofs + exact differential comparison through the source-generated argument prefix'),
 'C16': dict(
   category='proof',
   text='Lean theorems about a model of compressed-column storage (entries in storage order, insertion with accumulation): construction '
        'from any triplet list is valid and sums duplicates; addition and transposition preserve validity and equal the dense operation '
        'on the dense images; scalar multiplication keeps the pattern; the colptr/rowind/values arrays of every valid matrix satisfy the '
        'structural conditions (start 0, nondecreasing, ends at nnz, rows strictly increasing per column). The model is tied to sparse.c '
        'by comparing A.CCS after every operation of generated op sequences; every result is also compared with the dense operation on '
        'dense copies (incl. gemv, syrk, syrk(partial=True)).',
   design_ref='DESIGN.md 5 C16',
   note='Trusted: Lean kernel, hand-written model, harness. Not proved (correspondence and dense oracle only): sparse*sparse product, indexed '
        'assignment, slicing, V assignment, size change, complex matrices, gemm/symv with sparse operands.',
   technique='Lean 4 proof (invariant + refinement to the dense image) over a hand-written model + op-sequence correspondence'),
 'C11': dict(
   category='proof',
   text='Lean 4 theorems over a direct semantics of the documented expression language (Spec/Expr.lean: len with the broadcasting '
        'rule, component values, curvature class by the composition rules; operators + - unary- scalar and matrix multiplication, '
        'division, dot, sum, max, min, abs, indexing, slicing and the in-place forms). Proved for all expression trees, all variable '
        'lengths, all rational values and all weights in [0,1]: whatever the rules accept as convex / concave / affine / constant '
        'satisfies Jensen / the affine identity / is value-independent in every component (structural induction); value has exactly '
        'len entries; in-place forms never change the length; the required refusals. The semantics is tied to cvxopt.modeling by '
        'building generated trees with the real operators and comparing len, value (two assignments), acceptance vs refusal, plus '
        'mutation-based non-aliasing checks of every operator.',
   design_ref='DESIGN.md 5 C11',
   note='Trusted: Lean kernel, the correspondence harness and its generator (integer data, so doubles are exact). The internal '
        'coefficient representation (_lin._coeff and the _addterm case analysis) is not modelled: it is exercised through the trees. '
        'Ten genuine defects found by this check were repaired (fix: commits, see known_findings.json).',
   technique='Lean 4 proof (structural induction over expression trees) with spec-vs-code correspondence'),
 'C12': dict(
   category='proof',
   text='A reference translation of piecewise-linear problems into linear programs is defined in Lean (Spec/PWL.lean: flattening of every '
        'accepted expression component into a max/plus term, and the list of affine pieces of such a term) and proved exact for all '
        'expression trees, lengths and values: the flattened term equals the formula, a term is below u iff all pieces are, so the emitted '
        'program has the same feasible points and objective values as the problem that was written down; Lagrangian sufficiency and weak '
        'duality for the multiplier criterion. The Lean driver emits that program for generated problems; op.solve() (dense, sparse, glpk) is '
        'compared with it: status (either one accepted when a program is both primal and dual infeasible), optimal value, feasibility of the returned point in the original constraints, multiplier lengths and signs, '
        'dual function value of the returned multipliers and infeasibility certificates through the same reference translation, '
        'None-conventions. A corpus of minimised past failures runs first.',
   design_ref='DESIGN.md 5 C12',
   note='Trusted: Lean kernel, harness (generator, matrix assembly of emitted rows, GLPK as solver of the reference program, tolerance '
        '1e-5 relative, box of radius 100 for dual function values). The construction inside op._inmatrixform / _aslinearineq is not '
        'modelled: it is judged through its results. Genuine defects found and repaired: see known_findings.json.',
   technique='Lean 4 proof of a reference translation (structural induction) + comparison of op.solve with the emitted program'),
 'C14': dict(
   category='proof',
   text='Record-level Lean model of the MPS writer and reader (Model/Mps.lean: write = tofile on a flattened LP, read = the meaning the '
        'fixed format gives to N/L/G/E rows, RHS, RANGES and LO/UP/FX/FR/MI/PL bounds, in the order fromfile builds constraints, with its '
        'error cases). Theorems for every flattened LP with distinct column labels, distinct row labels and no row named cost: in the written '
        'file every column is declared in order, every (row, column) and objective coefficient and every right-hand side is found again by '
        'the reader, all bounds are free and create no constraints, rows have known types and there are no ranges; the range semantics per '
        'row type. Correspondence: records of real tofile output == write of the flattened LP; real fromfile on generated files == read '
        '(constraints in order, exception classes); real tofile->fromfile round trips compared by size, status and optimal value.',
   design_ref='DESIGN.md 5 C14',
   note='Trusted: Lean kernel, harness (cutting fixed-format lines at the standard columns, flattening and the label rule '
        'name[:7-len(str(i))]+_+str(i), %7.5E formatting). Character-level layout is checked by the tokenizer, not proved. Known finding: '
        'distinct names that share an 8-character label.',
   technique='Lean 4 proof (list induction over a record-level reader/writer model) with model-vs-code correspondence'),
 'C20': dict(
   category='proof',
   text='Lean theorems: the reduced state of a dense matrix rebuilds it (all shapes/typecodes); for every structurally valid sparse matrix the '
        'triplet state rebuilds exactly the same compressed-column structure, explicit zeros included (no duplicate is summed); strided '
        'buffer import puts item i*s0+j*s1 at entry (i,j) for any strides; the export counter equals the number of live views over any '
        'export/release history. The real implementation is run through pickle (all protocols), copy/deepcopy, constructor copies, +x, '
        'slicing, tofile/fromfile, memoryview export/aliasing and buffer import, with identity checks and the Lean import model.',
   design_ref='DESIGN.md 5 C20',
   note='Trusted: Lean kernel, models of Model/Serial.lean (tied by the harness), C16 sparse model. Strided 2-D sources beyond what the '
        'standard library exports (NumPy absent) are covered by the theorem but not exercised on the implementation.',
   technique='Lean 4 proof (round-trip laws, induction over export histories) + round-trip/differential runs on the implementation'),
 'C08': dict(
   category='proof',
   text='Lean theorems over the rationals, for every block dimension: scale(inverse) undoes scale on second-order-cone blocks (hyperbolic '
        'Householder identity) and on the componentwise part; sinv undoes sprod on q blocks; ssqr is sprod with itself; triusc after trisc '
        'restores the lower triangle of an s block; symm symmetrises and keeps the lower triangle; the s-block inner product is symmetric; '
        'packed storage: what pack stores, unpack after pack restores the lower triangle, pack is an isometry when r*r = 2. '
        'The model (transcribed from the Python reference kernels) is compared exactly, on dyadic data, with BOTH implementations -- the '
        'compiled misc_solvers and the pure-Python fall-backs obtained from the current misc.py -- for sdot, symm, trisc, triusc, scale (all '
        'flag combinations, multi-column) and sprod; pack / unpack against the Lean model (evaluated at r = 0 and 1, combined with the float sqrt 2); '
        'inverse/adjoint/isometry identities and max_step with s blocks (boundary, eigen-decomposition) are run on both.',
   design_ref='DESIGN.md 5 C08',
   note='Trusted: Lean kernel, hand-written model Model/Kernels.lean, harness. scale2, sinv on s blocks, max_step and the '
        's-block part of scale are checked through identities / exact comparison only, not proved; sqrt 2 enters pack/unpack as a float.',
   technique='Lean 4 proof (algebraic identities by induction over block length) + exact two-implementation correspondence'),
 'C07': dict(
   category='proof',
   text='Lean theorems (all dimensions): the componentwise scaling of compute_scaling satisfies d>0, d*di=1, d*z = s/d = lambda (over the reals '
        'with Real.sqrt); the coded inverse of a q-block scaling is its inverse; block elimination of the documented 3x3 KKT system is sound; '
        'the kernel of G^T D G does not depend on the positive diagonal D (so the singular flag kkt_chol2 fixes at its first call is valid for '
        'every later scaling on the same factory); solutions of a nonsingular system are unique (all five solvers must agree). The real '
        'factories are checked against the documented block system (residual, mutual agreement, factor/solve histories on one factory), and '
        'every W from compute_scaling and every W handed to a user kktsolver during conelp/coneqp solves is checked for the invariants.',
   design_ref='DESIGN.md 5 C07',
   note='Trusted: Lean kernel; LAPACK/CHOLMOD factorisations are contracts checked numerically (relative 1e-7/1e-9), not verified; the q- and '
        's-block formulas of compute_scaling/update_scaling are validated numerically only; the mnl variants (cpl) are exercised through C04.',
   technique='Lean 4 proof of the linear-algebra contract + numerical residual/invariant checking of the real factories'),
}
REASONS = {}
def main():
    checks = []
    for p in ALL:
        if p not in CHECKS: continue
        c = CHECKS[p]
        checks.append({
            'property_id': p,
            'quick_cmd': './check %s --tier quick' % p,
            'thorough_cmd': './check %s --tier thorough' % p,
            'evidence_file': 'evidence/%s.json' % p,
            'replay_cmd_template': './check %s --replay {path}' % p,
            'engine': 'lean4-proof+correspondence',
            'level_claimed': {'category': c['category'], 'text': c['text'], 'design_ref': c['design_ref']},
            'level_note': c['note'],
            'technique': c['technique']})
    m = {
     'version': 1,
     'setup_cmd': './setup.sh',
     'hooks': {'guard': 'CVXOPT_VERIF', 'enable': 'environment variable CVXOPT_VERIF=1 (set by ./check); the checks rebuild /repo '
               'into a scratch directory with tools/buildrepo.py', 'baseline_off_cmd': './tools/baseline_off.sh',
               'source_commits': [], 'add_only': True},
     'engines': [{'name': 'lean4-proof+correspondence', 'path': 'check',
                  'serves_properties': [c['property_id'] for c in checks],
                  'kind_free_text': 'Lean 4 theorems about executable models (lean/CvxVerif), models tied to /repo on every run by '
                                    'translators (tools/translate) and/or line-protocol correspondence checks (tools/corr) against '
                                    'the rebuilt working tree'}],
     'checks': checks,
     'not_applicable': [{'property_id': p, 'reason': REASONS.get(p, 'no check registered yet (work in progress; see DESIGN.md section 5 for the plan)')}
                        for p in ALL if p not in CHECKS],
     'notes': 'See DESIGN.md. Exit codes: 0 held, 1 violation (VIOLATION line), 2 timeout/infrastructure.'}
    json.dump(m, open(os.path.join(V, 'MANIFEST.json'), 'w'), indent=1)
if __name__ == '__main__':
    main()
