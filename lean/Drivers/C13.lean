import CvxVerif.Model.OpState
import CvxVerif.Model.Proto
open CvxVerif CvxVerif.OpState CvxVerif.Proto

structure DS where
  cv : List (Nat × Bool × List Nat) := []   -- constraint pool
  st : St := OpState.empty

def DS.pool (d : DS) : Pool :=
  { cvars := fun c => match d.cv.find? (·.1 == c) with | some x => x.2.2 | none => [],
    isIneq := fun c => match d.cv.find? (·.1 == c) with | some x => x.2.1 | none => true }

def showSt (s : St) : String :=
  let ents := s.keys.map (fun v => let e := s.ent v
    s!"{v}:{if e.o then 1 else 0}:{showNats e.i}:{showNats e.e}")
  s!"keys={showNats s.keys} ineqs={showNats s.ineqs} eqs={showNats s.eqs} ent={" ".intercalate ents}"

def stepLine (d : DS) (line : String) : DS × String :=
  match words line with
  | ["reset"] => ({}, "ok")
  | ["c", cid, isI, vs] =>
    match cid.toNat?, natList? vs with
    | some c, some l => ({ d with cv := (c, isI == "1", l) :: d.cv }, "ok")
    | _, _ => (d, "bad-op")
  | ["init", vs, cs] =>
    match natList? vs, natList? cs with
    | some v, some c => let s := init d.pool v c; ({ d with st := s }, showSt s)
    | _, _ => (d, "bad-op")
  | ["add", c] =>
    match c.toNat? with
    | some c => let s := step d.pool d.st (.add c); ({ d with st := s }, showSt s)
    | none => (d, "bad-op")
  | ["del", c] =>
    match c.toNat? with
    | some c =>
      let e := delErr d.pool d.st c
      let s := step d.pool d.st (.del c); ({ d with st := s }, (if e then "INTERNAL-ERROR " else "") ++ showSt s)
    | none => (d, "bad-op")
  | ["obj", vs] =>
    match natList? vs with
    | some v => let s := step d.pool d.st (.setObj v); ({ d with st := s }, showSt s)
    | none => (d, "bad-op")
  | ["solve"] => (d, showSt d.st)
  | _ => (d, "bad-op")

def main : IO Unit := loop stepLine {}
