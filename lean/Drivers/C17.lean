import CvxVerif.Gen.BlasDriver
import CvxVerif.Model.BlasSpec
import CvxVerif.Model.Proto
open CvxVerif CvxVerif.CWrap CvxVerif.Gen.Blas CvxVerif.Proto CvxVerif.Dense CvxVerif.BlasSpec

def parseNum (s : String) : Option Num :=
  match s.splitOn ":" with
  | [a] => (parseRat a).map fun r => ⟨r, 0⟩
  | [a, b] => match parseRat a, parseRat b with
    | some r, some i => some ⟨r, i⟩
    | _, _ => none
  | _ => none
def showNum (v : Num) : String := if v.im == 0 then showRat v.re else s!"{showRat v.re}:{showRat v.im}"
def showBuf (b : Buf) : String := if b.isEmpty then "-" else ",".intercalate (b.map showNum)
def parseBuf (s : String) : Option Buf := if s == "-" then some [] else (s.splitOn ",").mapM parseNum

/-- `op <routine> k=v ... bx=.. by=.. bA=.. bB=.. bC=.. alpha=.. beta=..` -/
def stepLine (u : Unit) (line : String) : Unit × String :=
  match words line with
  | "op" :: name :: kvs =>
    let get := fun (k : String) => (kvs.find? (fun w => w.startsWith (k ++ "="))).map fun w => (w.drop (k.length + 1)).toString
    let tbl : List (String × Int) := kvs.filterMap fun kv =>
      match kv.splitOn "=" with
      | [k, v] => v.toInt?.map fun n => (k, n)
      | _ => none
    let kv := fun k => match tbl.find? (·.1 == k) with | some p => p.2 | none => 0
    let kb := fun k => kv k != 0
    let buf := fun k => ((get k).bind parseBuf).getD []
    let x := buf "bx"; let y := buf "by"; let A := buf "bA"; let B := buf "bB"; let C := buf "bC"
    let alpha := ((get "alpha").bind parseNum).getD one
    let beta := ((get "beta").bind parseNum).getD zero
    match runBlas name kv kb with
    | none => (u, "no-routine")
    | some (.reject c) => (u, "reject " ++ c)
    | some oc =>
      -- `.call vals`: the reference operation on the values the checks pass on.  `.none` (early return, "nothing to do"): the reference
      -- operation on the values as given (leading dimensions defaulted) - an early return is only right where that operation is the identity
      let isNone := match oc with | .none => true | _ => false
      let vals := match oc with | .call v => v | _ => []
      let dflt := fun (k : String) =>
        if k.startsWith "ld" && kv k == 0 then max 1 (kv ((k.drop 2).toString ++ "_nrows")) else kv k
      let f := fun (k : String) =>
        if isNone then dflt k
        else match ((callNames name).zip vals).find? (·.1 == k) with | some p => p.2 | none => 0
      let nn := fun (k : String) => (f k).toNat
      let out := fun (x y A B C : Buf) (v : String) => s!"ok x={showBuf x} y={showBuf y} A={showBuf A} B={showBuf B} C={showBuf C}{v}"
      let r : String :=
        if name == "swap" then let p := swap x y (nn "n") (f "ox") (f "ix") (f "oy") (f "iy"); out p.1 p.2 A B C ""
        else if name == "scal" then out (scal alpha x (nn "n") (f "ox") (f "ix")) y A B C ""
        else if name == "copy" then out x (copy x y (nn "n") (f "ox") (f "ix") (f "oy") (f "iy")) A B C ""
        else if name == "axpy" then out x (axpy alpha x y (nn "n") (f "ox") (f "ix") (f "oy") (f "iy")) A B C ""
        else if name == "dot" then out x y A B C (" val=" ++ showNum (dot x y (nn "n") (f "ox") (f "ix") (f "oy") (f "iy")))
        else if name == "dotu" then out x y A B C (" val=" ++ showNum (dotu x y (nn "n") (f "ox") (f "ix") (f "oy") (f "iy")))
        else if name == "asum" then out x y A B C (" val=" ++ showRat (asum x (nn "n") (f "ox") (f "ix")))
        else if name == "nrm2" then out x y A B C (" val2=" ++ showRat (nrm2sq x (nn "n") (f "ox") (f "ix")))
        else if name == "iamax" then out x y A B C (s!" val={iamax x (nn "n") (f "ox") (f "ix")}")
        else if name == "gemv" then out x (gemv alpha beta A x y (f "trans") (nn "m") (nn "n") (f "oA") (f "ldA") (f "ox") (f "ix") (f "oy") (f "iy")) A B C ""
        else if name == "symv" then out x (symv false alpha beta A x y (f "uplo") (nn "n") (f "oA") (f "ldA") (f "ox") (f "ix") (f "oy") (f "iy")) A B C ""
        else if name == "hemv" then out x (symv true alpha beta A x y (f "uplo") (nn "n") (f "oA") (f "ldA") (f "ox") (f "ix") (f "oy") (f "iy")) A B C ""
        else if name == "ger" then out x y (ger true alpha x y A (nn "m") (nn "n") (f "ox") (f "ix") (f "oy") (f "iy") (f "oA") (f "ldA")) B C ""
        else if name == "geru" then out x y (ger false alpha x y A (nn "m") (nn "n") (f "ox") (f "ix") (f "oy") (f "iy") (f "oA") (f "ldA")) B C ""
        else if name == "syr" then out x y (syr false alpha x A (f "uplo") (nn "n") (f "ox") (f "ix") (f "oA") (f "ldA")) B C ""
        else if name == "her" then out x y (syr true alpha x A (f "uplo") (nn "n") (f "ox") (f "ix") (f "oA") (f "ldA")) B C ""
        else if name == "trmv" then out (trmv A x (f "uplo") (f "trans") (f "diag") (nn "n") (f "oA") (f "ldA") (f "ox") (f "ix")) y A B C ""
        else if name == "tbmv" then out (tbmv A x (f "uplo") (f "trans") (f "diag") (nn "n") (nn "k") (f "oA") (f "ldA") (f "ox") (f "ix")) y A B C ""
        else if name == "trsv" then out (trsv A x (f "uplo") (f "trans") (f "diag") (nn "n") (f "oA") (f "ldA") (f "ox") (f "ix")) y A B C ""
        else if name == "tbsv" then out (tbsv A x (f "uplo") (f "trans") (f "diag") (nn "n") (nn "k") (f "oA") (f "ldA") (f "ox") (f "ix")) y A B C ""
        else if name == "gemm" then out x y A B (gemm alpha beta A B C (f "transA") (f "transB") (nn "m") (nn "n") (nn "k") (f "oA") (f "ldA") (f "oB") (f "ldB") (f "oC") (f "ldC")) ""
        else if name == "syrk" then out x y A B (syrk alpha beta A C (f "uplo") (f "trans") (nn "n") (nn "k") (f "oA") (f "ldA") (f "oC") (f "ldC")) ""
        else if name == "trmm" then out x y A (trmm alpha A B (f "side") (f "uplo") (f "transA") (f "diag") (nn "m") (nn "n") (f "oA") (f "ldA") (f "oB") (f "ldB")) C ""
        else if name == "gbmv" then out x (gbmv alpha beta A x y (f "trans") (nn "m") (nn "n") (nn "kl") (nn "ku") (f "oA") (f "ldA") (f "ox") (f "ix") (f "oy") (f "iy")) A B C ""
        else if name == "sbmv" then out x (sbmv false alpha beta A x y (f "uplo") (nn "n") (nn "k") (f "oA") (f "ldA") (f "ox") (f "ix") (f "oy") (f "iy")) A B C ""
        else if name == "hbmv" then out x (sbmv true alpha beta A x y (f "uplo") (nn "n") (nn "k") (f "oA") (f "ldA") (f "ox") (f "ix") (f "oy") (f "iy")) A B C ""
        else if name == "syr2" then out x y (syr2 false alpha x y A (f "uplo") (nn "n") (f "ox") (f "ix") (f "oy") (f "iy") (f "oA") (f "ldA")) B C ""
        else if name == "her2" then out x y (syr2 true alpha x y A (f "uplo") (nn "n") (f "ox") (f "ix") (f "oy") (f "iy") (f "oA") (f "ldA")) B C ""
        else if name == "symm" then out x y A B (symm false alpha beta A B C (f "side") (f "uplo") (nn "m") (nn "n") (f "oA") (f "ldA") (f "oB") (f "ldB") (f "oC") (f "ldC")) ""
        else if name == "hemm" then out x y A B (symm true alpha beta A B C (f "side") (f "uplo") (nn "m") (nn "n") (f "oA") (f "ldA") (f "oB") (f "ldB") (f "oC") (f "ldC")) ""
        else if name == "herk" then out x y A B (herk alpha beta A C (f "uplo") (f "trans") (nn "n") (nn "k") (f "oA") (f "ldA") (f "oC") (f "ldC")) ""
        else if name == "syr2k" then out x y A B (syr2k false alpha beta A B C (f "uplo") (f "trans") (nn "n") (nn "k") (f "oA") (f "ldA") (f "oB") (f "ldB") (f "oC") (f "ldC")) ""
        else if name == "her2k" then out x y A B (syr2k true alpha beta A B C (f "uplo") (f "trans") (nn "n") (nn "k") (f "oA") (f "ldA") (f "oB") (f "ldB") (f "oC") (f "ldC")) ""
        else if name == "trsm" then out x y A (trsm alpha A B (f "side") (f "uplo") (f "transA") (f "diag") (nn "m") (nn "n") (f "oA") (f "ldA") (f "oB") (f "ldB")) C ""
        else "no-spec"
      (u, r)
  | _ => (u, "bad-op")

def main : IO Unit := loop stepLine ()
