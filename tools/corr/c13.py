"""C13 correspondence: random edit histories on the real cvxopt.modeling.op vs the Lean model
(lean/CvxVerif/Model/OpState.lean through Drivers/C13.lean) and vs the property oracle."""
import random, itertools, json, os, sys, io, contextlib
import vlib

LEAN_TARGETS = ['CvxVerif.Props.C13']
MODEL_FILES = ['CvxVerif.Model.OpState', 'CvxVerif.Proofs.OpState', 'CvxVerif.Proofs.OpStateInv']
LEVEL = 'proof'
TRUSTED = ['hand-written model lean/CvxVerif/Model/OpState.lean of op.__init__/__setattr__/addconstraint/delconstraint '
           '(tied by this correspondence check, exact comparison of _variables, _inequalities, _equalities after every op)']
ASSUMPTIONS = ['variables and constraints are compared by identity (variable.__hash__ = id, constraint has no __eq__)',
               'c.variables() / f.variables() list no variable twice (checked on every generated object)',
               'the solve comparison assumes the default LP solver answers deterministically on identical data']

def make_pool(M):
    """4 variables, 8 constraints (shared variables, multi-variable, one constants-only), objectives"""
    variable, _function, mx, sm = M.variable, M._function, M.max, M.sum
    V = [variable(1, 'v0'), variable(2, 'v1'), variable(1, 'v2'), variable(3, 'v3')]
    x, y, z, w = V
    C = [x + y <= 3,                 # 0: ineq, 2 vars
         sm(y) == 0,                 # 1: eq, 1 var
         z <= 1,                     # 2: ineq, 1 var
         x - z + sm(w) == 0,         # 3: eq, 3 vars
         mx(w, 0) - 2 <= x,          # 4: pwl ineq, 2 vars (w, x)
         _function() + 1.0 <= 2,     # 5: ineq without variables
         w[0] + y[1] == 0,           # 6: eq 2 vars
         abs(z) + abs(x) <= 5]       # 7: pwl ineq 2 vars
    # objectives: (function, bounded_below)
    O = [(sm(abs(y)) + mx(x, 0), True), (abs(z), True), (sm(abs(w)) + abs(x) + abs(z), True),
         (_function() + 2.0, True), (x + z, False), (mx(abs(w)) + sm(abs(y)), True), (+x, False), (7.0, True)]
    return V, C, O

def vid(V, v):
    for i, u in enumerate(V):
        if u is v: return i
    raise KeyError('unknown variable')
def cid(C, c):
    for i, u in enumerate(C):
        if u is c: return i
    raise KeyError('unknown constraint')

def ovars(M, V, o):
    f = o if hasattr(o, 'variables') else (M._function() + o)
    return [vid(V, v) for v in f.variables()]

def fmt(l): return ','.join(map(str, l)) if l else '-'

def observe(V, C, p):
    keys = [vid(V, v) for v in p._variables.keys()]
    ents = ['%d:%d:%s:%s' % (vid(V, v), 1 if e['o'] else 0, fmt([cid(C, c) for c in e['i']]),
                             fmt([cid(C, c) for c in e['e']])) for v, e in p._variables.items()]
    return 'keys=%s ineqs=%s eqs=%s ent=%s' % (fmt(keys), fmt([cid(C, c) for c in p._inequalities]),
                                               fmt([cid(C, c) for c in p._equalities]), ' '.join(ents))

def gen_history(rng, nC, nO, maxlen):
    k = rng.randint(0, 4)
    init_cs = [rng.randrange(nC) for _ in range(k)]
    ops = [('init', rng.randrange(nO), init_cs)]
    for _ in range(rng.randint(1, maxlen)):
        r = rng.random()
        if r < 0.35: ops.append(('add', rng.randrange(nC)))
        elif r < 0.70: ops.append(('del', rng.randrange(nC)))
        elif r < 0.90: ops.append(('obj', rng.randrange(nO)))
        else: ops.append(('solve',))
    return ops

class Exec:
    """runs a history on the real op class; returns protocol lines, observed lines, oracle failures"""
    def __init__(self, M): self.M = M; self.inconclusive = 0; self.solves = 0
    def run(self, hist, do_solve=True):
        M = self.M
        V, C, O = make_pool(M)
        lines = ['reset']
        for i, c in enumerate(C):
            cv = [vid(V, v) for v in c.variables()]
            assert len(set(cv)) == len(cv)
            lines.append('c %d %d %s' % (i, 1 if c.type() == '<' else 0, fmt(cv)))
        obs = ['ok'] * len(lines)
        fails = []
        p = None
        spec = None   # (obj index, ineq ids, eq ids)
        for step, o in enumerate(hist):
            try:
                if o[0] == 'init':
                    p = M.op(O[o[1]][0], [C[i] for i in o[2]])
                    spec = [o[1], [i for i in o[2] if C[i].type() == '<'], [i for i in o[2] if C[i].type() != '<']]
                    lines.append('init %s %s' % (fmt(ovars(M, V, O[o[1]][0])), fmt(o[2])))
                elif o[0] == 'add':
                    p.addconstraint(C[o[1]])
                    spec[1 if C[o[1]].type() == '<' else 2].append(o[1])
                    lines.append('add %d' % o[1])
                elif o[0] == 'del':
                    p.delconstraint(C[o[1]])
                    l = spec[1 if C[o[1]].type() == '<' else 2]
                    if o[1] in l: l.remove(o[1])
                    lines.append('del %d' % o[1])
                elif o[0] == 'obj':
                    p.objective = O[o[1]][0]
                    spec[0] = o[1]
                    lines.append('obj %s' % fmt(ovars(M, V, O[o[1]][0])))
                elif o[0] == 'solve':
                    lines.append('solve')
                    if do_solve and O[spec[0]][1]:
                        def outcome(pr):
                            try:
                                with contextlib.redirect_stdout(io.StringIO()):
                                    pr.solve()
                                v = pr.objective.value()
                                return (pr.status, None if v is None else round(v[0], 5))
                            except Exception as e:
                                return ('exception', type(e).__name__)
                        r1 = outcome(p); self.solves += 1
                        q = M.op(O[spec[0]][0], [C[i] for i in spec[1] + spec[2]])
                        r2 = outcome(q)
                        same = r1[0] == r2[0] and (r1[1] == r2[1] or (isinstance(r1[1], float) and isinstance(r2[1], float)
                                                   and abs(r1[1] - r2[1]) <= 1e-4 * (1 + abs(r2[1]))))
                        # problems violating the documented rank assumptions (ValueError 'Rank(A) < p or ...') or
                        # ending 'unknown' are outside the solver contract: inconclusive, not compared
                        incon = {('exception', 'ValueError')}
                        if r1 in incon or r2 in incon or r1[0] == 'unknown' or r2[0] == 'unknown':
                            self.inconclusive += 1
                        elif not same:
                            fails.append((step, 'solve of edited op gives %s, fresh op gives %s' % (r1, r2)))
            except Exception as e:
                fails.append((step, 'op %r raised %s: %s' % (o, type(e).__name__, e)))
                obs.append('EXC ' + type(e).__name__)
                break
            obs.append(observe(V, C, p))
            # property oracle, independent of the model
            want = set(ovars(M, V, p.objective))
            for i in spec[1] + spec[2]:
                want |= set(vid(V, v) for v in C[i].variables())
            got = [vid(V, v) for v in p.variables()]
            if set(got) != want or len(got) != len(set(got)):
                fails.append((step, 'variables() = %s but objective and constraints use %s' % (sorted(got), sorted(want))))
            if [cid(C, c) for c in p.inequalities()] != spec[1] or [cid(C, c) for c in p.equalities()] != spec[2] \
               or [cid(C, c) for c in p.constraints()] != spec[1] + spec[2]:
                fails.append((step, 'constraint lists differ from the written problem'))
            for acc in (p.variables, p.inequalities, p.equalities, p.constraints):
                l = acc(); n = len(l); l.append(None)
                if len(acc()) != n: fails.append((step, '%s() does not return a copy' % acc.__name__))
        return lines, obs, fails

def hist_json(h): return [list(o) for o in h]

def run_histories(ctx, ex, hists, do_solve_every=5):
    """returns (n_ops, n_disagree) and records violations on ctx"""
    all_lines, all_obs, idx = [], [], []
    nontriv = set()
    for hi, h in enumerate(hists):
        ds = (hi % do_solve_every == 0)
        lines, obs, fails = ex.run(h, do_solve=ds)
        if fails:
            def still(hh):
                if not hh or hh[0][0] != 'init': return False
                try: return bool(ex.run(hh, do_solve=ds)[2])
                except Exception: return False
            small = vlib.ddmin(list(h), still)
            f2 = ex.run(small, do_solve=ds)[2]
            kinds = '/'.join(sorted({o[0] for o in small}))
            what = f2[0][1] if f2 else fails[0][1]
            kind = ('exception-' + what.split(' raised ')[1].split(':')[0]) if ' raised ' in what else \
                   'variables-mismatch' if what.startswith('variables()') else \
                   'solve-differs' if what.startswith('solve') else 'lists'
            sig = 'c13:%s:%s' % (kind, kinds)
            ctx.violation(sig, 'history %s: %s' % (json.dumps(hist_json(small)), what),
                          {'history': hist_json(small), 'original': hist_json(h), 'failures': f2 or fails})
            continue
        all_lines += lines; all_obs += obs; idx += [hi] * len(lines)
        if len(h) > 2: nontriv.add(json.dumps(hist_json(h)))
    model = vlib.drive('C13', all_lines) if all_lines else []
    dis = 0
    for l, o, m, hi in zip(all_lines, all_obs, model, idx):
        if o != m:
            dis += 1
            if dis <= 3:
                ctx.broke('correspondence C13 (model vs modeling.op)',
                          {'history': hist_json(hists[hi]), 'line': l, 'impl': o, 'model': m})
    return len(all_lines), dis, len(nontriv)

def correspond(ctx):
    cvxopt = vlib.use_build(ctx.build)
    import cvxopt.modeling as M
    M.solvers.options['show_progress'] = False
    ex = Exec(M)
    rng = random.Random(ctx.seed * 7919 + 13)
    V, C, O = make_pool(M)
    nC, nO = len(C), len(O)
    hists = []
    # corpus of minimised past disagreements first
    cdir = os.path.join(vlib.VERIF, 'corpus', 'C13')
    if os.path.isdir(cdir):
        for f in sorted(os.listdir(cdir)):
            hists.append([tuple(o) for o in json.load(open(os.path.join(cdir, f)))['history']])
    ncorpus = len(hists)
    # exhaustive short histories: every init with <=1 constraint, followed by every op sequence of length <=2 (quick) / 3
    depth = 2 if ctx.quick() else 3
    allops = [('add', c) for c in range(nC)] + [('del', c) for c in range(nC)] + [('obj', o) for o in (0, 1, 4, 7)]
    exh = 0
    for o0 in (0, 1, 3):
        for c0 in [[]] + [[c] for c in range(nC)]:
            for seq in itertools.product(allops, repeat=depth):
                if ctx.quick() and rng.random() > 0.04: continue
                if not ctx.quick() and rng.random() > 0.05: continue
                hists.append([('init', o0, c0)] + list(seq)); exh += 1
    n = 2000 if ctx.quick() else 50000
    for _ in range(n):
        hists.append(gen_history(rng, nC, nO, 12))
    nops, dis, nontriv = run_histories(ctx, ex, hists, do_solve_every=7 if ctx.quick() else 11)
    ctx.cov.update({'evaluations': len(hists), 'distinct_nontrivial': nontriv,
                    'rule': 'edit histories over a pool of 4 variables, 8 constraints, 8 objectives: corpus (%d) + sampled '
                            'short histories of depth %d (%d) + random histories of length <= 12; non-trivial = more than '
                            'two operations; distinct by the full op list' % (ncorpus, depth, exh),
                    'traces_validated_against_impl': len(hists), 'protocol_lines_compared': nops,
                    'disagreements_checked': dis, 'solve_comparisons': ex.solves,
                    'solve_inconclusive_rank_or_unknown': ex.inconclusive})
    ctx.samples += [hist_json(h) for h in hists[ncorpus + exh: ncorpus + exh + 3]]

def search(ctx, why):
    """S4: a tie or proof is broken; look for a history on which the property itself fails (oracle in Exec.run)"""
    import cvxopt.modeling as M
    ex = Exec(M)
    rng = random.Random(ctx.seed + 99)
    V, C, O = make_pool(M)
    hists = [gen_history(rng, len(C), len(O), 16) for _ in range(20000)]
    for h in hists:
        lines, obs, fails = ex.run(h, do_solve=False)
        if fails:
            run_histories(ctx, ex, [h]); return

def replay(ctx, payload):
    cvxopt = vlib.use_build(ctx.build)
    import cvxopt.modeling as M
    ex = Exec(M)
    h = [tuple(o) for o in payload['case']['history']]
    run_histories(ctx, ex, [h], do_solve_every=1)
