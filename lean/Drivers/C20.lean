import CvxVerif.Model.Serial
import CvxVerif.Model.Proto
open CvxVerif CvxVerif.Dense CvxVerif.Serial CvxVerif.Proto

def parseNum (s : String) : Option Num :=
  match s.splitOn ":" with
  | [a] => (parseRat a).map fun r => ⟨r, 0⟩
  | [a, b] => match parseRat a, parseRat b with
    | some r, some i => some ⟨r, i⟩
    | _, _ => none
  | _ => none
def showNum (v : Num) : String := if v.im == 0 then showRat v.re else s!"{showRat v.re}:{showRat v.im}"

/-- `import <tc> <m> <n> <s0> <s1> <base> <items>`: `base` = index of the buffer pointer inside `items` -/
def stepLine (u : Unit) (line : String) : Unit × String :=
  match words line with
  | ["import", tc, m, n, s0, s1, base, items] =>
    match m.toNat?, n.toNat?, s0.toInt?, s1.toInt?, base.toInt?, (if items == "-" then some [] else (items.splitOn ",").mapM parseNum) with
    | some m, some n, some s0, some s1, some b, some its =>
      let A := importBuffer m n s0 s1 (fun k => its.getD (b + k).toNat Num.zero) (if tc == "i" then .i else if tc == "d" then .d else .z)
      (u, s!"mat {tc} {A.nrows} {A.ncols} " ++ (if A.buf.isEmpty then "-" else ",".intercalate (A.buf.map showNum)))
    | _, _, _, _, _, _ => (u, "bad-op")
  | _ => (u, "bad-op")

def main : IO Unit := loop stepLine ()
