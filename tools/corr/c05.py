"""C05: planted, exactly verified instances through every native solver path with the default KKT solver:
status must match the planted class, objectives agree across paths and lie between the planted weak-duality bounds."""
import os, sys, random, math
from fractions import Fraction
import vlib
from corr import certlib
from corr.certlib import fr, vec, quiet, prob_line, parse_out, mlist, assemble

LEAN_TARGETS = ['CvxVerif.Props.C05', 'CvxVerif.Props.C05Exits']
MODEL_FILES = ['CvxVerif.Model.LinAlgMachine', 'CvxVerif.Model.CertCheck', 'CvxVerif.Proofs.CertCheck', 'CvxVerif.Gen.Exits', 'CvxVerif.Gen.Decide']
LEVEL = 'proof'
TRUSTED = ['translator tools/translate/py2lean_exits.py (every `return {...}` of the main loops with its rescalings, symmetrisation walks and slack definitions -> Gen/Exits.lean)',
           'planted-instance generator tools/corr/problems.py; every planted witness (strictly feasible pair, Farkas certificate, improving ray) is '
           're-verified by the rational checker Model/CertCheck.lean before the instance is used',
           'comparison tolerances: objectives 1e-5*(1+|value|); an `unknown` answer on a solvable instance is accepted only with recomputed residuals and gap <= 1e-5']
ASSUMPTIONS = ['the planted witnesses satisfy their equations up to floating-point rounding of the generator (checked <= 1e-9 relative by the Lean checker); the '
               'class theorems are exact, the margin of the strictly interior witnesses is what absorbs that rounding',
               'termination within the iteration budget is observed on the generated instances, not proved']

def translate(ctx):
    sys.path.insert(0, os.path.join(vlib.VERIF, 'tools', 'translate'))
    probs = []
    try:
        import py2lean; py2lean.gen_decide()
    except Exception as e: probs.append('py2lean.gen_decide: %s: %s' % (type(e).__name__, e))
    try:
        import py2lean_exits; py2lean_exits.gen_exits()
    except Exception as e: probs.append('py2lean_exits.gen_exits: %s: %s' % (type(e).__name__, e))
    return probs

def recomputed(cvxopt, PR, pr, r):
    """(pres, dres, gap) of the vectors a cone solver handed back, against the caller's data"""
    from cvxopt import matrix, misc, blas
    c, G, h, A, b, P = PR.to_cvx(cvxopt, pr)
    x, y = r.get('x'), r.get('y')
    s, z = assemble(r, 's'), assemble(r, 'z')
    if x is None or s is None or z is None: return None
    s, z = matrix(s, (pr.N, 1), 'd'), matrix(z, (pr.N, 1), 'd')
    rx = +c + matrix([misc.sdot(matrix(list(G[:, j])), z, pr.dims) for j in range(pr.n)], (pr.n, 1), 'd')
    if pr.p and y is not None: rx = rx + A.T * y
    if P is not None: rx = rx + P * x
    rz = G * x + s - h
    pres = misc.snrm2(rz, pr.dims) / max(1.0, misc.snrm2(h, pr.dims))
    if pr.p: pres = max(pres, blas.nrm2(A * x - b) / max(1.0, blas.nrm2(b)))
    return pres, blas.nrm2(rx) / max(1.0, blas.nrm2(c)), misc.sdot(s, z, pr.dims)

def singular_exit_runs(ctx, cvxopt, PR, rng, n):
    """small full-rank LPs with equality constraints under the default KKT solver: about one run in a hundred leaves through the
    'singular KKT matrix' exit a few iterations before convergence.  'unknown' is acceptable there only with a final iterate whose residuals and gap,
    recomputed from the returned x, y, s, z, are at the 1e-5 level."""
    from cvxopt import solvers
    stat = {'runs': 0, 'unknown': 0}
    for i in range(n):
        nv = rng.randint(3, 4)
        pr = PR.planted_conelp(rng, 'optimal', n=nv, dims={'l': rng.randint(nv, nv + 3), 'q': [], 's': []}, p=rng.randint(1, min(3, nv - 1)))
        c, G, h, A, b, _ = PR.to_cvx(cvxopt, pr)
        stat['runs'] += 1
        try: r = quiet(solvers.conelp, c, G, h, pr.dims, A, b, options={'show_progress': False})
        except Exception as e:
            stat[type(e).__name__] = stat.get(type(e).__name__, 0) + 1; continue
        if r['status'] != 'unknown': continue
        stat['unknown'] += 1
        rec = recomputed(cvxopt, PR, pr, r)
        if rec is None: continue
        desc = {'kind': 'optimal', 'dims': pr.dims, 'c': pr.c, 'G': pr.G, 'h': pr.h, 'A': pr.A, 'b': pr.b, 'P': None, 'iterations': r.get('iterations')}
        rep = (r.get('primal infeasibility'), r.get('dual infeasibility'), r.get('gap'))
        for nm, a, b_ in zip(('primal infeasibility', 'dual infeasibility', 'gap'), rep, rec):
            if a is not None and abs(a - b_) > 1e-5 * (1 + abs(b_)):
                ctx.violation('c05:unknown-iterate-not-as-reported:conelp:%s' % nm.split(' ')[0], "conelp ended 'unknown' after %s iterations reporting %s = %r, but the returned "
                              'x, y, s, z give %r' % (r.get('iterations'), nm, a, b_), desc)
                break
    return stat

def paths(cvxopt, PR, pr, qp):
    """(tag, callable) for every native entry point applicable to the instance, default KKT solver"""
    from cvxopt import solvers, matrix, spmatrix
    out = []
    dims = pr.dims
    L = dims['l']
    hasQ, hasS = bool(dims['q']), bool(dims['s'])
    o = {'show_progress': False}
    for sparse in (False, True):
        c, G, h, A, b, P = PR.to_cvx(cvxopt, pr, sparse=sparse)
        tag = ' sparse' if sparse else ''
        if not qp:
            out.append(('conelp' + tag, lambda c=c, G=G, h=h, A=A, b=b: quiet(solvers.conelp, c, G, h, dims, A, b, options=o)))
            if not sparse:
                # more steps of iterative refinement than the default (a documented option that must not change the answer)
                o2 = {'show_progress': False, 'refinement': 2 + (len(pr.c) % 2)}
                out.append(('conelp refinement=%d' % o2['refinement'], lambda c=c, G=G, h=h, A=A, b=b, o2=o2: quiet(solvers.conelp, c, G, h, dims, A, b, options=o2)))
        Pm = P if P is not None else (spmatrix([], [], [], (pr.n, pr.n)) if sparse else matrix(0.0, (pr.n, pr.n)))
        out.append(('coneqp' + tag, lambda c=c, G=G, h=h, A=A, b=b, Pm=Pm: quiet(solvers.coneqp, Pm, c, G, h, dims, A, b, options=o)))
        if P is not None and not sparse:
            # only the lower triangle of P is documented to be read: the same problem with the strict upper triangle cleared (default KKT solver)
            Pl = +P
            for jj in range(pr.n):
                for ii in range(jj): Pl[ii, jj] = 0.0
            out.append(('coneqp lower-triangle-P', lambda c=c, G=G, h=h, A=A, b=b, Pl=Pl: quiet(solvers.coneqp, Pl, c, G, h, dims, A, b, options=o)))
        if sparse:
            o3 = {'show_progress': False, 'refinement': 2 + (len(pr.c) % 2)}
            out.append(('coneqp refinement=%d' % o3['refinement'], lambda c=c, G=G, h=h, A=A, b=b, Pm=Pm, o3=o3: quiet(solvers.coneqp, Pm, c, G, h, dims, A, b, options=o3)))
    c, G, h, A, b, P = PR.to_cvx(cvxopt, pr)
    if not qp:
        if not hasQ and not hasS:
            out.append(('lp', lambda: quiet(solvers.lp, c, G, h, A, b, options=o)))
        if not hasS:
            offs = L; Gq, hq = [], []
            for m in dims['q']:
                Gq.append(G[offs:offs + m, :]); hq.append(h[offs:offs + m]); offs += m
            out.append(('socp', lambda: quiet(solvers.socp, c, G[:L, :], h[:L], Gq, hq, A, b, options=o)))
        if not hasQ:
            offs = L; Gs_, hs_ = [], []
            for m in dims['s']:
                Gs_.append(G[offs:offs + m * m, :]); hs_.append(matrix(h[offs:offs + m * m], (m, m))); offs += m * m
            out.append(('sdp', lambda: quiet(solvers.sdp, c, G[:L, :], h[:L], Gs_, hs_, A, b, options=o)))
        # cpl with no nonlinear constraints is the same cone LP
        x0 = matrix(0.0, (pr.n, 1))
        def F(x=None, z=None):
            if x is None: return 0, matrix(x0)
            if z is None: return matrix(0.0, (0, 1)), matrix(0.0, (0, pr.n))
            return matrix(0.0, (0, 1)), matrix(0.0, (0, pr.n)), matrix(0.0, (pr.n, pr.n))
        out.append(('cpl', lambda: quiet(solvers.cpl, c, F, G, h, dims, A, b, options=o)))
    else:
        if not hasQ and not hasS:
            out.append(('qp', lambda: quiet(solvers.qp, P, c, G, h, A, b, options=o)))
    return out

def pcost_of(r, tag):
    return r.get('primal objective')

def correspond(ctx):
    cvxopt = vlib.use_build(ctx.build)
    from corr import problems as PR
    from cvxopt import solvers
    solvers.options.clear(); solvers.options['show_progress'] = False
    rng = random.Random(ctx.seed * 7919 + 5)
    n = 40 if ctx.quick() else 700
    insts, lines, where = [], [], []
    # ---- 1. plant and verify the truth exactly
    for i in range(n):
        kind = rng.choice(['optimal', 'optimal', 'qp', 'pinf', 'dinf'])
        if i % 5 == 0: kind = 'optimal'
        if kind == 'optimal' and i % 5 == 0:
            # LPs with componentwise inequalities, free variables and equality constraints: the default KKT solver (chol2) has to handle a
            # singular G'W^-2 G on every call
            m_ = rng.randint(2, 5)
            pr = PR.planted_conelp(rng, 'optimal', n=rng.randint(2, min(4, m_)), dims={'l': m_, 'q': [], 's': []}, p=rng.randint(1, 2), free=rng.randint(1, 2))
        elif kind == 'qp' and i % 3 == 1:
            # more variables than cone rows plus equality constraints: the rank assumption Rank([P; A; G]) = n holds through P only
            pr = PR.planted_qp_few(rng)
        else:
            pr = PR.planted_conelp(rng, 'optimal' if kind == 'qp' else kind, P_rank=(rng.randint(0, 2) if kind == 'qp' else None))
        w = pr.wit
        pl = prob_line(pr)
        if kind in ('optimal', 'qp'):
            lines += [pl, 'optimal x=%s s=%s y=%s z=%s tol=%s,%s,%s' % (vec(w['x']), vec(w['s']), vec(w['y']), vec(w['z']), fr(1e-9), fr(1e-9), fr(1e-9))]
        elif kind == 'pinf':
            lines += [pl, 'pinf y=%s z=%s tol=%s,%s' % (vec(w['y']), vec(w['z']), fr(1e-9), fr(Fraction(1, 10**9)))]
        else:
            lines += [pl, 'dinf x=%s s=%s tol=%s,%s' % (vec(w['x']), vec(w['s']), fr(1e-9), fr(Fraction(1, 10**9)))]
        insts.append((kind, pr, len(lines) - 1))
    out = vlib.drive('Cert', lines)
    stat = {}
    def bump(k): stat[k] = stat.get(k, 0) + 1
    chol2_fail = []
    unknown_far = []
    evals = 0
    verified = 0
    for kind, pr, li in insts:
        d = parse_out(out[li])
        desc = {'kind': kind, 'dims': pr.dims, 'c': pr.c, 'G': pr.G, 'h': pr.h, 'A': pr.A, 'b': pr.b, 'P': pr.P}
        lo = hi = None
        if kind in ('optimal', 'qp'):
            small = lambda r2, v2: float(r2) <= 1e-18 * max(1.0, float(v2))
            # for the QP the dual residual of the checker line is the LP one; recompute with P below
            okp = d['sIn'] and small(d['ry2'], d['b2']) and small(d['rz2'], d['h2'])
            okd = d['zIn'] and (kind == 'qp' or small(d['rx2'], d['c2']))
            if not (okp and okd): bump('plant-rejected'); continue
            x0 = pr.wit['x']
            if kind == 'qp' and pr.P is not None:
                Px = [sum(pr.P[j][i] * x0[j] for j in range(pr.n)) for i in range(pr.n)]
                q = sum(a * b for a, b in zip(x0, Px))
                # stationarity of the planted dual point: P x0 + c + G'z0 + A'y0 = 0 (checked in floats, it was built that way)
                hi = 0.5 * q + float(d['pcost']); lo = -0.5 * q + float(d['dcost'])
            else:
                hi = float(d['pcost']); lo = float(d['dcost'])
        else:
            if not d['ok']: bump('plant-rejected'); continue
        verified += 1
        # ---- 2. every solver path
        got = []
        lonly = not pr.dims['q'] and not pr.dims['s']
        # the default KKT solver for 'l'-only problems (chol2) needs G (QP: [P; G]) itself to have full column rank: listed finding of C06
        PG = [list(col) + (list(pr.P[j]) if pr.P is not None else []) for j, col in enumerate(pr.G)]
        chol2_case = lonly and PR.rank_cols(PG, [[] for _ in range(pr.n)]) < pr.n
        for tag, fn in paths(cvxopt, PR, pr, kind == 'qp'):
            evals += 1
            if chol2_case and tag.split(' ')[0] in ('conelp', 'lp', 'socp', 'sdp', 'coneqp', 'qp'):
                bump('chol2-cases:paths:' + ('qp' if tag.split(' ')[0] in ('coneqp', 'qp') else 'lp'))
            import time as _t; t0 = _t.time()
            try: r = fn()
            except Exception as e:
                bump('%s:%s:exception' % (kind, tag.split(' ')[0]))
                cls = 'solvable' if kind in ('optimal', 'qp') else 'no-solution'
                if chol2_case and isinstance(e, ValueError) and 'Rank' in str(e) and tag.split(' ')[0] in ('conelp', 'lp', 'socp', 'sdp', 'coneqp', 'qp'):
                    bump('chol2-cases:failed:' + ('qp' if tag.split(' ')[0] in ('coneqp', 'qp') else 'lp')); chol2_fail.append(('%s raised %s (G alone is rank deficient, [G; A] is not)' % (tag, e), desc)); continue
                ctx.violation('c05:exception:%s:%s:%s' % (cls, tag.split(' ')[0], type(e).__name__), '%s raised %s on a well-posed planted %s instance: %s' % (tag, type(e).__name__, kind, e), desc)
                continue
            st = r['status']
            stat['time:' + tag.split(' ')[0]] = round(stat.get('time:' + tag.split(' ')[0], 0) + _t.time() - t0, 2)
            bump('%s:%s:%s' % (kind, tag.split(' ')[0], st))
            ent = tag.split(' ')[0]
            if kind in ('optimal', 'qp'):
                if st == 'optimal': got.append((tag, r['primal objective']))
                elif st == 'unknown':
                    near = all(r.get(k) is not None and abs(r[k]) <= 1e-4 for k in ('primal infeasibility', 'dual infeasibility')) and \
                        r.get('gap') is not None and (r["gap"] <= 1e-4 or (r.get("relative gap") is not None and r["relative gap"] <= 1e-4))
                    rec = recomputed(cvxopt, PR, pr, r) if ent in ('conelp', 'coneqp', 'lp', 'socp', 'sdp', 'qp') else None
                    if near and rec is not None and (rec[0] > 1e-4 or rec[1] > 1e-4):
                        ctx.violation('c05:unknown-iterate-not-as-reported:%s' % ent, "%s ended 'unknown' reporting residuals %r / %r, but the returned x, y, s, z give %r / %r"
                                      % (tag, r.get('primal infeasibility'), r.get('dual infeasibility'), rec[0], rec[1]), desc)
                    if not near and chol2_case and ent in ('conelp', 'lp', 'socp', 'sdp', 'coneqp', 'qp'):
                        bump('chol2-cases:failed:' + ('qp' if tag.split(' ')[0] in ('coneqp', 'qp') else 'lp')); chol2_fail.append(("%s ended 'unknown' (G alone is rank deficient, [G; A] is not)" % tag, desc))
                    elif not near:
                        unknown_far.append((ent, "%s ended 'unknown' far from convergence on a strictly feasible planted instance "
                                      '(pres %r dres %r gap %r, %r iterations)' % (tag, r.get('primal infeasibility'), r.get('dual infeasibility'), r.get('gap'), r.get('iterations')), desc))
                else:
                    ctx.violation('c05:wrong-class:%s:%s' % (ent, st.replace(' ', '-')), "%s reported %r on a problem with a strictly feasible primal-dual pair" % (tag, st), desc)
            elif kind == 'pinf':
                if st == 'optimal':
                    ctx.violation('c05:optimal-on-infeasible:%s' % ent, "%s reported 'optimal' on a problem with a strict Farkas certificate" % tag, desc)
                elif st == 'unknown' and chol2_case and ent in ('conelp', 'lp', 'socp', 'sdp'):
                    bump('chol2-cases:failed:' + ('qp' if tag.split(' ')[0] in ('coneqp', 'qp') else 'lp')); chol2_fail.append(("%s ended 'unknown' on an infeasible instance (G alone is rank deficient, [G; A] is not)" % tag, desc))
                elif st != 'primal infeasible' and ent not in ('coneqp', 'qp', 'cpl'):     # coneqp / cpl have no infeasibility statuses: 'unknown' is their documented answer
                    ctx.violation('c05:not-classified:%s:%s' % (ent, st.replace(' ', '-')), "%s reported %r on a problem with a strict Farkas certificate" % (tag, st), desc)
            else:
                if st == 'optimal':
                    ctx.violation('c05:optimal-on-unbounded:%s' % ent, "%s reported 'optimal' on a problem with a strictly improving ray" % tag, desc)
                elif st == 'unknown' and chol2_case and ent in ('conelp', 'lp', 'socp', 'sdp'):
                    bump('chol2-cases:failed:' + ('qp' if tag.split(' ')[0] in ('coneqp', 'qp') else 'lp')); chol2_fail.append(("%s ended 'unknown' on an unbounded instance (G alone is rank deficient, [G; A] is not)" % tag, desc))
                elif st != 'dual infeasible' and ent not in ('coneqp', 'qp', 'cpl'):
                    ctx.violation('c05:not-classified:%s:%s' % (ent, st.replace(' ', '-')), "%s reported %r on a problem with a strictly improving ray" % (tag, st), desc)
        # ---- 3. objectives agree and respect the planted bounds
        for tag, v in got:
            if v is None: continue
            if v > hi + 1e-5 * (1 + abs(hi)) or v < lo - 1e-5 * (1 + abs(lo)):
                ctx.violation('c05:weak-duality:%s' % tag.split(' ')[0], '%s: primal objective %r outside the planted bounds [%r, %r]' % (tag, v, lo, hi), desc)
        vals = [v for _, v in got if v is not None]
        if vals and max(vals) - min(vals) > 1e-5 * (1 + abs(vals[0])):
            ctx.violation('c05:paths-disagree', 'primal objectives of the solver paths differ: %r' % [(t, v) for t, v in got], desc)
    # the listed finding (kkt_chol2 on a rank-deficient G) concerns occasional instances - those where the first Cholesky factorisation of the
    # singular matrix happens to succeed; if the default solver fails on most such instances something else is wrong
    # 'unknown' far from convergence on a solvable problem: the listed finding for cpl concerns a few percent of the runs; more than a quarter
    # of the runs of an entry point is something else
    for ent in sorted({e for e, _, _ in unknown_far}):
        items = [(w, d_) for e, w, d_ in unknown_far if e == ent]
        total = sum(v for k, v in stat.items() if k.split(':')[0] in ('optimal', 'qp') and k.split(':')[1] == ent and not k.startswith('time'))
        syst = len(items) >= 8 and len(items) > 0.25 * max(total, 1)
        for w, d_ in items:
            ctx.violation('c05:unknown-on-solvable:%s%s' % (ent, ':systematic' if syst else ''), w + (' [%d of %d runs]' % (len(items), total) if syst else ''), d_)
    systematic = False
    for fam in ('lp', 'qp'):
        npaths, nfail = stat.get('chol2-cases:paths:' + fam, 0), stat.get('chol2-cases:failed:' + fam, 0)
        if nfail >= 4 and nfail > 0.5 * npaths: systematic = True; break
    for what, desc in chol2_fail:
        ctx.violation('c05:chol2-rank-deficient-G' + (':systematic' if systematic else ''), what + (' [%d of %d default-solver runs on such instances fail]' % (nfail, npaths) if systematic else ''), desc)
    sx = singular_exit_runs(ctx, cvxopt, PR, random.Random(ctx.seed * 6151 + 55), 800 if ctx.quick() else 8000)
    evals += sx['runs']
    ctx.cov['singular_exit_runs'] = {k: str(v) for k, v in sx.items()}
    ctx.cov.update({'evaluations': evals, 'distinct_nontrivial': verified,
                    'rule': '%d planted instances (40%% strictly feasible cone LPs, 20%% cone QPs with P of rank 0..2, 20%% strict Farkas certificates, 20%% strictly '
                            'improving rays; random l/q/s mixes with and without equalities), witnesses verified by the Lean rational checker, each run through '
                            'conelp, coneqp (P = 0 for LPs), dense and sparse, lp / socp / sdp / qp wrappers where the cone allows, and cpl with no nonlinear constraint; '
                            'default KKT solver and options; plus small full-rank LPs with equality constraints under the default KKT solver, looking for runs that end through '
                            "the 'singular KKT matrix' exit: their reported residuals and gap are recomputed from the returned x, y, s, z" % n,
                    'outcomes': stat})

def search(ctx, why): return
def replay(ctx, payload): correspond(ctx)
