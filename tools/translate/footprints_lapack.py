"""Hand-written specification (from the LAPACK 3 reference documentation of each routine, "Arguments" sections): what each LAPACK routine
needs of each of its array arguments, as Lean propositions over the *final* integer arguments of the call (primed C variable names of the
wrapper), the lengths / typecodes of the Python buffers and which optional arguments were given.  For every array the routine touches:

  X_isMat = true                it is a dense matrix object (the wrapper reads its buffer pointer)
  X_id = ...                    its element type is the one the routine reads: 0 = 'i' (pivot vectors), 1 = 'd', 2 = 'z', or that of the
                                operand the `switch (MAT_ID(..))` dispatches on
  MatFits len off m n ld        the m x n block with leading dimension ld starting at element off lies inside len elements (and m <= ld)
  SegFits len off n             n contiguous elements starting at off lie inside len elements
  X_given = true                for optional arguments, when the chosen job needs them

Character flags are ASCII codes: 'N' 78, 'V' 86, 'A' 65, 'S' 83, 'O' 79, 'I' 73, 'L' 76, 'R' 82, 'U' 85, 'T' 84, 'C' 67.
Work space allocated by the wrapper itself is not part of this table (the guard-page runs of tools/corr/c19_lapack.py cover it)."""
def tcs(X, tc):
    if tc is None: return []
    return ['%s_id = %s' % (X, {'i': '0', 'd': '1', 'z': '2'}.get(tc, tc + '_id'))]
def conj(parts): return ' ∧ '.join(parts)
def mat(X, off, m, n, ld, tc=None):
    return conj(['%s_isMat = true' % X] + tcs(X, tc) + ["MatFits %s_len %s' (%s) (%s) %s'" % (X, off, m, n, ld)])
def vec(X, off, n, tc=None):
    return conj(['%s_isMat = true' % X] + tcs(X, tc) + ['SegFits %s_len %s (%s)' % (X, off, n)])
def given(X, p): return '%s_given = true → %s' % (X, p)                      # optional argument: if it is passed it must fit
def needs(c, X, p): return '%s → %s_given = true ∧ %s' % (c, X, p)            # the job needs it: it must be passed and fit
def L(flag, a, b): return "if %s' = 76 then %s else %s" % (flag, a, b)

A_nn = mat('A', 'oA', "n'", "n'", 'ldA')
A_mn = mat('A', 'oA', "m'", "n'", 'ldA')
B_nr = mat('B', 'oB', "n'", "nrhs'", 'ldB', 'A')
def ipiv(n="n'"): return vec('ipiv', '0', n, 'i')
MN = "min m' n'"
# number of eigenvectors returned by the expert drivers: iu-il+1 for range 'I', up to n otherwise
NEV = "if range' = 73 then iu' - il' + 1 else n'"
def band(rows): return mat('A', 'oA', rows, "n'", 'ldA')
def tri(B_tc): return [vec('dl', "odl'", "n' - 1"), vec('d', "od'", "n'", 'dl'), vec('du', "odu'", "n' - 1", 'dl')]
def B_of(tc): return mat('B', 'oB', "n'", "nrhs'", 'ldB', tc)
def evx(wtc): return [A_nn, vec('W', "oW'", "n'", 'd'), needs("jobz' = 86", 'Z', mat('Z', 'oZ', "n'", NEV, 'ldZ', wtc))]

FOOT = {
 'getrf': [A_mn, ipiv(MN)],
 'getrs': [A_nn, ipiv(), B_nr],
 'getri': [A_nn, ipiv()],
 'gesv':  [A_nn, B_nr, given('ipiv', ipiv())],
 'gbtrf': [band("2 * kl' + ku' + 1"), ipiv(MN)],
 'gbtrs': [band("2 * kl' + ku' + 1"), ipiv(), B_nr],
 # without ipiv the wrapper copies the kl+ku+1 rows of the band into its own (2kl+ku+1) x n work array
 'gbsv':  [band("if ipiv_given = true then 2 * kl' + ku' + 1 else kl' + ku' + 1"), B_nr, given('ipiv', ipiv())],
 'gttrf': tri('dl') + [vec('du2', '0', "n' - 2", 'dl'), ipiv()],
 'gttrs': tri('dl') + [vec('du2', '0', "n' - 2", 'dl'), ipiv(), B_of('dl')],
 'gtsv':  tri('dl') + [B_of('dl')],
 'potrf': [A_nn], 'potri': [A_nn], 'potrs': [A_nn, B_nr], 'posv': [A_nn, B_nr],
 'pbtrf': [band("kd' + 1")],
 'pbtrs': [band("kd' + 1"), B_nr],
 'pbsv':  [band("kd' + 1"), B_nr],
 # the diagonal of a Hermitian positive definite tridiagonal matrix is real, the off-diagonal has the type of the problem
 'pttrf': [vec('d', "od'", "n'", 'd'), vec('e', "oe'", "n' - 1")],
 'pttrs': [vec('d', "od'", "n'", 'd'), vec('e', "oe'", "n' - 1"), B_of('e')],
 'ptsv':  [vec('d', "od'", "n'", 'd'), vec('e', "oe'", "n' - 1"), B_of('e')],
 'sytrf': [A_nn, ipiv()], 'hetrf': [A_nn, ipiv()],
 'sytrs': [A_nn, ipiv(), B_nr], 'hetrs': [A_nn, ipiv(), B_nr],
 'sytri': [A_nn, ipiv()], 'hetri': [A_nn, ipiv()],
 'sysv':  [A_nn, B_nr, given('ipiv', ipiv())], 'hesv': [A_nn, B_nr, given('ipiv', ipiv())],
 'trtrs': [A_nn, B_nr], 'trtri': [A_nn],
 'tbtrs': [band("kd' + 1"), B_nr],
 # xGELS: B holds the m (trans = 'N') or n right-hand-side rows on entry and the n (resp. m) solution rows on exit: max(m,n) rows
 'gels':  [A_mn, mat('B', 'oB', "max m' n'", "nrhs'", 'ldB', 'A')],
 'geqrf': [A_mn, vec('tau', '0', MN, 'A')], 'gelqf': [A_mn, vec('tau', '0', MN, 'A')],
 'geqp3': [A_mn, vec('jpvt', '0', "n'", 'i'), vec('tau', '0', MN, 'A')],
 # Q is defined by k reflectors stored in the first k columns of an (m | n) x k array
 'ormqr': [mat('A', 'oA', L('side', "m'", "n'"), "k'", 'ldA'), vec('tau', '0', "k'", 'A'), mat('C', 'oC', "m'", "n'", 'ldC', 'A')],
 'unmqr': [mat('A', 'oA', L('side', "m'", "n'"), "k'", 'ldA'), vec('tau', '0', "k'", 'A'), mat('C', 'oC', "m'", "n'", 'ldC', 'A')],
 'orgqr': [A_mn, vec('tau', '0', "k'", 'A')], 'ungqr': [A_mn, vec('tau', '0', "k'", 'A')],
 # ... in the first k rows of a k x (m | n) array
 'ormlq': [mat('A', 'oA', "k'", L('side', "m'", "n'"), 'ldA'), vec('tau', '0', "k'", 'A'), mat('C', 'oC', "m'", "n'", 'ldC', 'A')],
 'unmlq': [mat('A', 'oA', "k'", L('side', "m'", "n'"), 'ldA'), vec('tau', '0', "k'", 'A'), mat('C', 'oC', "m'", "n'", 'ldC', 'A')],
 'orglq': [A_mn, vec('tau', '0', "k'", 'A')], 'unglq': [A_mn, vec('tau', '0', "k'", 'A')],
 # eigenvalues of symmetric / Hermitian problems are real
 'syev':  [A_nn, vec('W', "oW'", "n'", 'd')], 'heev': [A_nn, vec('W', "oW'", "n'", 'd')],
 'syevd': [A_nn, vec('W', "oW'", "n'", 'd')], 'heevd': [A_nn, vec('W', "oW'", "n'", 'd')],
 # W always has dimension n; Z is n x (number of eigenvectors) when jobz = 'V'
 'syevx': evx('d'), 'heevx': evx('A'), 'syevr': evx('d'), 'heevr': evx('A'),
 'sygv':  [A_nn, mat('B', 'oB', "n'", "n'", 'ldB', 'A'), vec('W', "oW'", "n'", 'd')],
 'hegv':  [A_nn, mat('B', 'oB', "n'", "n'", 'ldB', 'A'), vec('W', "oW'", "n'", 'd')],
 # U: m x m ('A') or m x min(m,n) ('S'); Vt: n x n ('A') or min(m,n) x n ('S'); 'O' and 'N' do not reference them
 'gesvd': [A_mn, vec('S', "oS'", MN, 'd'),
           needs("jobu' = 65", 'U', mat('U', 'oU', "m'", "m'", 'ldU', 'A')), needs("jobu' = 83", 'U', mat('U', 'oU', "m'", MN, 'ldU', 'A')),
           needs("jobvt' = 65", 'Vt', mat('Vt', 'oVt', "n'", "n'", 'ldVt', 'A')), needs("jobvt' = 83", 'Vt', mat('Vt', 'oVt', MN, "n'", 'ldVt', 'A'))],
 # jobz = 'O': the larger factor overwrites A, the other one is returned (Vt if m >= n, U otherwise)
 'gesdd': [A_mn, vec('S', "oS'", MN, 'd'),
           needs("jobz' = 65", 'U', mat('U', 'oU', "m'", "m'", 'ldU', 'A')), needs("jobz' = 83", 'U', mat('U', 'oU', "m'", MN, 'ldU', 'A')),
           needs("jobz' = 79 ∧ m' < n'", 'U', mat('U', 'oU', "m'", "m'", 'ldU', 'A')),
           needs("jobz' = 65", 'Vt', mat('Vt', 'oVt', "n'", "n'", 'ldVt', 'A')), needs("jobz' = 83", 'Vt', mat('Vt', 'oVt', MN, "n'", 'ldVt', 'A')),
           needs("jobz' = 79 ∧ n' ≤ m'", 'Vt', mat('Vt', 'oVt', "n'", "n'", 'ldVt', 'A'))],
 # the eigenvalues of a general matrix are returned as a complex vector
 'gees':  [A_nn, given('W', vec('W', "oW'", "n'", 'z')), given('Vs', mat('Vs', 'oVs', "n'", "n'", 'ldVs', 'A'))],
 'gges':  [A_nn, mat('B', 'oB', "n'", "n'", 'ldB', 'A'), given('a', vec('a', "oa'", "n'", 'z')), given('b', vec('b', "ob'", "n'", 'd')),
           given('Vsl', mat('Vsl', 'oVsl', "n'", "n'", 'ldVsl', 'A')), given('Vsr', mat('Vsr', 'oVsr', "n'", "n'", 'ldVsr', 'A'))],
 'lacpy': [A_mn, mat('B', 'oB', "m'", "n'", 'ldB', 'A')],
 # xLARFG(n, alpha, x, 1, tau): alpha is one element, x has n-1
 'larfg': [vec('a', "oa'", "1"), vec('x', "ox'", "n' - 1", 'a')],
 # xLARFX(side, m, n, v, tau, C, ldc, work): v has m (side = 'L') or n elements
 'larfx': [vec('v', "ov'", L('side', "m'", "n'")), mat('C', 'oC', "m'", "n'", 'ldC', 'v')],
}
