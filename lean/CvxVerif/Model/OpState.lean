/-
Model of the bookkeeping of `cvxopt.modeling.op` (modeling.py: `op.__init__`, `op.__setattr__('objective')`,
`op.addconstraint`, `op.delconstraint`, and the accessors `variables()`, `inequalities()`, `equalities()`,
`constraints()`).  Core Lean only (no Mathlib) so that the driver starts fast.

Python objects are abstracted to natural numbers: a *variable* is a `Var`, a *constraint* is a `Cid`, and the
pool `P` records for every constraint which variables `c.variables()` returns (a duplicate-free list, see
`_function.variables`) and whether `c.type() == '<'`.

The Python dict `op._variables` (insertion ordered) is modelled by the list `keys` (insertion order) together
with the total function `ent`; `ent v` is meaningful only when `v ∈ keys`.
-/
namespace CvxVerif.OpState

abbrev Var := Nat
abbrev Cid := Nat

structure Pool where
  cvars  : Cid → List Var
  isIneq : Cid → Bool

/-- `{'o': o, 'i': i, 'e': e}` -/
structure Entry where
  o : Bool
  i : List Cid
  e : List Cid
deriving Repr, DecidableEq

structure St where
  obj   : List Var          -- self.objective.variables()
  ineqs : List Cid          -- self._inequalities
  eqs   : List Cid          -- self._equalities
  keys  : List Var          -- list(self._variables.keys())
  ent   : Var → Entry       -- self._variables[v]

def upd (f : Var → Entry) (v : Var) (x : Entry) : Var → Entry := fun w => if w = v then x else f w

/-- `op.__init__` before the objective is assigned: `self._variables = dict()`. -/
def empty : St := { obj := [], ineqs := [], eqs := [], keys := [], ent := fun _ => ⟨false, [], []⟩ }

/-- one iteration of the loop `for v in c.variables(): if v in self._variables: ... += [c] else: ... = {...}` -/
def addVar (isI : Bool) (c : Cid) (st : List Var × (Var → Entry)) (v : Var) : List Var × (Var → Entry) :=
  if v ∈ st.1 then
    (st.1, upd st.2 v (if isI then { st.2 v with i := (st.2 v).i ++ [c] } else { st.2 v with e := (st.2 v).e ++ [c] }))
  else
    (st.1 ++ [v], upd st.2 v (if isI then ⟨false, [c], []⟩ else ⟨false, [], [c]⟩))

/-- `op.addconstraint(c)` -/
def addC (P : Pool) (s : St) (c : Cid) : St :=
  let r := (P.cvars c).foldl (addVar (P.isIneq c) c) (s.keys, s.ent)
  { obj := s.obj,
    ineqs := if P.isIneq c then s.ineqs ++ [c] else s.ineqs,
    eqs := if P.isIneq c then s.eqs else s.eqs ++ [c],
    keys := r.1, ent := r.2 }

/-- `self._variables[v]['i'|'e'].remove(c)` for one `v` -/
def remVar (isI : Bool) (c : Cid) (ent : Var → Entry) (v : Var) : Var → Entry :=
  upd ent v (if isI then { ent v with i := (ent v).i.erase c } else { ent v with e := (ent v).e.erase c })

/-- garbage test of `delconstraint`: `not o and not i and not e` -/
def isGarbage (x : Entry) : Bool := !x.o && x.i.isEmpty && x.e.isEmpty

/-- `if garbage: del self._variables[v]` for one `v` -/
def gcVar (ent : Var → Entry) (ks : List Var) (v : Var) : List Var :=
  if isGarbage (ent v) then ks.erase v else ks

/-- `op.delconstraint(c)`; `list.remove` of an absent constraint raises `ValueError`, which is swallowed
    before anything has been modified. -/
def delC (P : Pool) (s : St) (c : Cid) : St :=
  let isI := P.isIneq c
  if c ∈ (if isI then s.ineqs else s.eqs) then
    let ent1 := (P.cvars c).foldl (remVar isI c) s.ent
    { obj := s.obj,
      ineqs := if isI then s.ineqs.erase c else s.ineqs,
      eqs := if isI then s.eqs else s.eqs.erase c,
      keys := (P.cvars c).foldl (gcVar ent1) s.keys,
      ent := ent1 }
  else s

/-- the inner error conditions of `delconstraint` that the model totalises: `self._variables[v]` would raise
    `KeyError`, or `.remove(c)` would raise `ValueError` after a partial update. -/
def delErr (P : Pool) (s : St) (c : Cid) : Bool :=
  let isI := P.isIneq c
  (c ∈ (if isI then s.ineqs else s.eqs)) &&
  (P.cvars c).any (fun v => !(decide (v ∈ s.keys)) || !(decide (c ∈ (if isI then (s.ent v).i else (s.ent v).e))))

/-- one iteration of `for v in self.objective.variables(): if v not in ...: ... else: ...['o'] = True` -/
def objVar (st : List Var × (Var → Entry)) (v : Var) : List Var × (Var → Entry) :=
  if v ∈ st.1 then (st.1, upd st.2 v { st.2 v with o := true })
  else (st.1 ++ [v], upd st.2 v ⟨true, [], []⟩)

/-- assignment `self.objective = f` with `f.variables() = vs`:
    variables that occur only in the old objective are dropped, the `'o'` flag of the others is reset,
    then the variables of the new objective are entered. -/
def setObj (s : St) (vs : List Var) : St :=
  let keys1 := s.keys.filter (fun v => !((s.ent v).i.isEmpty && (s.ent v).e.isEmpty))
  let ent1 : Var → Entry := fun v => { s.ent v with o := false }
  let r := vs.foldl objVar (keys1, ent1)
  { obj := vs, ineqs := s.ineqs, eqs := s.eqs, keys := r.1, ent := r.2 }

inductive Op where
  | add (c : Cid)
  | del (c : Cid)
  | setObj (vs : List Var)
  | solve
deriving Repr

def step (P : Pool) (s : St) : Op → St
  | .add c => addC P s c
  | .del c => delC P s c
  | .setObj vs => setObj s vs
  | .solve => s

/-- `op(objective, constraints)`: the constructor assigns the objective and then enters the inequality
    constraints followed by the equality constraints. -/
def init (P : Pool) (objVars : List Var) (cs : List Cid) : St :=
  let s0 := setObj empty objVars
  let s1 := (cs.filter (fun c => P.isIneq c)).foldl (addC P) s0
  (cs.filter (fun c => !P.isIneq c)).foldl (addC P) s1

def run (P : Pool) (s : St) (ops : List Op) : St := ops.foldl (step P) s

/-- the abstract problem: what the user wrote down -/
structure Spec where
  obj : List Var
  ineqs : List Cid
  eqs : List Cid

def abs (s : St) : Spec := ⟨s.obj, s.ineqs, s.eqs⟩

/-- the documented meaning of `variables()`: variables of the objective or of some current constraint -/
def Spec.hasVar (P : Pool) (a : Spec) (v : Var) : Prop :=
  v ∈ a.obj ∨ ∃ c, (c ∈ a.ineqs ∨ c ∈ a.eqs) ∧ v ∈ P.cvars c

def specStep (P : Pool) (a : Spec) : Op → Spec
  | .add c => if P.isIneq c then { a with ineqs := a.ineqs ++ [c] } else { a with eqs := a.eqs ++ [c] }
  | .del c => if P.isIneq c then { a with ineqs := a.ineqs.erase c } else { a with eqs := a.eqs.erase c }
  | .setObj vs => { a with obj := vs }
  | .solve => a

end CvxVerif.OpState
