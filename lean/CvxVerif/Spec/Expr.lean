/-!
Direct semantics of the modeling expressions of `cvxopt.modeling` (the documented formula language):

* `len L e`      – `len(f)` with the documented broadcasting rule (`none`: the dimensions do not match);
* `evalAt L ρ e k` – component `k` of `f.value()`, obtained by evaluating the formula directly on the values `ρ` of the variables;
* `curv L e`     – the curvature class given by the documented composition rules (`none`: the combination is refused).

`L i` is the length of variable `i` and `ρ i k` is component `k` of its value.  Core Lean only.
-/
namespace CvxVerif.Expr

inductive Expr where
  | var (i : Nat)
  | const (v : List Rat)
  | add (a b : Expr)
  | sub (a b : Expr)
  | iadd (a b : Expr)                          -- f += g: only when the length of f does not change
  | isub (a b : Expr)
  | neg (a : Expr)
  | smul (c : Rat) (a : Expr)                  -- c * f, f * c, f *= c
  | sdiv (a : Expr) (c : Rat)                  -- f / c, f /= c
  | mmul (rows : List (List Rat)) (a : Expr)   -- A * f
  | dot (c : List Rat) (a : Expr)              -- dot(c, f), dot(f, c)
  | sum (a : Expr)
  | max2 (a b : Expr)                          -- max(f, g) componentwise
  | min2 (a b : Expr)
  | maxv (a : Expr)                            -- max(f): maximum of the components
  | minv (a : Expr)
  | abs (a : Expr)
  | idx (a : Expr) (i : Int)                   -- f[i]
  | slice (a : Expr) (lo hi : Nat)             -- f[lo:hi]
deriving Repr

/-- `num`: a plain number/matrix (not a function object: Python's own arithmetic and builtins apply);
`const`: a function object without variables (both convex and concave) -/
inductive Curv where | num | const | affine | convex | concave
deriving DecidableEq, Repr

abbrev Lens := Nat → Nat
abbrev Env := Nat → Nat → Rat

def bcast (la lb : Nat) : Option Nat :=
  if la = lb then some la else if la = 1 then some lb else if lb = 1 then some la else none

/-- the position addressed by the integer index `i` in a sequence of length `n` -/
def normIdx (n : Nat) (i : Int) : Option Nat :=
  if 0 ≤ i ∧ i < n then some i.toNat else if -(n : Int) ≤ i ∧ i < 0 then some (i + n).toNat else none

/-- `len(f)` -/
def len (L : Lens) : Expr → Option Nat
  | .var i => if L i = 0 then none else some (L i)
  | .const v => if v.length = 0 then none else some v.length
  | .add a b | .sub a b | .max2 a b | .min2 a b => do bcast (← len L a) (← len L b)
  | .iadd a b | .isub a b => do
      let la ← len L a
      let n ← bcast la (← len L b)
      if n = la then some n else none
  | .neg a | .smul _ a | .abs a => len L a
  | .sdiv a c => if c = 0 then none else len L a
  | .mmul rows a => do
      let la ← len L a
      if rows.all (fun r => r.length == la) && rows.length > 0 then some rows.length else none
  | .dot c a => do let la ← len L a; if c.length = la then some 1 else none
  | .sum a | .maxv a | .minv a => do let _ ← len L a; some 1
  | .idx a i => do let la ← len L a; let _ ← normIdx la i; some 1
  | .slice a lo hi => do
      let la ← len L a
      if min lo la < min hi la then some (min hi la - min lo la) else none

def rabs (a : Rat) : Rat := if a < 0 then -a else a

/-- `f 0 + ... + f (n-1)` -/
def sumTo (f : Nat → Rat) : Nat → Rat
  | 0 => 0
  | n + 1 => sumTo f n + f n

/-- `max (f 0) ... (f n)` -/
def maxTo (f : Nat → Rat) : Nat → Rat
  | 0 => f 0
  | n + 1 => max (maxTo f n) (f (n + 1))

def minTo (f : Nat → Rat) : Nat → Rat
  | 0 => f 0
  | n + 1 => min (minTo f n) (f (n + 1))

/-- component `k` of `f.value()` by direct evaluation of the formula (only meaningful for `k < len`) -/
def evalAt (L : Lens) (ρ : Env) : Expr → Nat → Rat
  | .var i, k => ρ i k
  | .const v, k => v.getD k 0
  | .add a b, k | .iadd a b, k =>
      (if len L a = some 1 then evalAt L ρ a 0 else evalAt L ρ a k) + (if len L b = some 1 then evalAt L ρ b 0 else evalAt L ρ b k)
  | .sub a b, k | .isub a b, k =>
      (if len L a = some 1 then evalAt L ρ a 0 else evalAt L ρ a k) - (if len L b = some 1 then evalAt L ρ b 0 else evalAt L ρ b k)
  | .max2 a b, k =>
      max (if len L a = some 1 then evalAt L ρ a 0 else evalAt L ρ a k) (if len L b = some 1 then evalAt L ρ b 0 else evalAt L ρ b k)
  | .min2 a b, k =>
      min (if len L a = some 1 then evalAt L ρ a 0 else evalAt L ρ a k) (if len L b = some 1 then evalAt L ρ b 0 else evalAt L ρ b k)
  | .neg a, k => - evalAt L ρ a k
  | .smul c a, k => c * evalAt L ρ a k
  | .sdiv a c, k => evalAt L ρ a k / c
  | .abs a, k => rabs (evalAt L ρ a k)
  | .mmul rows a, k => sumTo (fun j => (rows.getD k []).getD j 0 * evalAt L ρ a j) ((len L a).getD 0)
  | .dot c a, _ => sumTo (fun j => c.getD j 0 * evalAt L ρ a j) ((len L a).getD 0)
  | .sum a, _ => sumTo (evalAt L ρ a) ((len L a).getD 0)
  | .maxv a, _ => maxTo (evalAt L ρ a) ((len L a).getD 0 - 1)
  | .minv a, _ => minTo (evalAt L ρ a) ((len L a).getD 0 - 1)
  | .idx a i, _ => evalAt L ρ a (((len L a).bind fun n => normIdx n i).getD 0)
  | .slice a lo _, k => evalAt L ρ a (min lo ((len L a).getD 0) + k)

/-- `f.value()` as a list -/
def eval (L : Lens) (ρ : Env) (e : Expr) : Option (List Rat) :=
  (len L e).map fun n => (List.range n).map (evalAt L ρ e)

def Curv.flip : Curv → Curv
  | .num => .num | .const => .const | .affine => .affine | .convex => .concave | .concave => .convex

def Curv.join : Curv → Curv → Option Curv
  | .num, c => some c
  | c, .num => some c
  | .const, c => some c
  | c, .const => some c
  | .affine, c => some c
  | c, .affine => some c
  | .convex, .convex => some .convex
  | .concave, .concave => some .concave
  | _, _ => none

/-- the documented composition rules; `none` = the combination is refused.  (The lengths matter in one place: `max(f)` of a
function of length 1 is documented to return `f`.)  `max`, `min`, `abs` applied to a function object always give a convex /
concave function object, even when the argument has no variables. -/
def curv (L : Lens) : Expr → Option Curv
  | .var _ => some .affine
  | .const _ => some .num
  | .add a b | .iadd a b => do Curv.join (← curv L a) (← curv L b)
  | .sub a b | .isub a b => do Curv.join (← curv L a) ((← curv L b).flip)
  | .neg a => do some (← curv L a).flip
  | .smul c a => do
      let k ← curv L a
      some (if k = .num then .num else if c = 0 then .const else if c < 0 then k.flip else k)
  | .sdiv a c => do let k ← curv L a; some (if c < 0 then k.flip else k)
  | .mmul _ a | .dot _ a => do let k ← curv L a; if k = .affine ∨ k = .const ∨ k = .num then some k else none
  | .sum a | .idx a _ | .slice a _ _ => curv L a
  | .max2 a b => do
      let j ← Curv.join (← curv L a) (← curv L b)
      if j = .num then some .num else if j = .concave then none else some .convex
  | .min2 a b => do
      let j ← Curv.join (← curv L a) (← curv L b)
      if j = .num then some .num else if j = .convex then none else some .concave
  | .maxv a => do
      let k ← curv L a
      if k = .num then some .num else
      if len L a = some 1 then some k else
      if k = .concave then none else some .convex
  | .minv a => do
      let k ← curv L a
      if k = .num then some .num else
      if len L a = some 1 then some k else
      if k = .convex then none else some .concave
  | .abs a => do
      let k ← curv L a
      if k = .num then some .num else if k = .const ∨ k = .affine then some .convex else none

end CvxVerif.Expr
