import CvxVerif.Spec.Expr
import Mathlib.Tactic.Linarith
import Mathlib.Tactic.Ring
import Mathlib.Algebra.Order.Field.Rat

/-! Helper lemmas for the curvature-soundness theorem of the modeling expression language. -/
namespace CvxVerif.Expr

/-- the assignment `t·ρ1 + (1-t)·ρ2` -/
def mix (t : Rat) (ρ1 ρ2 : Env) : Env := fun i k => t * ρ1 i k + (1 - t) * ρ2 i k

/-- what a curvature class promises about the three values `x1 = f(ρ1)`, `x2 = f(ρ2)`, `xt = f(t·ρ1+(1-t)·ρ2)` -/
def Rel (t : Rat) : Curv → Rat → Rat → Rat → Prop
  | .num, x1, x2, xt => x1 = xt ∧ x2 = xt
  | .const, x1, x2, xt => x1 = xt ∧ x2 = xt
  | .affine, x1, x2, xt => xt = t * x1 + (1 - t) * x2
  | .convex, x1, x2, xt => xt ≤ t * x1 + (1 - t) * x2
  | .concave, x1, x2, xt => t * x1 + (1 - t) * x2 ≤ xt

variable {t : Rat}

theorem Rel.toConvex {c : Curv} {x1 x2 xt : Rat} (h : Rel t c x1 x2 xt) (hc : c ≠ .concave) : Rel t .convex x1 x2 xt := by
  cases c <;> simp only [Rel] at * <;> first | (obtain ⟨h1, h2⟩ := h; subst h1; subst h2; ring_nf; exact le_refl _) | exact le_of_eq h | exact h | exact absurd rfl hc

theorem Rel.toConcave {c : Curv} {x1 x2 xt : Rat} (h : Rel t c x1 x2 xt) (hc : c ≠ .convex) : Rel t .concave x1 x2 xt := by
  cases c <;> simp only [Rel] at * <;> first | (obtain ⟨h1, h2⟩ := h; subst h1; subst h2; ring_nf; exact le_refl _) | exact le_of_eq h.symm | exact h | exact absurd rfl hc

theorem Rel.flip {c : Curv} {x1 x2 xt : Rat} (h : Rel t c x1 x2 xt) : Rel t c.flip (-x1) (-x2) (-xt) := by
  cases c <;> simp only [Rel, Curv.flip] at * <;> first | (obtain ⟨h1, h2⟩ := h; subst h1; subst h2; exact ⟨rfl, rfl⟩) | linarith

theorem Rel.add {a b j : Curv} {x1 x2 xt y1 y2 yt : Rat} (hj : Curv.join a b = some j)
    (hx : Rel t a x1 x2 xt) (hy : Rel t b y1 y2 yt) : Rel t j (x1 + y1) (x2 + y2) (xt + yt) := by
  cases a <;> cases b <;> simp only [Curv.join, Option.some.injEq, reduceCtorEq] at hj <;> subst hj <;>
    simp only [Rel] at * <;> first | (obtain ⟨h1, h2⟩ := hx; obtain ⟨h3, h4⟩ := hy; subst h1; subst h2; subst h3; subst h4; exact ⟨rfl, rfl⟩) |
      (obtain ⟨h1, h2⟩ := hx; subst h1; subst h2; linarith) | (obtain ⟨h3, h4⟩ := hy; subst h3; subst h4; linarith) | linarith

theorem Rel.sub {a b j : Curv} {x1 x2 xt y1 y2 yt : Rat} (hj : Curv.join a b.flip = some j)
    (hx : Rel t a x1 x2 xt) (hy : Rel t b y1 y2 yt) : Rel t j (x1 - y1) (x2 - y2) (xt - yt) := by
  have := Rel.add hj hx hy.flip
  simpa only [sub_eq_add_neg] using this

theorem Rel.smul_nonneg {c : Curv} {x1 x2 xt : Rat} (r : Rat) (hr : 0 ≤ r) (h : Rel t c x1 x2 xt) : Rel t c (r * x1) (r * x2) (r * xt) := by
  cases c <;> simp only [Rel] at * <;> first | (obtain ⟨h1, h2⟩ := h; subst h1; subst h2; exact ⟨rfl, rfl⟩) | (subst h; ring) | nlinarith

theorem Rel.smul_neg {c : Curv} {x1 x2 xt : Rat} (r : Rat) (hr : r < 0) (h : Rel t c x1 x2 xt) : Rel t c.flip (r * x1) (r * x2) (r * xt) := by
  have h2 := (Rel.smul_nonneg (-r) (by linarith) h).flip
  simpa only [neg_mul, neg_neg] using h2

/-- classes closed under multiplication with any constant -/
theorem Rel.smul_lin {c : Curv} {x1 x2 xt : Rat} (r : Rat) (hc : c = .affine ∨ c = .const ∨ c = .num) (h : Rel t c x1 x2 xt) :
    Rel t c (r * x1) (r * x2) (r * xt) := by
  rcases hc with rfl | rfl | rfl <;> simp only [Rel] at * <;> first | (obtain ⟨h1, h2⟩ := h; subst h1; subst h2; exact ⟨rfl, rfl⟩) | (subst h; ring)

theorem Rel.zero_const (x1 x2 xt : Rat) : Rel t .const (0 * x1) (0 * x2) (0 * xt) := by
  simp only [Rel, zero_mul, and_self]

theorem Rel.sum_to {c : Curv} {f1 f2 ft : Nat → Rat} (h : ∀ j, Rel t c (f1 j) (f2 j) (ft j)) (n : Nat) :
    Rel t c (sumTo f1 n) (sumTo f2 n) (sumTo ft n) := by
  induction n with
  | zero => cases c <;> simp [Rel, sumTo]
  | succ n ih =>
    have hj : Curv.join c c = some c := by cases c <;> rfl
    exact Rel.add hj ih (h n)

theorem Rel.max2 (ht0 : 0 ≤ t) (ht1 : t ≤ 1) {x1 x2 xt y1 y2 yt : Rat} (hx : Rel t .convex x1 x2 xt) (hy : Rel t .convex y1 y2 yt) :
    Rel t .convex (max x1 y1) (max x2 y2) (max xt yt) := by
  simp only [Rel] at *
  have a1 : t * x1 ≤ t * max x1 y1 := mul_le_mul_of_nonneg_left (le_max_left _ _) ht0
  have a2 : (1 - t) * x2 ≤ (1 - t) * max x2 y2 := mul_le_mul_of_nonneg_left (le_max_left _ _) (by linarith)
  have b1 : t * y1 ≤ t * max x1 y1 := mul_le_mul_of_nonneg_left (le_max_right _ _) ht0
  have b2 : (1 - t) * y2 ≤ (1 - t) * max x2 y2 := mul_le_mul_of_nonneg_left (le_max_right _ _) (by linarith)
  exact max_le (by linarith) (by linarith)

theorem Rel.min2 (ht0 : 0 ≤ t) (ht1 : t ≤ 1) {x1 x2 xt y1 y2 yt : Rat} (hx : Rel t .concave x1 x2 xt) (hy : Rel t .concave y1 y2 yt) :
    Rel t .concave (min x1 y1) (min x2 y2) (min xt yt) := by
  simp only [Rel] at *
  have a1 : t * min x1 y1 ≤ t * x1 := mul_le_mul_of_nonneg_left (min_le_left _ _) ht0
  have a2 : (1 - t) * min x2 y2 ≤ (1 - t) * x2 := mul_le_mul_of_nonneg_left (min_le_left _ _) (by linarith)
  have b1 : t * min x1 y1 ≤ t * y1 := mul_le_mul_of_nonneg_left (min_le_right _ _) ht0
  have b2 : (1 - t) * min x2 y2 ≤ (1 - t) * y2 := mul_le_mul_of_nonneg_left (min_le_right _ _) (by linarith)
  exact le_min (by linarith) (by linarith)

theorem Rel.num_max2 {x1 x2 xt y1 y2 yt : Rat} (hx : Rel t .num x1 x2 xt) (hy : Rel t .num y1 y2 yt) :
    Rel t .num (max x1 y1) (max x2 y2) (max xt yt) := by
  simp only [Rel] at *; obtain ⟨h1, h2⟩ := hx; obtain ⟨h3, h4⟩ := hy; subst h1; subst h2; subst h3; subst h4; exact ⟨rfl, rfl⟩

theorem Rel.num_min2 {x1 x2 xt y1 y2 yt : Rat} (hx : Rel t .num x1 x2 xt) (hy : Rel t .num y1 y2 yt) :
    Rel t .num (min x1 y1) (min x2 y2) (min xt yt) := by
  simp only [Rel] at *; obtain ⟨h1, h2⟩ := hx; obtain ⟨h3, h4⟩ := hy; subst h1; subst h2; subst h3; subst h4; exact ⟨rfl, rfl⟩

theorem Rel.max_to (ht0 : 0 ≤ t) (ht1 : t ≤ 1) {f1 f2 ft : Nat → Rat} (h : ∀ j, Rel t .convex (f1 j) (f2 j) (ft j)) (n : Nat) :
    Rel t .convex (maxTo f1 n) (maxTo f2 n) (maxTo ft n) := by
  induction n with
  | zero => exact h 0
  | succ n ih => exact Rel.max2 ht0 ht1 ih (h (n + 1))

theorem Rel.min_to (ht0 : 0 ≤ t) (ht1 : t ≤ 1) {f1 f2 ft : Nat → Rat} (h : ∀ j, Rel t .concave (f1 j) (f2 j) (ft j)) (n : Nat) :
    Rel t .concave (minTo f1 n) (minTo f2 n) (minTo ft n) := by
  induction n with
  | zero => exact h 0
  | succ n ih => exact Rel.min2 ht0 ht1 ih (h (n + 1))

theorem Rel.num_max_to {f1 f2 ft : Nat → Rat} (h : ∀ j, Rel t .num (f1 j) (f2 j) (ft j)) (n : Nat) :
    Rel t .num (maxTo f1 n) (maxTo f2 n) (maxTo ft n) := by
  induction n with
  | zero => exact h 0
  | succ n ih => exact Rel.num_max2 ih (h (n + 1))

theorem Rel.num_min_to {f1 f2 ft : Nat → Rat} (h : ∀ j, Rel t .num (f1 j) (f2 j) (ft j)) (n : Nat) :
    Rel t .num (minTo f1 n) (minTo f2 n) (minTo ft n) := by
  induction n with
  | zero => exact h 0
  | succ n ih => exact Rel.num_min2 ih (h (n + 1))

theorem rabs_eq_max (a : Rat) : rabs a = max a (-a) := by
  unfold rabs; split
  · rw [max_eq_right]; linarith
  · rw [max_eq_left]; linarith

theorem Rel.abs (ht0 : 0 ≤ t) (ht1 : t ≤ 1) {c : Curv} {x1 x2 xt : Rat} (hc : c = .const ∨ c = .affine) (h : Rel t c x1 x2 xt) :
    Rel t .convex (rabs x1) (rabs x2) (rabs xt) := by
  simp only [rabs_eq_max]
  have h1 : Rel t .convex x1 x2 xt := h.toConvex (by rcases hc with rfl | rfl <;> simp)
  have h2 : Rel t .convex (-x1) (-x2) (-xt) := by
    have := h.flip
    rcases hc with rfl | rfl <;> exact this.toConvex (by simp [Curv.flip])
  exact Rel.max2 ht0 ht1 h1 h2

theorem Rel.num_abs {x1 x2 xt : Rat} (h : Rel t .num x1 x2 xt) : Rel t .num (rabs x1) (rabs x2) (rabs xt) := by
  simp only [Rel] at *; obtain ⟨h1, h2⟩ := h; subst h1; subst h2; exact ⟨rfl, rfl⟩

theorem Rel.div {c : Curv} {x1 x2 xt : Rat} (r : Rat) (h : Rel t c x1 x2 xt) :
    Rel t (if r < 0 then c.flip else c) (x1 / r) (x2 / r) (xt / r) := by
  simp only [div_eq_inv_mul]
  split
  · exact Rel.smul_neg _ (inv_lt_zero.mpr ‹r < 0›) h
  · exact Rel.smul_nonneg _ (inv_nonneg.mpr (not_lt.mp ‹¬ r < 0›)) h

end CvxVerif.Expr
