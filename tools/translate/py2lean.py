#!/usr/bin/env python3
"""py2lean: regenerates Lean modules under lean/CvxVerif/Gen/ from /repo/src/python/*.py (tie "T" of DESIGN.md).

  gen_options()  -> Gen/Options.lean   option handling of every solver entry point (C09)
  gen_dispatch() -> Gen/Dispatch.lean  kktsolver-name dispatch of every entry point (C06)
  gen_faults()   -> Gen/Faults.lean    try/except structure around every KKT call site (C10)
  gen_decide()   -> Gen/Decide.lean    stopping tests and result maps (C01-C04)

Anything outside the whitelisted grammar raises Untranslatable: a broken tie, handled by S4 of the check.
"""
import ast, os, sys, math, fractions

REPO = os.environ.get('VERIF_REPO', '/repo')
HERE = os.path.dirname(os.path.abspath(__file__))
GEN = os.path.join(os.path.dirname(os.path.dirname(HERE)), 'lean', 'CvxVerif', 'Gen')

class Untranslatable(Exception): pass

def load(mod):
    p = os.path.join(REPO, 'src', 'python', mod + '.py')
    return ast.parse(open(p).read(), p)

def find_func(tree, name, cls=None):
    body = tree.body
    if cls:
        for n in body:
            if isinstance(n, ast.ClassDef) and n.name == cls: body = n.body
    for n in body:
        if isinstance(n, ast.FunctionDef) and n.name == name: return n
    raise Untranslatable('function %s not found' % name)

def write_if_changed(path, text):
    os.makedirs(os.path.dirname(path), exist_ok=True)
    if os.path.exists(path) and open(path).read() == text: return False
    open(path, 'w').write(text); return True

def lstr(s): return '"' + s.replace('\\', '\\\\').replace('"', '\\"') + '"'
def llist(xs): return '[' + ', '.join(xs) + ']'

def rat_of_float(x):
    fr = fractions.Fraction(x)
    if fr.denominator == 1: return '(%d : Rat)' % fr.numerator
    return '((%d : Rat) / %d)' % (fr.numerator, fr.denominator)

def val_const(c):
    if c is None: return 'Val.none'
    if c is True or c is False: return '(Val.bool %s)' % ('true' if c else 'false')
    if isinstance(c, int): return '(Val.int (%d))' % c
    if isinstance(c, float):
        if math.isinf(c): return '(Val.inf %s)' % ('true' if c < 0 else 'false')
        if math.isnan(c): return 'Val.nan'
        return '(Val.flt %s)' % rat_of_float(c)
    if isinstance(c, str): return '(Val.str %s)' % lstr(c)
    raise Untranslatable('constant %r' % (c,))

CMPS = {ast.Lt: '.lt', ast.LtE: '.le', ast.Gt: '.gt', ast.GtE: '.ge'}

class ExprT:
    """translation of boolean tests over tracked variables into `M Bool` terms"""
    def __init__(self, tracked, tuples=None, params=None):
        self.tracked, self.tuples, self.params = tracked, tuples or {}, params or {}
    def names(self, node):
        return {n.id for n in ast.walk(node) if isinstance(n, ast.Name)}
    def closed(self, node):
        ok = set(self.tracked) | set(self.tuples) | {'isinstance', 'float', 'int', 'long', 'str', 'type', 'None', 'True', 'False'}
        return self.names(node) <= ok
    def val(self, node):
        if isinstance(node, ast.Name) and node.id in self.tracked: return node.id
        if isinstance(node, ast.Constant): return val_const(node.value)
        if isinstance(node, ast.UnaryOp) and isinstance(node.op, ast.USub) and isinstance(node.operand, ast.Constant):
            return val_const(-node.operand.value)
        raise Untranslatable('value expression ' + ast.dump(node))
    def types(self, node):
        if isinstance(node, ast.Name): return [node.id]
        if isinstance(node, ast.Tuple) and all(isinstance(e, ast.Name) for e in node.elts): return [e.id for e in node.elts]
        raise Untranslatable('type list ' + ast.dump(node))
    def strs(self, node):
        if isinstance(node, ast.Name) and node.id in self.tuples: return self.tuples[node.id]
        if isinstance(node, ast.Tuple) and all(isinstance(e, ast.Constant) and isinstance(e.value, str) for e in node.elts):
            return [e.value for e in node.elts]
        raise Untranslatable('string tuple ' + ast.dump(node))
    def test(self, node):
        src = ast.unparse(node)
        if src in self.params: return '(pure %s)' % self.params[src]
        if isinstance(node, ast.BoolOp):
            f = 'pyOr' if isinstance(node.op, ast.Or) else 'pyAnd'
            parts = [self.test(v) for v in node.values]
            out = parts[-1]
            for p in reversed(parts[:-1]): out = '(%s %s %s)' % (f, p, out)
            return out
        if isinstance(node, ast.UnaryOp) and isinstance(node.op, ast.Not):
            return '(pyNot %s)' % self.test(node.operand)
        if isinstance(node, ast.Constant) and isinstance(node.value, bool):
            return '(pure %s)' % ('true' if node.value else 'false')
        if isinstance(node, ast.IfExp):
            # `a if c else b` as a test: evaluate c, then only the chosen branch (Python's evaluation order)
            return '(do if (← %s) then %s else %s)' % (self.test(node.test), self.test(node.body), self.test(node.orelse))
        if isinstance(node, ast.Call) and isinstance(node.func, ast.Name) and node.func.id == 'isinstance' and len(node.args) == 2:
            return '(pure (Val.isInst %s %s))' % (llist(map(lstr, self.types(node.args[1]))), self.val(node.args[0]))
        if isinstance(node, ast.Compare) and len(node.ops) == 1:
            op, l, r = node.ops[0], node.left, node.comparators[0]
            if isinstance(op, (ast.Is, ast.IsNot)) and isinstance(r, ast.Constant) and r.value is None:
                t = '(Val.isNone %s)' % self.val(l)
                return '(pure %s)' % (t if isinstance(op, ast.Is) else '(!%s)' % t)
            if isinstance(op, ast.Is) and isinstance(l, ast.Call) and isinstance(l.func, ast.Name) and l.func.id == 'type' \
               and isinstance(r, ast.Name):
                return '(pure (Val.isInst %s %s))' % (llist([lstr(r.id)]), self.val(l.args[0]))
            if type(op) in CMPS:
                return '(Val.cmp %s %s %s)' % (CMPS[type(op)], self.val(l), self.val(r))
            if isinstance(op, (ast.In, ast.NotIn)):
                t = '(Val.inStrs %s %s)' % (self.val(l), llist(map(lstr, self.strs(r))))
                return '(pure %s)' % (t if isinstance(op, ast.In) else '(!%s)' % t)
            if isinstance(op, ast.Eq) and isinstance(r, ast.Constant) and isinstance(r.value, str):
                return '(pure (Val.inStrs %s %s))' % (self.val(l), llist([lstr(r.value)]))
        raise Untranslatable('test `%s`' % src)

def raise_class(stmt):
    if isinstance(stmt, ast.Raise) and stmt.exc is not None:
        e = stmt.exc
        if isinstance(e, ast.Call): e = e.func
        if isinstance(e, ast.Name): return e.id
    raise Untranslatable('raise statement ' + ast.dump(stmt))

def is_options_get(node):
    """X.get('key', default) on the name `options` -> (key, default node)"""
    if isinstance(node, ast.Call) and isinstance(node.func, ast.Attribute) and node.func.attr == 'get' \
       and isinstance(node.func.value, ast.Name) and node.func.value.id == 'options' and len(node.args) == 2 \
       and isinstance(node.args[0], ast.Constant):
        return node.args[0].value, node.args[1]
    return None

def is_kwargs_options(node):
    return ast.unparse(node).replace(' ', '') == "kwargs.get('options',globals()['options'])"

ENTRY = [('coneprog', 'conelp', None), ('coneprog', 'coneqp', None), ('coneprog', 'lp', None), ('coneprog', 'socp', None),
         ('coneprog', 'sdp', None), ('coneprog', 'qp', None), ('cvxprog', 'cpl', None), ('cvxprog', 'cp', None),
         ('cvxprog', 'gp', None), ('modeling', 'solve', 'op')]
EP_NAMES = {'conelp', 'coneqp', 'lp', 'socp', 'sdp', 'qp', 'cpl', 'cp', 'gp'}
DIMS_QS = "dims['q'] or dims['s']"

def option_stmts(fn):
    """returns (reads_kwargs, lean lines of the option-parsing function body, tracked vars)"""
    tracked, lines, reads = [], [], False
    ET = lambda: ExprT(tracked, params={DIMS_QS: 'coneQS'})
    def default_of(body, T):
        # body of `if T is None:` : `pass`, or `T = c`, or `if dims['q'] or dims['s']: T = a else: T = b`
        if len(body) == 1 and isinstance(body[0], ast.Pass): return None
        if len(body) == 1 and isinstance(body[0], ast.Assign) and ast.unparse(body[0].targets[0]) == T:
            return ExprT([]).val(body[0].value)
        if len(body) == 1 and isinstance(body[0], ast.If) and ast.unparse(body[0].test) == DIMS_QS:
            a, b = default_of(body[0].body, T), default_of(body[0].orelse, T)
            if a and b: return '(if coneQS then %s else %s)' % (a, b)
        raise Untranslatable('default block of %s: %s' % (T, ast.unparse(body)))
    for st in fn.body:
        if isinstance(st, ast.Assign) and len(st.targets) == 1 and isinstance(st.targets[0], ast.Name):
            T = st.targets[0].id
            if T == 'options':
                if is_kwargs_options(st.value): reads = True; continue
                raise Untranslatable('unexpected assignment to options: ' + ast.unparse(st))
            g = is_options_get(st.value)
            if g:
                lines.append('let %s := dget opt %s %s' % (T, lstr(g[0]), ExprT([]).val(g[1])))
                tracked.append(T)
                continue
            if T in tracked: raise Untranslatable('option variable reassigned: ' + ast.unparse(st))
        elif isinstance(st, ast.If):
            tnames = ET().names(st.test) & set(tracked)
            if not tnames: continue
            if not ET().closed(st.test): continue      # mixes options with other data: not option validation
            def has_raise(i):
                return any(isinstance(x, ast.Raise) for x in i.body) or \
                       any(isinstance(x, ast.Raise) or (isinstance(x, ast.If) and has_raise(x)) for x in i.orelse)
            if not has_raise(st): continue              # e.g. `if show_progress: print(...)`
            if len(st.body) == 1 and isinstance(st.body[0], ast.Raise) and not st.orelse:
                lines.append('raiseIf %s %s' % (ET().test(st.test), lstr(raise_class(st.body[0]))))
                continue
            # if T is None: <default> elif cond: raise
            t = st.test
            if isinstance(t, ast.Compare) and isinstance(t.ops[0], ast.Is) and isinstance(t.left, ast.Name) \
               and t.left.id in tracked and len(st.orelse) == 1 and isinstance(st.orelse[0], ast.If) \
               and len(st.orelse[0].body) == 1 and isinstance(st.orelse[0].body[0], ast.Raise) and not st.orelse[0].orelse:
                T = t.left.id
                inner = st.orelse[0]
                lines.append('raiseIf (pyAnd (pure (!(Val.isNone %s))) %s) %s' % (T, ET().test(inner.test),
                                                                                 lstr(raise_class(inner.body[0]))))
                d = default_of(st.body, T)
                if d: lines.append('let %s := if Val.isNone %s then %s else %s' % (T, T, d, T))
                continue
            raise Untranslatable('if statement over option variables: ' + ast.unparse(st)[:200])
        elif isinstance(st, ast.Try):
            # try: T = options[key]  except KeyError: <defaults>  else: if cond: raise
            b = st.body
            if len(b) == 1 and isinstance(b[0], ast.Assign) and isinstance(b[0].value, ast.Subscript) \
               and ast.unparse(b[0].value.value) == 'options' and isinstance(b[0].value.slice, ast.Constant):
                T, key = b[0].targets[0].id, b[0].value.slice.value
                if len(st.handlers) != 1 or ast.unparse(st.handlers[0].type) != 'KeyError':
                    raise Untranslatable('try around options[%r]' % key)
                d = default_of(st.handlers[0].body, T)
                tracked.append(T)
                if len(st.orelse) == 1 and isinstance(st.orelse[0], ast.If) and len(st.orelse[0].body) == 1 \
                   and isinstance(st.orelse[0].body[0], ast.Raise):
                    c = st.orelse[0]
                    lines.append('let %s ← (match opt %s with | Option.none => pure %s | some %s => do '
                                 'raiseIf %s %s; pure %s)' % (T, lstr(key), d, T, ET().test(c.test),
                                                              lstr(raise_class(c.body[0])), T))
                    continue
                raise Untranslatable('else block of try around options[%r]' % key)
    return reads, lines, tracked

def calls_to_entry_points(fn):
    out = []
    for n in ast.walk(fn):
        if isinstance(n, ast.Call):
            f = n.func
            name = f.id if isinstance(f, ast.Name) else (f.attr if isinstance(f, ast.Attribute) and
                                                         ast.unparse(f.value) in ('solvers', 'coneprog', 'cvxprog') else None)
            if name in EP_NAMES:
                how = 'none'
                for k in n.keywords:
                    if k.arg == 'options' and isinstance(k.value, ast.Name) and k.value.id == 'options': how = 'options'
                    if k.arg is None and isinstance(k.value, ast.Name) and k.value.id == 'kwargs': how = 'kwargs'
                out.append((name, how))
    return out

def main_loop_range(fn):
    """source text of the `range(...)` argument of the main `for iters in range(...)` loop, or ''"""
    for n in ast.walk(fn):
        if isinstance(n, ast.For) and isinstance(n.target, ast.Name) and n.target.id == 'iters' \
           and isinstance(n.iter, ast.Call) and ast.unparse(n.iter.func) == 'range' and len(n.iter.args) == 1:
            return ast.unparse(n.iter.args[0]).replace(' ', '')
    return ''

def gen_options():
    problems = []
    out = ['/- GENERATED by tools/translate/py2lean.py (gen_options) from /repo/src/python/{coneprog,cvxprog,modeling}.py. Do not edit. -/',
           'import CvxVerif.Model.PyVal', 'import CvxVerif.Model.OptFlow', 'set_option linter.unusedVariables false', 'namespace CvxVerif.Gen.Options',
           'open CvxVerif.Py CvxVerif.OptFlow', '']
    flows, parsers, loops = [], [], []
    for mod, name, cls in ENTRY:
        fn = find_func(load(mod), name, cls)
        # does the body consult `options` itself (other than handing it to another entry point)?
        handed = set()
        for n in ast.walk(fn):
            if isinstance(n, ast.Call):
                for k in n.keywords:
                    if k.arg == 'options' and isinstance(k.value, ast.Name): handed.add(id(k.value))
        uses = any(isinstance(n, ast.Name) and n.id == 'options' and isinstance(n.ctx, ast.Load) and id(n) not in handed
                   for n in ast.walk(fn))
        haskw = fn.args.kwarg is not None and fn.args.kwarg.arg == 'kwargs'
        reads, lines, tracked = option_stmts(fn)
        calls = calls_to_entry_points(fn)
        ep = 'op.solve' if cls else name
        flows.append('  { name := %s, hasKwargs := %s, reads := %s, usesOptions := %s, calls := %s }' % (
            lstr(ep), 'true' if haskw else 'false', 'true' if reads else 'false',
            'true' if uses else 'false',
            llist('(%s, %s)' % (lstr(c), lstr(h)) for c, h in calls)))
        if lines:
            out.append('/-- option validation of `%s.%s`, statement by statement -/' % (mod, name))
            out.append('def %s_opts (opt : String → Option Val) (coneQS : Bool) : M (List (String × Val)) := do' % name)
            out += ['  ' + l for l in lines]
            out.append('  pure %s' % llist('(%s, %s)' % (lstr(t), t) for t in tracked))
            out.append('')
            parsers.append((ep, name))
        r = main_loop_range(fn)
        if r: loops.append('(%s, %s)' % (lstr(ep), lstr(r)))
    out.append('def flows : List Flow := [\n' + ',\n'.join(flows) + ' ]\n')
    out.append('def parsers : List (String × ((String → Option Val) → Bool → M (List (String × Val)))) :=\n  '
               + llist('(%s, %s_opts)' % (lstr(ep), n) for ep, n in parsers) + '\n')
    out.append('/-- argument of `range(...)` in the main loop `for iters in range(...)` -/')
    out.append('def loopRange : List (String × String) := ' + llist(loops) + '\n')
    out.append('end CvxVerif.Gen.Options\n')
    write_if_changed(os.path.join(GEN, 'Options.lean'), '\n'.join(out))
    return problems


# ------------------------------------------------------------------------------------------------ C10
SOLVERS = [('coneprog', 'conelp'), ('coneprog', 'coneqp'), ('cvxprog', 'cpl')]

def kkt_callables(fn):
    """names that, when called, may run the KKT factorisation or a KKT solve:
    `kktsolver`, every name bound to `kktsolver(...)`, and every local function that calls one of them."""
    names = {'kktsolver': 'factor'}
    for n in ast.walk(fn):
        if isinstance(n, ast.Assign) and isinstance(n.value, ast.Call) and isinstance(n.value.func, ast.Name) \
           and n.value.func.id == 'kktsolver' and len(n.targets) == 1 and isinstance(n.targets[0], ast.Name):
            names[n.targets[0].id] = 'solve'
    changed = True
    while changed:
        changed = False
        for n in ast.walk(fn):
            if isinstance(n, ast.FunctionDef) and n is not fn and n.name not in names:
                if n.name == 'kktsolver': continue
                for c in ast.walk(n):
                    if isinstance(c, ast.Call) and isinstance(c.func, ast.Name) and names.get(c.func.id) == 'solve':
                        names[n.name] = 'solve'; changed = True; break
    return names

def handler_paths(body):
    """Enumerates the control paths of an exception-handler body.
    Returns a list of (guard, outcome): guard = list of (atom source text, polarity); outcome is one of
    'raise <Class>', 'return <status>', 'retry' (continue), 'recovered' (handler falls through: the solve goes on).
    Boolean flags assigned constants are tracked; a nested `try` contributes the atom 'retry-ok'."""
    results = []
    def const_of(node, env):
        if isinstance(node, ast.Constant): return node.value
        if isinstance(node, ast.Name) and node.id in env: return env[node.id]
        return None
    def run(stmts, env, guard):
        """returns list of (env, guard) states that fall through the statement list"""
        live = [(dict(env), list(guard))]
        for st in stmts:
            nxt = []
            for env1, g1 in live:
                if isinstance(st, ast.Raise):
                    results.append((g1, 'raise ' + raise_class(st))); continue
                if isinstance(st, ast.Return):
                    status = '?'
                    if isinstance(st.value, ast.Dict):
                        for k, v in zip(st.value.keys, st.value.values):
                            if isinstance(k, ast.Constant) and k.value == 'status':
                                c = const_of(v, env1)
                                status = c if isinstance(c, str) else ast.unparse(v)
                    results.append((g1, 'return ' + str(status))); continue
                if isinstance(st, ast.Continue):
                    results.append((g1, 'retry')); continue
                if isinstance(st, ast.Assign) and len(st.targets) == 1 and isinstance(st.targets[0], ast.Name) \
                   and isinstance(st.value, ast.Constant) and isinstance(st.value.value, (bool, str)):
                    e2 = dict(env1); e2[st.targets[0].id] = st.value.value
                    nxt.append((e2, g1)); continue
                if isinstance(st, ast.If) and not any(isinstance(x, (ast.Raise, ast.Return, ast.Continue, ast.Try, ast.Break))
                                                      or (isinstance(x, ast.Assign) and isinstance(x.value, ast.Constant)
                                                          and isinstance(x.value.value, (bool, str)))
                                                      for x in ast.walk(st)):
                    nxt.append((env1, g1)); continue       # e.g. `if show_progress: print(...)`
                if isinstance(st, ast.If):
                    t = st.test
                    known = None
                    if isinstance(t, ast.Name) and isinstance(env1.get(t.id), bool): known = env1[t.id]
                    if isinstance(t, ast.UnaryOp) and isinstance(t.op, ast.Not) and isinstance(t.operand, ast.Name) \
                       and isinstance(env1.get(t.operand.id), bool): known = not env1[t.operand.id]
                    if known is True: nxt += run(st.body, env1, g1)
                    elif known is False: nxt += run(st.orelse, env1, g1)
                    else:
                        src = ast.unparse(t)
                        nxt += run(st.body, env1, g1 + [(src, True)])
                        nxt += run(st.orelse, env1, g1 + [(src, False)])
                    continue
                if isinstance(st, ast.Try):
                    # a retry inside the handler: it either succeeds (body falls through) or its own handler runs
                    nxt += run([x for x in st.body if not isinstance(x, ast.Expr)], env1, g1 + [('retry-ok', True)])
                    for h in st.handlers:
                        nxt += run(h.body, env1, g1 + [('retry-ok', False)])
                    continue
                nxt.append((env1, g1))
            live = nxt
        return live
    for env1, g1 in run(body, {}, []):
        results.append((g1, 'recovered'))
    return results

def fault_sites(mod, name):
    fn = find_func(load(mod), name)
    names = kkt_callables(fn)
    sites = []
    outer_handler = [None]
    def handler_of(tr):
        for h in tr.handlers:
            if h.type is not None and ast.unparse(h.type) in ('ArithmeticError', 'Exception', '(ArithmeticError,)'):
                return h
            if h.type is None: return h
        return None
    def visit(stmts, in_loop, tries):
        for st in stmts:
            if isinstance(st, ast.FunctionDef): continue
            if isinstance(st, ast.Try):
                h = handler_of(st)
                visit(st.body, in_loop, tries + ([h] if h else []))
                for hh in st.handlers:
                    prev = outer_handler[0]
                    if outer_handler[0] is None: outer_handler[0] = hh
                    visit(hh.body, in_loop, tries)
                    outer_handler[0] = prev
                visit(st.orelse, in_loop, tries); visit(st.finalbody, in_loop, tries)
                continue
            if isinstance(st, (ast.For, ast.While)):
                loop = in_loop or (isinstance(st, ast.For) and isinstance(st.target, ast.Name) and st.target.id == 'iters')
                visit(st.body, loop, tries); visit(st.orelse, loop, tries)
                continue
            if isinstance(st, ast.If):
                scan_expr(st.test, in_loop, tries)
                visit(st.body, in_loop, tries); visit(st.orelse, in_loop, tries)
                continue
            if isinstance(st, ast.With):
                visit(st.body, in_loop, tries); continue
            scan_expr(st, in_loop, tries)
    def scan_expr(node, in_loop, tries):
        for c in ast.walk(node):
            if isinstance(c, ast.Call) and isinstance(c.func, ast.Name) and c.func.id in names:
                h = tries[-1] if tries else None
                leaves = handler_paths(h.body) if h else []
                reach = []
                if h is not None and outer_handler[0] is not None:
                    # the site is a retry inside another handler: what happens after its failure is decided by the
                    # continuation in the enclosing handler
                    leaves = [([a for a in g if a != ('retry-ok', False)], o) for g, o in handler_paths(outer_handler[0].body)
                              if ('retry-ok', False) in g]
                    # the retry is reached only under the guard of the enclosing handler's branch
                    reach = leaves[0][0] if leaves else []
                    for g, o in leaves:
                        reach = [a for a in reach if a in g]
                sites.append({'solver': name, 'line': c.lineno, 'callee': c.func.id, 'kind': names[c.func.id],
                              'in_loop': in_loop, 'protected': h is not None, 'leaves': leaves, 'reach': reach})
    visit(fn.body, False, [])
    return sites

def gen_faults():
    out = ['/- GENERATED by tools/translate/py2lean.py (gen_faults) from /repo/src/python/{coneprog,cvxprog}.py. Do not edit. -/',
           'import CvxVerif.Model.Faults', 'namespace CvxVerif.Gen.Faults', 'open CvxVerif.Faults', '']
    rows = []
    for mod, name in SOLVERS:
        for s in fault_sites(mod, name):
            leaves = llist('(%s, %s)' % (llist('(%s, %s)' % (lstr(a), 'true' if pol else 'false') for a, pol in g), lstr(o))
                           for g, o in s['leaves'])
            reach = llist('(%s, %s)' % (lstr(a), 'true' if pol else 'false') for a, pol in s['reach'])
            rows.append('  { solver := %s, line := %d, callee := %s, kind := %s, inLoop := %s, guarded := %s,\n    reach := %s,\n    leaves := %s }'
                        % (lstr(s['solver']), s['line'], lstr(s['callee']), lstr(s['kind']),
                           'true' if s['in_loop'] else 'false', 'true' if s['protected'] else 'false', reach, leaves))
    out.append('def sites : List Site := [\n' + ',\n'.join(rows) + ' ]\n')
    rr = []
    for mod, name in RAISE_FUNCS:
        for r in raise_sites(mod, name):
            rr.append('  { func := %s, line := %d, cls := %s, unbound := %s }' % (lstr(name), r['line'], lstr(r['cls']),
                                                                              llist(map(lstr, r['unbound']))))
    out.append('/-- every `raise` statement of the solver entry points -/')
    out.append('def raises : List RaiseSite := [\n' + ',\n'.join(rr) + ' ]\n')
    out.append('end CvxVerif.Gen.Faults\n')
    write_if_changed(os.path.join(GEN, 'Faults.lean'), '\n'.join(out))
    return []

# ----------------------------------------------------------------------------- raise statements (C10)
import builtins
_scope_cache = {}
def scope_info(fn, module_tree):
    """(module-level+builtin names, parameter names, [(name, line)] stores in the function's own scope)"""
    key = id(fn)
    if key in _scope_cache: return _scope_cache[key]
    glob = set(dir(builtins))
    for n in module_tree.body:
        if isinstance(n, (ast.FunctionDef, ast.ClassDef)): glob.add(n.name)
        elif isinstance(n, (ast.Import, ast.ImportFrom)):
            for a in n.names: glob.add((a.asname or a.name).split('.')[0])
        else:
            for x in ast.walk(n):
                if isinstance(x, ast.Name) and isinstance(x.ctx, ast.Store): glob.add(x.id)
    a = fn.args
    params = {arg.arg for arg in a.args + a.kwonlyargs + ([a.vararg] if a.vararg else []) + ([a.kwarg] if a.kwarg else [])}
    stores = []
    def collect(node):
        for ch in ast.iter_child_nodes(node):
            if isinstance(ch, (ast.ListComp, ast.SetComp, ast.DictComp, ast.GeneratorExp, ast.Lambda)): continue
            if isinstance(ch, (ast.FunctionDef, ast.ClassDef)):
                stores.append((ch.name, ch.lineno)); continue
            if isinstance(ch, ast.Name) and isinstance(ch.ctx, ast.Store): stores.append((ch.id, ch.lineno))
            if isinstance(ch, (ast.Import, ast.ImportFrom)):
                for al in ch.names: stores.append(((al.asname or al.name).split('.')[0], ch.lineno))
            if isinstance(ch, ast.ExceptHandler) and ch.name: stores.append((ch.name, ch.lineno))
            collect(ch)
    collect(fn)
    _scope_cache[key] = (glob, params, stores)
    return _scope_cache[key]

def bound_names(fn, module_tree, before_line=None):
    """names visible in `fn`: builtins, module level names, parameters, and names stored in the function's own scope
    (when `before_line` is given: only stores on earlier lines -- a name first stored later is a local that is still
    unbound there, and it shadows the module-level/builtin name)"""
    glob, params, stores = scope_info(fn, module_tree)
    if before_line is None:
        return glob | params | {n for n, _ in stores}
    early = {n for n, l in stores if l < before_line}
    late = {n for n, l in stores if l >= before_line} - early - params
    return (glob - late) | params | early

def raise_sites(mod, name):
    tree = load(mod)
    fn = find_func(tree, name)
    bound = bound_names(fn, tree)
    out = []
    node_in_fn_scope = [True]
    def walk(node, extra):
        for ch in ast.iter_child_nodes(node):
            if isinstance(ch, ast.FunctionDef) and ch is not fn:
                b2 = set(extra) | {a.arg for a in ch.args.args} | bound_names(ch, tree)
                node_in_fn_scope[0] = False
                walk(ch, b2)
                node_in_fn_scope[0] = True
                continue
            if isinstance(ch, ast.Raise) and ch.exc is not None:
                e = ch.exc.func if isinstance(ch.exc, ast.Call) else ch.exc
                cls = ast.unparse(e)
                used = set()
                def names_in(x, local):
                    if isinstance(x, (ast.ListComp, ast.SetComp, ast.GeneratorExp, ast.DictComp)):
                        loc = set(local)
                        for g in x.generators:
                            names_in(g.iter, loc)
                            for t in ast.walk(g.target):
                                if isinstance(t, ast.Name): loc.add(t.id)
                            for i in g.ifs: names_in(i, loc)
                        for part in ([x.elt] if hasattr(x, 'elt') else [x.key, x.value]): names_in(part, loc)
                        return
                    if isinstance(x, ast.Name) and x.id not in local: used.add(x.id)
                    for c2 in ast.iter_child_nodes(x): names_in(c2, local)
                names_in(ch.exc, set())
                vis = bound_names(fn, tree, before_line=ch.lineno) if node_in_fn_scope[0] else bound
                unbound = sorted(u for u in used if u not in vis and u not in extra)
                out.append({'func': name, 'line': ch.lineno, 'cls': cls, 'unbound': unbound})
            walk(ch, extra)
    walk(fn, set())
    return out

RAISE_FUNCS = [('coneprog', 'conelp'), ('coneprog', 'coneqp'), ('coneprog', 'lp'), ('coneprog', 'socp'), ('coneprog', 'sdp'),
               ('coneprog', 'qp'), ('cvxprog', 'cpl'), ('cvxprog', 'cp'), ('cvxprog', 'gp')]


# ------------------------------------------------------------------------------------------------ C06
DISPATCHERS = [('coneprog', 'conelp'), ('coneprog', 'coneqp'), ('cvxprog', 'cpl'), ('cvxprog', 'cp')]
WRAPPERS = [('coneprog', 'lp'), ('coneprog', 'socp'), ('coneprog', 'sdp'), ('coneprog', 'qp'), ('cvxprog', 'gp')]
DIMS_QS2 = "dims and (dims['q'] or dims['s'])"

def dispatch_body(fn):
    """Lean `do` lines of the kktsolver-name dispatch of one solver"""
    lines = []
    tuples = {}
    ET = lambda: ExprT(['kktsolver'], tuples=tuples, params={DIMS_QS2: 'coneQS', DIMS_QS: 'coneQS'})
    done_factor = False
    def name_default(body):
        # `kktsolver = 'x'`  or  if dims...: kktsolver = 'a' else: kktsolver = 'b'
        if len(body) == 1 and isinstance(body[0], ast.Assign) and ast.unparse(body[0].targets[0]) == 'kktsolver' \
           and isinstance(body[0].value, ast.Constant):
            return val_const(body[0].value.value)
        if len(body) == 1 and isinstance(body[0], ast.If) and ast.unparse(body[0].test) in (DIMS_QS, DIMS_QS2):
            return '(if coneQS then %s else %s)' % (name_default(body[0].body), name_default(body[0].orelse))
        raise Untranslatable('default kktsolver block: ' + ast.unparse(body)[:120])
    def factor_of(body):
        """first statement `factor = misc.kkt_xxx(args...)` -> (name, number of positional args)"""
        for st in body:
            if isinstance(st, ast.Assign) and ast.unparse(st.targets[0]) == 'factor' and isinstance(st.value, ast.Call):
                f = st.value.func
                nm = f.attr if isinstance(f, ast.Attribute) else ast.unparse(f)
                return nm, len(st.value.args)
        raise Untranslatable('no `factor = misc.kkt_*(...)` in branch: ' + ast.unparse(body)[:120])
    def chain(ifnode):
        nm, na = factor_of(ifnode.body)
        head = '(pyIf %s (pure (%s, %d)) ' % (ET().test(ifnode.test), lstr(nm), na)
        if len(ifnode.orelse) == 1 and isinstance(ifnode.orelse[0], ast.If):
            return head + chain(ifnode.orelse[0]) + ')'
        nm2, na2 = factor_of(ifnode.orelse)
        return head + '(pure (%s, %d)))' % (lstr(nm2), na2)
    for st in fn.body:
        if isinstance(st, ast.Assign) and len(st.targets) == 1 and isinstance(st.targets[0], ast.Name):
            T = st.targets[0].id
            if T == 'defaultsolvers' and isinstance(st.value, ast.Tuple):
                tuples[T] = [e.value for e in st.value.elts]; continue
            if T == 'kktsolver': raise Untranslatable('assignment to kktsolver: ' + ast.unparse(st)[:100])
        if isinstance(st, ast.If) and 'kktsolver' in ExprT([]).names(st.test):
            t = st.test
            src = ast.unparse(t)
            if src == 'kktsolver is None':
                lines.append('let kktsolver := if Val.isNone kktsolver then %s else kktsolver' % name_default(st.body)); continue
            if len(st.body) == 1 and isinstance(st.body[0], ast.Raise) and not st.orelse and ET().closed(t):
                lines.append('raiseIf %s %s' % (ET().test(t), lstr(raise_class(st.body[0])))); continue
            if isinstance(t, ast.Compare) and isinstance(t.ops[0], ast.In) and ast.unparse(t.left) == 'kktsolver' and not done_factor:
                inner = [x for x in st.body if isinstance(x, ast.If) and 'kktsolver' in ExprT([]).names(x.test)
                         and isinstance(x.test, ast.Compare) and isinstance(x.test.ops[0], ast.Eq)]
                if len(inner) != 1: raise Untranslatable('factory selection block: ' + ast.unparse(st)[:200])
                lines.append('pyIf %s %s (pure ("callable", 0))' % (ET().test(t), chain(inner[0])))
                done_factor = True
                continue
            # other tests on kktsolver (customkkt flags inside argument checks) are not part of the dispatch
    if not done_factor: raise Untranslatable('no factory selection found in ' + fn.name)
    return lines

def gen_dispatch():
    out = ['/- GENERATED by tools/translate/py2lean.py (gen_dispatch) from /repo/src/python/{coneprog,cvxprog,misc}.py. Do not edit. -/',
           'import CvxVerif.Model.PyVal', 'set_option linter.unusedVariables false', 'namespace CvxVerif.Gen.Dispatch',
           'open CvxVerif.Py', '']
    names = []
    for mod, name in DISPATCHERS:
        fn = find_func(load(mod), name)
        lines = dispatch_body(fn)
        out.append('/-- `kktsolver` handling of `%s.%s`: the built-in factory used (name, number of positional arguments), '
                   'or ("callable", 0) when the argument is called as a user KKT solver -/' % (mod, name))
        out.append('def %s_dispatch (kktsolver : Val) (coneQS : Bool) : M (String × Nat) := do' % name)
        out += ['  ' + l for l in lines]
        out.append('')
        names.append(name)
    out.append('def dispatchers : List (String × (Val → Bool → M (String × Nat))) :=\n  ' +
               llist('(%s, %s_dispatch)' % (lstr(n), n) for n in names) + '\n')
    # wrappers hand their kktsolver argument on unchanged
    ws = []
    for mod, name in WRAPPERS:
        fn = find_func(load(mod), name)
        for n in ast.walk(fn):
            if isinstance(n, ast.Call):
                f = n.func
                callee = f.id if isinstance(f, ast.Name) else None
                if callee in ('conelp', 'coneqp', 'cp', 'cpl'):
                    kw = [k for k in n.keywords if k.arg == 'kktsolver']
                    ok = bool(kw) and isinstance(kw[0].value, ast.Name) and kw[0].value.id == 'kktsolver'
                    ws.append('(%s, %s, %s)' % (lstr(name), lstr(callee), 'true' if ok else 'false'))
    out.append('/-- (wrapper, native solver it calls, passes `kktsolver = kktsolver` unchanged) -/')
    out.append('def wrappers : List (String × String × Bool) := ' + llist(ws) + '\n')
    # signatures of the factories in misc.py: maximal number of positional arguments
    sigs = []
    for n in load('misc').body:
        if isinstance(n, ast.FunctionDef) and n.name.startswith('kkt_'):
            sigs.append('(%s, %d)' % (lstr(n.name), len(n.args.args)))
    out.append('def factories : List (String × Nat) := ' + llist(sigs) + '\n')
    out.append('end CvxVerif.Gen.Dispatch\n')
    write_if_changed(os.path.join(GEN, 'Dispatch.lean'), '\n'.join(out))
    return []


# ------------------------------------------------------------------------------------------ C01..C04
SPACE = {'X': {'x', 'c', 'q', 'rx', 'hrx', 'dx', 'newx', 'x0'},
         'Y': {'y', 'b', 'ry', 'hry', 'dy'},
         'Z': {'z', 's', 'h', 'rz', 'hrz', 'dz', 'ds'}}
GEMV = {'Af': 'A', 'Gf': 'G', 'fA': 'A', 'fG': 'G', 'fP': 'P'}
COPY = {'xcopy', 'ycopy', 'blas.copy'}
AXPY = {'xaxpy', 'yaxpy', 'blas.axpy'}
SCAL = {'xscal', 'yscal', 'blas.scal'}
DOT = {'xdot': 'dX', 'ydot': 'dY', 'misc.sdot': 'dZ'}

def space_of(v):
    for sp, names in SPACE.items():
        if v in names: return sp
    raise Untranslatable('vector `%s` has no declared space' % v)

LEAN_KEYWORDS = {'by', 'at', 'from', 'fun', 'do', 'end', 'then', 'else', 'let', 'have', 'show', 'with', 'in', 'open', 'where'}
def lname(n): return n + '_' if n in LEAN_KEYWORDS else n

class StatT:
    """translates the statistics block of a solver main loop into a chain of Lean `let`s"""
    def __init__(self):
        self.lines, self.defined, self.free, self.optional = [], set(), [], set()
    def use(self, name):
        name = lname(name)
        if name not in self.defined and name not in self.free: self.free.append(name)
        return name
    def define(self, name): self.defined.add(lname(name))
    def sc(self, node):
        """scalar expression -> Lean term over K"""
        if isinstance(node, ast.Constant) and isinstance(node.value, (int, float)) and not isinstance(node.value, bool):
            fr = fractions.Fraction(node.value)
            return '(%d : K)' % fr.numerator if fr.denominator == 1 else '((%d : K) / %d)' % (fr.numerator, fr.denominator)
        if isinstance(node, ast.Name): return self.use(node.id)
        if isinstance(node, ast.UnaryOp) and isinstance(node.op, ast.USub): return '(-%s)' % self.sc(node.operand)
        if isinstance(node, ast.BinOp):
            op = {ast.Add: '+', ast.Sub: '-', ast.Mult: '*', ast.Div: '/'}.get(type(node.op))
            if op: return '(%s %s %s)' % (self.sc(node.left), op, self.sc(node.right))
        if isinstance(node, ast.Call):
            f = ast.unparse(node.func)
            if f == 'max' and len(node.args) == 2: return '(max %s %s)' % (self.sc(node.args[0]), self.sc(node.args[1]))
            if f == 'math.sqrt' and len(node.args) == 1 and isinstance(node.args[0], ast.Call):
                g = node.args[0]; gf = ast.unparse(g.func)
                if gf in ('xdot', 'ydot') and ast.unparse(g.args[0]) == ast.unparse(g.args[1]):
                    v = self.use(ast.unparse(g.args[0]))
                    return '(E.n%s %s)' % (space_of(v), v)
            if f in ('misc.snrm2', 'blas.nrm2'):
                v = self.use(ast.unparse(node.args[0]))
                # blas.nrm2 of a cone vector is the norm of the stored array (it reads the unreferenced triangles of 's' blocks), not the cone norm
                if f == 'blas.nrm2' and space_of(v) == 'Z': return '(E.nZraw %s)' % v
                return '(E.n%s %s)' % (space_of(v), v)
            if f in DOT:
                a, b = self.use(ast.unparse(node.args[0])), self.use(ast.unparse(node.args[1]))
                return '(E.%s %s %s)' % (DOT[f], a, b)
        raise Untranslatable('scalar expression `%s`' % ast.unparse(node))
    def cond(self, node):
        """test -> Lean Bool"""
        if isinstance(node, ast.Name) and node.id in getattr(self, 'boolnames', {}):
            return self.cond(self.boolnames[node.id])          # `converged = <test>` ... `if converged or ...`: inlined
        if isinstance(node, ast.BoolOp):
            op = ' && ' if isinstance(node.op, ast.And) else ' || '
            parts = [self.cond(v) for v in node.values]
            if isinstance(node.op, ast.And):
                parts = [q for q in parts if q != 'true'] or ['true']          # NaN guards (`v == v`) are true in the model
                if len(parts) == 1: return parts[0]
            return '(' + op.join(parts) + ')'
        if isinstance(node, ast.Compare) and len(node.ops) == 1:
            l, o, r = node.left, node.ops[0], node.comparators[0]
            if isinstance(o, (ast.IsNot, ast.Is)) and isinstance(r, ast.Constant) and r.value is None:
                t = '(Option.isSome %s)' % self.use(ast.unparse(l))
                return t if isinstance(o, ast.IsNot) else '(!%s)' % t
            if isinstance(o, ast.Eq) and isinstance(l, ast.Name) and isinstance(r, ast.Name) and l.id == r.id and l.id != 'iters':
                # `v == v`: the floating-point idiom for "v is not NaN"; NaN is outside the model (an ordered field), where the test is true
                self.use(l.id); return 'true'
            if isinstance(o, ast.Eq) and ast.unparse(l) == 'iters':
                return '(iters == %s)' % self.use(ast.unparse(r))
            if isinstance(o, ast.Eq) and isinstance(l, ast.Name) and isinstance(r, ast.Constant) and isinstance(r.value, (int, float)):
                return '(decide (%s = %s))' % (self.sc(l), self.sc(r))          # `pcost == 0.0`
            sym = {ast.Lt: '<', ast.LtE: '≤', ast.Gt: '>', ast.GtE: '≥'}.get(type(o))
            if sym:
                if isinstance(l, ast.Name) and l.id in self.optional:
                    return '(optCmp (fun a b => decide (a %s b)) %s %s)' % (sym, l.id, self.sc(r))
                return '(decide (%s %s %s))' % (self.sc(l), sym, self.sc(r))
        raise Untranslatable('condition `%s`' % ast.unparse(node))
    def kw(self, call, name, default):
        for k in call.keywords:
            if k.arg == name: return k.value
        return default
    def stmt(self, st):
        """returns False when the statement is not part of the statistics language"""
        if isinstance(st, ast.Assign) and len(st.targets) == 1 and isinstance(st.targets[0], ast.Name) and \
           isinstance(st.value, (ast.BoolOp, ast.Compare)):
            # a named test: kept by definition, inlined where it is used
            if not hasattr(self, 'boolnames'): self.boolnames = {}
            self.boolnames[st.targets[0].id] = st.value; return True
        if isinstance(st, ast.Expr) and isinstance(st.value, ast.Call):
            c = st.value; f = ast.unparse(c.func)
            if f in GEMV:
                u, v = ast.unparse(c.args[0]), ast.unparse(c.args[1])
                alpha = self.kw(c, 'alpha', None); beta = self.kw(c, 'beta', None); trans = self.kw(c, 'trans', None)
                a = self.sc(alpha) if alpha is not None else '(1 : K)'
                bta = self.sc(beta) if beta is not None else '(0 : K)'
                tr = trans.value if trans is not None else 'N'
                op = 'E.%s%s' % (GEMV[f], 't' if tr == 'T' and GEMV[f] != 'P' else '')
                self.use(u)
                if beta is None: old = '0'
                else: old = self.use(v)
                self.lines.append('let %s := %s • %s %s + %s • %s' % (v, a, op, u, bta, old)); self.define(v); return True
            if f in COPY:
                u, v = ast.unparse(c.args[0]), ast.unparse(c.args[1])
                self.lines.append('let %s := %s' % (v, self.use(u))); self.define(v); return True
            if f in AXPY:
                u, v = ast.unparse(c.args[0]), ast.unparse(c.args[1])
                alpha = self.kw(c, 'alpha', None)
                a = self.sc(alpha) if alpha is not None else '(1 : K)'
                self.lines.append('let %s := %s + %s • %s' % (v, self.use(v), a, self.use(u))); self.define(v); return True
            if f in SCAL:
                a, v = c.args[0], ast.unparse(c.args[1])
                self.lines.append('let %s := %s • %s' % (v, self.sc(a), self.use(v))); self.define(v); return True
            return False
        if isinstance(st, ast.Assign) and len(st.targets) == 1 and isinstance(st.targets[0], ast.Name) and isinstance(st.value, ast.Call) \
           and ast.unparse(st.value.func) in ('xnewcopy', 'ynewcopy') and len(st.value.args) == 1:
            v = st.targets[0].id
            self.lines.append('let %s := %s' % (v, self.use(ast.unparse(st.value.args[0])))); self.define(v); return True
        if isinstance(st, ast.Assign) and len(st.targets) == 1:
            t = st.targets[0]
            if isinstance(t, ast.Tuple) and isinstance(st.value, ast.Tuple):
                vals = [self.sc(v) for v in st.value.elts]
                for nm, v in zip(t.elts, vals):
                    self.lines.append('let %s : K := %s' % (lname(nm.id), v)); self.define(nm.id)
                return True
            if isinstance(t, ast.Name):
                self.lines.append('let %s : K := %s' % (lname(t.id), self.sc(st.value))); self.define(t.id); return True
            return False
        if isinstance(st, ast.If):
            # optional scalar: every branch assigns the same single name, to an expression or None
            def branch_val(body):
                if len(body) == 1 and isinstance(body[0], ast.Assign) and isinstance(body[0].targets[0], ast.Name):
                    v = body[0].value
                    if isinstance(v, ast.Constant) and v.value is None: return body[0].targets[0].id, 'none'
                    return body[0].targets[0].id, 'some ' + self.sc(v)
                if len(body) == 1 and isinstance(body[0], ast.If): return chain(body[0])
                return None
            def chain(i):
                a = branch_val(i.body); b = branch_val(i.orelse)
                if a is None or b is None or a[0] != b[0]: return None
                return a[0], 'if %s then %s else %s' % (self.cond(i.test), a[1], '(' + b[1] + ')' if b[1].startswith('if') else b[1])
            r = chain(st)
            if r is None: return False
            self.lines.append('let %s : Option K := %s' % r); self.define(r[0]); self.optional.add(r[0]); return True
        return False

def decision_tree(T, ifnode, epilogue_prefix=(), block=None):
    """the if/elif chain after the statistics -> Lean term of type `Branch`, plus the table of returns"""
    returns = []
    def leaf(body, pre):
        # walk a block: collect rescaling statements until a Return / nested If with returns
        pre = list(pre)
        env = {}
        last_assign = {}
        for st in body:
            if isinstance(st, ast.Return):
                idx = len(returns)
                d = {}
                if isinstance(st.value, ast.Dict):
                    for k, v in zip(st.value.keys, st.value.values):
                        src = ast.unparse(v)
                        if isinstance(v, ast.Name) and v.id in env: src = repr(env[v.id])
                        d[k.value] = src
                returns.append({'fields': d, 'epilogue': pre})
                return '(Branch.ret %d)' % idx
            if isinstance(st, ast.Assign) and isinstance(st.targets[0], ast.Name) and isinstance(st.value, ast.Constant) \
               and isinstance(st.value.value, str):
                env[st.targets[0].id] = st.value.value; continue
            if isinstance(st, ast.If):
                has_ret = any(isinstance(x, ast.Return) for x in ast.walk(st))
                sets_status = any(isinstance(x, ast.Assign) and ast.unparse(x.targets[0]) == 'status' for x in ast.walk(st))
                if has_ret:
                    a = leaf(st.body, pre); b = leaf(st.orelse, pre) if st.orelse else None
                    if b is None: raise Untranslatable('if without else around return')
                    return '(if %s then %s else %s)' % (T.cond(st.test), a, b)
                if sets_status:
                    # `if iters == MAXITERS: status = 'unknown' else: status = 'optimal'` followed by one return
                    rest = body[body.index(st) + 1:]
                    def with_status(blk):
                        e2 = [x for x in blk if isinstance(x, ast.Assign) and ast.unparse(x.targets[0]) == 'status']
                        return leaf([e2[0]] + rest, pre) if e2 else None
                    a, b = with_status(st.body), with_status(st.orelse)
                    if a is None or b is None: raise Untranslatable('status assignment block')
                    return '(if %s then %s else %s)' % (T.cond(st.test), a, b)
                continue
            if isinstance(st, ast.Expr) and isinstance(st.value, ast.Call):
                f = ast.unparse(st.value.func)
                if f in SCAL:
                    pre.append(('scal', ast.unparse(st.value.args[1]), st.value.args[0])); continue
                if f == 'print': continue
            if isinstance(st, ast.For) and any(ast.unparse(x).startswith('misc.symm(') for x in ast.walk(st) if isinstance(x, ast.Call)):
                # symmetrisation of the 's' blocks: record where the walk over the blocks starts and how it advances
                steps = {ast.unparse(x.target): ast.unparse(x.value) for x in ast.walk(st) if isinstance(x, ast.AugAssign) and isinstance(x.op, ast.Add)}
                for x in ast.walk(st):
                    if isinstance(x, ast.Call) and ast.unparse(x.func) == 'misc.symm':
                        off = ast.unparse(x.args[2]) if len(x.args) > 2 else ''
                        how = 'order %s over %s from %s step %s' % (ast.unparse(x.args[1]) if len(x.args) > 1 else '?', ast.unparse(st.iter), last_assign.get(off, '?'), steps.get(off, '?'))
                        # the walk must be unconditional: a `continue` / `break` / `if` inside the loop can skip a block or its offset update
                        cond = [y for y in ast.walk(st) if isinstance(y, (ast.Continue, ast.Break, ast.If, ast.IfExp, ast.While, ast.Try))]
                        if cond: how += ' [conditional: %s]' % '; '.join(sorted({ast.unparse(y.test) if hasattr(y, 'test') else type(y).__name__ for y in cond}))
                        pre.append(('symm', ast.unparse(x.args[0]), ast.parse(repr(how)).body[0].value))
                continue
            if isinstance(st, ast.Assign):
                if isinstance(st.targets[0], ast.Name): last_assign[st.targets[0].id] = ast.unparse(st.value)
                continue        # ind = ..., ts = misc.max_step(...), y, z = None, None
            raise Untranslatable('statement before return: ' + ast.unparse(st)[:80])
        return 'Branch.continue_'
    def chain(i):
        a = leaf(i.body, epilogue_prefix)
        if len(i.orelse) == 1 and isinstance(i.orelse[0], ast.If) and any(isinstance(x, ast.Return) for x in ast.walk(i.orelse[0])):
            b = chain(i.orelse[0])
        elif not i.orelse: b = 'Branch.continue_'
        else: b = leaf(i.orelse, epilogue_prefix)
        return '(if %s then %s else %s)' % (T.cond(i.test), a, b)
    if block is not None: return leaf(block, epilogue_prefix), returns          # a statement list ending in `return`s
    return chain(ifnode), returns

def mentions_tol(test, boolnames):
    """the stopping test: refers to the tolerances, directly or through a named test (`converged = ...`)"""
    for x in ast.walk(test):
        if isinstance(x, ast.Name) and x.id in ('FEASTOL', 'ABSTOL'): return True
        if isinstance(x, ast.Name) and x.id in boolnames and mentions_tol(boolnames[x.id], {k: v for k, v in boolnames.items() if k != x.id}): return True
    return False

def gen_decide_solver(mod, name, stats_fields):
    fn = find_func(load(mod), name)
    loop = None
    for n in fn.body:
        if isinstance(n, ast.For) and isinstance(n.target, ast.Name) and n.target.id == 'iters': loop = n
    if loop is None: raise Untranslatable('main loop of %s not found' % name)
    T = StatT()
    decision = None
    for st in loop.body:
        if isinstance(st, ast.If) and any(isinstance(x, ast.Return) for x in ast.walk(st)) and \
           mentions_tol(st.test, getattr(T, 'boolnames', {})):
            decision = st; break
        if isinstance(st, ast.If) and ast.unparse(st.test) == 'show_progress': continue
        if not T.stmt(st):
            raise Untranslatable('%s: statement in the statistics block: %s' % (name, ast.unparse(st)[:100]))
    if decision is None: raise Untranslatable('stopping test of %s not found' % name)
    stats_lines = list(T.lines)
    stats_fields[:] = [lname(f) for f in stats_fields]
    missing = [f for f in stats_fields if f not in T.defined]
    if missing: raise Untranslatable('%s: statistics %s are not computed in the block' % (name, missing))
    # decision uses its own translator state so that its free names become parameters
    D = StatT(); D.optional = set(T.optional); D.defined = set(); D.boolnames = dict(getattr(T, 'boolnames', {}))
    tree, returns = decision_tree(D, decision)
    return T, stats_lines, D, tree, returns

def gen_shortcut(fn):
    """coneqp without inequality constraints (`if cdim == 0:`): one KKT solve, then residuals, status and the result dictionary.
    The statements after the KKT solve are translated like a statistics block; the rest of the block like the returns of the main loop."""
    blk = [st for st in fn.body if isinstance(st, ast.If) and ast.unparse(st.test) == 'cdim == 0']
    if len(blk) != 1: raise Untranslatable('coneqp: expected exactly one top-level `if cdim == 0:` block, found %d' % len(blk))
    body = blk[0].body
    tries = [k for k, st in enumerate(body) if isinstance(st, ast.Try)]
    if not tries: raise Untranslatable('coneqp shortcut: the KKT solve (try: f3(x, y, ...)) was not found')
    solve = body[tries[-1]]
    call = [x for x in ast.walk(solve) if isinstance(x, ast.Call) and ast.unparse(x.func) == 'f3']
    if len(call) != 1 or [ast.unparse(a) for a in call[0].args[:2]] != ['x', 'y']:
        raise Untranslatable('coneqp shortcut: the KKT solve is not f3(x, y, ...)')
    T = StatT(); tail = None
    for k in range(tries[-1] + 1, len(body)):
        st = body[k]
        sets_status = isinstance(st, ast.If) and any(isinstance(x, ast.Assign) and ast.unparse(x.targets[0]) == 'status' for x in ast.walk(st))
        if sets_status or isinstance(st, ast.Return) or (isinstance(st, ast.If) and any(isinstance(x, ast.Return) for x in ast.walk(st))):
            tail = body[k:]; break
        if not T.stmt(st): raise Untranslatable('coneqp shortcut: statement after the KKT solve: %s' % ast.unparse(st)[:100])
    if tail is None: raise Untranslatable('coneqp shortcut: no return')
    fields = [f for f in ['pcost', 'pres', 'dres', 'relgap'] if f in T.defined]
    if fields[:3] != ['pcost', 'pres', 'dres']: raise Untranslatable('coneqp shortcut: pcost / pres / dres are not computed after the KKT solve')
    D = StatT(); D.optional = set(T.optional); D.boolnames = dict(getattr(T, 'boolnames', {}))
    tree, returns = decision_tree(D, None, block=tail)
    vec_free = [v for v in T.free if any(v in sp for sp in SPACE.values())]
    sc_free = [v for v in T.free if v not in vec_free]
    out = ['namespace shortcut', '/-- values read after the single KKT solve of the problem without inequalities: its solution `x`, `y`, the data, the normalisers -/',
           'structure In (K X Y Z : Type) where']
    for v in vec_free: out.append('  %s : %s' % (v, space_of(v)))
    for v in sc_free: out.append('  %s : K' % v)
    out.append('structure Stats (K : Type) where')
    for f in fields: out.append('  %s : %s' % (f, 'Option K' if f in T.optional else 'K'))
    out.append('/-- the statements between the KKT solve and the status decision, statement by statement -/')
    out.append('def stats (E : Env K X Y Z) (i : In K X Y Z) : Stats K :=')
    for v in vec_free + sc_free: out.append('  let %s := i.%s' % (v, v))
    for l in T.lines: out.append('  ' + l)
    out.append('  { ' + ', '.join('%s := %s' % (f, f) for f in fields) + ' }')
    dfree = sorted(D.free)
    out.append('inductive Branch where | ret (k : Nat) | continue_')
    out.append('deriving DecidableEq, Repr')
    out.append('/-- which `return` of the block is taken -/')
    out.append('def branch %s : Branch :=' % ' '.join('(%s : %s)' % (v, 'Option K' if v in D.optional else 'K') for v in dfree))
    out.append('  ' + tree)
    out.append('def branchParams : List String := ' + llist(map(lstr, dfree)))
    rows = []
    for r in returns:
        rows.append('  ' + llist('(%s, %s)' % (lstr(a), lstr(b)) for a, b in r['fields'].items()))
        if r['epilogue']: raise Untranslatable('coneqp shortcut: x or y is rescaled before the return')
    out.append('/-- for each `return`: the result dictionary (key, source expression) -/')
    out.append('def returns : List (List (String × String)) := [\n' + ',\n'.join(rows) + ' ]')
    out.append('end shortcut')
    return out

def gen_decide():
    out = ['/- GENERATED by tools/translate/py2lean.py (gen_decide) from /repo/src/python/coneprog.py. Do not edit. -/',
           'import CvxVerif.Model.LinAlgMachine', 'set_option linter.unusedVariables false',
           'namespace CvxVerif.Gen.Decide', 'open CvxVerif.LAM', '']
    for mod, name, stats_fields in [('coneprog', 'conelp', ['pcost', 'dcost', 'relgap', 'pres', 'dres', 'pinfres', 'dinfres', 'cx', 'by', 'hz', 'hresx', 'hresy', 'hresz', 'resx', 'resy', 'resz']),
                                    ('coneprog', 'coneqp', ['pcost', 'dcost', 'relgap', 'pres', 'dres', 'resx', 'resy', 'resz'])]:
        T, stats_lines, D, tree, returns = gen_decide_solver(mod, name, stats_fields)
        vec_free = [v for v in T.free if any(v in s for s in SPACE.values())]
        sc_free = [v for v in T.free if v not in vec_free]
        out.append('namespace %s' % name)
        out.append('section')
        out.append('variable {K X Y Z : Type} [Field K] [LinearOrder K] [IsStrictOrderedRing K]')
        out.append('  [AddCommGroup X] [Module K X] [AddCommGroup Y] [Module K Y] [AddCommGroup Z] [Module K Z]')
        out.append('/-- values read by the statistics block: iterates, data, work vectors, scalars -/')
        out.append('structure In (K X Y Z : Type) where')
        for v in vec_free: out.append('  %s : %s' % (v, space_of(v)))
        for v in sc_free: out.append('  %s : K' % v)
        opt = [f for f in stats_fields if f in T.optional]
        out.append('structure Stats (K : Type) where')
        for f in stats_fields: out.append('  %s : %s' % (f, 'Option K' if f in T.optional else 'K'))
        out.append('/-- the statistics block of the main loop of `%s`, statement by statement -/' % name)
        out.append('def stats (E : Env K X Y Z) (i : In K X Y Z) : Stats K :=')
        for v in vec_free + sc_free: out.append('  let %s := i.%s' % (v, v))
        for l in stats_lines: out.append('  ' + l)
        out.append('  { ' + ', '.join('%s := %s' % (f, f) for f in stats_fields) + ' }')
        # the normalisers resx0, resy0, resz0 of the residuals (assigned once, before the main loop)
        fn_ = find_func(load(mod), name)
        NT = StatT(); nlines = []
        for nm in ('resx0', 'resy0', 'resz0'):
            asg = [st for st in fn_.body if isinstance(st, ast.Assign) and isinstance(st.targets[0], ast.Name) and st.targets[0].id == nm]
            if len(asg) != 1: raise Untranslatable('%s: expected exactly one top-level assignment to %s, found %d' % (name, nm, len(asg)))
            nlines.append((nm, NT.sc(asg[0].value)))
        nfree = list(NT.free)
        out.append('/-- the normalisers of the residuals, as assigned before the main loop of `%s` -/' % name)
        for nm, term in nlines:
            out.append('def %sDef (E : Env K X Y Z) %s : K := %s' % (nm, ' '.join('(%s : %s)' % (v, space_of(v)) for v in nfree), term))
        out.append('def normaliserArgs : List String := ' + llist(map(lstr, nfree)))
        # decision
        dfree = sorted(v for v in D.free if v not in ('iters',))
        params = []
        for v in dfree:
            params.append('(%s : %s)' % (v, 'Nat' if v == 'MAXITERS' else ('Option K' if v in D.optional else 'K')))
        out.append('inductive Branch where | ret (k : Nat) | continue_')
        out.append('deriving DecidableEq, Repr')
        out.append('/-- the stopping test that follows the statistics; `ret k` = the k-th `return` of the block -/')
        out.append('def branch %s (iters : Nat) : Branch :=' % ' '.join(params))
        out.append('  ' + tree)
        out.append('def branchParams : List String := ' + llist(map(lstr, dfree)))
        # returns: field maps and epilogues
        rows = []
        for k, r in enumerate(returns):
            fields = llist('(%s, %s)' % (lstr(a), lstr(b)) for a, b in r['fields'].items())
            epi = llist('(%s, %s, %s)' % (lstr(kind), lstr(v), (lstr(e.value) if isinstance(e, ast.Constant) and isinstance(e.value, str) else lstr(ast.unparse(e))) if e is not None else lstr(''))
                        for kind, v, e in r['epilogue'])
            rows.append('  (%s, %s)' % (fields, epi))
        out.append('/-- for each `return`: the result dictionary (key, source expression) and the in-place rescalings that precede it -/')
        out.append('def returns : List (List (String × String) × List (String × String × String)) := [\n' + ',\n'.join(rows) + ' ]')
        # executable epilogues: scaling factors applied to x, y, s, z before return k
        for k, r in enumerate(returns):
            ET2 = StatT()
            lines = []
            for kind, v, e in r['epilogue']:
                if kind == 'scal': lines.append('let %s := %s • %s' % (v, ET2.sc(e), ET2.use(v)))
            used = [v for v in ['x', 'y', 's', 'z'] if v in ET2.free or any(l.startswith('let %s ' % v) for l in lines)]
            scal_free = sorted(v for v in ET2.free if v not in ('x', 'y', 's', 'z'))
            out.append('/-- in-place rescaling of the iterates before `return` number %d -/' % k)
            out.append('def epilogue%d (x : X) (y : Y) (s z : Z) %s : X × Y × Z × Z :=' % (k, ' '.join('(%s : K)' % v for v in scal_free)))
            for l in lines: out.append('  ' + l)
            out.append('  (x, y, s, z)')
            out.append('def epilogue%dParams : List String := %s' % (k, llist(map(lstr, scal_free))))
        if name == 'coneqp': out += gen_shortcut(fn_)
        out.append('end')
        out.append('end %s\n' % name)
    out.append('end CvxVerif.Gen.Decide\n')
    write_if_changed(os.path.join(GEN, 'Decide.lean'), '\n'.join(out))
    return []

def gen_decide_nl():
    """stopping test and result dictionary of cvxprog.cpl (the statistics block itself works on slices of s, z and on user callbacks
    and is tied by recomputation in tools/corr/c04.py)"""
    fn = find_func(load('cvxprog'), 'cpl')
    loop = None
    for n in fn.body:
        if isinstance(n, ast.For) and isinstance(n.target, ast.Name) and n.target.id == 'iters': loop = n
    if loop is None: raise Untranslatable('main loop of cpl not found')
    decision = None
    bn = {}          # named tests (`converged = ...`) seen before the stopping test
    for st in loop.body:
        if isinstance(st, ast.Assign) and len(st.targets) == 1 and isinstance(st.targets[0], ast.Name) and isinstance(st.value, (ast.BoolOp, ast.Compare)):
            bn[st.targets[0].id] = st.value
        if isinstance(st, ast.If) and any(isinstance(x, ast.Return) for x in ast.walk(st)) and mentions_tol(st.test, bn):
            decision = st; break
    if decision is None: raise Untranslatable('stopping test of cpl not found')
    # relgap is the optional scalar of the statistics block: confirm it is assigned None somewhere before the test
    opt = set()
    for st in loop.body:
        if st is decision: break
        for x in ast.walk(st):
            if isinstance(x, ast.Assign) and isinstance(x.value, ast.Constant) and x.value.value is None and isinstance(x.targets[0], ast.Name):
                opt.add(x.targets[0].id)
    D = StatT(); D.optional = set(opt); D.defined = set(); D.boolnames = dict(bn)
    tree, returns = decision_tree(D, decision)
    dfree = sorted(v for v in D.free if v not in ('iters',))
    params = ['(%s : %s)' % (v, 'Nat' if v == 'MAXITERS' else ('Option K' if v in D.optional else 'K')) for v in dfree]
    out = ['/- GENERATED by tools/translate/py2lean.py (gen_decide_nl) from /repo/src/python/cvxprog.py. Do not edit. -/',
           'import CvxVerif.Model.LinAlgMachine', 'set_option linter.unusedVariables false',
           'namespace CvxVerif.Gen.DecideNL', 'open CvxVerif.LAM', '', 'namespace cpl', 'section',
           'variable {K : Type} [Field K] [LinearOrder K] [IsStrictOrderedRing K]',
           'inductive Branch where | ret (k : Nat) | continue_', 'deriving DecidableEq, Repr',
           '/-- the stopping test of the main loop of `cpl`; `ret k` = the k-th `return` of the block -/',
           'def branch %s (iters : Nat) : Branch :=' % ' '.join(params), '  ' + tree,
           'def branchParams : List String := ' + llist(map(lstr, dfree))]
    rows = []
    for k, r in enumerate(returns):
        fields = llist('(%s, %s)' % (lstr(a), lstr(b)) for a, b in r['fields'].items())
        epi = llist('(%s, %s, %s)' % (lstr(kind), lstr(v), (lstr(e.value) if isinstance(e, ast.Constant) and isinstance(e.value, str) else lstr(ast.unparse(e))) if e is not None else lstr('')) for kind, v, e in r['epilogue'])
        rows.append('  (%s, %s)' % (fields, epi))
    out.append('/-- for each `return`: the result dictionary (key, source expression) and the in-place operations that precede it -/')
    out.append('def returns : List (List (String × String) × List (String × String × String)) := [\n' + ',\n'.join(rows) + ' ]')
    # the local aliases used by the dictionary (sl, zl = s[mnl:], z[mnl:])
    al = []
    for st in ast.walk(decision):
        if isinstance(st, ast.Assign) and isinstance(st.targets[0], ast.Tuple) and isinstance(st.value, ast.Tuple):
            for a, b in zip(st.targets[0].elts, st.value.elts): al.append('(%s, %s)' % (lstr(ast.unparse(a)), lstr(ast.unparse(b))))
    out.append('def aliases : List (String × String) := ' + llist(al))
    # the relative gap that the stopping test reads: the if / elif / else chain that assigns `relgap` in the statistics block
    chain = None
    for st in loop.body:
        if st is decision: break
        if isinstance(st, ast.If) and any(isinstance(x, ast.Assign) and isinstance(x.targets[0], ast.Name) and x.targets[0].id == 'relgap' for x in ast.walk(st)):
            chain = st
    if chain is None: raise Untranslatable('cpl: the statement that assigns relgap before the stopping test was not found')
    R = StatT()
    if not R.stmt(chain) or len(R.lines) != 1 or not R.lines[0].startswith('let relgap : Option K := '):
        raise Untranslatable('cpl: relgap is not assigned by a plain if / elif / else chain: `%s`' % ast.unparse(chain)[:80])
    rfree = sorted(R.free)
    out.append('/-- `relgap` as assigned in the statistics block of `cpl` -/')
    out.append('def relgapDef %s : Option K := %s' % (' '.join('(%s : K)' % v for v in rfree), R.lines[0][len('let relgap : Option K := '):]))
    out.append('def relgapParams : List String := ' + llist(map(lstr, rfree)))
    out += ['end', 'end cpl', '', 'end CvxVerif.Gen.DecideNL', '']
    write_if_changed(os.path.join(GEN, 'DecideNL.lean'), '\n'.join(out))
    return []

if __name__ == '__main__':
    which = sys.argv[1:] or ['options']
    for w in which:
        globals()['gen_' + w]()
        print('generated', w)
