"""C19, LAPACK and generic-product wrappers: grammar-based argument fuzzing in the guard-page build.

The keyword lists, argument formats and option characters of every wrapper are read from /repo/src/C/lapack.c on every run; calls are
generated from them (matrices of plausible and implausible shapes and typecodes, small integers for every integer keyword, every option
character) and executed in a crash-safe worker whose allocator puts a PROT_NONE page right after every buffer.  A call must either raise
or return; a fault is an access outside the buffers of its arguments."""
import os, re, json, random, subprocess, sys
import vlib

SKIP = {'larfg', 'larfx'}          # scalar-reflector helpers with in/out scalar conventions of their own

def signatures():
    s = open(os.path.join(vlib.REPO, 'src', 'C', 'lapack.c')).read()
    funcs = re.findall(r'static PyObject\*\s*(\w+)\(PyObject \*self, PyObject \*args,\s*PyObject \*kwrds\)\s*\{(.*?)\n\}', s, flags=re.S)
    out = {}
    for name, body in funcs:
        kw = re.search(r'char \*kwlist\[\] = \{(.*?)NULL\}', body, flags=re.S)
        if not kw or name in SKIP: continue
        names = re.findall(r'"(\w+)"', kw.group(1))
        fm = re.findall(r'PyArg_ParseTupleAndKeywords\(args, kwrds,\s*"([^"]*)"', body)
        if not fm: continue
        fmt = [f for f in fm if 'C' in f or 'c' not in f]
        fmt = (fmt[0] if fmt else fm[0]).replace('|', '')
        req = fm[0].index('|') if '|' in fm[0] else len(fmt)
        chars = {k: re.findall(r"'(\w)'", v) for k, v in re.findall(r'err_char\("(\w+)",\s*"([^"]*)"\)', body)}
        if len(fmt) != len(names): continue
        out[name] = {'names': names, 'fmt': fmt, 'required': req, 'chars': chars}
    return out

INTVALS = [-1, 0, 0, 1, 1, 2, 2, 3, 3, 4, 5, 7]

def gen_case(rng, name, sig, cid):
    """a call description: every 'O' argument gets a matrix spec (tc, rows, cols) or None, ints and chars are given or omitted"""
    n = rng.choice([0, 1, 2, 3, 3, 4]); k = rng.choice([0, 1, 2, 3]); m = n if rng.random() < 0.6 else rng.choice([0, 1, 2, 3, 4, 5])
    tc = rng.choice('dz')
    def jitter(v): return v if rng.random() < 0.8 else max(0, v + rng.choice([-2, -1, 1, 2]))
    args = {}
    for pos, (an, f) in enumerate(zip(sig['names'], sig['fmt'])):
        required = pos < sig['required']
        if f == 'O':
            if not required and rng.random() < 0.5: continue
            if an in ('ipiv', 'jpvt'): spec = ['i', jitter(max(m, n)), 1]
            elif an in ('W', 'S', 'w'):
                spec = [('z' if (an == 'w' or (an == 'W' and name.startswith('gg'))) else 'd') if rng.random() < 0.9 else tc, jitter(max(m, n)), 1]
            elif an in ('tau', 'd', 'e', 'dl', 'du', 'du2', 'alpha', 'beta'):
                ln = {'tau': min(m, n), 'd': n, 'e': n - 1, 'dl': n - 1, 'du': n - 1, 'du2': n - 2, 'alpha': n, 'beta': n}[an]
                ttc = 'd' if (an == 'd' and name in ('ptsv', 'pttrf', 'pttrs')) else tc
                spec = [ttc, jitter(max(ln, 0)), 1]
            elif an == 'select': spec = None
            elif an in ('B', 'C', 'X'): spec = [tc if rng.random() < 0.93 else rng.choice('dzi'), jitter(max(m, n) if name in ('gels',) else n), jitter(k)]
            elif an in ('A', 'Ab') and name in ('gbsv', 'gbtrf', 'gbtrs', 'pbsv', 'pbtrf', 'pbtrs', 'tbtrs'):
                spec = [tc, jitter(rng.choice([1, 2, 3, 4, 5])), jitter(n)]
            else: spec = [tc if rng.random() < 0.93 else rng.choice('dzi'), jitter(m), jitter(n)]
            args[an] = {'mat': spec}
        elif f == 'i':
            if required or rng.random() < 0.3: args[an] = {'int': rng.choice(INTVALS)}
        elif f in 'cC':
            if required or rng.random() < 0.6:
                opts = sig['chars'].get(an) or ['N', 'L', 'U', 'T', 'C', 'V', 'A', 'S', 'O', 'I', 'R']
                args[an] = {'chr': rng.choice(opts) if rng.random() < 0.95 else 'X'}
        elif f == 'd':
            if required or rng.random() < 0.3: args[an] = {'flt': rng.choice([0.0, 1.0, -1.0, 2.5])}
    return {'kind': 'lapack', 'id': cid, 'routine': name, 'args': args, 'order': sig['names'][:sig['required']]}

class Worker:
    def __init__(self, build):
        self.build = build; self.p = None
    def start(self):
        self.p = subprocess.Popen(['/venv/bin/python', os.path.join(vlib.VERIF, 'tools', 'corr', 'c19_worker2.py'), self.build],
                                  stdin=subprocess.PIPE, stdout=subprocess.PIPE, stderr=subprocess.DEVNULL, text=True, bufsize=1)
    def run(self, case):
        if self.p is None or self.p.poll() is not None: self.start()
        try:
            self.p.stdin.write(json.dumps(case) + '\n'); self.p.stdin.flush()
        except BrokenPipeError:
            self.start(); self.p.stdin.write(json.dumps(case) + '\n'); self.p.stdin.flush()
        started = False
        while True:
            l = self.p.stdout.readline()
            if not l:
                rc = self.p.wait(); self.p = None
                return 'crash(signal %d)' % (-rc) if started else 'worker-died'
            l = l.strip()
            if l.startswith('START'): started = True
            if l.startswith('RESULT'):
                parts = l.split(' ')
                return 'ok' if parts[2] == 'ok' else parts[3]
    def close(self):
        if self.p and self.p.poll() is None:
            self.p.stdin.close(); self.p.wait()

def lapack_probes(ctx, rng, gb):
    sigs = signatures()
    per = 25 if ctx.quick() else 700
    w = Worker(gb)
    stat = {'ok': 0, 'exception': 0}
    cid = 3 * 10**6
    try:
        for name, sig in sorted(sigs.items()):
            for it in range(per):
                case = gen_case(rng, name, sig, cid); cid += 1
                res = w.run(case)
                if res.startswith('crash') or res == 'worker-died':
                    ctx.violation('c19:wrapper-out-of-bounds:lapack.' + name, 'lapack.%s(%s) touches memory outside its buffers (%s)' % (
                        name, ', '.join('%s=%s' % (k, list(v.values())[0]) for k, v in case['args'].items()), res), case)
                elif res == 'ok': stat['ok'] += 1
                else: stat['exception'] += 1
    finally:
        w.close()
    ctx.cov['lapack_probes'] = dict(stat, routines=len(sigs), per_routine=per)
    return stat['ok'] + stat['exception']
