import CvxVerif.Model.CertCheckNL
import CvxVerif.Model.Proto
open CvxVerif CvxVerif.Cert CvxVerif.Proto

def parseVec (s : String) : Option (List Rat) :=
  if s == "-" || s == "" then some [] else (s.splitOn ",").mapM parseRat

def parseCols (s : String) : Option (List (List Rat)) :=
  if s == "-" then some [] else (s.splitOn ";").mapM parseVec

def parseDims (s : String) : Option Dims :=
  match s.splitOn ":" with
  | [l, q, ss] => do
    let l ← l.toNat?
    let q ← natList? q
    let ss ← natList? ss
    pure ⟨l, q, ss⟩
  | _ => none

def kv (ws : List String) (k : String) : Option String :=
  (ws.find? (fun w => w.startsWith (k ++ "="))).map (fun w => (w.drop (k.length + 1)).toString)

structure DS where
  p : Option Problem := none
  P : List (List Rat) := []
  quads : List Quad := []

def getVec (ws : List String) (k : String) : Option (List Rat) := (kv ws k).bind parseVec

def stepLine (d : DS) (line : String) : DS × String :=
  let ws := words line
  match ws.head? with
  | some "prob" =>
    match (kv ws "dims").bind parseDims, getVec ws "c", (kv ws "G").bind parseCols, getVec ws "h",
          (kv ws "A").bind parseCols, getVec ws "b" with
    | some dm, some c, some G, some h, some A, some b =>
      ({ p := some ⟨dm, c, G, h, A, b⟩, P := ((kv ws "P").bind parseCols).getD [], quads := [] }, "ok")
    | _, _, _, _, _, _ => (d, "bad-op")
  | some "optimal" =>
    match d.p, getVec ws "x", getVec ws "s", getVec ws "y", getVec ws "z", getVec ws "tol" with
    | some p, some x, some s, some y, some z, some [ft, at_, rt] =>
      let r := residuals p x s y z
      (d, s!"ok={optimalOk p x s y z ft at_ rt} sIn={inCone p.d s} zIn={inCone p.d z} rx2={showRat r.rx2} ry2={showRat r.ry2} rz2={showRat r.rz2} c2={showRat r.c2} b2={showRat r.b2} h2={showRat r.h2} gap={showRat r.gap} pcost={showRat r.pcost} dcost={showRat r.dcost}")
    | _, _, _, _, _, _ => (d, "bad-op")
  | some "optimalqp" =>
    match d.p, getVec ws "x", getVec ws "s", getVec ws "y", getVec ws "z", getVec ws "tol" with
    | some p, some x, some s, some y, some z, some [ft, at_, rt] =>
      let r := residualsQP p d.P x s y z
      (d, s!"ok={optimalOkQP p d.P x s y z ft at_ rt} sIn={inCone p.d s} zIn={inCone p.d z} rx2={showRat r.rx2} ry2={showRat r.ry2} rz2={showRat r.rz2} c2={showRat r.q2} b2={showRat r.b2} h2={showRat r.h2} gap={showRat r.gap} pcost={showRat r.pcost} dcost={showRat r.dcost}")
    | _, _, _, _, _, _ => (d, "bad-op")
  | some "pinf" =>
    match d.p, getVec ws "y", getVec ws "z", getVec ws "tol" with
    | some p, some y, some z, some [ft, eps] =>
      let r := vadd (matTVecS p.d p.G z) (matTVec p.A y)
      (d, s!"ok={pinfOk p y z ft eps} zIn={inCone p.d z} t={showRat (sdot p.d p.h z + dot p.b y)} r2={showRat (dot r r)} c2={showRat (dot p.c p.c)}")
    | _, _, _, _ => (d, "bad-op")
  | some "dinf" =>
    match d.p, getVec ws "x", getVec ws "s", getVec ws "tol" with
    | some p, some x, some s, some [ft, eps] =>
      let r1 := vadd (matVec p.G x p.h.length) s
      let r2 := matVec p.A x p.b.length
      (d, s!"ok={dinfOk p x s ft eps} sIn={inCone p.d s} t={showRat (dot p.c x)} rz2={showRat (sdot p.d r1 r1)} ry2={showRat (dot r2 r2)} h2={showRat (sdot p.d p.h p.h)} b2={showRat (dot p.b p.b)}")
    | _, _, _, _ => (d, "bad-op")
  | some "quad" =>
    match (kv ws "Q").bind parseCols, getVec ws "q", (kv ws "r").bind parseRat with
    | some Q, some q, some r => ({ d with quads := d.quads ++ [⟨Q, q, r⟩] }, "ok")
    | _, _, _ => (d, "bad-op")
  | some "optimalcpl" =>
    match d.p, getVec ws "x0", getVec ws "x", getVec ws "snl", getVec ws "sl", getVec ws "y", getVec ws "znl", getVec ws "zl", getVec ws "tol" with
    | some p, some x0, some x, some snl, some sl, some y, some znl, some zl, some [ft, at_, rt] =>
      let r := residualsCpl p d.quads x0 x snl sl y znl zl
      (d, s!"ok={optimalOkCpl p d.quads x0 x snl sl y znl zl ft at_ rt} slIn={inCone p.d sl} zlIn={inCone p.d zl} rx2={showRat r.rx2} ry2={showRat r.ry2} rznl2={showRat r.rznl2} rzl2={showRat r.rzl2} pres02={showRat r.pres02} dres02={showRat r.dres02} gap={showRat r.gap} pcost={showRat r.pcost} dcost={showRat r.dcost}")
    | _, _, _, _, _, _, _, _, _ => (d, "bad-op")
  | some "optimalcp" =>
    match d.p, d.quads, getVec ws "x0", getVec ws "x", getVec ws "snl", getVec ws "sl", getVec ws "y", getVec ws "znl", getVec ws "zl" with
    | some p, f0 :: fs, some x0, some x, some snl, some sl, some y, some znl, some zl =>
      let r := residualsCp p f0 fs x0 x snl sl y znl zl
      (d, s!"ok=true slIn={inCone p.d sl} zlIn={inCone p.d zl} rx2={showRat r.rx2} ry2={showRat r.ry2} rznl2={showRat r.rznl2} rzl2={showRat r.rzl2} pres02={showRat r.pres02} dres02={showRat r.dres02} gap={showRat r.gap} pcost={showRat r.pcost} dcost={showRat r.dcost}")
    | _, _, _, _, _, _, _, _, _ => (d, "bad-op")
  | some "incone" =>
    match (kv ws "dims").bind parseDims, getVec ws "v" with
    | some dm, some v => (d, s!"{inCone dm v}")
    | _, _ => (d, "bad-op")
  | _ => (d, "bad-op")

def main : IO Unit := loop stepLine {}
