import CvxVerif.Gen.LapackDriver
import CvxVerif.Gen.BaseDriver
import CvxVerif.Gen.LapackFoot
import CvxVerif.Model.Proto
open CvxVerif CvxVerif.CWrap CvxVerif.Gen.Lapack CvxVerif.Gen.Base CvxVerif.Proto

def parseKv (kvs : List String) : (String → Int) :=
  let tbl : List (String × Int) := kvs.filterMap fun kv =>
    match kv.splitOn "=" with
    | [k, v] => v.toInt?.map fun n => (k, n)
    | _ => none
  fun k => match tbl.find? (·.1 == k) with | some p => p.2 | none => 0

/-- `lapack <routine> k=v ...` (booleans as 0/1): outcome of the translated checks;
    `foot <routine> k=v ...`: when the checks accept, whether the footprint specification holds of the call they pass on -/
def stepLine (u : Unit) (line : String) : Unit × String :=
  match words line with
  | "lapack" :: name :: kvs =>
    let kv := parseKv kvs
    let kb := fun k => kv k != 0
    match runLapack name kv kb with
    | none => (u, "no-routine")
    | some (.reject c) => (u, "reject " ++ c)
    | some .none => (u, "none")
    | some (.call vals) => (u, "call " ++ " ".intercalate ((callNamesL name).zip vals |>.map fun p => s!"{p.1}={p.2}"))
  | "base" :: name :: kvs =>
    let kv := parseKv kvs
    let kb := fun k => kv k != 0
    match runBase name kv kb with
    | none => (u, "no-routine")
    | some (.reject c) => (u, "reject " ++ c)
    | some .none => (u, "none")
    | some (.call vals) => (u, "call " ++ " ".intercalate ((callNamesB name).zip vals |>.map fun p => s!"{p.1}={p.2}"))
  | "foot" :: name :: kvs =>
    let kv := parseKv kvs
    let kb := fun k => kv k != 0
    match runLapack name kv kb with
    | some (.call vals) =>
      let fin := (callNamesL name).zip vals
      let gv := fun k => match fin.find? (·.1 == k) with | some p => p.2 | none => 0
      match footLapack name kv kb gv with
      | some b => (u, s!"foot {b}")
      | none => (u, "no-foot")
    | some _ => (u, "not-accepted")
    | none => (u, "no-routine")
  | _ => (u, "bad-op")

def main : IO Unit := loop stepLine ()
