import CvxVerif.Model.Dense
import CvxVerif.Model.Proto
open CvxVerif CvxVerif.Dense CvxVerif.Proto

structure DS where
  names : List (String × Nat) := []      -- variable name -> object id
  objs : List (Nat × Mat) := []
  next : Nat := 0

def DS.get (d : DS) (n : String) : Option (Nat × Mat) := do
  let p ← d.names.find? (·.1 == n)
  let o ← d.objs.find? (·.1 == p.2)
  pure (p.2, o.2)

def DS.bindNew (d : DS) (n : String) (A : Mat) : DS :=
  { names := (n, d.next) :: d.names.filter (·.1 != n), objs := (d.next, A) :: d.objs, next := d.next + 1 }

def DS.update (d : DS) (oid : Nat) (A : Mat) : DS :=
  { d with objs := d.objs.map fun o => if o.1 == oid then (oid, A) else o }

def parseTC (s : String) : Option TC := if s == "i" then some .i else if s == "d" then some .d else if s == "z" then some .z else none
def showTC : TC → String | .i => "i" | .d => "d" | .z => "z"

def parseNum (s : String) : Option Num :=
  match s.splitOn ":" with
  | [a] => (parseRat a).map fun r => ⟨r, 0⟩
  | [a, b] => match parseRat a, parseRat b with
    | some r, some i => some ⟨r, i⟩
    | _, _ => none
  | _ => none

def showNum (v : Num) : String := if v.im == 0 then showRat v.re else s!"{showRat v.re}:{showRat v.im}"
def showMat (A : Mat) : String :=
  s!"mat {showTC A.tc} {A.nrows} {A.ncols} " ++ (if A.buf.isEmpty then "-" else ",".intercalate (A.buf.map showNum))
def showErr : Err → String
  | .index => "IndexError" | .type => "TypeError" | .value => "ValueError" | .notImpl => "NotImplemented"
  | .zeroDiv => "ZeroDivision" | .arith => "Arithmetic"

def optInt (s : String) : Option (Option Int) := if s == "_" then some none else s.toInt?.map some

/-- index tokens: `i5`  `s_a_b_c` (fields `_`-separated, `N` for None)  `l1,2`  `m1,2`  `D` (double matrix)  `O` (other) -/
def parseIdx (d : DS) (s : String) : Option Idx :=
  if s == "D" then some .dmat else if s == "O" then some .other
  -- `I<name>`: the matrix bound to `name` itself used as the index (an 'i' matrix is an index list, any other matrix is refused);
  -- value semantics: the index list is read before anything is assigned, also when the matrix indexes itself
  else if s.startsWith "I" then (d.get (s.drop 1).toString).map fun p =>
    match p.2.tc with
    | .i => Idx.imat (p.2.buf.map fun v => v.re.num)
    | _ => Idx.dmat
  else if s.startsWith "i" then (s.drop 1).toString.toInt?.map Idx.int
  else if s.startsWith "l" then (intList? (s.drop 1).toString).map Idx.list
  else if s.startsWith "m" then (intList? (s.drop 1).toString).map Idx.imat
  else if s.startsWith "s" then
    match (s.drop 1).toString.splitOn ";" with
    | [a, b, c] =>
      let f := fun (t : String) => if t == "N" then some (none : Option Int) else t.toInt?.map some
      match f a, f b, f c with
      | some a, some b, some c => some (.slice a b c)
      | _, _, _ => none
    | _ => none
  else none

/-- operand / value tokens: `n<id>;<num>` or `M<name>` -/
def parseOpd (d : DS) (s : String) : Option Opd :=
  if s.startsWith "M" then (d.get (s.drop 1).toString).map fun p => Opd.mat p.2
  else if s.startsWith "n" then
    match (s.drop 1).toString.splitOn ";" with
    | [i, v] => match i.toNat?, parseNum v with
      | some i, some v => some (.num i v)
      | _, _ => none
    | _ => none
  else none

def opdToVal : Opd → Val
  | .num i v => .num i v
  | .mat A => .mat A

def showRes : Res → String
  | .num tc v => s!"num {showTC tc} {showNum v}"
  | .mat A => showMat A
  | .err e => showErr e

def parseOp (s : String) : Option BinOp := if s == "add" then some .add else if s == "sub" then some .sub else if s == "mul" then some .mul else none

def stepLine (d : DS) (line : String) : DS × String :=
  match words line with
  | ["reset"] => ({}, "ok")
  | ["new", name, tc, m, n, vals] =>
    match parseTC tc, m.toNat?, n.toNat?, (if vals == "-" then some [] else (vals.splitOn ",").mapM parseNum) with
    | some tc, some m, some n, some vs => let A : Mat := ⟨m, n, tc, vs⟩; (d.bindNew name A, showMat A)
    | _, _, _, _ => (d, "bad-op")
  | ["alias", dst, src] =>
    match d.names.find? (·.1 == src) with
    | some p => ({ d with names := (dst, p.2) :: d.names.filter (·.1 != dst) }, "ok")
    | none => (d, "bad-op")
  | ["dump", name] => match d.get name with
    | some p => (d, showMat p.2)
    | none => (d, "bad-op")
  | ["same", a, b] => match d.get a, d.get b with
    | some p, some q => (d, toString (p.1 == q.1))
    | _, _ => (d, "bad-op")
  | ["get1", name, i] => match d.get name, parseIdx d i with
    | some p, some i => (d, showRes (getitem1 p.2 i))
    | _, _ => (d, "bad-op")
  | ["get2", name, i, j] => match d.get name, parseIdx d i, parseIdx d j with
    | some p, some i, some j => (d, showRes (getitem2 p.2 i j))
    | _, _, _ => (d, "bad-op")
  | ["set1", name, i, v] => match d.get name, parseIdx d i, parseOpd d v with
    | some p, some i, some v' =>
      let al := v.startsWith "M" && ((d.get (v.drop 1).toString).map (·.1) == some p.1)
      match setitem1 p.2 i (opdToVal v') al with
      | .ok A => (d.update p.1 A, showMat A)
      | .error e => (d, showErr e)
    | _, _, _ => (d, "bad-op")
  | ["set2", name, i, j, v] => match d.get name, parseIdx d i, parseIdx d j, parseOpd d v with
    | some p, some i, some j, some v' =>
      let al := v.startsWith "M" && ((d.get (v.drop 1).toString).map (·.1) == some p.1)
      match setitem2 p.2 i j (opdToVal v') al with
      | .ok A => (d.update p.1 A, showMat A)
      | .error e => (d, showErr e)
    | _, _, _, _ => (d, "bad-op")
  | ["bin", op, dst, a, b] => match parseOp op, parseOpd d a, parseOpd d b with
    | some op, some a, some b =>
      match binop op a b with
      | .ok A => (d.bindNew dst A, showMat A)
      | .error e => (d, showErr e)
    | _, _, _ => (d, "bad-op")
  | ["ibin", op, name, b] => match parseOp op, d.get name, parseOpd d b with
    | some op, some p, some b =>
      match ibinop op p.2 b with
      | .ok (A, true) => (d.update p.1 A, showMat A)
      | .ok (A, false) => (d.bindNew name A, "new " ++ showMat A)
      | .error e => (d, showErr e)
    | _, _, _ => (d, "bad-op")
  | ["neg", dst, a] => match d.get a with
    | some p => let A := neg p.2; (d.bindNew dst A, showMat A)
    | none => (d, "bad-op")
  | ["pos", dst, a] => match d.get a with
    | some p => (d.bindNew dst p.2, showMat p.2)
    | none => (d, "bad-op")
  | ["trans", dst, a] => match d.get a with
    | some p => let A := trans p.2; (d.bindNew dst A, showMat A)
    | none => (d, "bad-op")
  | ["ctrans", dst, a] => match d.get a with
    | some p => let A := ctrans p.2; (d.bindNew dst A, showMat A)
    | none => (d, "bad-op")
  | ["real", dst, a] => match d.get a with
    | some p => let A := real p.2; (d.bindNew dst A, showMat A)
    | none => (d, "bad-op")
  | ["imag", dst, a] => match d.get a with
    | some p => let A := imag p.2; (d.bindNew dst A, showMat A)
    | none => (d, "bad-op")
  | ["reshape", name, m, n] => match d.get name, m.toInt?, n.toInt? with
    | some p, some m, some n =>
      match reshape p.2 m n with
      | .ok A => (d.update p.1 A, showMat A)
      | .error e => (d, showErr e)
    | _, _, _ => (d, "bad-op")
  | ["div", dst, a, b] => match parseOpd d a, parseOpd d b with
    | some a, some b =>
      match divop a b with
      | .ok A => (d.bindNew dst A, showMat A)
      | .error e => (d, showErr e)
    | _, _ => (d, "bad-op")
  | ["rem", dst, a, b] => match parseOpd d a, parseOpd d b with
    | some a, some b =>
      match remop a b with
      | .ok A => (d.bindNew dst A, showMat A)
      | .error e => (d, showErr e)
    | _, _ => (d, "bad-op")
  | ["idiv", name, b] => match d.get name, parseOpd d b with
    | some p, some b =>
      match idivop p.2 b with
      | .ok A => (d.update p.1 A, showMat A)
      | .error e => (d, showErr e)
    | _, _ => (d, "bad-op")
  | ["irem", name, b] => match d.get name, parseOpd d b with
    | some p, some b =>
      match iremop p.2 b with
      | .ok A => (d.update p.1 A, showMat A)
      | .error e => (d, showErr e)
    | _, _ => (d, "bad-op")
  | ["pow", dst, a, e] => match d.get a, e.toInt? with
    | some p, some e =>
      match powop p.2 e with
      | .ok A => (d.bindNew dst A, showMat A)
      | .error e => (d, showErr e)
    | _, _ => (d, "bad-op")
  | ["abs", dst, a] => match d.get a with
    | some p => match absop p.2 with
      | some A => (d.bindNew dst A, showMat A)
      | none => (d, "inexact")
    | none => (d, "bad-op")
  | ["len", a] => match d.get a with
    | some p => (d, toString p.2.lgt)
    | none => (d, "bad-op")
  | ["bool", a] => match d.get a with
    | some p => (d, toString (nonzero p.2))
    | none => (d, "bad-op")
  | ["list", a] => match d.get a with
    | some p => (d, s!"list {showTC p.2.tc} " ++ (if p.2.buf.isEmpty then "-" else ",".intercalate (p.2.buf.map showNum)))
    | none => (d, "bad-op")
  | ["bmax", a] => match d.get a with
    | some p => (d, showRes (bextreme true p.2))
    | none => (d, "bad-op")
  | ["bmin", a] => match d.get a with
    | some p => (d, showRes (bextreme false p.2))
    | none => (d, "bad-op")
  | ["bsum", a] => match d.get a with
    | some p => (d, showRes (bsum p.2))
    | none => (d, "bad-op")
  | ["in", a, v] => match d.get a, parseNum v with
    | some p, some v => (d, toString (contains p.2 v))
    | _, _ => (d, "bad-op")
  | ["elem", op, dst, a, b] =>
    let op? : Option ElemOp := if op == "mul" then some .mul else if op == "div" then some .div else if op == "max" then some .max
      else if op == "min" then some .min else none
    match op?, parseOpd d a, parseOpd d b with
    | some op, some a, some b =>
      match elem op a b with
      | .mat A => (d.bindNew dst A, showMat A)
      | r => (d, showRes r)
    | _, _, _ => (d, "bad-op")
  | ["newcols", dst, tc, cols] =>
    -- cols: columns separated by `|`, entries `id;num` separated by `,`; `-` for an empty column
    let parseEnt := fun (t : String) => match (if t.startsWith "n" then (t.drop 1).toString else t).splitOn ";" with
      | [i, v] => match i.toNat?, parseNum v with
        | some i, some v => some (i, v)
        | _, _ => none
      | _ => none
    let cs := (if cols == "_" then [] else cols.splitOn "|").mapM fun c => if c == "-" then some [] else (c.splitOn ",").mapM parseEnt
    match cs with
    | some cs =>
      match fromCols (cs.map fun c => c.map (·.2)) (cs.flatten.map (·.1)) (parseTC tc) with
      | .ok A => (d.bindNew dst A, showMat A)
      | .error e => (d, showErr e)
    | none => (d, "bad-op")
  | ["slice", n, a, b, c] =>
    match n.toNat?, optInt a, optInt b, optInt c with
    | some n, some a, some b, some c =>
      match sliceIndices n a b c with
      | none => (d, "ValueError")
      | some (st, sp, len) => (d, showInts (sliceList st sp len))
    | _, _, _, _ => (d, "bad-op")
  | _ => (d, "bad-op")

def main : IO Unit := loop stepLine {}
