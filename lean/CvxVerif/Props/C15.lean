import CvxVerif.Proofs.Dense
/-!
# C15 — dense matrices behave like the column-major arrays the manual describes

Theorems about the reference model `Model/Dense.lean`, which the correspondence check `tools/corr/c15.py`
ties to `src/C/dense.c` operation by operation (typecode, size, full contents, exception class, identity).
-/
namespace CvxVerif.Dense

/-- **Index normalisation.** An integer index is accepted exactly when `−n ≤ i < n`; the accepted index is
`i` for `i ≥ 0` and `n + i` otherwise, and lies in `[0, n)`. Indices are unbounded integers. -/
theorem C15_normIdx (n : Nat) (i : Int) (k : Nat) :
    normIdx n i = some k ↔ (-(n : Int) ≤ i ∧ i < n ∧ (k : Int) = if 0 ≤ i then i else n + i) := by
  unfold normIdx outRng cwrap
  constructor
  · intro h
    split at h
    · cases h
    · rename_i hr
      simp only [Bool.or_eq_true, decide_eq_true_eq, not_or, Int.not_lt] at hr
      simp only [Option.some.injEq] at h
      subst h
      refine ⟨by omega, by omega, ?_⟩
      split <;> omega
  · rintro ⟨h1, h2, h3⟩
    have hr : (decide (i < -(n : Int)) || decide (i ≥ (n : Int))) = false := by
      simp only [Bool.or_eq_false_iff, decide_eq_false_iff_not]; omega
    simp only [hr, Bool.false_eq_true, if_false, Option.some.injEq]
    split at h3 <;> split <;> omega

theorem C15_normIdx_lt (n : Nat) (i : Int) (k : Nat) (h : normIdx n i = some k) : k < n := by
  have := (C15_normIdx n i k).mp h
  obtain ⟨h1, h2, h3⟩ := this
  split at h3 <;> omega

/-- **Slices stay in range.** Every index produced for `slice(a, b, c)` on a dimension of length `n` lies in
`[0, n)`, for all (unbounded, possibly negative or missing) `a, b, c ≠ 0`. -/
theorem C15_slice_in_range (n : Nat) (a b c : Option Int) (st sp : Int) (len : Nat)
    (h : sliceIndices n a b c = some (st, sp, len)) (t : Nat) (ht : t < len) :
    0 ≤ st + t * sp ∧ st + t * sp < n := by
  unfold sliceIndices at h
  simp only at h
  split at h
  · cases h
  · rename_i hstep
    have hsp0 : c.getD 1 ≠ 0 := by simpa using hstep
    simp only [Option.some.injEq, Prod.mk.injEq] at h
    obtain ⟨h1, h2, h3⟩ := h
    subst h2 h1
    have hlen : (t : Int) < sliceLen (sliceStart n (c.getD 1) a) (sliceStop n (c.getD 1) b) (c.getD 1) := by
      have := sliceLen_nonneg (sliceStart n (c.getD 1) a) (sliceStop n (c.getD 1) b) (c.getD 1) hsp0
      omega
    rcases Int.lt_or_gt_of_ne hsp0 with hneg | hpos
    · have e := slice_elems_neg _ _ _ hneg t hlen
      have s1 := sliceStart_neg n (c.getD 1) a (by omega) hneg
      have s2 := sliceStop_neg n (c.getD 1) b (by omega) hneg
      omega
    · have e := slice_elems_pos _ _ _ hpos t hlen
      have s1 := sliceStart_pos n (c.getD 1) a (by omega) hpos
      have s2 := sliceStop_pos n (c.getD 1) b (by omega) hpos
      omega

/-- **A positive-step slice is Python's `range(start, stop, step)`**: exactly the members of the arithmetic
progression from `start` that are below `stop`. -/
theorem C15_slice_is_range_pos (start stop step : Int) (hs : 0 < step) (x : Int) :
    (∃ t : Nat, (t : Int) < sliceLen start stop step ∧ x = start + t * step) ↔
      (start ≤ x ∧ x < stop ∧ (x - start) % step = 0) := by
  constructor
  · rintro ⟨t, ht, rfl⟩
    have e := slice_elems_pos start stop step hs t ht
    refine ⟨e.1, e.2, ?_⟩
    have : start + (t : Int) * step - start = (t : Int) * step := by omega
    rw [this]; exact Int.mul_emod_left _ _
  · rintro ⟨h1, h2, h3⟩
    have hk : (x - start) / step * step = x - start := Int.ediv_mul_cancel (Int.dvd_of_emod_eq_zero h3)
    have hk0 : 0 ≤ (x - start) / step := Int.ediv_nonneg (by omega) (by omega)
    refine ⟨((x - start) / step).toNat, ?_, ?_⟩
    · rw [Int.toNat_of_nonneg hk0]
      unfold sliceLen
      have hn : ¬ step < 0 := by omega
      simp only [hn, if_false]
      have hlt : start < stop := by omega
      simp only [hlt, if_true]
      have : (x - start) / step ≤ (stop - start - 1) / step := Int.ediv_le_ediv hs (by omega)
      omega
    · rw [Int.toNat_of_nonneg hk0, hk]; omega

/-- **Two-argument indexing.** For index lists `il`, `jl` (after `create_indexlist`), the result has shape
`|il| × |jl|` and its entry `(a, b)` (column-major position `a + b·|il|`) is `A[il a, jl b]` read from the
column-major buffer of `A`. -/
theorem C15_getitem2 (A : Mat) (I J : Idx) (il jl : List Int)
    (hI : indexList A.nrows I = .ok il) (hJ : indexList A.ncols J = .ok jl)
    (hnot : ¬ ∃ i j, I = .int i ∧ J = .int j) :
    ∃ R, getitem2 A I J = .mat R ∧ R.nrows = il.length ∧ R.ncols = jl.length ∧ R.tc = A.tc ∧ R.WF ∧
      ∀ a b (ha : a < il.length) (hb : b < jl.length),
        R.buf.getD (a + b * il.length) Num.zero =
          A.buf.getD (cwrap (il[a]) A.nrows + cwrap (jl[b]) A.ncols * A.nrows) Num.zero := by
  have key : getitem2 A I J = .mat ⟨il.length, jl.length, A.tc,
      jl.flatMap fun j => il.map fun i => A.buf.getD (cwrap i A.nrows + cwrap j A.ncols * A.nrows) Num.zero⟩ := by
    unfold getitem2
    split
    · rename_i i j; exact absurd ⟨i, j, rfl, rfl⟩ hnot
    · simp only [hI, hJ]
  refine ⟨_, key, rfl, rfl, rfl, ?_, ?_⟩
  · show (jl.flatMap fun j => il.map _).length = il.length * jl.length
    rw [length_flatMap_map, Nat.mul_comm]
  · intro a b ha hb
    exact getD_flatMap_map jl il _ a b ha hb _

/-- writes touch only the addressed positions -/
theorem C15_setitem_frame (buf : List Num) (pos : List Nat) (vals : List Num) (k : Nat) (hk : k ∉ pos) :
    (writeAll buf pos vals).getD k Num.zero = buf.getD k Num.zero := by
  unfold writeAll
  induction pos generalizing buf vals with
  | nil => simp
  | cons p ps ih =>
    cases vals with
    | nil => simp
    | cons v vs =>
      simp only [List.zip_cons_cons, List.foldl_cons]
      rw [ih _ _ (fun h => hk (List.mem_cons_of_mem _ h))]
      have hne : p ≠ k := fun h => hk (h ▸ List.mem_cons_self)
      simp [List.getD_eq_getElem?_getD, hne]

theorem writeAll_length (buf : List Num) (pos : List Nat) (vals : List Num) :
    (writeAll buf pos vals).length = buf.length := by
  unfold writeAll
  induction pos generalizing buf vals with
  | nil => simp
  | cons p ps ih =>
    cases vals with
    | nil => simp
    | cons v vs => simp only [List.zip_cons_cons, List.foldl_cons]; rw [ih]; simp

/-- **Read after write**: when the addressed positions are distinct (and in range), position `pos[k]` holds the
`k`-th value afterwards (with repeated positions the last write wins, as the loop order dictates). -/
theorem C15_setitem_get (buf : List Num) (pos : List Nat) (vals : List Num) (hnd : pos.Nodup)
    (hlen : vals.length = pos.length) (hin : ∀ p ∈ pos, p < buf.length) (k : Nat) (hk : k < pos.length) :
    (writeAll buf pos vals).getD (pos[k]) Num.zero = vals.getD k Num.zero := by
  induction pos generalizing buf vals k with
  | nil => simp at hk
  | cons p ps ih =>
    cases vals with
    | nil => simp at hlen
    | cons v vs =>
      have hnd' := (List.nodup_cons.mp hnd)
      have hstep : writeAll buf (p :: ps) (v :: vs) = writeAll (buf.set p v) ps vs := by
        simp [writeAll]
      rw [hstep]
      cases k with
      | zero =>
        simp only [List.getElem_cons_zero, List.getD_cons_zero]
        rw [C15_setitem_frame _ _ _ _ hnd'.1]
        have hp := hin p List.mem_cons_self
        simp [List.getD_eq_getElem?_getD, hp]
      | succ k =>
        simp only [List.getElem_cons_succ, List.getD_cons_succ]
        apply ih _ _ hnd'.2 (by simpa using hlen)
        · intro q hq; simp only [List.length_set]; exact hin q (List.mem_cons_of_mem _ hq)

/-- **Type promotion** is the join of the chain `i < d < z`. -/
theorem C15_promotion : ∀ a b c : TC,
    TC.join a a = a ∧ TC.join a b = TC.join b a ∧ TC.join (TC.join a b) c = TC.join a (TC.join b c) ∧
    TC.ofId (max a.id b.id) = TC.join a b := by
  intro a b c; cases a <;> cases b <;> cases c <;> decide

/-- **In-place operators never change the type**: `A op= y` is refused with `TypeError` whenever the result type
would differ from the type of `A`, and an accepted in-place result has the type and the shape of `A`. -/
theorem C15_inplace_iff (op : BinOp) (A : Mat) (y : Opd) :
    (A.tc.id < y.id → ibinop op A y = .error .type) ∧
    (∀ R, ibinop op A y = .ok (R, true) → R.tc = A.tc ∧ R.nrows = A.nrows ∧ R.ncols = A.ncols) := by
  constructor
  · intro h
    unfold ibinop
    have : (max A.tc.id y.id != A.tc.id) = true := by
      simp only [bne_iff_ne, ne_eq]; omega
    simp [this]
  · intro R h
    unfold ibinop at h
    simp only at h
    repeat' split at h
    all_goals first
      | (cases h; done)
      | (cases h; exact ⟨rfl, rfl, rfl⟩)
      | (simp only [Except.ok.injEq, Prod.mk.injEq] at h; obtain ⟨rfl, _⟩ := h; exact ⟨rfl, rfl, rfl⟩)
      | (simp at h)

/-- `A.size = (m, n)` keeps the buffer and requires `m·n = len(A)` -/
theorem C15_size_reshape (A : Mat) (m n : Int) (R : Mat) (h : reshape A m n = .ok R) :
    R.buf = A.buf ∧ R.tc = A.tc ∧ (R.nrows : Int) = m ∧ (R.ncols : Int) = n ∧ R.nrows * R.ncols = A.nrows * A.ncols := by
  unfold reshape at h
  split at h
  · cases h
  · rename_i h1
    split at h
    · cases h
    · rename_i h2
      simp only [Except.ok.injEq] at h
      subst h
      simp only [Bool.or_eq_true, decide_eq_true_eq, not_or, Int.not_lt] at h1
      simp only [bne_iff_ne, ne_eq, Decidable.not_not, Mat.lgt] at h2
      refine ⟨rfl, rfl, ?_, ?_, h2⟩
      · exact Int.toNat_of_nonneg h1.1
      · exact Int.toNat_of_nonneg h1.2

/-- non-vacuity: the hypotheses of `C15_getitem2` are met by a concrete matrix and index pair -/
example : getitem2 ⟨2, 3, .d, [⟨1,0⟩, ⟨2,0⟩, ⟨3,0⟩, ⟨4,0⟩, ⟨5,0⟩, ⟨6,0⟩]⟩ (.slice none none (some (-1))) (.list [2, -3]) =
    .mat ⟨2, 2, .d, [⟨6,0⟩, ⟨5,0⟩, ⟨2,0⟩, ⟨1,0⟩]⟩ := by decide +kernel

end CvxVerif.Dense
