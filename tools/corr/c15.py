"""C15: op-sequence correspondence between real cvxopt dense matrices and the Lean reference model (Model/Dense.lean)."""
import os, sys, random, json, itertools
from fractions import Fraction
import vlib

LEAN_TARGETS = ['CvxVerif.Props.C15', 'CvxVerif.Props.C15More']
MODEL_FILES = ['CvxVerif.Model.Dense', 'CvxVerif.Proofs.Dense']
LEVEL = 'proof'
TRUSTED = ['hand-written reference model lean/CvxVerif/Model/Dense.lean (column-major buffer, create_indexlist, matrix_subscr, '
           'matrix_ass_subscr, matrix_add/sub/mul_generic, transposes, size assignment), tied by this op-sequence correspondence: '
           'typecode, size, full contents, exception class and object identity after every operation']
ASSUMPTIONS = ["entries are small integers / dyadic rationals so that all arithmetic is exact in doubles; 'i' overflow and "
               'transcendental elementwise functions are outside the model']

BIG = [2**31 - 1, 2**31, 2**32, -2**32, 2**32 + 1, -2**31 - 1]

def frs(x):
    f = Fraction(x)
    return str(f.numerator) if f.denominator == 1 else '%d/%d' % (f.numerator, f.denominator)
def num_tok(v):
    if isinstance(v, complex): return frs(v.real) if v.imag == 0 and False else '%s:%s' % (frs(v.real), frs(v.imag)) if v.imag != 0 else frs(v.real)
    return frs(v)
def show_mat(A):
    vals = list(A)
    return 'mat %s %d %d %s' % (A.typecode, A.size[0], A.size[1], ','.join(num_tok(v) for v in vals) if vals else '-')
def show_res(r, matrix):
    if isinstance(r, matrix): return show_mat(r)
    if isinstance(r, bool): return 'bool'
    if isinstance(r, int): return 'num i %s' % frs(r)
    if isinstance(r, float): return 'num d %s' % frs(r)
    if isinstance(r, complex): return 'num z %s' % num_tok(r)
    return 'other:' + type(r).__name__
def exc_tok(e):
    return {'IndexError': 'IndexError', 'TypeError': 'TypeError', 'ValueError': 'ValueError',
            'NotImplementedError': 'NotImplemented'}.get(type(e).__name__, 'EXC:' + type(e).__name__)

class Gen:
    def __init__(self, rng, matrix):
        self.rng, self.matrix = rng, matrix
    def value(self, tc):
        r = self.rng
        if tc == 'i': return r.randint(-4, 4)
        if tc == 'd': return r.randint(-8, 8) / 2.0
        return complex(r.randint(-3, 3), r.randint(-3, 3))
    def mat(self, tc=None, m=None, n=None):
        r = self.rng
        tc = tc or r.choice('idz')
        m = r.randint(0, 4) if m is None else m
        n = r.randint(0, 4) if n is None else n
        vals = [self.value(tc) for _ in range(m * n)]
        return tc, m, n, vals
    def int_idx(self, dim):
        r = self.rng
        x = r.random()
        if x < 0.75: return r.randint(-dim - 2, dim + 1)
        if x < 0.9: return r.choice([-dim, dim - 1, dim, -dim - 1, 0, -1])
        return r.choice(BIG)
    def idx(self, dim):
        """(python object, token)"""
        r = self.rng
        k = r.random()
        if k < 0.3:
            i = self.int_idx(dim); return i, 'i%d' % i
        if k < 0.6:
            def b(): return None if r.random() < 0.3 else r.randint(-dim - 2, dim + 2)
            a, bb = b(), b()
            if r.random() < 0.45:
                # whole-axis slices in both directions (the shapes fast paths are written for)
                a, bb, c = r.choice([(None, None, None), (None, None, 1), (None, None, -1), (None, None, -1), (-1, None, -1), (0, None, 1), (None, None, 2)])
                tok = 's' + ';'.join('N' if v is None else str(v) for v in (a, bb, c))
                return slice(a, bb, c), tok
            c = r.choice([None, 1, -1, 2, -2, 3, -3, 0] if r.random() < 0.9 else [None, 1])
            tok = 's' + ';'.join('N' if v is None else str(v) for v in (a, bb, c))
            return slice(a, bb, c), tok
        if k < 0.8:
            l = [r.randint(-dim - 1, dim) if r.random() < 0.15 else (r.randint(-dim, dim - 1) if dim else 0) for _ in range(r.randint(1, 4))]
            return l, 'l' + ','.join(map(str, l))
        if k < 0.93:
            l = [(r.randint(-dim, dim - 1) if dim else 0) if r.random() < 0.9 else r.randint(-dim - 1, dim) for _ in range(r.randint(1, 4))]
            return self.matrix(l, tc='i'), 'm' + ','.join(map(str, l))
        if k < 0.97: return self.matrix([0.0]), 'D'
        return 'x', 'O'

def run_sequence(cvxopt, rng, nops, lines, obs):
    matrix = cvxopt.matrix
    g = Gen(rng, matrix)
    env = {}
    names = ['a', 'b', 'c', 'e', 'f']
    def emit(line, f):
        lines.append(line)
        try: obs.append(f())
        except Exception as ex: obs.append(exc_tok(ex))
    lines.append('reset'); obs.append('ok')
    def new(name, tc=None, m=None, n=None):
        tc, m, n, vals = g.mat(tc, m, n)
        def f():
            env[name] = matrix(vals, (m, n), tc); return show_mat(env[name])
        emit('new %s %s %d %d %s' % (name, tc, m, n, ','.join(num_tok(v) for v in vals) or '-'), f)
    for nm in names[:3]: new(nm)
    def opd(allow_num=True):
        if allow_num and rng.random() < 0.4:
            tc = rng.choice('idz'); v = g.value(tc)
            return v, 'n%d;%s' % ('idz'.index(tc), num_tok(v))
        nm = rng.choice(list(env))
        return env[nm], 'M' + nm
    for _ in range(nops):
        k = rng.random()
        nm = rng.choice(list(env))
        A = env[nm]
        if k < 0.18:
            I, t = g.idx(len(A))
            emit('get1 %s %s' % (nm, t), lambda: show_res(A[I], matrix))
        elif k < 0.36:
            I, ti = g.idx(A.size[0]); J, tj = g.idx(A.size[1])
            if rng.random() < 0.2:
                # both indices slices, each covering a whole axis or a contiguous range, in either direction: the block-copy cases
                def sl(dim):
                    a, b, c = rng.choice([(None, None, None), (None, None, -1), (-1, None, -1), (None, None, 1), (0, dim, 1), (1, None, 1), (None, None, 2)])
                    return slice(a, b, c), 's' + ';'.join('N' if v is None else str(v) for v in (a, b, c))
                (I, ti), (J, tj) = sl(A.size[0]), sl(A.size[1])
            emit('get2 %s %s %s' % (nm, ti, tj), lambda: show_res(A[I, J], matrix))
        elif k < 0.48:
            I, t = g.idx(len(A)); v, tv = opd()
            if rng.random() < 0.5 and not isinstance(v, (int, float, complex)):   # a right-hand side of matching length
                tc, m, n, vals = g.mat(rng.choice('idz'), rng.randint(0, 4), 1)
                nm2 = rng.choice(names); 
                def f0(): env[nm2] = matrix(vals, (m, n), tc); return show_mat(env[nm2])
                emit('new %s %s %d %d %s' % (nm2, tc, m, n, ','.join(num_tok(x) for x in vals) or '-'), f0)
                v, tv = env[nm2], 'M' + nm2
                if nm2 == nm: A = env[nm]
            def f():
                A[I] = v; return show_mat(A)
            emit('set1 %s %s %s' % (nm, t, tv), f)
        elif k < 0.60:
            I, ti = g.idx(A.size[0]); J, tj = g.idx(A.size[1]); v, tv = opd()
            def f():
                A[I, J] = v; return show_mat(A)
            emit('set2 %s %s %s %s' % (nm, ti, tj, tv), f)
        elif k < 0.72:
            op = rng.choice(['add', 'sub', 'mul'])
            x, tx = opd(); y, ty = opd()
            if op == 'mul' and rng.random() < 0.5:
                # a conformable matrix product of fresh operands: every pair of typecodes (the 'i' * 'i' product is cvxopt's own kernel, the
                # others go to BLAS after conversion), non-square shapes, several columns, empty inner dimension
                n1, n2 = rng.sample(names, 2)
                mm, kk, nn = rng.randint(0, 3), rng.randint(0, 4), rng.randint(0, 3)
                new(n1, rng.choice('iidz'), mm, kk); new(n2, rng.choice('iidz'), kk, nn)
                x, tx, y, ty = env[n1], 'M' + n1, env[n2], 'M' + n2
            if tx[0] == 'n' and ty[0] == 'n': continue
            dst = rng.choice(names)
            def f():
                r = {'add': lambda: x + y, 'sub': lambda: x - y, 'mul': lambda: x * y}[op]()
                env[dst] = r; return show_mat(r)
            emit('bin %s %s %s %s' % (op, dst, tx, ty), f)
        elif k < 0.82:
            op = rng.choice(['add', 'sub', 'mul'])
            y, ty = opd()
            def f():
                B = env[nm]
                if op == 'add': B += y
                elif op == 'sub': B -= y
                else: B *= y
                if B is not env[nm]:
                    env[nm] = B; return 'new ' + show_mat(B)
                return show_mat(B)
            emit('ibin %s %s %s' % (op, nm, ty), f)
        elif k < 0.86:
            dst = rng.choice(names)
            def f(): env[dst] = env[nm]; return 'ok'
            emit('alias %s %s' % (dst, nm), f)
        elif k < 0.90:
            dst = rng.choice(names); w = rng.choice(['neg', 'pos', 'trans', 'ctrans', 'real', 'imag'])
            def f():
                r = {'neg': lambda: -A, 'pos': lambda: +A, 'trans': lambda: A.trans() if rng.random() < 0.5 else A.T,
                     'ctrans': lambda: A.ctrans() if rng.random() < 0.5 else A.H, 'real': lambda: A.real(), 'imag': lambda: A.imag()}[w]()
                if r is A: raise RuntimeError('%s returned the same object' % w)
                env[dst] = r; return show_mat(r)
            emit('%s %s %s' % (w, dst, nm), f)
        elif k < 0.94:
            m, n = A.size
            cand = [(a, (m * n) // a) for a in range(1, m * n + 1) if (m * n) % a == 0] or [(0, rng.randint(0, 3)), (rng.randint(0, 3), 0)]
            mm, nn = rng.choice(cand + [(m + 1, n), (-1, -m * n)])
            def f(): A.size = (mm, nn); return show_mat(A)
            emit('reshape %s %d %d' % (nm, mm, nn), f)
        elif k < 0.97:
            new(rng.choice(names))
        else:
            other = rng.choice(list(env))
            emit('same %s %s' % (nm, other), lambda: str(env[nm] is env[other]).lower())
        # after every operation: every live name shows the model's content (aliasing!)
        for q in list(env):
            lines.append('dump ' + q); obs.append(show_mat(env[q]))

def correspond(ctx):
    cvxopt = vlib.use_build(ctx.build)
    rng = random.Random(ctx.seed * 2654435761 % (2**31) + 15)
    lines, obs = [], []
    nseq = 150 if ctx.quick() else 6000
    starts = []
    for s in range(nseq):
        starts.append(len(lines))
        run_sequence(cvxopt, rng, 14, lines, obs)
    # slices against Python's own semantics (exhaustive small box)
    sl_lines, sl_obs = [], []
    for n in range(0, 5):
        rngv = [None] + list(range(-n - 2, n + 3))
        for a in rngv:
            for b in rngv:
                for c in [None, 1, -1, 2, -2, 3, -3]:
                    sl_lines.append('slice %d %s %s %s' % (n, *('_' if v is None else str(v) for v in (a, b, c))))
                    sl_obs.append(','.join(map(str, range(*slice(a, b, c).indices(n)))) or '-')
    out = vlib.drive('C15', lines + sl_lines)
    dis = 0
    ops = 0
    for k, (l, o, m) in enumerate(zip(lines + sl_lines, obs + sl_obs, out)):
        if not l.startswith('dump'): ops += 1
        if o != m:
            dis += 1
            if dis <= 5:
                # the sequence that leads to the disagreement
                st = max(s for s in starts if s <= k) if k < len(lines) else k
                pre = [x for x in (lines + sl_lines)[st:k + 1] if not x.startswith('dump')]
                kind = l.split(' ')[0]
                ctx.violation('c15:%s:%s' % (kind, 'exception-class' if (o[:3] in ('Ind', 'Typ', 'Val', 'EXC', 'Not') or m[:3] in ('Ind', 'Typ', 'Val', 'Not')) else 'value'),
                              'dense matrix operation `%s`: implementation gives `%s`, reference model `%s`' % (l, o[:120], m[:120]),
                              {'sequence': pre, 'impl': o, 'model': m})
    ctx.cov.update({'evaluations': ops, 'distinct_nontrivial': len(set(l for l in lines if not l.startswith('dump') and not l.startswith('reset'))),
                    'rule': '%d op sequences of 14 operations over a heap of up to 5 named matrices (shapes 0..4 x 0..4, typecodes i/d/z): one- and '
                            'two-argument get/set with ints (in/out of range, +-2^31, 2^32), slices, lists, integer-matrix indices, bad index types; '
                            'binary and in-place + - * with numbers / 1x1 / matrices; unary, transposes, size assignment, aliasing; after every '
                            'operation all live matrices are compared; plus all slices over [-n-2, n+2]^2 x steps for n <= 4 against Python' % nseq,
                    'protocol_lines_compared': len(lines) + len(sl_lines), 'disagreements_checked': dis, 'slice_cases': len(sl_lines)})
    ctx.samples += [l for l in lines if not l.startswith('dump')][3:9]

def search(ctx, why): return
def replay(ctx, payload): correspond(ctx)
