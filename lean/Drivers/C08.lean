import CvxVerif.Model.Kernels
import CvxVerif.Model.Proto
open CvxVerif CvxVerif.Kernels CvxVerif.Proto

def pv (s : String) : Option (List Rat) := if s == "-" || s == "" then some [] else (s.splitOn ",").mapM parseRat
def pvs (s : String) : Option (List (List Rat)) := if s == "-" then some [] else (s.splitOn ";").mapM pv
def sv (l : List Rat) : String := if l.isEmpty then "-" else ",".intercalate (l.map showRat)
def pdims (s : String) : Option Dims :=
  match s.splitOn ":" with
  | [a, b, c, d] => do
    let a ← a.toNat?; let b ← b.toNat?; let c ← natList? c; let d ← natList? d
    pure ⟨a, b, c, d⟩
  | _ => none
def kv (ws : List String) (k : String) : Option String :=
  (ws.find? (fun w => w.startsWith (k ++ "="))).map fun w => (w.drop (k.length + 1)).toString

def stepLine (u : Unit) (line : String) : Unit × String :=
  let ws := words line
  let vec := fun k => (kv ws k).bind pv
  -- block-level packed storage: `packblk r=<rat> k=<order> x=<k*k entries>`, `unpackblk r=<rat> k=<order> x=<k(k+1)/2 entries>`
  match ws.head?, (kv ws "r").bind parseRat, (kv ws "k").bind (·.toNat?), vec "x" with
  | some "packblk", some r, some k, some x => (u, sv (packBlk r k x))
  | some "unpackblk", some r, some k, some x => (u, sv (unpackBlk r k x))
  | _, _, _, _ =>
  match ws.head?, (kv ws "dims").bind pdims with
  | some "sdot", some d => match vec "x", vec "y" with
    | some x, some y => (u, showRat (sdot d x y))
    | _, _ => (u, "bad-op")
  | some "symm", some d => match vec "x" with | some x => (u, sv (symm d x)) | none => (u, "bad-op")
  | some "trisc", some d => match vec "x" with | some x => (u, sv (trisc d x)) | none => (u, "bad-op")
  | some "triusc", some d => match vec "x" with | some x => (u, sv (triusc d x)) | none => (u, "bad-op")
  | some "sprod", some d => match vec "x", vec "y" with
    | some x, some y => (u, sv (sprod d y x))
    | _, _ => (u, "bad-op")
  | some "sproddiag", some d => match vec "x", vec "y" with
    | some x, some y => (u, sv (sprodDiag d y x))
    | _, _ => (u, "bad-op")
  | some "ssqr", some d => match vec "y" with | some y => (u, sv (ssqr d y)) | none => (u, "bad-op")
  | some "sinv", some d => match vec "x", vec "y" with
    | some x, some y => (u, sv (sinv d y x))
    | _, _ => (u, "bad-op")
  | some "scale", some d =>
    match vec "x", vec "d", vec "di", vec "beta", (kv ws "v").bind pvs, (kv ws "r").bind pvs, (kv ws "rti").bind pvs with
    | some x, some dd, some di, some be, some v, some r, some rti =>
      (u, sv (scale d ⟨dd, di, be, v, r, rti⟩ ((kv ws "trans") == some "T") ((kv ws "inverse") == some "I") x))
    | _, _, _, _, _, _, _ => (u, "bad-op")
  | _, _ => (u, "bad-op")

def main : IO Unit := loop stepLine ()
