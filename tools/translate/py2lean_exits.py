#!/usr/bin/env python3
"""Translator for the *exits* of the interior-point loops (coneprog.conelp, coneprog.coneqp, cvxprog.cpl): every `return {...}` inside
the main loop, with what happens to the iterates on the way out -- in-place rescalings (xscal / yscal / blas.scal), symmetrisation walks,
the definitions of the scalars the result dictionary reads (ts, tz, ...), and whether the return sits in an `except ArithmeticError`
handler (a failure exit) or in the stopping test (a normal exit) -> Gen/Exits.lean.  Also the blocks that push a starting point into
the cone (`a = 1.0 + t;  v[...] += a`) -> Gen/Exits.lean (`shifts`)."""
import ast, os, sys
sys.path.insert(0, os.path.dirname(os.path.abspath(__file__)))
import py2lean as P
from py2lean import Untranslatable, lstr, llist

def parents(tree):
    par = {}
    for n in ast.walk(tree):
        for ch in ast.iter_child_nodes(n): par[ch] = n
    return par

def block_of(par, node):
    """the statement list that directly contains `node`"""
    p = par[node]
    for fld in ('body', 'orelse', 'finalbody'):
        l = getattr(p, fld, None)
        if isinstance(l, list) and node in l: return l
    if isinstance(p, ast.Try):
        for h in p.handlers:
            if node in h.body: return h.body
    raise Untranslatable('return statement outside a statement list')

def describe_exit(solver, fn, par, ret):
    blk = block_of(par, ret)
    pre = blk[:blk.index(ret)]
    # an `if iters == MAXITERS: status = ... else: status = ...` / guarded block directly enclosing the return contributes its siblings too:
    # walk outwards while the enclosing statement is an `if` whose branch ends in this return
    stmts = list(pre)
    node = ret
    while isinstance(par[node], ast.If) and isinstance(par[par[node]], ast.If):
        q = par[node]; b2 = block_of(par, q)
        stmts = b2[:b2.index(q)] + stmts
        node = q
    node = ret
    failure = False
    guards = []
    while node is not fn:
        p = par[node]
        if isinstance(p, ast.ExceptHandler): failure = True
        if isinstance(p, ast.If): guards.append(ast.unparse(p.test))
        node = p
    if any('singular_kkt_matrix' in g for g in guards): failure = True
    scal, symm, defs, consts = [], [], {}, {}
    for st in stmts:
        if isinstance(st, ast.Expr) and isinstance(st.value, ast.Call):
            f = ast.unparse(st.value.func)
            if f in P.SCAL: scal.append((ast.unparse(st.value.args[1]), ast.unparse(st.value.args[0]))); continue
            if f == 'print': continue
            raise Untranslatable('%s exit at line %d: call `%s` before the return' % (solver, ret.lineno, ast.unparse(st)[:60]))
        if isinstance(st, ast.For):
            calls = [x for x in ast.walk(st) if isinstance(x, ast.Call)]
            if not all(ast.unparse(x.func) == 'misc.symm' for x in calls):
                raise Untranslatable('%s exit at line %d: loop `%s`' % (solver, ret.lineno, ast.unparse(st)[:60]))
            steps = {ast.unparse(x.target): ast.unparse(x.value) for x in ast.walk(st) if isinstance(x, ast.AugAssign) and isinstance(x.op, ast.Add)}
            cond = [y for y in ast.walk(st) if isinstance(y, (ast.Continue, ast.Break, ast.If, ast.IfExp, ast.While, ast.Try))]
            for x in calls:
                off = ast.unparse(x.args[2]) if len(x.args) > 2 else ''
                how = 'order %s over %s from %s step %s' % (ast.unparse(x.args[1]) if len(x.args) > 1 else '?', ast.unparse(st.iter), defs.get(off, '?'), steps.get(off, '?'))
                if cond: how += ' [conditional]'
                symm.append((ast.unparse(x.args[0]), how))
            continue
        if isinstance(st, ast.Assign):
            for t in st.targets:
                if isinstance(t, ast.Name):
                    defs[t.id] = ast.unparse(st.value)
                    if isinstance(st.value, ast.Constant) and isinstance(st.value.value, str): consts[t.id] = repr(st.value.value)
                elif isinstance(t, ast.Tuple) and isinstance(st.value, ast.Tuple) and len(t.elts) == len(st.value.elts):
                    for a, b in zip(t.elts, st.value.elts):
                        if isinstance(a, ast.Name): defs[a.id] = ast.unparse(b)
                else: raise Untranslatable('%s exit at line %d: assignment `%s`' % (solver, ret.lineno, ast.unparse(st)[:60]))
            continue
        if isinstance(st, ast.If):
            src = ast.unparse(st)
            if ast.unparse(st.test) == 'show_progress' and all(isinstance(x, ast.Expr) for x in st.body + st.orelse): continue
            # status selection `if iters == MAXITERS: ... status = 'unknown' else: ... status = 'optimal'` (prints allowed)
            ok = True
            for x in st.body + st.orelse:
                if isinstance(x, ast.Assign) and ast.unparse(x.targets[0]) == 'status': continue
                if isinstance(x, ast.If) and ast.unparse(x.test) == 'show_progress': continue
                ok = False
            if ok:
                vals = sorted({ast.unparse(x.value) for x in ast.walk(st) if isinstance(x, ast.Assign) and ast.unparse(x.targets[0]) == 'status'})
                consts['status'] = '|'.join(vals); continue
            raise Untranslatable('%s exit at line %d: conditional `%s` before the return' % (solver, ret.lineno, src[:60]))
        if isinstance(st, ast.Try) or isinstance(st, ast.Raise) or isinstance(st, ast.Pass): continue
        raise Untranslatable('%s exit at line %d: statement `%s`' % (solver, ret.lineno, ast.unparse(st)[:60]))
    fields = []
    for k, v in zip(ret.value.keys, ret.value.values):
        src = ast.unparse(v)
        if isinstance(v, ast.Name) and v.id in consts: src = consts[v.id]
        fields.append((k.value, src))
    used = set()
    for _, src in fields:
        for x in ast.walk(ast.parse(src.split('|')[0], mode='eval')):
            if isinstance(x, ast.Name): used.add(x.id)
    dd = sorted((k, v) for k, v in defs.items() if k in used)
    return {'solver': solver, 'line': ret.lineno, 'failure': failure, 'scal': scal, 'symm': symm, 'defs': dd, 'fields': fields}

def shift_blocks(solver, fn):
    """`if T >= -1e-08 * max(NRM, 1.0):  a = 1.0 + T';  V[...] += a ...` -> (guard scalar, its definition, norm scalar, its definition,
    scalar of the amount, amount as a Lean term in `t`, vectors updated, index expressions updated)"""
    top = {}
    for st in ast.walk(fn):
        if isinstance(st, ast.Assign) and len(st.targets) == 1 and isinstance(st.targets[0], ast.Name) and isinstance(st.value, ast.Call):
            f = ast.unparse(st.value.func)
            if f in ('misc.max_step', 'misc.snrm2') and st.targets[0].id not in top: top[st.targets[0].id] = ast.unparse(st.value)
    out = []
    for st in ast.walk(fn):
        if not isinstance(st, ast.If): continue
        asg = [x for x in st.body if isinstance(x, ast.Assign) and len(x.targets) == 1 and isinstance(x.targets[0], ast.Name) and x.targets[0].id == 'a']
        if len(asg) != 1 or not isinstance(st.test, ast.Compare): continue
        t = st.test
        if not (isinstance(t.left, ast.Name) and len(t.ops) == 1 and isinstance(t.ops[0], ast.GtE)): continue
        guard = t.left.id
        nrm = [x.id for x in ast.walk(t.comparators[0]) if isinstance(x, ast.Name) and x.id != 'max']
        a = asg[0].value
        names = sorted({x.id for x in ast.walk(a) if isinstance(x, ast.Name)})
        if len(names) != 1: raise Untranslatable('%s: shift amount `%s`' % (solver, ast.unparse(a)))
        def term(e):
            if isinstance(e, ast.Name): return 't'
            if isinstance(e, ast.Constant) and isinstance(e.value, (int, float)) and float(e.value) == int(e.value): return '(%d : K)' % int(e.value)
            if isinstance(e, ast.BinOp) and isinstance(e.op, (ast.Add, ast.Sub, ast.Mult)):
                return '(%s %s %s)' % (term(e.left), {ast.Add: '+', ast.Sub: '-', ast.Mult: '*'}[type(e.op)], term(e.right))
            if isinstance(e, ast.UnaryOp) and isinstance(e.op, ast.USub): return '(-%s)' % term(e.operand)
            raise Untranslatable('%s: shift amount `%s`' % (solver, ast.unparse(a)))
        vecs, idx = [], []
        for x in ast.walk(st):
            if isinstance(x, ast.AugAssign) and isinstance(x.target, ast.Subscript):
                if not (isinstance(x.op, ast.Add) and ast.unparse(x.value) == 'a'):
                    raise Untranslatable('%s: shift update `%s`' % (solver, ast.unparse(x)))
                vecs.append(ast.unparse(x.target.value)); idx.append(ast.unparse(x.target.slice))
        if not vecs: continue
        out.append({'solver': solver, 'line': st.lineno, 'guard': guard, 'guardDef': top.get(guard, '?'), 'nrm': ','.join(nrm),
                    'nrmDef': ','.join(top.get(v, '?') for v in nrm), 'amountOf': names[0], 'amount': term(a), 'vecs': vecs, 'idx': idx,
                    'cond': ast.unparse(st.test)})
    return out

def gen_exits():
    exits, shifts = [], []
    for mod, name in P.SOLVERS:
        tree = P.load(mod); fn = P.find_func(tree, name)
        par = parents(fn)
        loop = None
        for n in fn.body:
            if isinstance(n, ast.For) and isinstance(n.target, ast.Name) and n.target.id == 'iters': loop = n
        if loop is None: raise Untranslatable('main loop of %s not found' % name)
        for r in ast.walk(loop):
            if isinstance(r, ast.Return) and isinstance(r.value, ast.Dict): exits.append(describe_exit(name, fn, par, r))
        shifts += shift_blocks(name, fn)
    out = ['/- GENERATED by tools/translate/py2lean_exits.py from /repo/src/python/{coneprog,cvxprog}.py. Do not edit. -/',
           'import Mathlib.Algebra.Ring.Defs', 'namespace CvxVerif.Gen.Exits', '',
           'structure Exit where', '  solver : String', '  line : Nat', '  failure : Bool', '  scal : List (String × String)',
           '  symm : List (String × String)', '  defs : List (String × String)', '  fields : List (String × String)', 'deriving Repr, DecidableEq', '',
           'structure Shift where', '  solver : String', '  line : Nat', '  guard : String', '  guardDef : String', '  nrm : String', '  nrmDef : String',
           '  amountOf : String', '  vecs : List String', '  idx : List String', 'deriving Repr, DecidableEq', '']
    pl = lambda xs: llist('(%s, %s)' % (lstr(a), lstr(b)) for a, b in xs)
    rows = ['  { solver := %s, line := %d, failure := %s,\n    scal := %s,\n    symm := %s,\n    defs := %s,\n    fields := %s }'
            % (lstr(e['solver']), e['line'], 'true' if e['failure'] else 'false', pl(e['scal']), pl(e['symm']), pl(e['defs']), pl(e['fields'])) for e in exits]
    out.append('/-- every `return {...}` inside the main loops -/')
    out.append('def exits : List Exit := [\n' + ',\n'.join(rows) + ' ]\n')
    rows = ['  { solver := %s, line := %d, guard := %s, guardDef := %s, nrm := %s, nrmDef := %s, amountOf := %s,\n    vecs := %s, idx := %s }'
            % (lstr(s['solver']), s['line'], lstr(s['guard']), lstr(s['guardDef']), lstr(s['nrm']), lstr(s['nrmDef']), lstr(s['amountOf']),
               llist(map(lstr, s['vecs'])), llist(map(lstr, s['idx']))) for s in shifts]
    out.append('/-- every block that moves a starting point into the cone -/')
    out.append('def shifts : List Shift := [\n' + ',\n'.join(rows) + ' ]\n')
    out.append('/-- the amount added to the diagonal by shift block `k`, as a function of the scalar `amountOf` -/')
    out.append('def amount {K : Type} [Ring K] (k : Nat) (t : K) : K :=')
    out.append('  match k with')
    for k, s in enumerate(shifts): out.append('  | %d => %s' % (k, s['amount']))
    out.append('  | _ => 0')
    out.append('\nend CvxVerif.Gen.Exits\n')
    P.write_if_changed(os.path.join(P.GEN, 'Exits.lean'), '\n'.join(out))
    return []

if __name__ == '__main__':
    gen_exits(); print('generated exits')
