"""Small problem instances for every solver entry point (shared by the solver-level correspondence checks)."""
import random, math

def basic_calls(cvxopt):
    """entry point name -> function(**kw) that solves a small well-posed instance through that entry point"""
    from cvxopt import matrix, spmatrix, solvers, log, exp, div, mul, spdiag
    import cvxopt.modeling as M
    c = matrix([-4., -5.]); G = matrix([[2., 1., -1., 0.], [1., 2., 0., -1.]]); h = matrix([3., 3., 0., 0.])
    ARGS = {}
    ARGS['conelp'] = (solvers.conelp, [c, G, h], {})
    ARGS['lp'] = (solvers.lp, [c, G, h], {})
    P = matrix([[2., .5], [.5, 1.]]); q = matrix([1., 1.])
    Gq = matrix([[-1., 0.], [0., -1.]]); hq = matrix([0., 0.]); A = matrix([1., 1.], (1, 2)); b = matrix(1.)
    ARGS['coneqp'] = (solvers.coneqp, [P, q, Gq, hq, None, A, b], {})
    ARGS['qp'] = (solvers.qp, [P, q, Gq, hq, A, b], {})
    cs = matrix([-2., 1., 5.])
    Gs = [matrix([[12., 13., 12.], [6., -3., -12.], [-5., -5., 6.]]),
          matrix([[3., 3., -1., 1.], [-6., -6., -9., 19.], [10., -2., -2., -3.]])]
    hs = [matrix([-12., -3., -2.]), matrix([27., 0., 3., -42.])]
    ARGS['socp'] = (solvers.socp, [cs], {'Gq': Gs, 'hq': hs})
    cd = matrix([1., -1., 1.])
    Gd = [matrix([[-7., -11., -11., 3.], [7., -18., -18., 8.], [-2., -8., -8., 1.]])]
    Gd += [matrix([[-21., -11., 0., -11., 10., 8., 0., 8., 5.], [0., 10., 16., 10., -10., -10., 16., -10., 3.],
                   [-5., 2., -17., 2., -6., 8., -17., 8., 6.]])]
    hd = [matrix([[33., -9.], [-9., 26.]]), matrix([[14., 9., 40.], [9., 91., 10.], [40., 10., 15.]])]
    ARGS['sdp'] = (solvers.sdp, [cd], {'Gs': Gd, 'hs': hd})
    # cpl / cp: analytic-centering type problem  min -sum log(1-x_i^2)  s.t. small linear constraints
    def Fac(x=None, z=None):
        if x is None: return 0, matrix(0.0, (2, 1))
        if max(abs(x)) >= 1.0: return None
        u = 1 - x**2
        val = -sum(log(u))
        Df = div(2 * x, u).T
        if z is None: return val, Df
        H = spdiag(2 * z[0] * div(1 + x**2, u**2))
        return val, Df, H
    Gc = matrix([[1., 0.], [0., 1.]]); hc = matrix([0.5, 0.7])
    ARGS['cp'] = (solvers.cp, [Fac, Gc, hc], {})
    def Fcpl(x=None, z=None):
        if x is None: return 1, matrix(0.0, (2, 1))
        if max(abs(x)) >= 1.0: return None
        u = 1 - x**2
        f = matrix(-sum(log(u)) - 1.0)
        Df = div(2 * x, u).T
        if z is None: return f, Df
        H = spdiag(2 * z[0] * div(1 + x**2, u**2))
        return f, Df, H
    ccpl = matrix([1., 1.])
    ARGS['cpl'] = (solvers.cpl, [ccpl, Fcpl, Gc, hc], {})
    # gp: min x*y^-1 + ... small posynomial problem in log form
    import math
    Kgp = [2, 1]                                     # min x + y  s.t.  2/(x*y) <= 1
    Fgp = matrix([[1., 0., -1.], [0., 1., -1.]])   # 3 x 2
    ggp = matrix([0., 0., math.log(2.0)])
    ARGS['gp'] = (solvers.gp, [Kgp, Fgp, ggp], {})
    def opsolve(c_, G_, h_, **kw):
        # several separate inequality constraints, a piecewise-linear constraint and a second variable: the matrix form handed to the solver
        # is assembled from all of them (row order, epigraph variables)
        x = M.variable(2, 'x'); y = M.variable(1, 'y')
        cons = [G_ * x <= h_, M.max(abs(x)) <= y, x[0] <= 10.0, x[1] <= 10.0, y <= 50.0, x[0] + x[1] >= -40.0]
        p = M.op(M.dot(c_, x) + y, cons)
        p.solve(**kw)
        return {'status': p.status, 'x': x.value, 'y': y.value, 'primal objective': (p.objective.value()[0] if p.objective.value() is not None else None),
                'multipliers': [(+c.multiplier.value if c.multiplier.value is not None else None) for c in cons]}
    ARGS['op.solve'] = (opsolve, [c, G, h], {})
    return ARGS


# =====================================================================================================
# Planted cone programs (used by C01, C02, C03, C05, C06, C07).  All data are plain Python lists of
# floats with small dyadic/integer entries; conversion to cvxopt matrices happens in `to_cvx`.
# Vectors over the cone K = l x q... x s... are stored as in cvxopt ('s' blocks: column-major full storage).
# =====================================================================================================

def cdim(dims): return dims['l'] + sum(dims['q']) + sum(k * k for k in dims['s'])

def rand_dims(rng, small=False):
    kind = rng.random()
    l = rng.randint(0, 4)
    q = [rng.randint(1, 4) for _ in range(rng.randint(0, 2))] if kind > 0.3 else []
    s = [rng.randint(0, 3) for _ in range(rng.randint(0, 2))] if kind > 0.55 else []
    if l + sum(q) + sum(k * k for k in s) == 0: l = 2
    return {'l': l, 'q': q, 's': s}

def rint(rng, a=3): return float(rng.randint(-a, a))

def interior_point(rng, dims):
    """a vector strictly inside K (margin >= 1), 's' blocks symmetric"""
    v = [1.0 + rng.randint(0, 3) for _ in range(dims['l'])]
    for m in dims['q']:
        t = [rint(rng, 2) for _ in range(m - 1)]
        v += [math.floor(math.sqrt(sum(a * a for a in t))) + 1.0 + rng.randint(0, 2)] + t
    for k in dims['s']:
        B = [[rint(rng, 2) for _ in range(k)] for _ in range(k)]
        S = [[sum(B[i][t] * B[j][t] for t in range(k)) + (1.0 + rng.randint(0, 1) if i == j else 0.0) for j in range(k)] for i in range(k)]
        v += [S[i][j] for j in range(k) for i in range(k)]      # column major
    return v

def sym_vector(rng, dims, a=3):
    """arbitrary vector of the space of K with symmetric 's' blocks"""
    v = [rint(rng, a) for _ in range(dims['l'] + sum(dims['q']))]
    for k in dims['s']:
        S = [[0.0] * k for _ in range(k)]
        for i in range(k):
            for j in range(i + 1):
                S[i][j] = S[j][i] = rint(rng, a)
        v += [S[i][j] for j in range(k) for i in range(k)]
    return v

def dotl(a, b): return sum(x * y for x, y in zip(a, b))
def matvec(M, x):   # M list of columns
    m = len(M[0]) if M else 0
    return [sum(M[j][i] * x[j] for j in range(len(M))) for i in range(m)]
def mattvec(M, z): return [dotl(col, z) for col in M]

class Planted:
    """c, G (list of n columns of length N), h, A (list of n columns of length p), b, dims, kind and witnesses"""
    def __init__(self, **kw): self.__dict__.update(kw)

def planted_conelp(rng, kind='optimal', n=None, dims=None, p=None, P_rank=None, free=0):
    """kind: 'optimal' (strictly feasible primal and dual witnesses), 'pinf' (strict Farkas certificate),
    'dinf' (strictly improving ray).  With P_rank not None a PSD matrix P = B'B (rank P_rank) is added (cone QP)."""
    for outer in range(100):
        pr = _planted_try(rng, kind, n, dims, p, P_rank, free)
        if pr is not None: return pr
    raise RuntimeError('no full-rank planted instance found')

def _planted_try(rng, kind, n, dims, p, P_rank, free=0):
    dims = dims or rand_dims(rng)
    N = cdim(dims)
    n = n or rng.randint(1, min(4, max(1, N)))
    if n > N: n = N
    if kind == 'pinf' and n >= N:
        if N < 2: return None
        n = N - 1
    p = rng.randint(0, min(2, n - 1)) if p is None else p
    G = [sym_vector(rng, dims) for _ in range(n)]
    if free:
        # `free` variables occur in no inequality (G alone is rank deficient); equality constraints make [G; A] full rank
        free = min(free, n - 1) if n > 1 else 0
        p = max(p, free)
        for j in range(n - free, n): G[j] = [0.0] * N
    A = [[rint(rng) for _ in range(p)] for _ in range(n)]
    if rank_cols(G, A) != n or rank_rows(A, p) != p: return None
    w = {}
    if kind == 'optimal':
        x0 = [rint(rng, 2) for _ in range(n)]; s0 = interior_point(rng, dims)
        h = [a + b for a, b in zip(matvec(G, x0), s0)]
        b = matvec(A, x0)
        z0 = interior_point(rng, dims); y0 = [rint(rng, 2) for _ in range(p)]
        c = [-(a + bb) for a, bb in zip(mattvec(G, z0), mattvec(A, y0))]
        P = None
        if P_rank is not None:
            B = [[rint(rng, 2) for _ in range(P_rank)] for _ in range(n)]     # n columns? B is P_rank x n given by columns
            P = [[sum(B[i][t] * B[j][t] for t in range(P_rank)) for i in range(n)] for j in range(n)]  # columns of P
            # dual feasibility of the QP at x0: P x0 + c + G'z0 + A'y0 = 0
            Px0 = matvec(P, x0)
            c = [ci - pi for ci, pi in zip(c, Px0)]
        w = {'x': x0, 's': s0, 'z': z0, 'y': y0}
        return Planted(kind=kind, c=c, G=G, h=h, A=A, b=b, dims=dims, n=n, p=p, N=N, P=P, wit=w)
    if kind == 'pinf':
        # Farkas: z0 in int K, G'z0 + A'y0 = 0, h'z0 + b'y0 = -1.   Take y0 = 0 and project G, h.
        z0 = interior_point(rng, dims)
        zz = dotl(z0, z0)
        G = [[g - zi * dotl(col, z0) / zz for g, zi in zip(col, z0)] for col in G]
        hh = sym_vector(rng, dims)
        t = (dotl(hh, z0) + 1.0) / zz
        h = [a - zi * t for a, zi in zip(hh, z0)]
        if rank_cols(G, A) != n: return None
        b = [rint(rng) for _ in range(p)]
        z1 = interior_point(rng, dims); y1 = [rint(rng, 2) for _ in range(p)]      # a dual feasible point
        c = [-(a + bb) for a, bb in zip(mattvec(G, z1), mattvec(A, y1))]
        w = {'z': z0, 'y': [0.0] * p, 'dual_feasible': {'z': z1, 'y': y1}}
        return Planted(kind=kind, c=c, G=G, h=h, A=A, b=b, dims=dims, n=n, p=p, N=N, P=None, wit=w)
    if kind == 'dinf':
        # ray: x0 != 0 with G x0 + s0 = 0, s0 in int K, A x0 = 0, c'x0 = -1 ; plus a feasible point
        x0 = [rint(rng, 2) for _ in range(n)]
        if not any(x0): x0[0] = 1.0
        xx = dotl(x0, x0)
        s0 = interior_point(rng, dims)
        r = [a + b for a, b in zip(matvec(G, x0), s0)]          # want G x0 = -s0
        G = [[g - ri * xj / xx for g, ri in zip(col, r)] for col, xj in zip(G, x0)]
        ra = matvec(A, x0)
        A = [[a - ri * xj / xx for a, ri in zip(col, ra)] for col, xj in zip(A, x0)]
        if rank_cols(G, A) != n or rank_rows(A, p) != p: return None
        cc = [rint(rng) for _ in range(n)]
        t = (dotl(cc, x0) + 1.0) / xx
        c = [ci - xj * t for ci, xj in zip(cc, x0)]
        xf = [rint(rng, 2) for _ in range(n)]; sf = interior_point(rng, dims)
        h = [a + b for a, b in zip(matvec(G, xf), sf)]
        b = matvec(A, xf)
        w = {'x': x0, 's': s0}
        return Planted(kind=kind, c=c, G=G, h=h, A=A, b=b, dims=dims, n=n, p=p, N=N, P=None, wit=w)
    raise ValueError(kind)

def planted_twosided(rng):
    """strictly feasible cone LP whose inequalities come in opposite pairs (B x <= u, -B x <= -l; F(x) <= U, -F(x) <= -L) plus ball
    constraints ||B x + d|| <= r: G'e = 0 for the cone identity e, so shifting a start point along e changes no residual.  Box-constrained
    LPs, norm balls and two-sided LMIs have this shape; the default start of conelp is then feasible for the linear equations."""
    for _ in range(200):
        l0 = rng.randint(0, 3); q0 = [rng.randint(2, 4) for _ in range(rng.randint(0, 1))]; s0 = [rng.randint(1, 2) for _ in range(rng.randint(0, 1))]
        if l0 + len(q0) + len(s0) == 0: l0 = 2
        dims = {'l': 2 * l0, 'q': list(q0), 's': [k for k in s0 for _ in (0, 1)]}
        N = cdim(dims)
        n = rng.randint(1, min(3, max(1, l0 + sum(m - 1 for m in q0) + sum(k * (k + 1) // 2 for k in s0))))
        G = []
        for j in range(n):
            Bl = [rint(rng) for _ in range(l0)]
            col = Bl + [-a for a in Bl]
            for m in q0: col += [0.0] + [rint(rng) for _ in range(m - 1)]
            for k in s0:
                F = sym_vector(rng, {'l': 0, 'q': [], 's': [k]})
                col += F + [-a for a in F]
            G.append(col)
        if rank_cols(G, [[] for _ in range(n)]) != n: continue
        x0 = [rint(rng, 2) for _ in range(n)]; sl = interior_point(rng, dims); z0 = interior_point(rng, dims)
        h = [a + b for a, b in zip(matvec(G, x0), sl)]
        c = [-a for a in mattvec(G, z0)]
        return Planted(kind='optimal', c=c, G=G, h=h, A=[[] for _ in range(n)], b=[], dims=dims, n=n, p=0, N=N, P=None,
                       wit={'x': x0, 's': sl, 'z': z0, 'y': []})
    raise RuntimeError('no two-sided instance found')

def planted_qp_few(rng):
    """strictly feasible cone QP with more variables than (packed) cone rows plus equality constraints: only P makes [P; A; G] full rank"""
    for _ in range(200):
        n = rng.randint(3, 6)
        dims = rng.choice([{'l': rng.randint(0, 2), 'q': [], 's': []}, {'l': rng.randint(0, 1), 'q': [rng.randint(2, 3)], 's': []},
                           {'l': 0, 'q': [], 's': [rng.randint(1, 2)]}, {'l': 1, 'q': [2], 's': [1]}, {'l': 0, 'q': [], 's': []}])
        N = cdim(dims); packed = dims['l'] + sum(dims['q']) + sum(k * (k + 1) // 2 for k in dims['s'])
        p = rng.randint(0, 1) if N else rng.randint(1, 2)          # (no inequalities at all: the direct solve of coneqp, with equality constraints)
        if packed + p >= n: continue
        G = [sym_vector(rng, dims) for _ in range(n)]
        A = [[rint(rng) for _ in range(p)] for _ in range(n)]
        if rank_rows(A, p) != p: continue
        r_ = rng.randint(0, n); B = [[rint(rng, 2) for _ in range(r_)] for _ in range(n)]
        P = [[sum(B[i][t] * B[j][t] for t in range(r_)) + (1.0 if i == j else 0.0) for i in range(n)] for j in range(n)]      # B'B + I, by columns
        x0 = [rint(rng, 2) for _ in range(n)]; s0 = interior_point(rng, dims)
        h = [a + b for a, b in zip(matvec(G, x0), s0)] if N else []
        b = matvec(A, x0) if p else []
        z0 = interior_point(rng, dims); y0 = [rint(rng, 2) for _ in range(p)]
        Px0 = matvec(P, x0)
        c = [-(a + bb + pp) for a, bb, pp in zip(mattvec(G, z0) if N else [0.0] * n, mattvec(A, y0) if p else [0.0] * n, Px0)]
        return Planted(kind='optimal', c=c, G=G, h=h, A=A, b=b, dims=dims, n=n, p=p, N=N, P=P, wit={'x': x0, 's': s0, 'z': z0, 'y': y0})
    raise RuntimeError('no instance found')

def planted_sparse_lp(rng, qp=False):
    """a larger componentwise LP / QP with equality constraints and a sparse G and A (about half of the entries zero): the sparse Cholesky
    path of the default KKT solver then works with a fill-reducing permutation that is not the identity"""
    for _ in range(200):
        n = rng.randint(5, 8); m = rng.randint(n + 2, n + 6); p = rng.randint(1, 3)
        dims = {'l': m, 'q': [], 's': []}
        G = [[(rint(rng) if rng.random() < 0.45 else 0.0) for _ in range(m)] for _ in range(n)]
        A = [[(rint(rng) if rng.random() < 0.6 else 0.0) for _ in range(p)] for _ in range(n)]
        if rank_cols(G, [[] for _ in range(n)]) != n or rank_rows(A, p) != p: continue
        x0 = [rint(rng, 2) for _ in range(n)]; s0 = interior_point(rng, dims); z0 = interior_point(rng, dims); y0 = [rint(rng, 2) for _ in range(p)]
        h = [a + b for a, b in zip(matvec(G, x0), s0)]; b = matvec(A, x0)
        P = None; Px0 = [0.0] * n
        if qp:
            dg = [float(rng.randint(0, 2)) for _ in range(n)]; P = [[dg[i] if i == j else 0.0 for i in range(n)] for j in range(n)]
            for _k in range(2):
                i, j = rng.randrange(n), rng.randrange(n)
                if i != j: P[i][j] += 0.5; P[j][i] += 0.5; P[i][i] += 1.0; P[j][j] += 1.0          # stays positive semidefinite (diagonally dominant)
            Px0 = matvec(P, x0)
        c = [-(a + bb + pp) for a, bb, pp in zip(mattvec(G, z0), mattvec(A, y0), Px0)]
        return Planted(kind='optimal', c=c, G=G, h=h, A=A, b=b, dims=dims, n=n, p=p, N=m, P=P, wit={'x': x0, 's': s0, 'z': z0, 'y': y0})
    raise RuntimeError('no instance found')

def rankdef_conelp(rng, first=False):
    """an unbounded epigraph LP  min t  s.t.  -a*y <= b,  y_k + w - t <= 0  whose columns for w and t are collinear, so Rank([G;A]) < n:
    conelp's rank assumption fails silently (no ArithmeticError) and its least-squares starting point has zero gap but dres = 1."""
    m = rng.randint(1, 3); a = float(rng.randint(1, 5)); b = float(rng.randint(1, 3))
    if first: m, a, b = 2, 4.0, 1.0       # the instance op.solve produced when this was found
    G = [[-a if i == j else 0.0 for i in range(m)] + [1.0 if i == j else 0.0 for i in range(m)] for j in range(m)]
    G.append([0.0] * m + [1.0] * m); G.append([0.0] * m + [-1.0] * m)
    n = m + 2
    return Planted(kind='rankdef', c=[0.0] * (n - 1) + [1.0], G=G, h=[b] * m + [0.0] * m, A=[[] for _ in range(n)], b=[], dims={'l': 2 * m, 'q': [], 's': []},
                   n=n, p=0, N=2 * m, P=None, wit={})

def rank_of(rows):
    """numerical rank of a list of rows: Gaussian elimination with complete pivoting, pivots below 1e-9 * the largest entry count as
    zero (exact for the small-integer data; the projected pinf / dinf instances have rounded entries, for which an exact rational rank
    would call a numerically singular matrix regular)"""
    M = [[float(x) for x in r] for r in rows]
    if not M or not M[0]: return 0
    scale = max(abs(x) for r in M for x in r) or 1.0
    rk = 0
    nrow, ncol = len(M), len(M[0])
    cols = list(range(ncol))
    while rk < min(nrow, ncol):
        best, bi, bj = 0.0, None, None
        for r in range(rk, nrow):
            for cidx in range(rk, ncol):
                if abs(M[r][cidx]) > best: best, bi, bj = abs(M[r][cidx]), r, cidx
        if bi is None or best <= 1e-9 * scale: break
        M[rk], M[bi] = M[bi], M[rk]
        for r in range(nrow): M[r][rk], M[r][bj] = M[r][bj], M[r][rk]
        for r in range(rk + 1, nrow):
            f = M[r][rk] / M[rk][rk]
            if f: M[r] = [a - f * b for a, b in zip(M[r], M[rk])]
        rk += 1
    return rk
def rank_cols(G, A):
    n = len(G)
    rows = [[G[j][i] for j in range(n)] for i in range(len(G[0]))] if G and G[0] else []
    rows += [[A[j][i] for j in range(n)] for i in range(len(A[0]))] if A and A[0] else []
    return rank_of(rows) if rows else 0
def rank_rows(A, p):
    if p == 0: return 0
    n = len(A)
    return rank_of([[A[j][i] for j in range(n)] for i in range(p)])

def to_cvx(cvxopt, pr, sparse=False, junk=None, junk_scale=1.0):
    """cvxopt matrices (c, G, h, A, b, P); junk: rng to write arbitrary values into the strict upper triangles of
    the 's' blocks of G and h (never referenced by the solvers)"""
    from cvxopt import matrix, sparse as sp
    G = [list(col) for col in pr.G]; h = list(pr.h)
    if junk is not None:
        off = pr.dims['l'] + sum(pr.dims['q'])
        for k in pr.dims['s']:
            for j in range(k):
                for i in range(j):
                    for col in G: col[off + j * k + i] = float(junk.randint(-9, 9)) * junk_scale
                    h[off + j * k + i] = float(junk.randint(-9, 9)) * junk_scale
            off += k * k
    mG = matrix([x for col in G for x in col], (pr.N, pr.n), 'd')
    mA = matrix([x for col in pr.A for x in col], (pr.p, pr.n), 'd')
    mP = None
    if pr.P is not None:
        mP = matrix([x for col in pr.P for x in col], (pr.n, pr.n), 'd')
        if junk is not None:
            for j in range(pr.n):
                for i in range(j): mP[i, j] = float(junk.randint(-9, 9))
    if sparse:
        mG, mA = sp(mG), sp(mA)
        if mP is not None: mP = sp(mP)
    return matrix(pr.c, (pr.n, 1), 'd'), mG, matrix(h, (pr.N, 1), 'd'), mA, matrix(pr.b, (pr.p, 1), 'd'), mP
