"""C08: cone-algebra kernels -- compiled (misc_solvers) and pure-Python (misc.py with use_C = False) implementations vs the
Lean model (Model/Kernels.lean) exactly on dyadic data, plus the defining identities on both implementations."""
import os, sys, random, math, types
from fractions import Fraction
import vlib

LEAN_TARGETS = ['CvxVerif.Props.C08', 'CvxVerif.Props.C08Pack', 'CvxVerif.Props.C08Diag']
MODEL_FILES = ['CvxVerif.Model.Kernels', 'CvxVerif.Proofs.Kernels']
LEVEL = 'proof'
TRUSTED = ['hand-written model lean/CvxVerif/Model/Kernels.lean (transcribed from the Python reference implementations in misc.py), tied by '
           'exact comparison with both implementations on dyadic data',
           'the Python fall-backs are obtained by executing the current misc.py with the line `use_C = True` replaced by `use_C = False`']
ASSUMPTIONS = ['scale2/max_step on s blocks involve eigenvalues: checked through identities with tolerance 1e-9, not modelled exactly; pack/unpack are modelled exactly up to the factor sqrt(2), which enters the comparison as a float (tolerance 1e-12)']

def frs(x):
    f = Fraction(x); return str(f.numerator) if f.denominator == 1 else '%d/%d' % (f.numerator, f.denominator)
def vtok(v): return ','.join(frs(a) for a in v) if len(v) else '-'

def load_python_misc(cvxopt):
    src = open(os.path.join(os.path.dirname(cvxopt.__file__), 'misc.py')).read()
    assert src.count('use_C = True') == 1
    mod = types.ModuleType('cvxopt_misc_py')
    mod.__dict__['__name__'] = 'cvxopt.misc_py'
    exec(compile(src.replace('use_C = True', 'use_C = False'), 'misc.py[use_C=False]', 'exec'), mod.__dict__)
    return mod

def gen_dims(rng):
    return {'l': rng.randint(0, 3), 'q': [rng.randint(1, 4) for _ in range(rng.randint(0, 2))], 's': [rng.randint(0, 3) for _ in range(rng.randint(0, 2))]}
def cdim(d, mnl=0): return mnl + d['l'] + sum(d['q']) + sum(k * k for k in d['s'])
def dtok(d, mnl): return '%d:%d:%s:%s' % (mnl, d['l'], ','.join(map(str, d['q'])) or '-', ','.join(map(str, d['s'])) or '-')
def dy(rng): return rng.choice([-3.0, -2.0, -1.0, -0.5, 0.0, 0.5, 1.0, 2.0, 3.0, 1.5])

def unimodular(rng, k):
    """integer matrix with integer inverse: product of a unit lower and a unit upper triangular matrix"""
    L = [[1 if i == j else (rng.randint(-2, 2) if j < i else 0) for j in range(k)] for i in range(k)]
    U = [[1 if i == j else (rng.randint(-1, 1) if j > i else 0) for j in range(k)] for i in range(k)]
    R = [[sum(L[i][t] * U[t][j] for t in range(k)) for j in range(k)] for i in range(k)]
    # inverse by Gauss-Jordan over fractions
    M = [[Fraction(R[i][j]) for j in range(k)] + [Fraction(int(i == j)) for j in range(k)] for i in range(k)]
    for c in range(k):
        p = next(r for r in range(c, k) if M[r][c] != 0); M[c], M[p] = M[p], M[c]
        M[c] = [a / M[c][c] for a in M[c]]
        for r in range(k):
            if r != c and M[r][c] != 0: M[r] = [a - M[r][c] * b for a, b in zip(M[r], M[c])]
    Inv = [[M[i][k + j] for j in range(k)] for i in range(k)]
    return R, Inv

def gen_W(rng, d, mnl, matrix):
    W = {}
    if mnl:
        e = [rng.choice([0.5, 1.0, 2.0, 4.0]) for _ in range(mnl)]
        W['dnl'] = matrix(e); W['dnli'] = matrix([1.0 / a for a in e])
    e = [rng.choice([0.25, 0.5, 1.0, 2.0, 4.0]) for _ in range(d['l'])]
    W['d'] = matrix(e, (d['l'], 1), 'd'); W['di'] = matrix([1.0 / a for a in e], (d['l'], 1), 'd')
    W['beta'], W['v'] = [], []
    for m in d['q']:
        W['beta'].append(rng.choice([0.5, 1.0, 2.0]))
        if m == 1: v = [1.0]
        else:
            a, b = rng.choice([(1.25, 0.75), (2.125, 1.875), (1.0, 0.0), (1.25, -0.75)])
            v = [a] + [0.0] * (m - 1); v[rng.randint(1, m - 1)] = b
        W['v'].append(matrix(v))
    W['r'], W['rti'] = [], []
    for k in d['s']:
        R, Inv = unimodular(rng, k)
        W['r'].append(matrix([[float(R[i][j]) for i in range(k)] for j in range(k)], (k, k), 'd'))
        W['rti'].append(matrix([[float(Inv[j][i]) for i in range(k)] for j in range(k)], (k, k), 'd'))   # inverse transpose
    return W

def Wtok(W, mnl):
    dd = (list(W['dnl']) if 'dnl' in W else []) + list(W['d'])
    di = (list(W['dnli']) if 'dnli' in W else []) + list(W['di'])
    return 'd=%s di=%s beta=%s v=%s r=%s rti=%s' % (vtok(dd), vtok(di), vtok(W['beta']), ';'.join(vtok(list(v)) for v in W['v']) or '-',
                                                     ';'.join(vtok(list(r)) for r in W['r']) or '-', ';'.join(vtok(list(r)) for r in W['rti']) or '-')

def correspond(ctx):
    cvxopt = vlib.use_build(ctx.build)
    from cvxopt import matrix, misc_solvers, blas, lapack
    import cvxopt.misc as misc_c
    misc_py = load_python_misc(cvxopt)
    assert misc_c.scale is misc_solvers.scale and misc_py.scale is not misc_solvers.scale
    impls = [('C', misc_c), ('python', misc_py)]
    rng = random.Random(ctx.seed * 13 + 8)
    n = 120 if ctx.quick() else 6000
    lines, obs, meta = [], [], []
    ident = 0
    for it in range(n):
        d = gen_dims(rng); mnl = rng.choice([0, 0, 1, 2])
        N = cdim(d, mnl)
        x = [dy(rng) for _ in range(N)]; y = [dy(rng) for _ in range(N)]
        dt = dtok(d, mnl)
        for name, M in impls:
            # sdot
            lines.append('sdot dims=%s x=%s y=%s' % (dt, vtok(x), vtok(y))); obs.append(frs(M.sdot(matrix(x, (N, 1), 'd'), matrix(y, (N, 1), 'd'), d, mnl))); meta.append(name)
            # symm / trisc / triusc act on the 's' part (no mnl argument: offsets)
            d0 = dtok(d, 0); N0 = cdim(d); x0 = x[mnl:]
            X = matrix(x0, (N0, 1), 'd'); ind = d['l'] + sum(d['q'])
            for k in d['s']:
                M.symm(X, k, ind); ind += k * k
            lines.append('symm dims=%s x=%s' % (d0, vtok(x0))); obs.append(vtok(list(X))); meta.append(name)
            X = matrix(x0, (N0, 1), 'd'); M.trisc(X, d); lines.append('trisc dims=%s x=%s' % (d0, vtok(x0))); obs.append(vtok(list(X))); meta.append(name)
            X = matrix(x0, (N0, 1), 'd'); M.triusc(X, d); lines.append('triusc dims=%s x=%s' % (d0, vtok(x0))); obs.append(vtok(list(X))); meta.append(name)
            # scale, all four flag combinations, two columns (second column = canary pattern)
            W = gen_W(random.Random(it), d, mnl, matrix)
            for tr in 'NT':
                for inv in 'NI':
                    X = matrix([x, y], (N, 2), 'd') if N else matrix(0.0, (0, 2))
                    M.scale(X, W, trans=tr, inverse=inv)
                    for col, src in ((0, x), (1, y)):
                        lines.append('scale dims=%s trans=%s inverse=%s %s x=%s' % (dt, tr, inv, Wtok(W, mnl), vtok(src)))
                        obs.append(vtok(list(X[:, col]))); meta.append(name)
            # sprod (diag='N')
            X = matrix(x, (N, 1), 'd'); Y = matrix(y, (N, 1), 'd'); M.sprod(X, Y, d, mnl)
            lines.append('sprod dims=%s x=%s y=%s' % (dt, vtok(x), vtok(y))); obs.append(vtok(list(X))); meta.append(name)
            if list(Y)[:mnl + d['l'] + sum(d['q'])] != y[:mnl + d['l'] + sum(d['q'])]:
                ctx.violation('c08:sprod-modifies-y:' + name, 'sprod changed the l/q part of its second argument', {'dims': d})
            # sprod with diag='D' and ssqr (the 's' parts of y are diagonals): exact on dyadic data, against the Lean model
            Nd = mnl + d['l'] + sum(d['q']) + sum(d['s']); yd = [dy(rng) for _ in range(Nd)]
            X = matrix(x, (N, 1), 'd'); M.sprod(X, matrix(yd, (Nd, 1), 'd'), d, mnl, diag='D')
            lines.append('sproddiag dims=%s x=%s y=%s' % (dt, vtok(x), vtok(yd))); obs.append(vtok(list(X))); meta.append(name)
            X = matrix(7.0, (Nd, 1)); M.ssqr(X, matrix(yd, (Nd, 1), 'd'), d, mnl)
            lines.append('ssqr dims=%s y=%s' % (dt, vtok(yd))); obs.append(vtok(list(X))); meta.append(name)
        # ---- identities on both implementations (random interior data, tolerance) ----
        xr = [rng.uniform(-2, 2) for _ in range(N)]; yr = [rng.uniform(-2, 2) for _ in range(N)]
        for name, M in impls:
            W = gen_W(random.Random(it), d, mnl, matrix)
            for tr in 'NT':
                X = matrix(xr, (N, 1), 'd'); M.scale(X, W, trans=tr); M.scale(X, W, trans=tr, inverse='I'); ident += 1
                Xs = matrix(xr, (N, 1), 'd'); ind = mnl + d['l'] + sum(d['q'])
                # the 's' part is only meaningful through its lower triangle
                def low(v):
                    out = list(v[:ind]); o = ind
                    for k in d['s']:
                        out += [v[o + j * k + i] for j in range(k) for i in range(j, k)]; o += k * k
                    return out
                if max([abs(a - b) for a, b in zip(low(X), low(Xs))] + [0]) > 1e-9:
                    ctx.violation('c08:scale-inverse:' + name, "scale(inverse='I') does not undo scale (trans=%s, %s implementation)" % (tr, name), {'dims': d, 'mnl': mnl})
            X = matrix(xr, (N, 1), 'd'); M.scale(X, W); Y = matrix(yr, (N, 1), 'd'); M.scale(Y, W, trans='T'); ident += 1
            a = M.sdot(X, matrix(yr, (N, 1), 'd'), d, mnl); b = M.sdot(matrix(xr, (N, 1), 'd'), Y, d, mnl)
            if abs(a - b) > 1e-9 * (1 + abs(a)):
                ctx.violation('c08:scale-adjoint:' + name, '<Wx, y> != <x, W^T y> (%s implementation)' % name, {'dims': d, 'mnl': mnl})
            # pack / unpack
            Np = mnl + d['l'] + sum(d['q']) + sum(k * (k + 1) // 2 for k in d['s'])
            P = matrix(0.0, (Np, 1)); M.pack(matrix(xr, (N, 1), 'd'), P, d, mnl); U = matrix(7.0, (N, 1)); M.unpack(P, U, d, mnl); ident += 1
            if max([abs(a - b) for a, b in zip(low(U), low(matrix(xr, (N, 1), 'd')))] + [0]) > 1e-12:
                ctx.violation('c08:unpack-pack:' + name, 'unpack(pack(x)) does not restore the lower triangles (%s implementation)' % name, {'dims': d, 'mnl': mnl})
            # the same through arbitrary, different offsets: identical values, nothing written before the offset
            ox, oy, ou = rng.randint(0, 3), rng.randint(0, 3), rng.randint(0, 3)
            Xo = matrix([9.0] * ox + list(xr), (ox + N, 1), 'd'); Po = matrix(5.0, (oy + Np, 1))
            M.pack(Xo, Po, d, mnl, offsetx=ox, offsety=oy); ident += 1
            if list(Po[:oy]) != [5.0] * oy or max([abs(a - b) for a, b in zip(Po[oy:], P)] + [0]) > 1e-12:
                ctx.violation('c08:pack-offsets:' + name, 'pack with offsetx=%d offsety=%d differs from pack at offset 0 (%s implementation)' % (ox, oy, name), {'dims': d, 'mnl': mnl, 'offsets': [ox, oy]})
            Uo = matrix(7.0, (ou + N, 1)); M.unpack(Po, Uo, d, mnl, offsetx=oy, offsety=ou); ident += 1
            if list(Uo[:ou]) != [7.0] * ou or max([abs(a - b) for a, b in zip(low(list(Uo[ou:])), low(list(U)))] + [0]) > 1e-12:
                ctx.violation('c08:unpack-offsets:' + name, 'unpack with offsetx=%d offsety=%d differs from unpack at offset 0 (%s implementation)' % (oy, ou, name), {'dims': d, 'mnl': mnl, 'offsets': [oy, ou]})
            P2 = matrix(0.0, (Np, 1)); M.pack(matrix(yr, (N, 1), 'd'), P2, d, mnl)
            if abs(blas.dot(P, P2) - M.sdot(matrix(xr, (N, 1), 'd'), matrix(yr, (N, 1), 'd'), d, mnl)) > 1e-9 * (1 + abs(blas.dot(P, P2))):
                ctx.violation('c08:pack-isometry:' + name, '<pack x, pack y> != <x, y>_S (%s implementation)' % name, {'dims': d, 'mnl': mnl})
            # max_step on l/q blocks: x + t e on the boundary
            if not d['s'] and N:
                t = M.max_step(matrix(xr, (N, 1), 'd'), d, mnl); ident += 1
                e = [1.0] * (mnl + d['l'])
                for m in d['q']: e += [1.0] + [0.0] * (m - 1)
                z = [a + t * b for a, b in zip(xr, e)]
                mins = [a for a in z[:mnl + d['l']]]; o = mnl + d['l']
                for m in d['q']:
                    mins.append(z[o] - math.sqrt(sum(a * a for a in z[o + 1:o + m]))); o += m
                if abs(min(mins)) > 1e-9:
                    ctx.violation('c08:max-step:' + name, 'x + max_step(x) e is not on the boundary of the cone (%s implementation)' % name, {'dims': d})
            # max_step with 's' blocks (orders 0, 1 and larger), with and without the eigenvalue decomposition: t puts x + t e on the boundary,
            # sigma holds the eigenvalues and the 's' blocks of x are overwritten with orthonormal eigenvectors: Q diag(sigma) Q' = sym(x_k)
            if d['s'] and N:
                for want_sigma in (False, True):
                    X = matrix(xr, (N, 1), 'd'); ns = sum(d['s'])
                    sig = matrix(0.0, (ns, 1)) if want_sigma else None
                    t = M.max_step(X, d, mnl, sig) if want_sigma else M.max_step(X, d, mnl); ident += 1
                    o = mnl + d['l']; margins = [a for a in xr[:o]]
                    for m_ in d['q']:
                        margins.append(xr[o] - math.sqrt(sum(a * a for a in xr[o + 1:o + m_]))); o += m_
                    os_ = 0
                    for k in d['s']:
                        S_ = matrix(0.0, (k, k))
                        for j in range(k):
                            for i in range(j, k): S_[i, j] = xr[o + j * k + i]; S_[j, i] = xr[o + j * k + i]
                        if k:
                            w_ = matrix(0.0, (k, 1)); lapack.syev(+S_, w_); margins.append(min(w_))
                            if want_sigma:
                                Q = matrix(list(X[o:o + k * k]), (k, k)); sg = list(sig[os_:os_ + k])
                                R = Q * matrix([[sg[c] if r == c else 0.0 for r in range(k)] for c in range(k)]) * Q.T
                                e1 = max(abs(R[i] - S_[i]) for i in range(k * k)); QtQ = Q.T * Q
                                e2 = max(abs(QtQ[i, j] - (1.0 if i == j else 0.0)) for i in range(k) for j in range(k))
                                e3 = max(abs(a - b) for a, b in zip(sorted(sg), sorted(w_)))
                                if max(e1, e2, e3) > 1e-8 * (1 + max(abs(a) for a in S_)):
                                    ctx.violation('c08:max-step-eig:' + name, "max_step(x, dims, mnl, sigma): an 's' block of order %d is not returned as eigenvalues and orthonormal "
                                                  'eigenvectors of the block (|Q S Q^T - A| = %.2e, |Q^T Q - I| = %.2e, eigenvalue error %.2e; %s implementation)' % (k, e1, e2, e3, name),
                                                  {'dims': d, 'mnl': mnl, 'order': k})
                        o += k * k; os_ += k
                    if not want_sigma and list(X) != list(xr):
                        # without sigma the decomposition was not asked for: x is an input only
                        ctx.violation('c08:max-step-modifies-x:' + name, "max_step(x, dims) without sigma changed its argument x (entries %s; %s implementation)"
                                      % ([i for i in range(N) if X[i] != xr[i]][:8], name), {'dims': d, 'mnl': mnl})
                    if margins and abs(t + min(margins)) > 1e-8 * (1 + abs(t)):
                        ctx.violation('c08:max-step:' + name, "x + max_step(x) e is not on the boundary of the cone with 's' blocks (t = %r, expected %r; sigma %s; %s implementation)"
                                      % (t, -min(margins), 'given' if want_sigma else 'omitted', name), {'dims': d, 'mnl': mnl})
    # ---- the remaining kernels against their definitions (reference formulas written from the doc strings; tolerance 1e-10 relative):
    # ssqr, sprod(diag='D'), sinv, scale2, jdot, jnrm2, snrm2, sgemv (dense / sparse A, both trans, offsets), pack2 (multi-column)
    from cvxopt import sparse as _sparse
    def refclose(a, b, tol=1e-10): return all(abs(u - v) <= tol * (1 + abs(u) + abs(v)) for u, v in zip(a, b)) and len(a) == len(b)
    def diag_interior(d, mnl):
        v = [rng.choice([0.5, 1.0, 1.5, 2.0, 3.0]) for _ in range(mnl + d['l'])]
        for m in d['q']:
            t = [rng.choice([-1.0, -0.5, 0.0, 0.5, 1.0, 2.0]) for _ in range(m - 1)]
            v += [math.sqrt(sum(a * a for a in t)) + rng.choice([0.5, 1.0, 2.0])] + t
        v += [rng.choice([0.5, 1.0, 2.0, 4.0]) for _ in range(sum(d['s']))]
        return v
    for it in range(60 if ctx.quick() else 3000):
        d = gen_dims(rng); mnl = rng.choice([0, 0, 1, 2, 3])
        N = cdim(d, mnl); nlq = mnl + d['l'] + sum(d['q']); Nd = nlq + sum(d['s'])
        xr = [rng.uniform(-2, 2) for _ in range(N)]; yd = diag_interior(d, mnl); yv = [rng.choice([-2.0, -1.0, 0.0, 0.5, 1.0, 3.0]) for _ in range(Nd)]
        case = {'dims': d, 'mnl': mnl}
        for name, M in impls:
            # ssqr: x := y o y with diagonal 's' parts; x is longer than y (canaries behind)
            X = matrix(7.0, (Nd + 2, 1)); M.ssqr(X, matrix(yv, (Nd, 1), 'd'), d, mnl); ident += 1
            ref = [a * a for a in yv[:mnl + d['l']]]; o = mnl + d['l']
            for m in d['q']:
                ref += [sum(a * a for a in yv[o:o + m])] + [2.0 * yv[o] * a for a in yv[o + 1:o + m]]; o += m
            ref += [a * a for a in yv[o:]] + [7.0, 7.0]
            if not refclose(list(X), ref):
                ctx.violation('c08:ssqr:' + name, 'ssqr(x, y, dims, mnl) differs from y o y (%s implementation): got %r, definition %r' % (name, list(X), ref), dict(case, y=yv))
            # sprod with diag='D' and its inverse sinv (lower triangles of the 's' blocks)
            X = matrix(xr, (N, 1), 'd'); M.sprod(X, matrix(yd, (Nd, 1), 'd'), d, mnl, diag='D'); ident += 1
            ref = [a * b for a, b in zip(xr[:mnl + d['l']], yd)]; o = mnl + d['l']
            for m in d['q']:
                ref += [sum(a * b for a, b in zip(xr[o:o + m], yd[o:o + m]))] + [yd[o] * a + xr[o] * b for a, b in zip(xr[o + 1:o + m], yd[o + 1:o + m])]; o += m
            low = []; o2 = o; os_ = nlq
            for k in d['s']:
                for j in range(k):
                    for i in range(j, k): low.append((o2 + j * k + i, 0.5 * (yd[os_ + i] + yd[os_ + j])))
                o2 += k * k; os_ += k
            got = list(X)
            if not refclose(got[:nlq], ref) or not refclose([got[q] for q, _ in low], [xr[q] * g for q, g in low]):
                ctx.violation('c08:sprod-diag:' + name, "sprod(x, y, dims, mnl, diag='D') differs from y o x (%s implementation)" % name, dict(case, x=xr, y=yd))
            M.sinv(X, matrix(yd, (Nd, 1), 'd'), d, mnl); ident += 1
            got = list(X)
            if not refclose(got[:nlq], xr[:nlq], 1e-8) or not refclose([got[q] for q, _ in low], [xr[q] for q, _ in low], 1e-8):
                ctx.violation('c08:sinv-undoes-sprod:' + name, "sinv(sprod(x, y, diag='D'), y) does not give x back (%s implementation)" % name, dict(case, x=xr, y=yd))
            X = matrix(xr, (N, 1), 'd'); M.sinv(X, matrix(yd, (Nd, 1), 'd'), d, mnl); ident += 1
            got = list(X); ref = [a / b for a, b in zip(xr[:mnl + d['l']], yd)]; o = mnl + d['l']
            for m in d['q']:
                l0, l1, x0, x1 = yd[o], yd[o + 1:o + m], xr[o], xr[o + 1:o + m]
                aa = l0 * l0 - sum(a * a for a in l1); dd = sum(a * b for a, b in zip(l1, x1))
                ref += [(l0 * x0 - dd) / aa] + [(-a * x0 + (aa * b + a * dd) / l0) / aa for a, b in zip(l1, x1)]; o += m
            if not refclose(got[:nlq], ref, 1e-8) or not refclose([got[q] for q, _ in low], [xr[q] / g for q, g in low], 1e-8):
                ctx.violation('c08:sinv:' + name, 'sinv(x, y, dims, mnl) differs from its definition (%s implementation)' % name, dict(case, x=xr, y=yd))
            # scale2: definition per block and inverse='I' undoes inverse='N' (whole 's' blocks are scaled)
            for inv in 'NI':
                X = matrix(xr, (N, 1), 'd'); M.scale2(matrix(yd, (Nd, 1), 'd'), X, d, mnl, inverse=inv); ident += 1
                got = list(X)
                ref = [(a / b if inv == 'N' else a * b) for a, b in zip(xr[:mnl + d['l']], yd)]; o = mnl + d['l']
                for m in d['q']:
                    a_ = math.sqrt(yd[o] ** 2 - sum(t * t for t in yd[o + 1:o + m])); l = [t / a_ for t in yd[o:o + m]]; xk = xr[o:o + m]
                    if inv == 'N':
                        lx = l[0] * xk[0] - sum(p_ * q_ for p_, q_ in zip(l[1:], xk[1:]))
                        ref += [lx / a_] + [(q_ - (xk[0] + lx) / (l[0] + 1) * p_) / a_ for p_, q_ in zip(l[1:], xk[1:])]
                    else:
                        lx = sum(p_ * q_ for p_, q_ in zip(l, xk))
                        ref += [a_ * lx] + [a_ * (q_ + (xk[0] + lx) / (l[0] + 1) * p_) for p_, q_ in zip(l[1:], xk[1:])]
                    o += m
                os_ = nlq
                for k in d['s']:
                    for j in range(k):
                        for i in range(k):
                            g = math.sqrt(yd[os_ + i] * yd[os_ + j]); ref.append(xr[o + j * k + i] / g if inv == 'N' else xr[o + j * k + i] * g)
                    o += k * k; os_ += k
                if not refclose(got, ref, 1e-9):
                    ctx.violation('c08:scale2:' + name, "scale2(lmbda, x, dims, mnl, inverse='%s') differs from its definition (%s implementation)" % (inv, name), dict(case, x=xr, lmbda=yd))
                M.scale2(matrix(yd, (Nd, 1), 'd'), X, d, mnl, inverse=('I' if inv == 'N' else 'N')); ident += 1
                if not refclose(list(X), xr, 1e-8):
                    ctx.violation('c08:scale2-inverse:' + name, "scale2 with inverse='I' does not undo inverse='N' (%s implementation)" % name, dict(case, x=xr, lmbda=yd))
            # snrm2 is the norm of the inner product that is tied to the model
            X = matrix(xr, (N, 1), 'd'); ident += 1
            if abs(M.snrm2(X, d, mnl) ** 2 - M.sdot(X, X, d, mnl)) > 1e-10 * (1 + M.sdot(X, X, d, mnl)):
                ctx.violation('c08:snrm2:' + name, 'snrm2(x)**2 != sdot(x, x) (%s implementation)' % name, case)
            # jdot / jnrm2 with offsets
            m_ = rng.randint(1, 4); ox, oy = rng.randint(0, 2), rng.randint(0, 2)
            u = [rng.uniform(-2, 2) for _ in range(ox + m_ + 1)]; v = [rng.uniform(-2, 2) for _ in range(oy + m_ + 2)]
            ident += 2
            jd = M.jdot(matrix(u), matrix(v), n=m_, offsetx=ox, offsety=oy)
            if abs(jd - (u[ox] * v[oy] - sum(a * b for a, b in zip(u[ox + 1:ox + m_], v[oy + 1:oy + m_])))) > 1e-12 * (1 + abs(jd)):
                ctx.violation('c08:jdot:' + name, "jdot(x, y, n, offsetx, offsety) differs from x'Jy (%s implementation)" % name, {'n': m_, 'offsetx': ox, 'offsety': oy, 'x': u, 'y': v})
            w = list(u); w[ox] = math.sqrt(sum(a * a for a in w[ox + 1:ox + m_])) + rng.choice([0.25, 1.0, 3.0])
            jn = M.jnrm2(matrix(w), n=m_, offset=ox)
            if abs(jn - math.sqrt(w[ox] ** 2 - sum(a * a for a in w[ox + 1:ox + m_]))) > 1e-10 * (1 + jn):
                ctx.violation('c08:jnrm2:' + name, "jnrm2(x, n, offset) differs from sqrt(x'Jx) (%s implementation)" % name, {'n': m_, 'offset': ox, 'x': w})
            # sgemv: A maps R^n to S ('s' blocks in 'L' storage: trans='T' reads the lower triangles, off-diagonal entries twice)
            N0 = cdim(d); n_ = rng.randint(0, 3); oA = rng.choice([0, 0, 1]) if N0 else 0
            rowsA = N0 + oA
            Ad = [[rng.choice([-2.0, -1.0, 0.0, 0.0, 1.0, 0.5, 3.0]) for _ in range(rowsA)] for _ in range(n_)]      # columns
            Am = matrix([a for col in Ad for a in col], (rowsA, n_), 'd')
            al, be = rng.choice([1.0, -1.0, 2.5, 0.0]), rng.choice([0.0, 1.0, -0.5])
            oxx, oyy = rng.randint(0, 2), rng.randint(0, 2)
            xs0 = [rng.uniform(-2, 2) for _ in range(N0)]
            lowmask = [True] * (d['l'] + sum(d['q']))
            for k in d['s']: lowmask += [i >= j for j in range(k) for i in range(k)]
            wt = [1.0] * (d['l'] + sum(d['q']))
            for k in d['s']: wt += [(1.0 if i == j else (2.0 if i > j else 0.0)) for j in range(k) for i in range(k)]
            for Aop, kindA in ((Am, 'dense'), (_sparse(Am), 'sparse')):
                if oA and kindA == 'sparse': continue        # offsetA addresses the dense array
                for tr in 'NT':
                    xin = ([rng.uniform(-2, 2) for _ in range(n_)] if tr == 'N' else list(xs0)); yin = [rng.uniform(-2, 2) for _ in range(N0 if tr == 'N' else n_)]
                    Xv = matrix([9.0] * oxx + xin + [9.0], (oxx + len(xin) + 1, 1), 'd'); Yv = matrix([8.0] * oyy + yin + [8.0], (oyy + len(yin) + 1, 1), 'd')
                    try: M.sgemv(Aop, Xv, Yv, d, trans=tr, alpha=al, beta=be, n=n_, offsetA=oA, offsetx=oxx, offsety=oyy)
                    except Exception as e:
                        ctx.violation('c08:sgemv-raises:%s:%s' % (name, type(e).__name__), 'sgemv raised %s: %s (%s A, trans=%s, %s implementation)' % (type(e).__name__, e, kindA, tr, name), dict(case, n=n_)); continue
                    ident += 1
                    if tr == 'N': ref = [al * sum(Ad[j][oA + i] * xin[j] for j in range(n_)) + be * yin[i] for i in range(N0)]
                    else: ref = [al * sum(Ad[j][oA + i] * wt[i] * xin[i] for i in range(N0)) + be * yin[j] for j in range(n_)]
                    goty = list(Yv)
                    if not refclose(goty[oyy:oyy + len(yin)], ref) or goty[:oyy] != [8.0] * oyy or goty[-1] != 8.0:
                        ctx.violation('c08:sgemv:' + name, "sgemv(A, x, y, dims, trans='%s', alpha=%g, beta=%g, n=%d, offsetA=%d, offsetx=%d, offsety=%d) with %s A differs from its definition "
                                      '(%s implementation): got %r, definition %r' % (tr, al, be, n_, oA, oxx, oyy, kindA, name, goty[oyy:oyy + len(yin)], ref), dict(case, A=Ad, x=xin, y=yin))
                    gotx = list(Xv)
                    keep = [q for q in range(len(xin)) if tr == 'N' or lowmask[q]]
                    if [gotx[oxx + q] for q in keep] != [xin[q] for q in keep] or gotx[:oxx] != [9.0] * oxx or gotx[-1] != 9.0:
                        ctx.violation('c08:sgemv-modifies-x:' + name, "sgemv changed its argument x (outside the upper triangles of the 's' blocks; %s implementation)" % name, dict(case, trans=tr))
            # pack2: every column packed in place like pack does it
            if N:
                cols = rng.randint(1, 3)
                data = [[rng.uniform(-2, 2) for _ in range(N)] for _ in range(cols)]
                X2 = matrix([a for col in data for a in col], (N, cols), 'd'); M.pack2(X2, d, mnl); ident += 1
                Np = nlq + sum(k * (k + 1) // 2 for k in d['s'])
                for cidx in range(cols):
                    Pc = matrix(0.0, (Np, 1)); misc_c.pack(matrix(data[cidx], (N, 1), 'd'), Pc, d, mnl)
                    if not refclose(list(X2[:Np, cidx]), list(Pc), 1e-12):
                        ctx.violation('c08:pack2:' + name, 'pack2 on column %d of a %d-column matrix differs from pack (%s implementation)' % (cidx, cols, name), dict(case, x=data[cidx])); break
    # ---- pack / unpack against the Lean model (Model/Kernels.lean packBlk / unpackBlk, theorems in Props/C08Pack.lean).  The kernels use
    # r = sqrt(2); packBlk is affine in r and unpackBlk in 1/r (x / 0 = 0 in Lean), so the model is evaluated exactly at r = 0 and r = 1 and
    # combined with the floating-point sqrt(2) here
    plines, pmeta = [], []
    for name, M in impls:
        for it in range(12 if ctx.quick() else 300):
            k = rng.randint(0, 4)
            blk = [float(rng.randint(-8, 8)) / rng.choice([1, 2, 4]) for _ in range(k * k)]
            pk = [float(rng.randint(-8, 8)) / rng.choice([1, 2, 4]) for _ in range(k * (k + 1) // 2)]
            d1 = {'l': 0, 'q': [], 's': [k]}
            P = matrix(5.0, (k * (k + 1) // 2, 1)); M.pack(matrix(blk, (k * k, 1), 'd'), P, d1)
            U = matrix(7.0, (k * k, 1)); M.unpack(matrix(pk, (len(pk), 1), 'd'), U, d1)
            for r_ in ('0', '1'):
                plines.append('packblk r=%s k=%d x=%s' % (r_, k, vtok(blk))); pmeta.append(('pack', name, k, list(P), r_))
                plines.append('unpackblk r=%s k=%d x=%s' % (r_, k, vtok(pk))); pmeta.append(('unpack', name, k, list(U), r_))
    pout = vlib.drive('C08', plines) if plines else []
    def pvec(t): return [] if t == '-' else [float(Fraction(a)) for a in t.split(',')]
    for q in range(0, len(plines), 4):
        (_, name, k, P, _), (_, _, _, U, _) = pmeta[q], pmeta[q + 1]
        P0, U0, P1, U1 = pvec(pout[q]), pvec(pout[q + 1]), pvec(pout[q + 2]), pvec(pout[q + 3])
        ident += 2
        if len(P0) != len(P) or len(U0) != len(U):
            ctx.violation('c08:pack-model:' + name, 'pack / unpack of an order-%d block: lengths differ from the model' % k, {'k': k}); continue
        expP = [a + math.sqrt(2.0) * (b - a) for a, b in zip(P0, P1)]
        if any(abs(a - b) > 1e-12 * (1 + abs(b)) for a, b in zip(P, expP)):
            ctx.violation('c08:pack-model:' + name, 'pack of an order-%d block differs from the model packBlk (%s implementation): %r vs %r' % (k, name, P, expP), {'k': k, 'line': plines[q]})
        expU = [a + (b - a) / math.sqrt(2.0) for a, b in zip(U0, U1)]
        for j in range(k):
            for i in range(k):
                if i < j: continue          # the strict upper triangle is not part of the result (the C kernel leaves it, the Python one rescales it)
                got, want = U[j * k + i], expU[j * k + i]
                if abs(got - want) > 1e-12 * (1 + abs(want)):
                    ctx.violation('c08:unpack-model:' + name, 'unpack of an order-%d block: entry (%d,%d) is %r, model %r (%s implementation)' % (k, i, j, got, want, name), {'k': k, 'line': plines[q + 1]})
    out = vlib.drive('C08', lines)
    dis = 0
    def near(o, m):
        # ssqr computes the head of a 'q' block as nrm2(y)**2 (a square root, squared): equal to the model up to rounding
        try:
            a = [float(Fraction(t)) for t in o.split(',')] if o != '-' else []; b = [float(Fraction(t)) for t in m.split(',')] if m != '-' else []
        except (ValueError, ZeroDivisionError): return False
        return len(a) == len(b) and all(abs(u - v) <= 1e-13 * (1 + abs(v)) for u, v in zip(a, b))
    for l, o, m, name in zip(lines, obs, out, meta):
        if o != m and not (l.startswith('ssqr ') and near(o, m)):
            dis += 1
            if dis <= 4:
                ctx.violation('c08:%s:%s' % (l.split(' ')[0], name), 'kernel %s (%s implementation): `%s` gives `%s`, model `%s`' % (l.split(' ')[0], name, l[:200], o[:120], m[:120]),
                              {'line': l, 'impl': o, 'model': m, 'implementation': name})
    ctx.cov.update({'evaluations': len(lines) + ident, 'distinct_nontrivial': len(set(lines)),
                    'rule': '%d random cone structures (l 0..3, up to two q blocks of dimension 1..4, up to two s blocks of order 0..3, mnl 0..2) with dyadic '
                            'vectors and exactly invertible scalings (powers of two, Pythagorean v, unimodular r): sdot, symm, trisc, triusc, scale (all four '
                            'flag combinations, two columns), sprod (full and diagonal), ssqr compared exactly with the Lean model for BOTH implementations (the head of a q block of ssqr to rounding: it is nrm2 squared); inverse/adjoint/pack/'
                            'max_step identities on random data with tolerance 1e-9' % n,
                    'protocol_lines_compared': len(lines), 'disagreements_checked': dis, 'identity_checks': ident, 'implementations': ['C', 'python']})
    ctx.samples += lines[:3]

def search(ctx, why): return
def replay(ctx, payload): correspond(ctx)
