import CvxVerif.Proofs.Sparse
/-!
# C16 — sparse matrices are a faithful, structurally valid image of the dense semantics

Theorems about the model `Model/Sparse.lean` (entries in storage order; `toCCS` gives the `colptr/rowind/values`
arrays), which `tools/corr/c16.py` compares with `A.CCS` of the real objects after every operation.
-/
namespace CvxVerif.Sparse

/-- **Construction from triplets is valid and sums duplicates**, for any number of triplets, any pattern. -/
theorem C16_fromTriplets (m n : Nat) (trip : List (Nat × Nat × Rat)) (A : SpMat) (h : fromTriplets m n trip = some A) :
    A.Valid ∧ A.nrows = m ∧ A.ncols = n ∧
    ∀ r c, A.get r c = ((trip.filter fun t => t.2.1 == c && t.1 == r).map (·.2.2)).sum := by
  unfold fromTriplets at h
  split at h
  · cases h
  · rename_i hr
    simp only [Option.some.injEq] at h
    subst h
    simp only [Bool.not_eq_true, List.any_eq_false, Bool.or_eq_false_iff, decide_eq_false_iff_not, Nat.not_le] at hr
    have key : ∀ (ts : List (Nat × Nat × Rat)) (l0 : List Entry),
        ts.foldl (fun l t => insertAcc ⟨t.2.1, t.1, t.2.2⟩ l) l0 =
        (ts.map fun t => (⟨t.2.1, t.1, t.2.2⟩ : Entry)).foldl (fun l e => insertAcc e l) l0 := by
      intro ts; induction ts with
      | nil => intro l0; rfl
      | cons t ts ih => intro l0; simp only [List.foldl_cons, List.map_cons]; exact ih _
    have hs : Sorted ([] : List Entry) := by simp [Sorted]
    obtain ⟨h1, h2⟩ := foldl_insertAcc (trip.map fun t => (⟨t.2.1, t.1, t.2.2⟩ : Entry)) [] hs
    refine ⟨⟨?_, ?_⟩, rfl, rfl, ?_⟩
    · show Sorted (trip.foldl _ []); rw [key]; exact h1
    · show InRange m n (trip.foldl _ []); rw [key]
      apply foldl_insertAcc_inRange
      · intro z hz
        simp only [List.mem_map] at hz
        obtain ⟨t, ht, rfl⟩ := hz
        exact ⟨(hr t ht).1, (hr t ht).2⟩
      · intro z hz; simp at hz
    · intro r c
      show lookup (trip.foldl _ []) c r = _
      rw [key, h2]
      simp only [lookup, List.find?, sumAt, List.filter_map, List.map_map]
      rw [Rat.zero_add]; rfl

/-- **Addition is valid and is the dense addition.** -/
theorem C16_add (A B R : SpMat) (hA : A.Valid) (hB : B.Valid) (h : add A B = some R) :
    R.Valid ∧ R.nrows = A.nrows ∧ R.ncols = A.ncols ∧ ∀ r c, R.get r c = A.get r c + B.get r c := by
  unfold add at h
  split at h
  · cases h
  · rename_i hd
    simp only [Bool.or_eq_true, bne_iff_ne, ne_eq, not_or, Decidable.not_not] at hd
    simp only [Option.some.injEq] at h
    subst h
    obtain ⟨h1, h2⟩ := foldl_insertAcc B.ents A.ents hA.1
    refine ⟨⟨h1, ?_⟩, rfl, rfl, fun r c => ?_⟩
    · apply foldl_insertAcc_inRange _ _ _ _ ?_ hA.2
      rw [hd.1, hd.2]; exact hB.2
    · show lookup _ c r = _
      rw [h2, sumAt_sorted B.ents hB.1]; rfl

/-- **Transposition is valid and is the dense transposition.** -/
theorem C16_transpose (A : SpMat) (hA : A.Valid) :
    (transpose A).Valid ∧ ∀ r c, (transpose A).get r c = A.get c r := by
  have key : ∀ (es l0 : List Entry),
      es.foldl (fun l e => insertAcc ⟨e.row, e.col, e.val⟩ l) l0 =
      (es.map fun e => (⟨e.row, e.col, e.val⟩ : Entry)).foldl (fun l e => insertAcc e l) l0 := by
    intro es; induction es with
    | nil => intro l0; rfl
    | cons t ts ih => intro l0; simp only [List.foldl_cons, List.map_cons]; exact ih _
  have hs : Sorted ([] : List Entry) := by simp [Sorted]
  obtain ⟨h1, h2⟩ := foldl_insertAcc (A.ents.map fun e => (⟨e.row, e.col, e.val⟩ : Entry)) [] hs
  refine ⟨⟨?_, ?_⟩, fun r c => ?_⟩
  · show Sorted (A.ents.foldl _ []); rw [key]; exact h1
  · show InRange A.ncols A.nrows (A.ents.foldl _ []); rw [key]
    apply foldl_insertAcc_inRange
    · intro z hz
      simp only [List.mem_map] at hz
      obtain ⟨t, ht, rfl⟩ := hz
      have := hA.2 t ht
      exact ⟨this.2, this.1⟩
    · intro z hz; simp at hz
  · show lookup (A.ents.foldl _ []) c r = lookup A.ents r c
    rw [key, h2, ← sumAt_sorted A.ents hA.1]
    simp only [lookup, List.find?, sumAt, List.filter_map, List.map_map]
    rw [Rat.zero_add]
    congr 1
    congr 1
    apply List.filter_congr
    intro x _
    simp [Bool.and_comm]

/-- scalar multiplication keeps the pattern (explicit zeros included) and scales the values -/
theorem C16_scale (a : Rat) (A : SpMat) :
    (toCCS (scale a A)).1 = (toCCS A).1 ∧ (toCCS (scale a A)).2.1 = (toCCS A).2.1 ∧
    (toCCS (scale a A)).2.2 = (toCCS A).2.2.map (a * ·) := by
  simp [toCCS, scale, List.filter_map, Function.comp_def]

theorem filter_length_mono {α : Type} (l : List α) (p q : α → Bool) (h : ∀ x, p x = true → q x = true) :
    (l.filter p).length ≤ (l.filter q).length := by
  induction l with
  | nil => simp
  | cons x xs ih =>
    simp only [List.filter_cons]
    by_cases hp : p x = true
    · simp only [hp, h x hp, if_true, List.length_cons]; omega
    · simp only [hp, if_false, Bool.false_eq_true]
      by_cases hq : q x = true
      · simp only [hq, if_true, List.length_cons]; omega
      · simp only [hq, if_false, Bool.false_eq_true]; exact ih

/-- **The arrays shown by `A.CCS` are structurally valid**: `colptr` has `ncols+1` entries, starts at 0, is
nondecreasing and ends at the number of stored entries, which is the length of `rowind` and `values`. -/
theorem C16_ccs_valid (A : SpMat) (hA : A.Valid) :
    let c := toCCS A
    c.1.length = A.ncols + 1 ∧ c.1.head? = some 0 ∧ c.1.getLast? = some A.ents.length ∧
    c.2.1.length = A.ents.length ∧ c.2.2.length = A.ents.length ∧
    ∀ j, j < A.ncols → c.1.getD j 0 ≤ c.1.getD (j + 1) 0 := by
  intro c
  refine ⟨by simp [c, toCCS], ?_, ?_, by simp [c, toCCS], by simp [c, toCCS], ?_⟩
  · simp [c, toCCS, List.range_succ_eq_map]
  · have hf : A.ents.filter (fun e => decide (e.col < A.ncols)) = A.ents := by
      rw [List.filter_eq_self]
      intro e he
      have := (hA.2 e he).2
      simpa using this
    simp [c, toCCS, List.range_succ, hf]
  · intro j hj
    simp only [c, toCCS]
    rw [List.getD_eq_getElem?_getD, List.getD_eq_getElem?_getD]
    simp only [List.getElem?_map, List.getElem?_range (show j < A.ncols + 1 by omega),
      List.getElem?_range (show j + 1 < A.ncols + 1 by omega), Option.map_some, Option.getD_some]
    exact filter_length_mono A.ents _ _ (fun e he => by simp only [decide_eq_true_eq] at he ⊢; omega)

/-- within a column, the row indices of a valid matrix are strictly increasing -/
theorem C16_rows_increasing (A : SpMat) (hA : A.Valid) (j : Nat) :
    ((A.ents.filter fun e => e.col == j).map (·.row)).Pairwise (· < ·) := by
  rw [List.pairwise_map]
  have := List.Pairwise.filter (fun e => e.col == j) hA.1
  apply List.Pairwise.imp_of_mem _ this
  intro a b ha hb hab
  simp only [List.mem_filter, beq_iff_eq] at ha hb
  unfold Entry.lt at hab
  omega

example : (fromTriplets 3 3 [(2, 1, 1), (0, 0, 2), (2, 1, 3), (0, 0, -1), (1, 2, 0)]).map toCCS =
    some ([0, 1, 2, 3], [0, 2, 1], [1, 4, 0]) := by decide +kernel

end CvxVerif.Sparse
