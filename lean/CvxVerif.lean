import CvxVerif.Model.Proto
import CvxVerif.Model.OpState
import CvxVerif.Props.C13
import CvxVerif.Props.C09
import CvxVerif.Props.C10
import CvxVerif.Props.C06
import CvxVerif.Props.C06Present
