"""C16: op-sequence correspondence between real cvxopt spmatrix objects and the Lean model (Model/Sparse.lean), comparing the
CCS arrays after every operation, plus the dense-image oracle (same operation on dense copies) and structural validity."""
import os, sys, random
from fractions import Fraction
import vlib

LEAN_TARGETS = ['CvxVerif.Props.C16', 'CvxVerif.Props.C16More', 'CvxVerif.Props.C16Partial']
MODEL_FILES = ['CvxVerif.Model.Sparse', 'CvxVerif.Proofs.Sparse']
LEVEL = 'proof'
TRUSTED = ['hand-written model lean/CvxVerif/Model/Sparse.lean (entries in storage order; insertion with accumulation), tied by the exact '
           'comparison of A.CCS after every operation', 'dense-image oracle computed with cvxopt dense matrices (C15)']
ASSUMPTIONS = ['values are small integers / halves (exact in doubles); complex matrices are compared through the dense oracle only',
               'the sparse accumulator algorithms are modelled by their input/output behaviour, not step by step']

def frs(x):
    f = Fraction(x); return str(f.numerator) if f.denominator == 1 else '%d/%d' % (f.numerator, f.denominator)
def show(A):
    cp, ri, v = A.CCS
    return 'sp %d %d cp=%s ri=%s v=%s' % (A.size[0], A.size[1], ','.join(map(str, cp)) or '-', ','.join(map(str, ri)) or '-',
                                           ','.join(frs(x) for x in v) or '-')
def valid(A):
    cp, ri, v = [list(x) for x in A.CCS]
    m, n = A.size
    if len(cp) != n + 1 or cp[0] != 0 or cp[-1] != len(ri) or len(ri) != len(v): return False
    for j in range(n):
        if cp[j] > cp[j + 1]: return False
        col = ri[cp[j]:cp[j + 1]]
        if any(a >= b for a, b in zip(col, col[1:])) or any(r < 0 or r >= m for r in col): return False
    return True

def correspond(ctx):
    cvxopt = vlib.use_build(ctx.build)
    from cvxopt import spmatrix, matrix, sparse, spdiag, base, blas
    rng = random.Random(ctx.seed * 31 + 16)
    nseq = 150 if ctx.quick() else 5000
    lines, obs = [], []
    oracle_checks = 0
    def val(): return rng.choice([0.0, 1.0, -1.0, 2.0, 0.5, -3.0, 4.0])
    def dense_eq(R, D, what, seq):
        nonlocal oracle_checks
        oracle_checks += 1
        if R.size != D.size or list(matrix(R)) != list(D):
            ctx.violation('c16:dense-image:' + what.split(' ')[0], 'sparse %s differs from the same operation on dense copies' % what, {'sequence': seq})
        if not valid(R):
            ctx.violation('c16:invalid-ccs:' + what.split(' ')[0], 'result of sparse %s has an invalid CCS structure: %s' % (what, show(R)), {'sequence': seq})
    for s in range(nseq):
        env = {}
        seq = []
        def emit(line, f):
            lines.append(line); seq.append(line)
            try: obs.append(f())
            except Exception as e: obs.append(type(e).__name__)
        lines.append('reset'); obs.append('ok')
        def new(name):
            m, n = rng.randint(0, 4), rng.randint(0, 4)
            k = rng.randint(0, 7) if m * n else 0
            trip = [(rng.randrange(m), rng.randrange(n), val()) for _ in range(k)] if m * n else []
            if rng.random() < 0.05 and trip: trip[0] = (m, trip[0][1], trip[0][2])    # out of range row
            def f():
                A = spmatrix([t[2] for t in trip], [t[0] for t in trip], [t[1] for t in trip], (m, n))
                env[name] = A
                D = matrix(0.0, (m, n))
                for i, j, v in trip: D[i, j] += v
                dense_eq(A, D, 'construction from triplets', list(seq))
                return show(A)
            emit('new %s %d %d %s' % (name, m, n, ';'.join('%d,%d,%s' % (i, j, frs(v)) for i, j, v in trip) or '-'), f)
        for nm in 'abc': new(nm)
        for _ in range(10):
            live = [k for k in env]
            if not live: break
            k = rng.random(); a = rng.choice(live); A = env[a]
            if k < 0.3:
                b = rng.choice(live); B = env[b]; op = rng.choice(['add', 'sub', 'mul']); dst = rng.choice('abcde')
                def f():
                    R = {'add': lambda: A + B, 'sub': lambda: A - B, 'mul': lambda: A * B}[op]()
                    D = {'add': lambda: matrix(A) + matrix(B), 'sub': lambda: matrix(A) - matrix(B), 'mul': lambda: matrix(A) * matrix(B)}[op]()
                    if not isinstance(R, spmatrix): raise RuntimeError('result of sparse %s sparse is not sparse' % op)
                    dense_eq(R, D, op, list(seq)); env[dst] = R; return show(R)
                emit('%s %s %s %s' % (op, dst, a, b), f)
            elif k < 0.4:
                dst = rng.choice('abcde')
                def f():
                    R = A.T; dense_eq(R, matrix(A).T, 'transpose', list(seq)); env[dst] = R; return show(R)
                emit('trans %s %s' % (dst, a), f)
            elif k < 0.5:
                dst = rng.choice('abcde'); c = rng.choice([2.0, -1.0, 0.0, 0.5])
                def f():
                    R = c * A if rng.random() < 0.5 else A * c
                    dense_eq(R, matrix(A) * c, 'scalar multiplication', list(seq)); env[dst] = R; return show(R)
                emit('scal %s %s %s' % (dst, a, frs(c)), f)
            elif k < 0.55:
                dst = rng.choice('abcde')
                def f():
                    R = -A; dense_eq(R, -matrix(A), 'negation', list(seq)); env[dst] = R; return show(R)
                emit('neg %s %s' % (dst, a), f)
            elif k < 0.8 and A.size[0] and A.size[1]:
                i, j = rng.randrange(A.size[0]), rng.randrange(A.size[1]); v = val()
                ii = i - A.size[0] if rng.random() < 0.3 else i         # negative index forms
                def f():
                    D = matrix(A); D[ii, j] = v
                    A[ii, j] = v
                    dense_eq(A, D, 'indexed assignment', list(seq)); return show(A)
                emit('set %s %d %d %s' % (a, i, j, frs(v)), f)
            elif A.size[0] and A.size[1]:
                i, j = rng.randrange(A.size[0]), rng.randrange(A.size[1])
                emit('get %s %d %d' % (a, i, j), lambda: frs(A[i, j]))
            # general indexing and indexed assignment on a copy, against the dense semantics (oracle only): integers (negative), slices,
            # index lists with negative entries; right-hand sides: number, dense matrix, sparse matrix
            if rng.random() < 0.5 and A.size[0] and A.size[1]:
                m, n = A.size
                def key(dim):
                    r = rng.random()
                    if r < 0.25: return rng.randrange(-dim, dim)
                    if r < 0.4:
                        lo = rng.randrange(0, dim); return slice(lo, rng.randrange(lo, dim + 1), rng.choice([1, 1, 2]))
                    if r < 0.55:      # every slice form: open ends, negative ends, negative steps (whole axis reversed, partial, strided)
                        end = lambda: rng.choice([None, None, rng.randrange(-dim - 1, dim + 2)])
                        return slice(end(), end(), rng.choice([1, 2, 3, -1, -1, -2, -3, None]))
                    if r < 0.6: return slice(None)
                    return [rng.randrange(-dim, dim) for _ in range(rng.randint(1, 3))]
                I, J = key(m), key(n)
                S = +A; D = matrix(A)
                # an index list that names a position twice makes the result of an assignment depend on the order of the writes, which the
                # manual does not fix: such lists are only used for reading
                dup = any(isinstance(K, list) and len(set(k % dim for k in K)) < len(K) for K, dim in ((I, m), (J, n)))
                try:
                    sub = D[I, J]
                    shape = sub.size if isinstance(sub, matrix) else (1, 1)
                    kind = rng.choice(['number', 'dense', 'sparse'])
                    if kind == 'number': rhs_s = rhs_d = val()
                    else:
                        vals = [val() for _ in range(shape[0] * shape[1])]
                        rhs_d = matrix(vals, shape)
                        rhs_s = rhs_d if kind == 'dense' else sparse(rhs_d)
                    ok_d = True
                    try: D[I, J] = rhs_d
                    except Exception as e: ok_d = type(e).__name__
                    try: S[I, J] = rhs_s; ok_s = True
                    except Exception as e: ok_s = type(e).__name__
                    what = 'A[%r, %r] = %s on a %dx%d matrix' % (I, J, kind, m, n)
                    if dup: pass
                    elif ok_d is True and ok_s is True: dense_eq(S, D, 'assignment ' + what, list(seq))
                    elif (ok_d is True) != (ok_s is True) and not (kind == 'sparse' and ok_d is True):
                        ctx.violation('c16:dense-image:assignment-refusal', '%s: dense %s, sparse %s' % (what, ok_d, ok_s), {'sequence': list(seq), 'I': repr(I), 'J': repr(J)})
                    # one-argument (linear, column-major) indexing with the same kinds of index
                    K1 = key(m * n)
                    try: G1d = matrix(A)[K1]; okd = True
                    except (IndexError, TypeError, ValueError): okd = False
                    try: G1 = A[K1]; oks = True
                    except (IndexError, TypeError, ValueError): oks = False
                    oracle_checks += 1
                    if okd != oks:
                        ctx.violation('c16:dense-image:indexing-refusal', 'A[%r] on a %dx%d matrix: dense %s, sparse %s' % (K1, m, n, 'accepts' if okd else 'refuses', 'accepts' if oks else 'refuses'),
                                      {'sequence': list(seq), 'K': repr(K1)})
                    elif okd:
                        same1 = (list(matrix(G1)) == list(G1d) and G1.size == G1d.size and valid(G1)) if isinstance(G1, spmatrix) else (not isinstance(G1d, matrix) and G1 == G1d)
                        if not same1:
                            ctx.violation('c16:dense-image:indexing', 'A[%r] differs from the dense result' % (K1,), {'sequence': list(seq), 'K': repr(K1)})
                    G = A[I, J]; Gd = matrix(A)[I, J]
                    oracle_checks += 1
                    if isinstance(G, spmatrix):
                        if not isinstance(Gd, matrix) or G.size != Gd.size or list(matrix(G)) != list(Gd) or not valid(G):
                            ctx.violation('c16:dense-image:indexing', 'A[%r, %r] differs from the dense result' % (I, J), {'sequence': list(seq), 'I': repr(I), 'J': repr(J)})
                    elif G != Gd:
                        ctx.violation('c16:dense-image:indexing', 'A[%r, %r] = %r, dense %r' % (I, J, G, Gd), {'sequence': list(seq), 'I': repr(I), 'J': repr(J)})
                except (IndexError, TypeError, ValueError): pass
            # mixed sparse/dense products against the dense formulas (oracle only)
            if rng.random() < 0.3 and A.size[0] and A.size[1]:
                m, n = A.size
                x = matrix([val() for _ in range(n)]); y = matrix([val() for _ in range(m)]); y2 = +y
                al, be = val(), val()
                base.gemv(A, x, y, alpha=al, beta=be); base.gemv(matrix(A), x, y2, alpha=al, beta=be)
                oracle_checks += 1
                if list(y) != list(y2): ctx.violation('c16:dense-image:gemv', 'base.gemv with a sparse A differs from the dense product', {'sequence': list(seq)})
                xt = matrix([val() for _ in range(m)]); yt = matrix([val() for _ in range(n)]); yt2 = +yt
                base.gemv(A, xt, yt, trans='T', alpha=al, beta=be); base.gemv(matrix(A), xt, yt2, trans='T', alpha=al, beta=be)
                if list(yt) != list(yt2): ctx.violation('c16:dense-image:gemv', "base.gemv(trans='T') with a sparse A differs from the dense product", {'sequence': list(seq)})
                C = matrix(0.0, (n, n)); C2 = matrix(0.0, (n, n))
                base.syrk(A, C, trans='T'); base.syrk(matrix(A), C2, trans='T')
                oracle_checks += 1
                low = lambda M: [M[p, q] for q in range(n) for p in range(q, n)]
                if low(C) != low(C2): ctx.violation('c16:dense-image:syrk', 'base.syrk with a sparse A differs from the dense product (lower triangle)', {'sequence': list(seq)})
                # partial=True: only the positions already in the pattern of a sparse C are updated
                Cs = sparse(matrix([[1.0 if (p + q) % 2 == 0 else 0.0 for p in range(n)] for q in range(n)]))
                if n:
                    Cp = +Cs; base.syrk(A, Cp, trans='T', partial=True)
                    oracle_checks += 1
                    ok = True
                    cp, ri, vv = Cp.CCS; cp0, ri0, _ = Cs.CCS
                    if list(cp) != list(cp0) or list(ri) != list(ri0): ok = False
                    else:
                        for q in range(n):
                            for t in range(cp[q], cp[q + 1]):
                                p = ri[t]
                                if p >= q and vv[t] != C2[p, q]: ok = False
                    if not ok: ctx.violation('c16:partial-syrk', 'base.syrk(partial=True) does not equal the full product restricted to the old pattern', {'sequence': list(seq)})
    # complex matrices (the Lean model is real): the same operations against the dense complex semantics (oracle only)
    ncomplex = 150 if ctx.quick() else 3000
    def cval(): return complex(rng.randint(-3, 3), rng.randint(-3, 3))
    for it in range(ncomplex):
        m, n = rng.randint(1, 4), rng.randint(1, 4)
        def rand_sp(m, n):
            k = rng.randint(0, 6)
            trip = [(rng.randrange(m), rng.randrange(n), cval()) for _ in range(k)]
            if trip and rng.random() < 0.5: trip.append((trip[0][0], trip[0][1], cval()))       # a repeated position: values are summed
            A = spmatrix([t[2] for t in trip], [t[0] for t in trip], [t[1] for t in trip], (m, n), 'z')
            D = matrix(0.0, (m, n), 'z')
            for i, j, v in trip: D[i, j] += v
            return A, D, trip
        A, D, trip = rand_sp(m, n)
        dense_eq(A, D, 'construction of a complex matrix from triplets', ['complex', str(trip), (m, n)])
        B, DB, tb = rand_sp(m, n)
        dense_eq(A + B, D + DB, 'add (complex)', ['complex', str(trip), str(tb)])
        dense_eq(A - B, D - DB, 'sub (complex)', ['complex', str(trip), str(tb)])
        C, DC, tc_ = rand_sp(n, rng.randint(1, 3))
        dense_eq(A * C, D * DC, 'mul (complex)', ['complex', str(trip), str(tc_)])
        dense_eq(A.T, D.T, 'transpose (complex)', ['complex', str(trip)])
        dense_eq(A.H, D.H, 'conjugate transpose (complex)', ['complex', str(trip)])
        a = cval()
        dense_eq(a * A, a * D, 'scalar multiplication (complex)', ['complex', str(trip), str(a)])
        i, j = rng.randrange(m), rng.randrange(n); v = cval()
        A2 = +A; D2 = +D; A2[i, j] = v; D2[i, j] = v
        dense_eq(A2, D2, 'indexed assignment (complex)', ['complex', str(trip), (i, j, str(v))])
    out = vlib.drive('C16', lines)
    dis = 0
    st = 0
    for k, (l, o, m) in enumerate(zip(lines, obs, out)):
        if l == 'reset': st = k
        if o != m:
            dis += 1
            if dis <= 4:
                ctx.violation('c16:%s:%s' % (l.split(' ')[0], 'exception' if (o[:2] != 'sp' and not o[:1].isdigit() and o[0] != '-') else 'structure'),
                              'sparse operation `%s`: implementation gives `%s`, model `%s`' % (l, o[:140], m[:140]), {'sequence': lines[st:k + 1], 'impl': o, 'model': m})
    # mixed sparse / dense products with every keyword (axpy, gemm, gemv, syrk, symv, elementwise operations): the call on sparse operands vs
    # the same call on their dense images (tools/corr/c19_base.py; the same calls are the C19 guard-page probes)
    from corr import c19_base
    nprod = c19_base.base_probes(ctx, random.Random(ctx.seed * 977 + 16), ctx.build, 'C16')
    nprod += c19_base.ctor_probes(ctx, random.Random(ctx.seed * 971 + 16), ctx.build, 'C16')
    ctx.cov.update({'evaluations': len(lines) + nprod, 'distinct_nontrivial': len(set(lines)),
                    'rule': '%d sequences of up to 13 operations on named sparse matrices (0..4 x 0..4, duplicates in triplets, explicit zeros, empty rows and '
                            'columns): construction, + - *, scalar multiplication, negation, transpose, indexed assignment (negative indices), element '
                            'access; CCS arrays compared with the model after every operation; every result also compared with the dense operation on '
                            'dense copies and checked for structural validity; gemv / syrk / syrk(partial) against dense formulas; generated calls of axpy / gemm / gemv / '
                            'syrk / symv / emul / ediv with sparse operands, every transposition, increment and offset keyword, against the dense images' % nseq,
                    'protocol_lines_compared': len(lines), 'disagreements_checked': dis, 'dense_oracle_checks': oracle_checks})
    ctx.samples += [l for l in lines if l != 'reset'][:4]

def search(ctx, why): return
def replay(ctx, payload): correspond(ctx)
