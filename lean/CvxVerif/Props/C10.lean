import CvxVerif.Gen.Faults
/-!
# C10 — numerical failures inside a solve are contained and reported as documented

`Gen/Faults.lean` is regenerated from `coneprog.py` / `cvxprog.py` on every run: every call site of the KKT
factorisation (`kktsolver`) and of a KKT solve (`f`, `f3`, `f4`, `f6` and the local functions that reach them)
in `conelp`, `coneqp`, `cpl`, with the `except ArithmeticError` handler that encloses it and the control
paths of that handler; and every `raise` statement of the nine solver entry points.
-/
namespace CvxVerif.C10
open CvxVerif.Faults CvxVerif.Gen.Faults

/-- the outcomes the property allows for a failed KKT call -/
def Allowed (o : Outcome) : Bool :=
  o == .valueError || o == .unknown || o == .recovered

/-- **No escape, never optimal.** Whatever call site fails and whatever the solver state is, the
`ArithmeticError` is handled: the outcome is the documented `ValueError`, a result with status `'unknown'`,
or a recovery (restore + successful re-factorisation) after which the solve goes on. -/
theorem C10_no_escape : ∀ s ∈ sites, ∀ c ∈ allCtx, reachable s c = true → Allowed (outcome s c) = true := by decide

theorem C10_no_escape_all (s : Site) (hs : s ∈ sites) (c : Ctx) (hr : reachable s c = true) :
    Allowed (outcome s c) = true :=
  C10_no_escape s hs c (mem_allCtx c) hr

/-- **Start-up.** A failure before the main loop raises the documented `ValueError`. -/
theorem C10_startup_value_error :
    ∀ s ∈ sites, s.inLoop = false → ∀ c ∈ allCtx, outcome s c = .valueError := by decide

/-- **Later iterations.** After the first iteration a failure never raises: the solver returns `'unknown'`
(or recovers). -/
theorem C10_later_unknown :
    ∀ s ∈ sites, s.inLoop = true → ∀ c ∈ allCtx, reachable s c = true → c.iters0 = false →
      outcome s c = .unknown ∨ outcome s c = .recovered := by decide

/-- recovery happens only in `cpl`, only after a relaxed line search, and only if the retry succeeds -/
theorem C10_restore :
    ∀ s ∈ sites, ∀ c ∈ allCtx, outcome s c = .recovered →
      s.solver = "cpl" ∧ c.relaxedMid = true ∧ c.retryOk = true ∧ c.iters0 = false := by decide

/-- every solver has its factorisation and its solves in the table (the table is not vacuous) -/
theorem C10_sites_cover :
    ∀ sv ∈ ["conelp", "coneqp", "cpl"],
      (∃ s ∈ sites, s.solver = sv ∧ s.kind = "factor" ∧ s.inLoop = true) ∧
      (∃ s ∈ sites, s.solver = sv ∧ s.kind = "solve" ∧ s.inLoop = true) := by decide

/-- **Whole runs.** For every sequence of KKT calls with arbitrary failures injected, if a failure ends the
run, it ends it in an allowed way. -/
theorem C10_run_contained (events : List (Site × Ctx × Bool)) (h : ∀ e ∈ events, e.1 ∈ sites) :
    ∀ o, runOutcome events = some o → Allowed o = true := by
  induction events with
  | nil => intro o ho; simp [runOutcome] at ho
  | cons e rest ih =>
    obtain ⟨s, c, fails⟩ := e
    intro o ho
    have hs : s ∈ sites := h (s, c, fails) List.mem_cons_self
    have hrest : ∀ e ∈ rest, e.1 ∈ sites := fun e he => h e (List.mem_cons_of_mem _ he)
    cases fails with
    | false => simp [runOutcome] at ho; exact ih hrest o ho
    | true =>
      by_cases hr : reachable s c = true
      case neg => simp only [runOutcome, hr, Bool.and_false, Bool.false_eq_true, ↓reduceIte] at ho; exact ih hrest o ho
      simp only [runOutcome, hr, Bool.and_self, ↓reduceIte] at ho
      have ha := C10_no_escape_all s hs c hr
      cases hoc : outcome s c <;> rw [hoc] at ho ha <;> simp only at ho
      all_goals first
        | exact ih hrest o ho
        | (cases ho; exact ha)

/-- **Exception classes.** Every `raise` statement of the solver entry points raises `TypeError` or
`ValueError`, and mentions no name that is unbound at that point (so it cannot turn into a `NameError`). -/
theorem C10_exception_classes :
    ∀ r ∈ raises, (r.cls = "TypeError" ∨ r.cls = "ValueError") ∧ r.unbound = [] := by decide +kernel

end CvxVerif.C10
