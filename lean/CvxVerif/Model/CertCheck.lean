import Mathlib.Algebra.BigOperators.Fin
import Mathlib.Algebra.Order.BigOperators.Ring.Finset
import Mathlib.Algebra.Order.Field.Rat
import Mathlib.Tactic.Ring
import Mathlib.Tactic.Positivity
/-!
Exact (rational) checker of optimality / infeasibility certificates of cone programs, applied by the
correspondence harness to what the real solvers return (every double is a rational number).
Vectors over the cone `K = l × q… × s…` are lists in the cvxopt layout ('s' blocks: column-major `k×k`,
only the lower triangle is read).
-/
namespace CvxVerif.Cert

structure Dims where
  l : Nat
  q : List Nat
  s : List Nat
deriving Repr

def dot (a b : List Rat) : Rat := (List.zipWith (· * ·) a b).sum

/-- entry `(i,j)` of the symmetric matrix stored in the lower triangle of a column-major `k×k` block -/
def symEntry (k : Nat) (blk : List Rat) (i j : Nat) : Rat :=
  if j ≤ i then blk.getD (j * k + i) 0 else blk.getD (i * k + j) 0

/-- the documented inner product on the cone space: plain on 'l','q' blocks, `tr(sym(u) sym(v))` on 's' blocks -/
def sdotS : List Nat → List Rat → List Rat → Rat
  | [], _, _ => 0
  | k :: ks, u, v =>
    let ub := u.take (k * k); let vb := v.take (k * k)
    ((List.range k).map fun i => ((List.range k).map fun j => symEntry k ub i j * symEntry k vb i j).sum).sum
      + sdotS ks (u.drop (k * k)) (v.drop (k * k))

def sdot (d : Dims) (u v : List Rat) : Rat :=
  let n1 := d.l + d.q.sum
  dot (u.take n1) (v.take n1) + sdotS d.s (u.drop n1) (v.drop n1)

/-- second-order cone membership without square roots -/
def inQ (v : List Rat) : Bool :=
  match v with
  | [] => true
  | s0 :: t => decide (0 ≤ s0) && decide ((t.map fun a => a * a).sum ≤ s0 * s0)

def inQs : List Nat → List Rat → Bool
  | [], _ => true
  | m :: ms, v => inQ (v.take m) && inQs ms (v.drop m)

/-- witness check `S = L·diag(D)·Lᵀ`, `D ≥ 0` for the symmetric matrix in the lower triangle of `blk` -/
def psdWitnessOk (k : Nat) (blk : List Rat) (L : List (List Rat)) (D : List Rat) : Bool :=
  ((List.range k).all fun i => (List.range k).all fun j =>
    (symEntry k blk i j == ((List.range k).map fun t => (L.getD i []).getD t 0 * D.getD t 0 * (L.getD j []).getD t 0).sum))
  && ((List.range k).all fun t => decide (0 ≤ D.getD t 0))

/-- exact LDLᵀ (no pivoting) of the symmetric matrix in the lower triangle, in its semidefinite form: a zero
pivot is accepted when the rest of its (eliminated) column is zero; `none` when a pivot is negative or a zero pivot
has a nonzero column below it.  The result is only a *witness*: acceptance is decided by `psdWitnessOk`. -/
def ldl (k : Nat) (blk : List Rat) : Option (List (List Rat) × List Rat) :=
  let step := fun (acc : Option (Array (Array Rat) × Array Rat)) (j : Nat) =>
    match acc with
    | none => none
    | some (L, D) =>
      let dj := symEntry k blk j j - ((List.range j).map fun t => (L[j]!)[t]! * (L[j]!)[t]! * D[t]!).sum
      if dj < 0 then none else
      let col := fun (i : Nat) => symEntry k blk i j - ((List.range j).map fun t => (L[i]!)[t]! * (L[j]!)[t]! * D[t]!).sum
      if dj == 0 && (List.range k).any (fun i => decide (j < i) && col i != 0) then none else
      let L := (List.range k).foldl (fun (L : Array (Array Rat)) i =>
        if i < j then L
        else if i = j then L.set! i ((L[i]!).set! j 1)
        else L.set! i ((L[i]!).set! j (if dj == 0 then 0 else col i / dj))) L
      some (L, D.set! j dj)
  match (List.range k).foldl step (some (Array.replicate k (Array.replicate k 0), Array.replicate k 0)) with
  | none => none
  | some (L, D) => some (L.toList.map (·.toList), D.toList)

def inS1 (k : Nat) (blk : List Rat) : Bool :=
  match ldl k blk with
  | none => k == 0
  | some (L, D) => psdWitnessOk k blk L D

def inSs : List Nat → List Rat → Bool
  | [], _ => true
  | k :: ks, v => inS1 k (v.take (k * k)) && inSs ks (v.drop (k * k))

/-- membership of a vector in the cone described by `d` -/
def inCone (d : Dims) (v : List Rat) : Bool :=
  (v.take d.l).all (fun a => decide (0 ≤ a)) && inQs d.q ((v.drop d.l).take d.q.sum) && inSs d.s (v.drop (d.l + d.q.sum))

def matVec (cols : List (List Rat)) (x : List Rat) (m : Nat) : List Rat :=
  (List.range m).map fun i => (List.zipWith (fun col xj => col.getD i 0 * xj) cols x).sum

/-- `Gᵀ z` with the cone inner product (so that 's' blocks of the columns are read through their lower triangles) -/
def matTVecS (d : Dims) (cols : List (List Rat)) (z : List Rat) : List Rat := cols.map fun col => sdot d col z
def matTVec (cols : List (List Rat)) (y : List Rat) : List Rat := cols.map fun col => dot col y

def vadd (a b : List Rat) : List Rat := List.zipWith (· + ·) a b
def vsub (a b : List Rat) : List Rat := List.zipWith (· - ·) a b

structure Problem where
  d : Dims
  c : List Rat
  G : List (List Rat)     -- columns
  h : List Rat
  A : List (List Rat)     -- columns
  b : List Rat

/-- squared residual norms and the quantities of the documented optimality conditions -/
structure Residuals where
  rx2 : Rat     -- ‖Gᵀz + Aᵀy + c‖²
  ry2 : Rat     -- ‖Ax − b‖²
  rz2 : Rat     -- ‖s + Gx − h‖²_S
  c2 : Rat
  b2 : Rat
  h2 : Rat
  gap : Rat     -- ⟨s, z⟩
  pcost : Rat
  dcost : Rat
deriving Repr

def residuals (p : Problem) (x s y z : List Rat) : Residuals :=
  let rx := vadd (vadd (matTVecS p.d p.G z) (matTVec p.A y)) p.c
  let ry := vsub (matVec p.A x p.b.length) p.b
  let rz := vsub (vadd s (matVec p.G x p.h.length)) p.h
  { rx2 := dot rx rx, ry2 := dot ry ry, rz2 := sdot p.d rz rz,
    c2 := dot p.c p.c, b2 := dot p.b p.b, h2 := sdot p.d p.h p.h,
    gap := sdot p.d s z, pcost := dot p.c x, dcost := -(sdot p.d p.h z) - dot p.b y }

/-- `‖r‖ ≤ tol · max(1, ‖v‖)` compared through squares (`tol ≥ 0`) -/
def relLe (r2 tol v2 : Rat) : Bool := decide (r2 ≤ tol * tol * max 1 v2)

/-- the documented optimality conditions for tolerances `(feastol, abstol, reltol)` -/
def optimalOk (p : Problem) (x s y z : List Rat) (feastol abstol reltol : Rat) : Bool :=
  let r := residuals p x s y z
  relLe r.rx2 feastol r.c2 && relLe r.ry2 feastol r.b2 && relLe r.rz2 feastol r.h2 &&
  inCone p.d s && inCone p.d z &&
  (decide (r.gap ≤ abstol) || (decide (r.pcost < 0) && decide (r.gap ≤ reltol * (-r.pcost))) ||
   (decide (0 < r.dcost) && decide (r.gap ≤ reltol * r.dcost)))

/-- primal infeasibility certificate: `z ∈ K`, `hᵀz + bᵀy = −1` (up to `eps`), `‖Gᵀz + Aᵀy‖ ≤ feastol·max(1,‖c‖)` -/
def pinfOk (p : Problem) (y z : List Rat) (feastol eps : Rat) : Bool :=
  let r := vadd (matTVecS p.d p.G z) (matTVec p.A y)
  let t := sdot p.d p.h z + dot p.b y
  inCone p.d z && decide (|t + 1| ≤ eps) && relLe (dot r r) feastol (dot p.c p.c)

/-- dual infeasibility certificate: `s ∈ K`, `cᵀx = −1`, `‖Gx + s‖ ≤ feastol·max(1,‖h‖)`, `‖Ax‖ ≤ feastol·max(1,‖b‖)` -/
def dinfOk (p : Problem) (x s : List Rat) (feastol eps : Rat) : Bool :=
  let r1 := vadd (matVec p.G x p.h.length) s
  let r2 := matVec p.A x p.b.length
  inCone p.d s && decide (|dot p.c x + 1| ≤ eps) &&
  relLe (sdot p.d r1 r1) feastol (sdot p.d p.h p.h) && relLe (dot r2 r2) feastol (dot p.b p.b)


/-- product with the symmetric matrix stored in the lower triangles of the columns of `P` (what `base.symv` with
`uplo='L'` computes) -/
def symMatVec (P : List (List Rat)) (x : List Rat) : List Rat :=
  (List.range x.length).map fun i =>
    ((List.range x.length).map fun j =>
      (if j ≤ i then (P.getD j []).getD i 0 else (P.getD i []).getD j 0) * x.getD j 0).sum

structure ResidualsQP where
  rx2 : Rat     -- ‖Px + Gᵀz + Aᵀy + q‖²
  ry2 : Rat
  rz2 : Rat
  q2 : Rat
  b2 : Rat
  h2 : Rat
  gap : Rat
  pcost : Rat   -- ½xᵀPx + qᵀx
  dcost : Rat   -- pcost + yᵀ(Ax−b) + zᵀ(Gx−h)
deriving Repr

def residualsQP (p : Problem) (P : List (List Rat)) (x s y z : List Rat) : ResidualsQP :=
  let Px := symMatVec P x
  let rx := vadd (vadd (vadd Px (matTVecS p.d p.G z)) (matTVec p.A y)) p.c
  let ry := vsub (matVec p.A x p.b.length) p.b
  let Gx := matVec p.G x p.h.length
  let rz := vsub (vadd s Gx) p.h
  let pc := dot x Px / 2 + dot p.c x
  { rx2 := dot rx rx, ry2 := dot ry ry, rz2 := sdot p.d rz rz,
    q2 := dot p.c p.c, b2 := dot p.b p.b, h2 := sdot p.d p.h p.h,
    gap := sdot p.d s z, pcost := pc, dcost := pc + dot y ry + sdot p.d z (vsub Gx p.h) }

/-- the documented optimality conditions of the cone QP (`p.c` plays the role of `q`) -/
def optimalOkQP (p : Problem) (P : List (List Rat)) (x s y z : List Rat) (feastol abstol reltol : Rat) : Bool :=
  let r := residualsQP p P x s y z
  relLe r.rx2 feastol r.q2 && relLe r.ry2 feastol r.b2 && relLe r.rz2 feastol r.h2 &&
  inCone p.d s && inCone p.d z &&
  (decide (r.gap ≤ abstol) || (decide (r.pcost < 0) && decide (r.gap ≤ reltol * (-r.pcost))) ||
   (decide (0 < r.dcost) && decide (r.gap ≤ reltol * r.dcost)))

end CvxVerif.Cert
