import CvxVerif.Gen.C19Safe
import CvxVerif.Gen.C19SafeL
import CvxVerif.Gen.C19SafeB
import Mathlib.Tactic.Linarith
import Mathlib.Tactic.Ring
import CvxVerif.Proofs.Dense
/-!
# C19 — no argument values make the C extension access memory outside its matrices

* `Gen/C19Safe_<routine>.lean` (generated on every run): for each of the 34 wrappers of `blas.c`, the theorem
  `C19_safe_<routine>`: in ideal integer arithmetic, whenever the argument checks (translated from the C source)
  let a call through, every element the BLAS routine addresses lies inside the Python buffers — for all
  integer arguments, flags and buffer sizes.  Statements come from `tools/translate/footprints.py`.
* `Gen/C19SafeL_<routine>.lean` (generated on every run): the same for the 60 wrappers of `lapack.c`, theorem
  `C19_safe_lapack_<routine>`: every array the LAPACK routine touches is a matrix of the element type read, is present
  when the chosen job needs it, and contains the routine's footprint.  Statements from `tools/translate/footprints_lapack.py`.
* this file: the index paths of `dense.c` (model `Model/Dense.lean`, tied by C15's correspondence).
-/
namespace CvxVerif.C19
open CvxVerif.Dense

/-- an index accepted by `create_indexlist` / `matrix_subscr` addresses a position inside the buffer -/
theorem C19_index_safe (n : Nat) (i : Int) (h : outRng i n = false) : cwrap i n < n := cwrap_lt i n h

/-- two-argument access `A[i, j]`: the linear position `i' + j'·nrows` is inside a buffer of `nrows·ncols` elements -/
theorem C19_index2_safe (m n : Nat) (i j : Int) (hi : outRng i m = false) (hj : outRng j n = false) :
    cwrap i m + cwrap j n * m < m * n := by
  have h1 := cwrap_lt i m hi
  have h2 := cwrap_lt j n hj
  calc cwrap i m + cwrap j n * m < m + cwrap j n * m := by omega
    _ = (cwrap j n + 1) * m := by rw [Nat.add_mul]; omega
    _ ≤ n * m := Nat.mul_le_mul_right m h2
    _ = m * n := Nat.mul_comm n m

/-- **Sparse paths of `base.gemv` / `base.symv`.**  The sparse kernels split the offset into `oj = oA / nrows`, `oi = oA % nrows` and walk the
columns `oj, …, oj + n − 1` of the compressed-column arrays.  The block bound that the generated theorems `C19_safe_base_gemv` /
`C19_safe_base_symv` derive from the wrappers' checks (`MatIn (nrows·ncols) oA m n (max 1 nrows)`) implies that the matrix has at least one row
(no division by zero) and that every column visited exists: `oj + n ≤ ncols`. -/
theorem C19_sparse_columns (r c oA m n : Int) (hr : 0 ≤ r) (hm : 0 < m) (hn : 0 < n)
    (h : CWrap.MatIn (r * c) oA m n (max 1 r)) : 1 ≤ r ∧ 0 ≤ oA / r ∧ oA / r + n ≤ c := by
  obtain ⟨ho, _, hb⟩ := h
  have hb := hb hm hn
  have hr1 : 1 ≤ r := by
    by_contra hlt
    have : r = 0 := by omega
    subst this
    simp at hb
    have : (0 : Int) ≤ (n - 1) * 1 := by nlinarith
    omega
  have hmax : max 1 r = r := max_eq_right hr1
  rw [hmax] at hb
  have hq : oA / r * r ≤ oA := Int.ediv_mul_le oA (by omega)
  have hq0 : 0 ≤ oA / r := Int.ediv_nonneg ho hr
  refine ⟨hr1, hq0, ?_⟩
  -- (oA / r + n - 1) * r ≤ oA + (n - 1) * r < r * c
  have h1 : (oA / r + n - 1) * r < c * r := by nlinarith
  have h2 : oA / r + n - 1 < c := lt_of_mul_lt_mul_right h1 (by omega)
  omega

end CvxVerif.C19
