import CvxVerif.Model.Dense
import Mathlib.Tactic.Ring
import Mathlib.Tactic.Linarith

/-! C15 (continued) — transposition of the column-major model `Model/Dense.lean`. -/
namespace CvxVerif.Dense

theorem length_blocks {α : Type} (m n : Nat) (g : Nat → Nat → α) :
    ((List.range m).flatMap fun i => (List.range n).map (g i)).length = m * n := by
  induction m with
  | zero => simp
  | succ m ih =>
    rw [List.range_succ, List.flatMap_append, List.length_append, ih]
    simp [Nat.succ_mul]

/-- entry `i * n + j` of `m` consecutive blocks of length `n` is entry `j` of block `i` -/
theorem getElem?_blocks {α : Type} (m n : Nat) (g : Nat → Nat → α) (i j : Nat) (hi : i < m) (hj : j < n) :
    ((List.range m).flatMap fun i => (List.range n).map (g i))[i * n + j]? = some (g i j) := by
  induction m with
  | zero => omega
  | succ m ih =>
    rw [List.range_succ, List.flatMap_append]
    by_cases h : i < m
    · have hlt : i * n + j < ((List.range m).flatMap fun i => (List.range n).map (g i)).length := by
        rw [length_blocks]
        calc i * n + j < i * n + n := by omega
          _ = (i + 1) * n := by ring
          _ ≤ m * n := Nat.mul_le_mul_right n h
      rw [List.getElem?_append_left hlt]; exact ih h
    · have him : i = m := by omega
      subst him
      have hge : ((List.range i).flatMap fun i => (List.range n).map (g i)).length ≤ i * n + j := by rw [length_blocks]; omega
      rw [List.getElem?_append_right hge, length_blocks]
      simp [hj]

/-- **Entry formula of the transpose**: `A.T[j, i] = A[i, j]` in column-major storage. -/
theorem C15_trans_entry (A : Mat) (i j : Nat) (hi : i < A.nrows) (hj : j < A.ncols) :
    (trans A).buf[i * A.ncols + j]? = some (A.buf.getD (i + j * A.nrows) Num.zero) ∧
    (trans A).nrows = A.ncols ∧ (trans A).ncols = A.nrows ∧ (trans A).tc = A.tc := by
  refine ⟨?_, rfl, rfl, rfl⟩
  exact getElem?_blocks A.nrows A.ncols (fun i j => A.buf.getD (i + j * A.nrows) Num.zero) i j hi hj

/-- the transpose of a well-formed matrix is well-formed -/
theorem C15_trans_wf (A : Mat) : (trans A).WF := by
  unfold Mat.WF trans
  simp only
  rw [length_blocks]; ring

/-- **Transposing twice gives the matrix back** (for every well-formed matrix of every shape and type). -/
theorem C15_trans_involution (A : Mat) (hA : A.WF) : trans (trans A) = A := by
  have hwf := C15_trans_wf A
  have h2 : (trans (trans A)).buf = A.buf := by
    apply List.ext_getElem?
    intro k
    have hlen : (trans (trans A)).buf.length = A.nrows * A.ncols := by
      have := C15_trans_wf (trans A); unfold Mat.WF at this; rw [this]; simp [trans]
    by_cases hk : k < A.nrows * A.ncols
    · -- k = j * nrows + i  with i < nrows, j < ncols
      have hn : 0 < A.nrows := by
        rcases Nat.eq_zero_or_pos A.nrows with h | h
        · rw [h] at hk; omega
        · exact h
      set i := k % A.nrows with hi
      set j := k / A.nrows with hj
      have hil : i < A.nrows := Nat.mod_lt _ hn
      have hjl : j < A.ncols := by
        rw [hj]; exact Nat.div_lt_of_lt_mul hk
      have hkk : k = j * A.nrows + i := by rw [hi, hj]; exact (Nat.div_add_mod' k A.nrows).symm
      -- (trans (trans A)) has nrows = A.nrows, ncols = A.ncols ; its entry at j * nrows + i is (trans A).buf.getD (j + i * ncols)
      have e1 := (C15_trans_entry (trans A) j i (by simpa [trans] using hjl) (by simpa [trans] using hil)).1
      have e1' : (trans (trans A)).buf[j * A.nrows + i]? = some ((trans A).buf.getD (j + i * A.ncols) Num.zero) := by
        simpa [trans] using e1
      have e2 := (C15_trans_entry A i j hil hjl).1
      have e2' : (trans A).buf.getD (j + i * A.ncols) Num.zero = A.buf.getD (i + j * A.nrows) Num.zero := by
        have : (trans A).buf[i * A.ncols + j]? = some (A.buf.getD (i + j * A.nrows) Num.zero) := e2
        rw [show j + i * A.ncols = i * A.ncols + j by ring]
        simp [List.getD, this]
      rw [hkk, e1', e2']
      have hkA : i + j * A.nrows < A.buf.length := by rw [hA]; rw [hkk] at hk; linarith
      rw [show j * A.nrows + i = i + j * A.nrows by ring]
      simp [List.getD, List.getElem?_eq_getElem hkA]
    · have h1 : (trans (trans A)).buf[k]? = none := by rw [List.getElem?_eq_none]; rw [hlen]; omega
      have h2 : A.buf[k]? = none := by rw [List.getElem?_eq_none]; rw [hA]; omega
      rw [h1, h2]
  cases A with
  | mk nr nc tc buf =>
    simp only [trans] at h2 ⊢
    simp only [Mat.mk.injEq, true_and]
    exact h2

end CvxVerif.Dense
