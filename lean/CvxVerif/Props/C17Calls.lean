import CvxVerif.Gen.CallArgs

/-!
C17 / C18 — "the operation of the same name".  Which Fortran routine each wrapper of blas.c / lapack.c calls, and under which `case DOUBLE:` / `case COMPLEX:`
label, is regenerated from the C source on every run (`Gen/CallArgs.lean`, `fortranCalls`).  Against the naming scheme of BLAS / LAPACK (hand-written below):

* the routine belongs to the wrapper: after removing the type prefix its name is the wrapper's name, or one of the listed aliases (the real counterpart of a
  hermitian / unitary routine, the conjugating or non-conjugating variant, a helper such as the `scal` used for an empty product);
* the type prefix fits the case label: `d` (`id`) under DOUBLE, `z` (`dz`, `iz`) under COMPLEX.

A complex branch that calls the real routine on reinterpreted data, or a wrapper wired to its neighbour's routine, breaks this.
-/
namespace CvxVerif.C17Calls
open CvxVerif.Gen.CallArgs

/-- type letter of a BLAS / LAPACK routine name: `dz..` / `iz..` / `z..` are complex, `id..` / `d..` real -/
def typeOf (r : String) : Char :=
  if r.startsWith "dz" || r.startsWith "iz" || r.startsWith "z" then 'z'
  else if r.startsWith "id" || r.startsWith "d" then 'd' else '?'

/-- the name without its type prefix -/
def stemOf (r : String) : String :=
  if r.startsWith "dz" || r.startsWith "iz" || r.startsWith "id" then (r.drop 2).toString
  else if r.startsWith "d" || r.startsWith "z" then (r.drop 1).toString else r

/-- (wrapper, stem) pairs that are legitimate although the names differ -/
def aliases : List (String × String) :=
  [ -- BLAS: real counterparts of the hermitian routines, (non-)conjugating variants, helpers
    ("scal", "dscal"), ("dotu", "dot"), ("dot", "dotc"), ("iamax", "amax"), ("gemv", "scal"), ("gbmv", "scal"),
    ("hemv", "symv"), ("hbmv", "sbmv"), ("ger", "gerc"), ("geru", "ger"), ("her", "syr"), ("her2", "syr2"),
    ("hemm", "symm"), ("herk", "syrk"), ("her2k", "syr2k"),
    -- LAPACK: real counterparts (sy / or for he / un), factorisation used by a driver that keeps the factor, workspace query
    ("hetrf", "sytrf"), ("hetrs", "sytrs"), ("hetri", "sytri"), ("sysv", "sytrf"), ("hesv", "sytrf"), ("hesv", "sysv"), ("hesv", "hetrf"),
    ("unmqr", "ormqr"), ("ungqr", "orgqr"), ("unmlq", "ormlq"), ("unglq", "orglq"),
    ("heev", "syev"), ("heevx", "syevx"), ("heevd", "syevd"), ("heevr", "syevr"), ("hegv", "sygv"), ("hegv", "ilaenv") ]

/-- routines without a type (integer-valued environment enquiry) -/
def untyped : List String := ["ilaenv"]

def nameOk (w r : String) : Bool := stemOf r == w || aliases.contains (w, stemOf r)
def typeOk (c r : String) : Bool :=
  untyped.contains r || (c == "DOUBLE" && typeOf r == 'd') || (c == "COMPLEX" && typeOf r == 'z') || (c != "DOUBLE" && c != "COMPLEX")

/-- blas.c: every wrapper calls the BLAS routine of its own name, in the arithmetic of the case it stands in -/
theorem C17_routine_of_same_name :
    ∀ t ∈ fortranCalls, t.1 = "blas.c" → nameOk t.2.1 t.2.2.2 = true ∧ typeOk t.2.2.1 t.2.2.2 = true := by decide +kernel

theorem C17_routines_present : 60 ≤ (fortranCalls.filter fun t => t.1 == "blas.c").length := by decide +kernel

example : typeOk "COMPLEX" "dnrm2" = false := by decide +kernel
example : nameOk "nrm2" "dznrm2" = true ∧ nameOk "trsm" "dtrmm" = false := by decide +kernel

end CvxVerif.C17Calls
