import CvxVerif.Model.OpState
/-! Helper lemmas for C13: closed forms of the three loops of `op` and preservation of the invariant. -/
namespace CvxVerif.OpState

@[simp] theorem upd_same (f : Var → Entry) (v : Var) (x : Entry) : upd f v x v = x := by simp [upd]
theorem upd_other (f : Var → Entry) (v w : Var) (x : Entry) (h : w ≠ v) : upd f v x w = f w := by simp [upd, h]

def pushC (isI : Bool) (c : Cid) (x : Entry) : Entry :=
  if isI then { x with i := x.i ++ [c] } else { x with e := x.e ++ [c] }
def freshC (isI : Bool) (c : Cid) : Entry := if isI then ⟨false, [c], []⟩ else ⟨false, [], [c]⟩

theorem addVar_eq (isI : Bool) (c : Cid) (st : List Var × (Var → Entry)) (v : Var) :
    addVar isI c st v = if v ∈ st.1 then (st.1, upd st.2 v (pushC isI c (st.2 v)))
                        else (st.1 ++ [v], upd st.2 v (freshC isI c)) := by
  unfold addVar pushC freshC; rfl

theorem add_fold_mem (isI : Bool) (c : Cid) (l : List Var) (ks : List Var) (ent : Var → Entry) (w : Var) :
    w ∈ (l.foldl (addVar isI c) (ks, ent)).1 ↔ w ∈ ks ∨ w ∈ l := by
  induction l generalizing ks ent with
  | nil => simp
  | cons v l ih =>
    simp only [List.foldl_cons, addVar_eq]
    split
    · rw [ih]; simp only [List.mem_cons]; constructor
      · rintro (h | h); exact Or.inl h; exact Or.inr (Or.inr h)
      · rintro (h | h | h); exact Or.inl h; subst h; exact Or.inl ‹_›; exact Or.inr h
    · rw [ih]; simp only [List.mem_append, List.mem_cons, List.mem_nil_iff, or_false]
      constructor
      · rintro ((h | h) | h); exact Or.inl h; exact Or.inr (Or.inl h); exact Or.inr (Or.inr h)
      · rintro (h | h | h); exact Or.inl (Or.inl h); exact Or.inl (Or.inr h); exact Or.inr h

theorem add_fold_nodup (isI : Bool) (c : Cid) (l : List Var) (ks : List Var) (ent : Var → Entry)
    (h : ks.Nodup) : (l.foldl (addVar isI c) (ks, ent)).1.Nodup := by
  induction l generalizing ks ent with
  | nil => simpa
  | cons v l ih =>
    simp only [List.foldl_cons, addVar_eq]
    split
    · exact ih _ _ h
    · apply ih
      rw [List.nodup_append]
      refine ⟨h, by simp, ?_⟩
      intro a ha b hb; simp at hb; subst hb; intro hab; subst hab; contradiction

theorem add_fold_ent (isI : Bool) (c : Cid) (l : List Var) (hl : l.Nodup) (ks : List Var) (ent : Var → Entry) (w : Var) :
    (l.foldl (addVar isI c) (ks, ent)).2 w =
      if w ∈ l then (if w ∈ ks then pushC isI c (ent w) else freshC isI c) else ent w := by
  induction l generalizing ks ent with
  | nil => simp
  | cons v l ih =>
    have hv : v ∉ l := (List.nodup_cons.mp hl).1
    have hl' : l.Nodup := (List.nodup_cons.mp hl).2
    simp only [List.foldl_cons, addVar_eq]
    split
    · rename_i hvk
      rw [ih hl']
      by_cases hwv : w = v
      · subst hwv; simp [hv, hvk]
      · simp [hwv, upd_other _ _ _ _ hwv]
    · rename_i hvk
      rw [ih hl']
      by_cases hwv : w = v
      · subst hwv; simp [hv, hvk]
      · simp [hwv, upd_other _ _ _ _ hwv]


def eraseC (isI : Bool) (c : Cid) (x : Entry) : Entry :=
  if isI then { x with i := x.i.erase c } else { x with e := x.e.erase c }

theorem remVar_eq (isI : Bool) (c : Cid) (ent : Var → Entry) (v : Var) :
    remVar isI c ent v = upd ent v (eraseC isI c (ent v)) := by
  unfold remVar eraseC; rfl

theorem rem_fold_ent (isI : Bool) (c : Cid) (l : List Var) (hl : l.Nodup) (ent : Var → Entry) (w : Var) :
    (l.foldl (remVar isI c) ent) w = if w ∈ l then eraseC isI c (ent w) else ent w := by
  induction l generalizing ent with
  | nil => simp
  | cons v l ih =>
    have hv : v ∉ l := (List.nodup_cons.mp hl).1
    have hl' : l.Nodup := (List.nodup_cons.mp hl).2
    simp only [List.foldl_cons, remVar_eq]
    rw [ih hl']
    by_cases hwv : w = v
    · subst hwv; simp [hv]
    · simp [hwv, upd_other _ _ _ _ hwv]

theorem gc_fold_nodup (ent : Var → Entry) (l ks : List Var) (h : ks.Nodup) :
    (l.foldl (gcVar ent) ks).Nodup := by
  induction l generalizing ks with
  | nil => simpa
  | cons v l ih =>
    simp only [List.foldl_cons, gcVar]
    split
    · exact ih _ (h.erase _)
    · exact ih _ h

theorem gc_fold_mem (ent : Var → Entry) (l ks : List Var) (h : ks.Nodup) (w : Var) :
    w ∈ l.foldl (gcVar ent) ks ↔ w ∈ ks ∧ ¬ (w ∈ l ∧ isGarbage (ent w) = true) := by
  induction l generalizing ks with
  | nil => simp
  | cons v l ih =>
    simp only [List.foldl_cons, gcVar]
    split
    · rename_i hg
      rw [ih _ (h.erase _), List.Nodup.mem_erase_iff h]
      by_cases hwv : w = v
      · subst hwv; simp [hg]
      · simp [hwv]
    · rename_i hg
      rw [ih _ h]
      by_cases hwv : w = v
      · subst hwv; simp [hg]
      · simp [hwv]

theorem objVar_eq (st : List Var × (Var → Entry)) (v : Var) :
    objVar st v = if v ∈ st.1 then (st.1, upd st.2 v { st.2 v with o := true })
                  else (st.1 ++ [v], upd st.2 v ⟨true, [], []⟩) := rfl

theorem obj_fold_mem (l : List Var) (ks : List Var) (ent : Var → Entry) (w : Var) :
    w ∈ (l.foldl objVar (ks, ent)).1 ↔ w ∈ ks ∨ w ∈ l := by
  induction l generalizing ks ent with
  | nil => simp
  | cons v l ih =>
    simp only [List.foldl_cons, objVar_eq]
    split
    · rw [ih]; simp only [List.mem_cons]; constructor
      · rintro (h | h); exact Or.inl h; exact Or.inr (Or.inr h)
      · rintro (h | h | h); exact Or.inl h; subst h; exact Or.inl ‹_›; exact Or.inr h
    · rw [ih]; simp only [List.mem_append, List.mem_cons, List.mem_nil_iff, or_false]
      constructor
      · rintro ((h | h) | h); exact Or.inl h; exact Or.inr (Or.inl h); exact Or.inr (Or.inr h)
      · rintro (h | h | h); exact Or.inl (Or.inl h); exact Or.inl (Or.inr h); exact Or.inr h

theorem obj_fold_nodup (l : List Var) (ks : List Var) (ent : Var → Entry)
    (h : ks.Nodup) : (l.foldl objVar (ks, ent)).1.Nodup := by
  induction l generalizing ks ent with
  | nil => simpa
  | cons v l ih =>
    simp only [List.foldl_cons, objVar_eq]
    split
    · exact ih _ _ h
    · apply ih
      rw [List.nodup_append]
      refine ⟨h, by simp, ?_⟩
      intro a ha b hb; simp at hb; subst hb; intro hab; subst hab; contradiction

theorem obj_fold_ent (l : List Var) (hl : l.Nodup) (ks : List Var) (ent : Var → Entry) (w : Var) :
    (l.foldl objVar (ks, ent)).2 w =
      if w ∈ l then (if w ∈ ks then { ent w with o := true } else ⟨true, [], []⟩) else ent w := by
  induction l generalizing ks ent with
  | nil => simp
  | cons v l ih =>
    have hv : v ∉ l := (List.nodup_cons.mp hl).1
    have hl' : l.Nodup := (List.nodup_cons.mp hl).2
    simp only [List.foldl_cons, objVar_eq]
    split
    · rename_i hvk
      rw [ih hl']
      by_cases hwv : w = v
      · subst hwv; simp [hv, hvk]
      · simp [hwv, upd_other _ _ _ _ hwv]
    · rename_i hvk
      rw [ih hl']
      by_cases hwv : w = v
      · subst hwv; simp [hv, hvk]
      · simp [hwv, upd_other _ _ _ _ hwv]

end CvxVerif.OpState
