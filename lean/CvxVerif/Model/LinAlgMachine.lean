import Mathlib.Algebra.Module.LinearMap.Defs
import Mathlib.Algebra.Order.Field.Basic
import Mathlib.Algebra.Order.AbsoluteValue.Basic
/-!
The target language of the statistics-block translator (`py2lean.gen_decide`): the linear-algebra statements of
the solver main loops (`Af/Gf/fA/fG/fP` = gemv-like operators, `copy`, `axpy`, `scal`, `dot`, `nrm2`, `sdot`,
`snrm2`) over abstract vector spaces `X` (primal variables), `Y` (equality multipliers), `Z` (the space of the
cone `K`, where 's' blocks are identified with their lower triangles) over an ordered field.

`Env` is the problem data seen through the operators; `Env.Lawful` collects the only algebraic facts the
soundness theorems use (homogeneity of the three norms, bilinearity of the three inner products).
-/
namespace CvxVerif.LAM

structure Env (K X Y Z : Type) [Field K] [AddCommGroup X] [Module K X] [AddCommGroup Y] [Module K Y]
    [AddCommGroup Z] [Module K Z] where
  A  : X →ₗ[K] Y          -- Af(x, y)              / fA
  At : Y →ₗ[K] X          -- Af(y, x, trans='T')
  G  : X →ₗ[K] Z          -- Gf(x, z)              / fG
  Gt : Z →ₗ[K] X          -- Gf(z, x, trans='T')
  P  : X →ₗ[K] X          -- fP  (coneqp; the symmetric product with the lower triangle of P)
  nX : X → K              -- math.sqrt(xdot(v, v))
  nY : Y → K              -- math.sqrt(ydot(v, v))
  nZ : Z → K              -- misc.snrm2(v, dims)
  nZraw : Z → K           -- blas.nrm2 applied to a cone vector: the norm of the stored array, which also reads the unreferenced triangles
  dX : X → X → K          -- xdot
  dY : Y → Y → K          -- ydot
  dZ : Z → Z → K          -- misc.sdot(., ., dims)

variable {K X Y Z : Type} [Field K] [LinearOrder K] [IsStrictOrderedRing K]
  [AddCommGroup X] [Module K X] [AddCommGroup Y] [Module K Y] [AddCommGroup Z] [Module K Z]

structure Env.Lawful (E : Env K X Y Z) : Prop where
  nX_smul : ∀ (a : K) (v : X), E.nX (a • v) = |a| * E.nX v
  nY_smul : ∀ (a : K) (v : Y), E.nY (a • v) = |a| * E.nY v
  nZ_smul : ∀ (a : K) (v : Z), E.nZ (a • v) = |a| * E.nZ v
  dX_smul : ∀ (a : K) (u v : X), E.dX u (a • v) = a * E.dX u v
  dY_smul : ∀ (a : K) (u v : Y), E.dY u (a • v) = a * E.dY u v
  dZ_smul : ∀ (a : K) (u v : Z), E.dZ u (a • v) = a * E.dZ u v

/-- comparison of an optional scalar (`None` compares false, as guarded in the source by `is not None`) -/
def optCmp (f : K → K → Bool) (o : Option K) (t : K) : Bool :=
  match o with
  | some r => f r t
  | none => false

end CvxVerif.LAM
