"""worker of the C19 harness: executes BLAS wrapper calls given as JSON lines on stdin; prints one line per case.
A case is announced before it runs so that a crash of the interpreter can be attributed."""
import sys, json
build = sys.argv[1]
sys.path.insert(0, build)
import cvxopt
from cvxopt import matrix, blas
def mk(spec):
    if spec is None: return None
    tc, m, n = spec
    return matrix([float(i % 7) for i in range(m * n)], (m, n), tc) if tc == 'd' else \
           matrix([complex(i % 5, i % 3) for i in range(m * n)], (m, n), tc) if tc == 'z' else matrix(list(range(m * n)), (m, n), 'i')
for line in sys.stdin:
    case = json.loads(line)
    print('START %d' % case['id']); sys.stdout.flush()
    try:
        kw = dict(case['kw'])
        for name, spec in zip(case['matnames'], case['mats']): kw[name] = mk(spec)
        getattr(blas, case['routine'])(**kw)
        print('RESULT %d ok' % case['id'])
    except Exception as e:
        print('RESULT %d exc %s' % (case['id'], type(e).__name__))
    sys.stdout.flush()
