#!/usr/bin/env python3
"""S0: rebuild /repo's working tree into a scratch directory outside /repo and /verif.

Builds the four core extensions (base, blas, lapack, misc_solvers) from /repo/src/C with gcc -O2
(mirrors setup.py), copies /repo/src/python/*.py next to them and borrows the modules that cannot be
rebuilt offline (amd, cholmod, umfpack, glpk, dsdp, gsl, fftw + cvxopt.libs) from the installed wheel.
Usage: buildrepo.py <destdir> [--guard] [--repo /repo]
Result: <destdir>/cvxopt is an importable package (PYTHONPATH=<destdir>).
"""
import os, sys, shutil, subprocess, sysconfig, glob, concurrent.futures as cf

WHEEL = '/venv/lib/python3.12/site-packages'
PYINC = '/root/.pyenv/versions/3.12.1/include/python3.12'
EXT = '.cpython-312-x86_64-linux-gnu.so'
BORROW = ['amd', 'cholmod', 'umfpack', 'glpk', 'dsdp', 'gsl', 'fftw']

def build(dest, repo='/repo', guard=False, cc='gcc', opt='-O2', extra=()):
    pkg = os.path.join(dest, 'cvxopt')
    obj = os.path.join(dest, '_obj')
    os.makedirs(pkg, exist_ok=True); os.makedirs(obj, exist_ok=True)
    srcC = os.path.join(repo, 'src', 'C')
    cflags = [opt, '-fPIC', '-fwrapv' if False else '-fno-strict-aliasing', '-I', PYINC, '-I', srcC,
              '-DNDEBUG', '-w'] + list(extra)
    if guard:
        here = os.path.dirname(os.path.abspath(__file__))
        cflags += ['-include', os.path.join(here, 'guard_alloc.h')]
    units = ['base', 'dense', 'sparse', 'blas', 'lapack', 'misc_solvers']
    def comp(u):
        o = os.path.join(obj, u + '.o')
        r = subprocess.run([cc] + cflags + ['-c', os.path.join(srcC, u + '.c'), '-o', o],
                           capture_output=True, text=True)
        return u, r.returncode, r.stderr
    with cf.ThreadPoolExecutor(6) as ex:
        res = list(ex.map(comp, units))
    for u, rc, err in res:
        if rc != 0:
            raise RuntimeError('compile of %s.c failed:\n%s' % (u, err[-4000:]))
    links = {'base': ['base', 'dense', 'sparse'], 'blas': ['blas'], 'lapack': ['lapack'],
             'misc_solvers': ['misc_solvers']}
    def link(m):
        out = os.path.join(pkg, m + EXT)
        r = subprocess.run([cc, '-shared'] + [os.path.join(obj, u + '.o') for u in links[m]] +
                           ['-o', out, '-llapack', '-lblas', '-lm'] + (['--coverage'] if '--coverage' in extra else []), capture_output=True, text=True)
        return m, r.returncode, r.stderr
    with cf.ThreadPoolExecutor(4) as ex:
        for m, rc, err in ex.map(link, links):
            if rc != 0:
                raise RuntimeError('link of %s failed:\n%s' % (m, err[-4000:]))
    for f in glob.glob(os.path.join(repo, 'src', 'python', '*.py')):
        shutil.copy(f, pkg)
    if not os.path.exists(os.path.join(pkg, '_version.py')):
        shutil.copy(os.path.join(WHEEL, 'cvxopt', '_version.py'), pkg)
    for m in BORROW:
        shutil.copy(os.path.join(WHEEL, 'cvxopt', m + EXT), pkg)
    libs = os.path.join(dest, 'cvxopt.libs')
    if not os.path.exists(libs):
        os.symlink(os.path.join(WHEEL, 'cvxopt.libs'), libs)
    if '--coverage' not in extra: shutil.rmtree(obj, ignore_errors=True)          # (gcov needs the .gcno / .gcda files next to the objects)
    return pkg

if __name__ == '__main__':
    a = sys.argv[1:]
    guard = '--guard' in a
    repo = '/repo'
    if '--repo' in a:
        repo = a[a.index('--repo') + 1]
    dest = a[0]
    build(dest, repo=repo, guard=guard, extra=(('--coverage',) if '--coverage' in a else ()), opt=('-O0' if '--coverage' in a else '-O2'))
    print(dest)
