"""C12: op.solve() on generated piecewise-linear problems vs the linear program emitted by the proved reference translation
(Spec/PWL.lean via Drivers/C12.lean): status, optimal value, feasibility of the returned point in the *original* constraints,
multipliers (length, sign, dual function value through the same reference translation), infeasibility certificates,
dense / sparse / glpk agreement."""
import os, sys, random, io, contextlib
from fractions import Fraction
import vlib
from corr import c11

LEAN_TARGETS = ['CvxVerif.Props.C12']
MODEL_FILES = ['CvxVerif.Spec.Expr', 'CvxVerif.Spec.PWL', 'CvxVerif.Proofs.PWL']
LEVEL = 'proof'
TRUSTED = ['direct semantics Spec/Expr.lean and reference translation Spec/PWL.lean (proved exact for every accepted expression)',
           'the harness: problem generator, the assembly of the emitted rows into matrices, GLPK as the solver of the reference program, '
           'floating-point comparison with tolerance 1e-5*(1+|value|)']
ASSUMPTIONS = ['the dual function of returned multipliers is minimised over the box |x - x*| <= 100 (certificates: |x| <= 1000): with rounded multipliers the '
               'exact dual function is -inf on an unbounded domain; the allowance is 1e-6*R per variable',
               'optimal values and dual function values are compared numerically (both programs are solved in floating point)',
               'the dual function value of returned multipliers is computed by solving the reference program of the Lagrangian; problems whose '
               'Lagrangian has more than 4000 affine pieces skip that step (counted in the evidence)']

TOL = 1e-5

def frs(x): return c11.frs(x)

class Prob: pass

def gen_problem(g, rng, M, cv):
    """returns Prob or None; builds the real op"""
    p = Prob()
    nv = rng.choice([1, 2, 2, 3])
    vidx = rng.sample(range(len(g.vars)), nv)
    # restrict leaves to the chosen variables
    saved = (g.vars, g.lens)
    try:
        g.vars = [saved[0][i] for i in vidx]; g.lens = [saved[1][i] for i in vidx]
        p.vars, p.lens = g.vars, g.lens
        def convex_tree(depth, want=None):
            for _ in range(20):
                f, t, _l = g.tree(depth, want, True, True)
                try: e = f()
                except (TypeError, ValueError, IndexError, NotImplementedError): continue
                if type(e) is M.variable: e = +e
                if type(e) is not M._function: continue
                if e._isconvex(): return e, t
                if e._isconcave(): return -e, 'neg ' + t
            return None, None
        def affine_tree(depth, want=None):
            for _ in range(30):
                f, t, _l = g.tree(depth, want, False, True)
                try: e = f()
                except (TypeError, ValueError, IndexError, NotImplementedError): continue
                if type(e) is M.variable: e = +e
                if type(e) is M._function and e._isaffine(): return e, t
            return None, None
        e, t = convex_tree(rng.randint(0, 3))
        if e is None: return None
        if len(e) > 1:
            if rng.random() < 0.5: e, t = M.sum(e), 'sum ' + t
            else: e, t = M.max(e), 'maxv ' + t
        p.obj, p.obj_t = e, t
        p.cons = []      # (real constraint, kind, token of (lhs - rhs), function lhs-rhs)
        for _ in range(rng.choice([0, 1, 1, 2, 3])):
            l, lt = convex_tree(rng.randint(0, 2))
            if l is None: continue
            if rng.random() < 0.3:
                # vector affine part plus the maximum over the components of a vector: every pair (i, k) of components is constrained
                nn = rng.choice([2, 3])
                a1, t1 = affine_tree(1, nn); a2, t2 = affine_tree(1, rng.choice([nn, nn, 2, 3]))
                if a1 is not None and a2 is not None and len(a1) == nn and len(a2) > 1:
                    l, lt = a1 + M.max(a2), 'add %s maxv %s' % (t1, t2)
            n = len(l)
            if rng.random() < 0.6:
                vals = [float(rng.randint(-1, 6)) for _ in range(n if rng.random() < 0.7 else 1)]
                r, rt = (cv.matrix(vals) if len(vals) > 1 or rng.random() < 0.5 else vals[0]), 'const ' + c11.vtok(vals)
            else:
                r, rt = affine_tree(1, n)
                if r is None: continue
            try:
                c = (l <= r) if rng.random() < 0.6 else (r >= l)
                d = l - r
            except (TypeError, ValueError, IndexError, NotImplementedError): continue
            p.cons.append((c, 'ineq', 'sub %s %s' % (lt, rt), d))
        if rng.random() < 0.35:
            a, at = affine_tree(rng.randint(0, 2))
            if a is not None:
                vals = [float(rng.randint(-2, 2)) for _ in range(len(a) if rng.random() < 0.7 else 1)]
                r = cv.matrix(vals) if len(vals) > 1 or rng.random() < 0.5 else vals[0]
                try:
                    c = (a == r); d = a - r
                    p.cons.append((c, 'eq', 'sub %s const %s' % (at, c11.vtok(vals)), d))
                except (TypeError, ValueError, IndexError, NotImplementedError): pass
        p.boxed = rng.random() < 0.85
        if p.boxed:
            for j, v in enumerate(p.vars):
                B = float(rng.randint(2, 6))
                if rng.random() < 0.5:
                    p.cons.append((abs(v) <= B, 'ineq', 'sub abs var %d const %s' % (j, frs(B)), abs(v) - B))
                else:
                    p.cons.append((v <= B, 'ineq', 'sub var %d const %s' % (j, frs(B)), v - B))
                    p.cons.append((v >= -B, 'ineq', 'sub const %s var %d' % (frs(-B), j), -B - v))
        rng.shuffle(p.cons)
        if not any(k == 'ineq' for (_c, k, _t, _d) in p.cons): return None     # op.solve documents: at least one inequality
        p.op = M.op(p.obj, [c[0] for c in p.cons])
        used = p.op.variables()
        p.used = [any(v is u for u in used) for v in p.vars]
        return p
    finally:
        g.vars, g.lens = saved

def nested_desc(rng):
    """directed family: an objective max(f1, f2, ...) whose pieces are themselves sums of several convex terms (each such piece needs its own
    auxiliary variables and inequalities in the epigraph conversion), in every order, next to plain pieces and constants"""
    L = rng.choice([1, 1, 2])
    def cst(): return 'const ' + ','.join(str(rng.randint(-3, 3)) for _ in range(L))
    def absaff(): return 'abs sub var 0 ' + cst()
    def nested(): return 'add %s %s' % (absaff(), rng.choice([absaff(), 'smul 2 ' + absaff(), 'maxv add var 0 ' + cst() if L > 1 else absaff()]))
    def plain(): return rng.choice(['smul %d %s' % (rng.randint(1, 3), absaff()), 'const %d' % rng.randint(0, 4), 'sub var 0 ' + cst(), absaff()])
    pieces = [nested()] + [rng.choice([nested, plain, plain])() for _ in range(rng.randint(1, 2))]
    rng.shuffle(pieces)
    obj = pieces[0]
    for q in pieces[1:]: obj = 'max2 %s %s' % (obj, q)
    if L > 1: obj = rng.choice(['sum ', 'maxv ']) + obj
    return {'lens': [L], 'obj': obj, 'cons': [['ineq', 'sub abs var 0 const %d' % rng.randint(3, 6)]]}

def cvx_zero(n):
    from cvxopt import matrix
    return matrix(0.0, (n, 1))

def prob_from_desc(desc, M, cv):
    """corpus / replay entry -> Prob (dense constants)"""
    p = Prob()
    p.lens = list(desc['lens'])
    p.vars = [M.variable(n, 'w%d' % i) for i, n in enumerate(p.lens)]
    p.obj_t = desc['obj']
    p.obj = c11.build_tokens(p.obj_t, p.vars, M, cv)
    if type(p.obj) is M.variable: p.obj = +p.obj
    p.cons = []
    for kind, tok in desc['cons']:
        d = c11.build_tokens(tok, p.vars, M, cv)
        p.cons.append(((d <= 0) if kind == 'ineq' else (d == 0), kind, tok, d))
    p.boxed = False
    p.op = M.op(p.obj, [c[0] for c in p.cons])
    used = p.op.variables()
    p.used = [any(v is u for u in used) for v in p.vars]
    return p

def solve_real(p, fmt, solver):
    r = Prob()
    try:
        with contextlib.redirect_stdout(io.StringIO()):
            p.op.solve(fmt, solver)
    except Exception as e:
        r.exc = e; return r
    r.exc = None
    r.status = p.op.status
    r.x = [None if v.value is None else list(v.value) for v, u in zip(p.vars, p.used) if u]
    r.mult = [None if c[0].multiplier.value is None else list(c[0].multiplier.value) for c in p.cons]
    for v, u in zip(p.vars, p.used):
        if not u: v.value = cvx_zero(len(v))
    try: r.objval = None if any(x is None for x in r.x) else float(p.obj.value()[0])
    except Exception as e: r.objval = None
    r.consval = []
    for c in p.cons:
        try: r.consval.append(None if any(x is None for x in r.x) else list(c[3].value()))
        except Exception: r.consval.append(None)
    return r

def parse_rows(s):
    rows = []
    if not s: return rows
    for r in s.split(';'):
        const, coefs = r.split('|')
        d = {}
        if coefs:
            for t in coefs.split(','):
                i, k, c = t.split(':'); d[(int(i), int(k))] = float(Fraction(c))
        rows.append((float(Fraction(const)), d))
    return rows

def ref_lp(cv, lens, line, box=None):
    """solve the emitted reference program with GLPK: returns (status, optimal value, x)"""
    from cvxopt import solvers, matrix, spmatrix
    assert line.startswith('lp ')
    parts = dict(kv.split('=', 1) for kv in line[3:].split(' '))
    O, I, E = parse_rows(parts.get('O', '')), parse_rows(parts.get('I', '')), parse_rows(parts.get('E', ''))
    off = [0]
    for l in lens: off.append(off[-1] + l)
    n = off[-1] + 1
    def row(d, tcoef):
        r = [0.0] * n
        for (i, k), c in d.items(): r[off[i] + k] += c
        r[n - 1] = tcoef
        return r
    Grows = [row(d, -1.0) for c, d in O] + [row(d, 0.0) for c, d in I]
    h = [-c for c, d in O] + [-c for c, d in I]
    Arows = [row(d, 0.0) for c, d in E]; b = [-c for c, d in E]
    if box is not None:
        # restrict x to |x - center| <= R: rounding in returned multipliers makes an exact dual function -inf on an unbounded domain
        center, R = box
        for j in range(n - 1):
            r = [0.0] * n; r[j] = 1.0; Grows.append(r); h.append(center[j] + R)
            r = [0.0] * n; r[j] = -1.0; Grows.append(r); h.append(-center[j] + R)
    # trivially violated / redundant all-zero rows are kept: the solver must see the program as written
    c = matrix(0.0, (n, 1)); c[n - 1] = 1.0
    G = matrix([list(col) for col in zip(*Grows)]) if Grows else matrix(0.0, (0, n))
    if Grows: G = matrix(Grows).T if False else matrix([[r[j] for r in Grows] for j in range(n)])
    A = matrix([[r[j] for r in Arows] for j in range(n)]) if Arows else matrix(0.0, (0, n))
    hm, bm = matrix(h), matrix(b, (len(b), 1), 'd')
    with contextlib.redirect_stdout(io.StringIO()):
        sol = solvers.lp(c, G, hm, A, bm, solver='glpk', options={'glpk': {'msg_lev': 'GLP_MSG_OFF', 'tm_lim': 5000}})
        if sol['status'] == 'optimal':
            return 'optimal', sol['x'][n - 1], list(sol['x'])
        if sol['status'] in ('primal infeasible', 'dual infeasible'):
            # a program can be both: report every status that is true of it
            st = set([sol['status']])
            feas = solvers.lp(matrix(0.0, (n, 1)), G, hm, A, bm, solver='glpk', options={'glpk': {'msg_lev': 'GLP_MSG_OFF', 'tm_lim': 5000}})
            if feas['status'] == 'primal infeasible': st.add('primal infeasible')
            I = spmatrix(1.0, range(n), range(n))
            ray = solvers.lp(c, matrix([G, matrix(I), -matrix(I)]), matrix([0.0 * hm, matrix(1.0, (2 * n, 1))]), A, 0.0 * bm, solver='glpk',
                             options={'glpk': {'msg_lev': 'GLP_MSG_OFF', 'tm_lim': 5000}})
            if ray['status'] == 'optimal' and ray['x'][n - 1] < -1e-9: st.add('dual infeasible')
            return '+'.join(sorted(st)), None, None
    return sol['status'], None, None

def lagrangian_tokens(p, mult, with_obj=True):
    """tokens of  obj + sum_k lambda_k * (lhs-rhs)[k]  over the constraints with a nonzero multiplier"""
    terms = [p.obj_t] if with_obj else []
    for (c, kind, tok, d), lam in zip(p.cons, mult):
        for k, lk in enumerate(lam):
            if kind == 'ineq': lk = max(lk, 0.0)
            if lk == 0.0: continue
            terms.append('smul %s idx %d %s' % (frs(lk), k, tok))
    if not terms: return 'const 0'
    t = terms[0]
    for u in terms[1:]: t = 'add %s %s' % (t, u)
    return t

def correspond(ctx):
    cvxopt = vlib.use_build(ctx.build)
    import cvxopt.modeling as M
    from cvxopt import solvers
    try:
        from cvxopt import glpk  # noqa
        have_glpk = True
    except ImportError:
        have_glpk = False
    if not have_glpk:
        ctx.broke('glpk', 'the GLPK extension is not importable: the reference program cannot be solved'); return
    saved_opts = dict(solvers.options)
    solvers.options['glpk'] = {'msg_lev': 'GLP_MSG_OFF', 'tm_lim': 5000}          # GLPK's simplex can cycle on degenerate programs: bounded, 'unknown' is inconclusive
    solvers.options['show_progress'] = False
    rng = random.Random(ctx.seed * 131 + 12)
    n = 120 if ctx.quick() else 2500
    g = c11.Gen(rng, M, cvxopt)
    probs, lines, where = [], [], []
    stat = {}
    def bump(k): stat[k] = stat.get(k, 0) + 1
    import json
    corpus = json.load(open(os.path.join(os.path.dirname(os.path.abspath(__file__)), 'c12_corpus.json')))
    if getattr(ctx, 'replay_case', None): corpus = [ctx.replay_case] + corpus
    rng_d = random.Random(ctx.seed * 977 + 12)          # directed problems come after the generated ones, from their own stream
    for it in range(-len(corpus), n + n // 6):
        p = None
        if it < 0:
            p = prob_from_desc(corpus[it + len(corpus)], M, cvxopt)      # minimised past failures run first
        if it >= n:
            try: p = prob_from_desc(nested_desc(rng_d), M, cvxopt); bump('directed:nested-pieces')
            except (TypeError, ValueError, IndexError, NotImplementedError): p = None
        for _ in range(10 if 0 <= it < n else 0):
            try: p = gen_problem(g, rng, M, cvxopt)
            except (TypeError, ValueError, IndexError, NotImplementedError): p = None
            if p is not None: break
        if p is None: continue
        p.res = {}
        for fmt, solver in (('dense', None), ('sparse', None), ('dense', 'glpk')):
            p.res[(fmt, solver)] = solve_real(p, fmt, solver)
        probs.append(p)
        # reference program
        p.l0 = len(lines)
        lines += ['reset', 'lens ' + ';'.join(str(l) for l in p.lens), 'obj ' + p.obj_t]
        lines += ['%s %s' % (kind, tok) for (c, kind, tok, d) in p.cons]
        lines.append('emit'); p.l_emit = len(lines) - 1
        r = p.res[('dense', None)]
        p.l_dual = p.l_cert = None
        if r.exc is None and r.status == 'optimal' and all(m is not None for m in r.mult):
            lines += ['reset', 'lens ' + ';'.join(str(l) for l in p.lens), 'obj ' + lagrangian_tokens(p, r.mult), 'emit']; p.l_dual = len(lines) - 1
        if r.exc is None and r.status == 'primal infeasible' and all(m is not None for m in r.mult):
            lines += ['reset', 'lens ' + ';'.join(str(l) for l in p.lens), 'obj ' + lagrangian_tokens(p, r.mult, False), 'emit']; p.l_cert = len(lines) - 1
    out = vlib.drive('C12', lines)
    checked = 0
    try: check_all(ctx, cvxopt, probs, lines, out, stat, bump)
    finally:
        solvers.options.clear(); solvers.options.update(saved_opts)
    ctx.cov.update({'evaluations': stat.get('checked', 0), 'distinct_nontrivial': len(probs),
                    'rule': '%d generated problems: 1-3 variables (lengths 1..3), convex piecewise-linear objective (nested max/abs/sum/min of affine, '
                            'dense and sparse coefficients), 0-3 piecewise-linear inequality constraints f <= g / g >= f, optional affine equality, '
                            '85%% with box constraints (abs(x) <= B or two-sided); one more problem per six with a directed objective max(f1, f2, ..) whose pieces are sums of several convex terms, in every order; each solved with (dense, conelp), (sparse, conelp), (dense, glpk) and '
                            'compared with the reference program emitted by the proved translation and solved by GLPK' % n,
                    'outcomes': stat, 'protocol_lines_compared': len(lines)})
    ctx.samples += [p.obj_t for p in probs[:3]]

def check_all(ctx, cvxopt, probs, lines, out, stat, bump):
    checked = 0
    for p in probs:
        desc = {'lens': p.lens, 'obj': p.obj_t, 'cons': [(k, t) for (c, k, t, d) in p.cons]}
        seg = out[p.l0:p.l_emit + 1]
        if any(not o.startswith('ok') for o in seg[:-1]):
            bad = [(l, o) for l, o in zip(lines[p.l0:p.l_emit], seg) if not o.startswith('ok')]
            if all(o == 'error toobig' for _, o in bad):
                bump('skipped-too-many-pieces'); continue
            # the real layer accepted the problem but the reference translation refuses it
            ctx.violation('c12:accepted-by-op-refused-by-spec', 'op() accepted a problem the specification refuses: %s' % bad[:2], desc); continue
        ref_status, ref_val, ref_x = ref_lp(cvxopt, p.lens, seg[-1])
        bump('ref:' + ref_status)
        r0 = p.res[('dense', None)]
        for key, r in p.res.items():
            tag = '%s/%s' % (key[0], key[1] or 'conelp')
            if r.exc is not None:
                if isinstance(r.exc, ValueError) and 'Rank' in str(r.exc): bump('rank-deficient-skipped'); continue
                if isinstance(r.exc, ArithmeticError) and key[1] is None: bump('arith-skipped'); continue
                if isinstance(r.exc, TypeError) and 'lp must have at least one' in str(r.exc): bump('no-variable-or-inequality-refused'); continue
                ctx.violation('c12:solve-raises:%s:%s' % (tag, type(r.exc).__name__), 'op.solve(%s) raised %s: %s' % (tag, type(r.exc).__name__, r.exc), desc); continue
            bump('%s:%s' % (tag, r.status))
            checked += 1
            if r.status == 'unknown':
                if ref_status == 'optimal' and key[1] is None and p.boxed: bump('unknown-on-solvable')
                continue
            if r.status not in ref_status.split('+') and ref_status != 'unknown':
                ctx.violation('c12:status:%s' % tag, 'op.solve(%s) status %r but the reference program is %r' % (tag, r.status, ref_status), desc); continue
            if r.status == 'optimal':
                sc = 1 + abs(ref_val)
                if r.objval is None or abs(r.objval - ref_val) > TOL * sc * 10:
                    ctx.violation('c12:optimal-value:%s' % tag, 'objective.value() = %r but the reference program has optimal value %r' % (r.objval, ref_val), desc)
                for (c, kind, tok, d), val, lam in zip(p.cons, r.consval, r.mult):
                    if val is None: ctx.violation('c12:constraint-value-none:%s' % tag, 'constraint value None at an optimal solution', desc); break
                    viol = max(val) if kind == 'ineq' else max(abs(v) for v in val)
                    if viol > TOL * (1 + max(abs(v) for xs in r.x for v in xs)) * 10:
                        ctx.violation('c12:constraint-violated:%s' % tag, 'the returned point violates `%s %s` by %g' % (kind, tok, viol), desc); break
                    if lam is None or len(lam) != len(c):
                        ctx.violation('c12:multiplier-length:%s' % tag, 'multiplier of `%s` has length %r, constraint length %d' % (tok, None if lam is None else len(lam), len(c)), desc); break
                    if kind == 'ineq' and min(lam) < -TOL:
                        ctx.violation('c12:multiplier-sign:%s' % tag, 'negative multiplier %g for `%s`' % (min(lam), tok), desc); break
            elif r.status == 'primal infeasible':
                if any(x is not None for x in r.x):
                    ctx.violation('c12:values-not-none:%s' % tag, 'primal infeasible but variable values are set', desc)
                if key[1] is None and any(m is None for m in r.mult):
                    ctx.violation('c12:certificate-missing:%s' % tag, 'primal infeasible but a multiplier is None', desc)
            elif r.status == 'dual infeasible':
                if any(m is not None for m in r.mult):
                    ctx.violation('c12:multipliers-not-none:%s' % tag, 'dual infeasible but multipliers are set', desc)
                if key[1] is None and any(x is None for x in r.x):
                    ctx.violation('c12:certificate-missing:%s' % tag, 'dual infeasible but a variable value is None', desc)
        # dual function value of the returned multipliers (default solver, dense)
        if p.l_dual is not None:
            o = out[p.l_dual]
            if not o.startswith('lp '): bump('dual-skipped-too-many-pieces')
            elif out[p.l_dual - 1].startswith('ok'):
                center = []
                xs = iter(r0.x)
                for l, u in zip(p.lens, p.used): center += (next(xs) if u else [0.0] * l)
                R = 100.0
                st, dval, _ = ref_lp(cvxopt, p.lens, o, (center, R))
                bump('dual:' + st)
                if st == 'dual infeasible' or (st == 'optimal' and dval < r0.objval - TOL * (1 + abs(r0.objval)) * 50 - 1e-6 * R * len(center)):
                    ctx.violation('c12:multipliers-not-dual-optimal', 'the dual function value of the returned multipliers is %r, objective value %r' % (dval if st == 'optimal' else '-inf', r0.objval), desc)
            else: bump('dual-skipped-too-many-pieces')
        if p.l_cert is not None:
            o = out[p.l_cert]
            if o.startswith('lp ') and out[p.l_cert - 1].startswith('ok'):
                st, dval, _ = ref_lp(cvxopt, p.lens, o, ([0.0] * sum(p.lens), 1000.0))
                bump('cert:' + st)
                if st == 'dual infeasible' or (st == 'optimal' and dval <= 0):
                    ctx.violation('c12:infeasibility-certificate', 'the multipliers returned for an infeasible problem do not certify infeasibility: inf_x sum lambda*g = %r' % (dval,), desc)
    stat['checked'] = checked

def search(ctx, why): return
def replay(ctx, payload):
    ctx.replay_case = payload.get('case') if isinstance(payload, dict) else None
    correspond(ctx)
