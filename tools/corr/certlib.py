"""Shared harness for C01/C02/C03/C05: run the real cone solvers on planted problems in many presentations and have the
Lean rational checker (Drivers/Cert.lean over Model/CertCheck.lean) judge what they return."""
import os, sys, math, random, io, contextlib, json
from fractions import Fraction
import vlib

def quiet(f, *a, **k):
    with contextlib.redirect_stdout(io.StringIO()):
        return f(*a, **k)

def fr(x):
    f = Fraction(x)
    return str(f.numerator) if f.denominator == 1 else '%d/%d' % (f.numerator, f.denominator)
def vec(v): return ','.join(fr(a) for a in v) if len(v) else '-'
def cols(M): return ';'.join(','.join(fr(a) for a in col) for col in M)
def dims_tok(d): return '%d:%s:%s' % (d['l'], ','.join(map(str, d['q'])) or '-', ','.join(map(str, d['s'])) or '-')

def prob_line(pr, G=None, h=None):
    G = pr.G if G is None else G; h = pr.h if h is None else h
    l = 'prob dims=%s c=%s G=%s h=%s A=%s b=%s' % (dims_tok(pr.dims), vec(pr.c), cols(G), vec(h), cols(pr.A), vec(pr.b))
    if pr.P is not None: l += ' P=' + cols(pr.P)
    return l

def parse_out(o):
    d = {}
    for w in o.split(' '):
        if '=' in w:
            k, v = w.split('=', 1)
            d[k] = (v == 'true') if v in ('true', 'false') else Fraction(v)
    return d

def tol_eff(t):
    """allowance for the rounding between the solver's floating statistics and the exact residual of its rounded output"""
    return Fraction(t) * (1 + Fraction(1, 10**6)) + Fraction(1, 10**13)

def mlist(m): return [] if m is None else [float(a) for a in m]

def variants_conelp(cvxopt, PR, pr, rng, max_variants, focus=None):
    """list of (tag, callable returning result dict, tolerances dict, G-with-junk or None, h-with-junk or None)"""
    from cvxopt import solvers, matrix
    out = []
    c, G, h, A, b, _ = PR.to_cvx(cvxopt, pr)
    dims = pr.dims
    hasQS = bool(dims['q'] or dims['s'])
    def opts(rng):
        o = {'show_progress': False}
        if rng.random() < 0.5:
            if rng.random() < 0.4:      # far tighter than the defaults: an answer computed with the default tolerances does not pass
                o['feastol'] = 1e-10; o['abstol'] = 1e-10; o['reltol'] = 1e-10
            else:
                o['feastol'] = rng.choice([1e-5, 1e-7, 1e-8]); o['abstol'] = rng.choice([1e-5, 1e-7, 1e-9]); o['reltol'] = rng.choice([1e-4, 1e-6, 1e-8])
        if rng.random() < 0.3: o['refinement'] = rng.randint(0, 2)
        return o
    def tol(o): return (o.get('feastol', 1e-7), o.get('abstol', 1e-7), o.get('reltol', 1e-6))
    cand = []
    for k in [None, 'ldl', 'ldl2', 'qr', 'chol'] + ([] if hasQS else ['chol2']):
        cand.append(('conelp kktsolver=%s' % k, dict(kktsolver=k), False, False))
    cand.append(('conelp sparse', dict(), True, False))
    cand.append(('conelp junk-upper-triangles', dict(), False, True))
    w = pr.wit
    if 'x' in w and 'z' in w:
        cand.append(('conelp start-points', dict(primalstart={'x': matrix(w['x'], (pr.n, 1), 'd'), 's': matrix(w['s'], (pr.N, 1), 'd')},
                                                  dualstart={'y': matrix(w['y'], (pr.p, 1), 'd'), 'z': matrix(w['z'], (pr.N, 1), 'd')}), False, False))
    def custom_kkt(W):
        f = cvxopt.misc.kkt_ldl(G, dims, A)(W)
        return f
    cand.append(('conelp callable-kktsolver', dict(kktsolver=custom_kkt), False, False))
    rng.shuffle(cand)
    if focus == 's-blocks': cand = [x for x in cand if 'junk' in x[0]] + [x for x in cand if 'junk' not in x[0]]
    cand = cand[:max_variants]
    if 'x' in w and 'z' in w:
        # one-sided starting points (always run): the solver completes the missing half itself and must move it into the cone
        ps = dict(primalstart={'x': matrix(w['x'], (pr.n, 1), 'd'), 's': matrix(w['s'], (pr.N, 1), 'd')})
        ds = dict(dualstart={'y': matrix(w['y'], (pr.p, 1), 'd'), 'z': matrix(w['z'], (pr.N, 1), 'd')})
        cand.append(('conelp primalstart-only', ps, False, False) if rng.random() < 0.5 else ('conelp dualstart-only', ds, False, False))
    for tag, kw, sparse, junk in cand:
        o = opts(rng)
        c2, G2, h2, A2, b2, _ = PR.to_cvx(cvxopt, pr, sparse=sparse, junk=(random.Random(rng.random()) if junk else None),
                                          junk_scale=(rng.choice([1.0, 1e3, 1e5]) if focus == 's-blocks' else 1.0))
        Gl = [[float(G2[i, j]) for i in range(pr.N)] for j in range(pr.n)] if junk else None
        hl = [float(a) for a in h2] if junk else None
        out.append((tag, (lambda c2=c2, G2=G2, h2=h2, A2=A2, b2=b2, kw=kw, o=o: quiet(solvers.conelp, c2, G2, h2, dims, A2, b2, options=o, **kw)),
                    tol(o), Gl, hl))
    # wrappers
    L = dims['l']
    o = opts(rng)
    if not hasQS:
        out.append(('lp', lambda: quiet(solvers.lp, c, G, h, A, b, options=o), tol(o), None, None))
        og = dict(o); og['glpk'] = {'msg_lev': 'GLP_MSG_OFF'}
        out.append(('lp glpk', lambda: quiet(solvers.lp, c, G, h, A, b, solver='glpk', options=og), tol(o), None, None))
    if not dims['s']:
        offs = L; Gq, hq = [], []
        for m in dims['q']:
            Gq.append(G[offs:offs + m, :]); hq.append(h[offs:offs + m]); offs += m
        out.append(('socp', lambda: quiet(solvers.socp, c, G[:L, :], h[:L], Gq, hq, A, b, options=o), tol(o), None, None))
    if not dims['q']:
        offs = L; Gs_, hs_ = [], []
        for m in dims['s']:
            Gs_.append(G[offs:offs + m * m, :]); hs_.append(matrix(h[offs:offs + m * m], (m, m))); offs += m * m
        out.append(('sdp', lambda: quiet(solvers.sdp, c, G[:L, :], h[:L], Gs_, hs_, A, b, options=o), tol(o), None, None))
        if pr.p == 0 and dims['s']:
            # the external solver DSDP (no equality constraints); it works to its own relative gap tolerance (default 1e-5)
            od = dict(o)
            out.append(('sdp dsdp', lambda: quiet(solvers.sdp, c, G[:L, :], h[:L], Gs_, hs_, solver='dsdp', options=od), (1e-5, 1e-5, 1e-5), None, None))
            # DSDP stopped early by its own iteration limit: whatever status comes back is judged like any other (an iterate that has not
            # converged must not be called 'optimal')
            om = dict(o); om['dsdp'] = {'DSDP_MaxIts': rng.choice([1, 2, 4, 6])}
            out.append(('sdp dsdp-maxits', lambda: quiet(solvers.sdp, c, G[:L, :], h[:L], Gs_, hs_, solver='dsdp', options=om), (1e-5, 1e-5, 1e-5), None, None))
    return out

def split_blocks(v, dims):
    """(l part, q parts, s parts) of a cone vector given as list"""
    L = dims['l']; out_q, out_s = [], []
    offs = L
    for m in dims['q']:
        out_q.append(v[offs:offs + m]); offs += m
    for k in dims['s']:
        out_s.append(v[offs:offs + k * k]); offs += k * k
    return v[:L], out_q, out_s

def check_wrapper_pieces(r, dims, tag):
    """sl/sq/ss and zl/zq/zs must be exactly the blocks of s and z"""
    bad = []
    for nm in ('s', 'z'):
        v = r.get(nm)
        if v is None: continue
        l, q, s = split_blocks(mlist(v), dims)
        if (nm + 'l') in r and r[nm + 'l'] is not None and mlist(r[nm + 'l']) != l: bad.append(nm + 'l')
        if (nm + 'q') in r and r[nm + 'q'] is not None and [mlist(a) for a in r[nm + 'q']] != q: bad.append(nm + 'q')
        if (nm + 's') in r and r[nm + 's'] is not None and [mlist(a) for a in r[nm + 's']] != s: bad.append(nm + 's')
    return bad

def assemble(r, nm):
    """the cone vector `nm` ('s' or 'z') of a result: directly, or stacked from the wrapper pieces"""
    if nm in r: return None if r[nm] is None else mlist(r[nm])
    l, q, sb = r.get(nm + 'l'), r.get(nm + 'q'), r.get(nm + 's')
    if l is None and q is None and sb is None: return None
    v = mlist(l)
    for blk in (q or []): v += mlist(blk)
    for blk in (sb or []): v += mlist(blk)
    return v

def close(a, b, rel=1e-7, ab=1e-9):
    if a is None or b is None: return a is None and b is None
    return abs(a - b) <= ab + rel * max(abs(a), abs(b))

def cone_margin(v, dims):
    """smallest margin of a cone vector: min entry of the 'l' part, v0 - ||v1|| of the 'q' blocks, smallest eigenvalue of the 's' blocks (the
    documented meaning of 'primal slack' / 'dual slack')"""
    from cvxopt import matrix, lapack
    out = []; k = dims['l']
    out += [float(t) for t in v[:k]]
    for m in dims['q']:
        out.append(v[k] - math.sqrt(sum(t * t for t in v[k + 1:k + m]))); k += m
    for m in dims['s']:
        if m:
            M_ = matrix(0.0, (m, m))
            for j in range(m):
                for i in range(j, m): M_[i, j] = v[k + j * m + i]; M_[j, i] = v[k + j * m + i]
            w = matrix(0.0, (m, 1)); lapack.syev(M_, w); out.append(min(w))
        k += m * m
    return min(out) if out else None

def fields_optimal(r, o, native=True):
    """compare the accuracy fields of an 'optimal' result with the values recomputed exactly (parsed driver output o)"""
    bad = []
    pc, dc, gap = float(o['pcost']), float(o['dcost']), float(o['gap'])
    if not close(r['primal objective'], pc, 1e-8, 1e-9): bad.append(('primal objective', r['primal objective'], pc))
    if not close(r['dual objective'], dc, 1e-8, 1e-9): bad.append(('dual objective', r['dual objective'], dc))
    # conelp reports gap = (||lambda||/tau)^2 which equals s'z only through the scaling invariant: relative 1e-6
    if r.get('gap') is not None and not close(r['gap'], gap, 1e-5, 1e-10): bad.append(('gap', r['gap'], gap))
    pres = max(math.sqrt(o['ry2']) / max(1.0, math.sqrt(o['b2'])), math.sqrt(o['rz2']) / max(1.0, math.sqrt(o['h2'])))
    dres = math.sqrt(o['rx2']) / max(1.0, math.sqrt(o['c2']))
    if r.get('primal infeasibility') is not None and not close(r['primal infeasibility'], pres, 1e-3, 1e-11): bad.append(('primal infeasibility', r['primal infeasibility'], pres))
    if r.get('dual infeasibility') is not None and not close(r['dual infeasibility'], dres, 1e-3, 1e-11): bad.append(('dual infeasibility', r['dual infeasibility'], dres))
    # slacks: the smallest cone margin of the returned s and z
    dims_ = r.get('_dims')
    if dims_ is not None:
        for key, vec_ in (('primal slack', assemble(r, 's')), ('dual slack', assemble(r, 'z'))):
            rep = r.get(key)
            if rep is None or vec_ is None: continue
            try: val = cone_margin(vec_, dims_)
            except Exception: continue
            if val is not None and not close(rep, val, 1e-6, 1e-9 * (1.0 + max(abs(t) for t in vec_))): bad.append((key, rep, val))
    rg = r.get('relative gap')
    if pc < 0: want = gap / -pc
    elif dc > 0: want = gap / dc
    else: want = None
    # which branch defines the relative gap depends on the signs of pcost and dcost: when one of them is zero up to rounding (an optimal
    # value of exactly 0) the solver's branch is decided by the last bit and no comparison is meaningful
    scale = 1e-9 * (1.0 + abs(pc) + abs(dc) + gap)
    sign_unclear = abs(pc) <= scale or abs(dc) <= scale
    if native and not sign_unclear and not ((rg is None and want is None) or (rg is not None and want is not None and close(rg, want, 1e-4, 1e-10))):
        bad.append(('relative gap', rg, want))
    return bad


def cone_runs(ctx, cvxopt, kinds, n_inst, max_variants, prop, judge_exceptions=False, rankdef=0, focus=None):
    """solve planted cone LPs in many presentations; every returned status is judged by the Lean checker.
    Violations are recorded on ctx with signatures prefixed by the property tag."""
    from corr import problems as PR
    from cvxopt import solvers
    solvers.options.clear(); solvers.options['show_progress'] = False
    rng = random.Random(ctx.seed * 104729 + hash(prop) % 1000)
    lines, meta = [], []
    stats = {'solves': 0, 'optimal': 0, 'primal infeasible': 0, 'dual infeasible': 0, 'unknown': 0, 'exception': 0}
    tags = {}
    for i in range(n_inst):
        kind = rng.choice(kinds)
        if i < rankdef: kind = 'rankdef'; pr = PR.rankdef_conelp(rng, i == 0)
        elif focus == 's-blocks':
            # targeted search: several 's' blocks of order >= 2 (and a 'q' block), small objective so that the gap converges first
            dims = {'l': rng.randint(0, 2), 'q': [rng.randint(2, 3)] if rng.random() < 0.5 else [], 's': [rng.randint(2, 3) for _ in range(rng.randint(1, 2))]}
            if rng.random() < 0.4: dims['s'] = [1] + dims['s']          # a degenerate block in front
            pr = PR.planted_conelp(rng, kind, dims=dims)
            if kind == 'optimal' and rng.random() < 0.7:
                t = rng.choice([1e-4, 1e-3])
                pr.c = [a * t for a in pr.c]; pr.wit['z'] = [a * t for a in pr.wit['z']]; pr.wit['y'] = [a * t for a in pr.wit['y']]
        elif i % 5 == 2 and kind == 'optimal':
            # inequalities in opposite pairs and ball constraints (G'e = 0): boxes, norm balls, two-sided LMIs
            pr = PR.planted_twosided(rng)
        elif i % 5 == 4:
            # semidefinite programs without equality constraints, two or three 's' blocks: the shape the external solver DSDP accepts
            dims = {'l': rng.randint(0, 2), 'q': [], 's': [rng.randint(1, 3) for _ in range(rng.randint(2, 3))]}
            if i % 10 == 9:
                dims['s'] = rng.choice([[1, 2], [1, 3], [1, 0, 2], [1, 1, 3]])          # degenerate blocks (order 0 / 1) in front of a larger one
                if 'optimal' in kinds: kind = 'optimal'
            pr = PR.planted_conelp(rng, kind, dims=dims, p=0)
        else: pr = PR.planted_conelp(rng, kind)
        for tag, fn, tol, Gj, hj in variants_conelp(cvxopt, PR, pr, rng, max_variants, focus):
            desc = {'seed': ctx.seed, 'index': i, 'kind': kind, 'presentation': tag, 'dims': pr.dims, 'c': pr.c, 'G': Gj or pr.G, 'h': hj or pr.h,
                    'A': pr.A, 'b': pr.b, 'tolerances': tol}
            stats['solves'] += 1
            tags[tag.split(' kktsolver')[0]] = tags.get(tag.split(' kktsolver')[0], 0) + 1
            try:
                r = fn()
            except ValueError as e:
                stats['exception'] += 1
                if 'Rank' in str(e) or 'kkt_chol2' in str(e): continue          # documented ValueError (rank assumption / unsupported)
                if judge_exceptions: ctx.violation('%s:exception:%s' % (prop, tag.split(' ')[0]), '%s raised ValueError: %s' % (tag, e), desc)
                continue
            except Exception as e:
                stats['exception'] += 1
                if judge_exceptions: ctx.violation('%s:exception:%s:%s' % (prop, tag.split(' ')[0], type(e).__name__), '%s raised %s: %s' % (tag, type(e).__name__, e), desc)
                continue
            st = r['status']
            stats[st] = stats.get(st, 0) + 1
            bad = check_wrapper_pieces(r, pr.dims, tag)
            if bad: ctx.violation('%s:wrapper-blocks:%s' % (prop, tag.split(' ')[0]), '%s: %s are not the blocks of s/z' % (tag, bad), desc)
            if st == 'optimal':
                if 'glpk' in tag or 'dsdp' in tag:
                    # glpk's slack h - G*x and its simplex multipliers are computed in floating point: -1e-16 on an active row or a
                    # nonbasic multiplier is rounding of the external solver (it works to its own 1e-9 tolerances), not a violation of the
                    # approximate conditions; anything below -1e-9 (relative) is kept and judged
                    r = dict(r)
                    for key in ('s', 'z'):
                        if key not in r or r[key] is None: continue
                        sc = 1e-9 * max([1.0] + [abs(t) for t in r[key]])
                        r[key] = [max(a, 0.0) if a > -sc else a for a in r[key]]
                lines.append(prob_line(pr, Gj, hj)); meta.append(None)
                lines.append('optimal x=%s s=%s y=%s z=%s tol=%s,%s,%s' % (vec(mlist(r['x'])), vec(assemble(r, 's')), vec(mlist(r['y'])), vec(assemble(r, 'z')),
                                                                           fr(tol_eff(tol[0])), fr(tol_eff(tol[1])), fr(tol_eff(tol[2]))))
                meta.append(('optimal', tag, r, desc))
            elif st == 'primal infeasible':
                if r.get('y') is None or assemble(r, 'z') is None:
                    if 'glpk' not in tag: ctx.violation('%s:pinf-without-certificate:%s' % (prop, tag.split(' ')[0]), "%s: 'primal infeasible' without y, z" % tag, desc)
                    continue
                lines.append(prob_line(pr, Gj, hj)); meta.append(None)
                lines.append('pinf y=%s z=%s tol=%s,%s' % (vec(mlist(r['y'])), vec(assemble(r, 'z')), fr(tol_eff(tol[0])), fr(Fraction(1, 10**9))))
                meta.append(('pinf', tag, r, desc))
            elif st == 'dual infeasible':
                if r.get('x') is None or assemble(r, 's') is None:
                    if 'glpk' not in tag: ctx.violation('%s:dinf-without-certificate:%s' % (prop, tag.split(' ')[0]), "%s: 'dual infeasible' without x, s" % tag, desc)
                    continue
                lines.append(prob_line(pr, Gj, hj)); meta.append(None)
                lines.append('dinf x=%s s=%s tol=%s,%s' % (vec(mlist(r['x'])), vec(assemble(r, 's')), fr(tol_eff(tol[0])), fr(Fraction(1, 10**9))))
                meta.append(('dinf', tag, r, desc))
    out = vlib.drive('Cert', lines) if lines else []
    judged = 0
    for l, o, m in zip(lines, out, meta):
        if m is None: continue
        kind, tag, r, desc = m
        d = parse_out(o)
        judged += 1
        ent = tag.split(' ')[0]
        native = 'glpk' not in tag and 'dsdp' not in tag
        if kind == 'optimal':
            if not d['ok']:
                what = []
                if not d['sIn']: what.append('s not in the cone')
                if not d['zIn']: what.append('z not in the cone')
                t = desc['tolerances']
                pres = max(math.sqrt(d['ry2']) / max(1.0, math.sqrt(d['b2'])), math.sqrt(d['rz2']) / max(1.0, math.sqrt(d['h2'])))
                dres = math.sqrt(d['rx2']) / max(1.0, math.sqrt(d['c2']))
                what.append('pres=%.3g dres=%.3g gap=%.3g (feastol %g abstol %g reltol %g)' % (pres, dres, float(d['gap']), t[0], t[1], t[2]))
                # DSDP bounds the variables internally: on a problem without solution it ends at the bound with status PDFEASIBLE, which the
                # wrapper reports as 'optimal' (listed finding); on solvable problems its 'optimal' is judged like every other
                nosol = 'dsdp' in tag and desc.get('kind') in ('pinf', 'dinf')
                if not (nosol and prop != 'c01'):          # (the listed DSDP behaviour is reported by C01 only)
                    ctx.violation('%s:optimal-not-certified:%s%s' % (prop, ent, ':dsdp-on-problem-without-solution' if nosol else ''),
                                  "%s returned 'optimal' but the returned vectors fail the documented conditions: %s" % (tag, '; '.join(what)), dict(desc, checker=o))
                if nosol: continue
            r = dict(r); r['_dims'] = desc['dims']
            fb = fields_optimal(r, d, native)
            if fb and 'dsdp' in tag:
                # the wrapper defines s := h - G x, so its primal residual is 0 by construction; the recomputation sees the rounding of that line
                fb = [x for x in fb if not (x[0] == 'primal infeasibility' and abs(x[1] - x[2]) <= 1e-8)]
            if fb:
                ctx.violation('%s:fields:%s:%s' % (prop, ent, fb[0][0]), '%s: reported %s = %r, recomputed from the returned vectors %r' % (tag, fb[0][0], fb[0][1], fb[0][2]),
                              dict(desc, fields=[list(map(str, x)) for x in fb]))
            if r.get('iterations') is not None and r['iterations'] > 100:
                ctx.violation('%s:iterations' % prop, '%s: %d iterations > maxiters' % (tag, r['iterations']), desc)
        elif kind == 'pinf':
            if not d['ok']:
                ctx.violation('%s:pinf-not-certified:%s' % (prop, ent), "%s returned 'primal infeasible' but (y, z) is not a certificate: z in cone %s, h'z+b'y = %s, "
                              "||G'z+A'y||^2 = %.3g" % (tag, d['zIn'], float(d['t']), float(d['r2'])), dict(desc, checker=o))
            if r.get('x') is not None or assemble(r, 's') is not None:
                ctx.violation('%s:pinf-x-not-None:%s' % (prop, ent), "%s: status 'primal infeasible' but x or s is not None" % tag, desc)
            rep = r.get('residual as primal infeasibility certificate')
            rec = math.sqrt(d['r2']) / max(1.0, math.sqrt(d['c2']))
            if native and rep is not None and not close(rep, rec, 1e-3, 1e-11):
                ctx.violation('%s:fields:%s:pinfres' % (prop, ent), '%s: reported certificate residual %r, recomputed %r' % (tag, rep, rec), desc)
        elif kind == 'dinf':
            if not d['ok']:
                ctx.violation('%s:dinf-not-certified:%s' % (prop, ent), "%s returned 'dual infeasible' but (x, s) is not a certificate: s in cone %s, c'x = %s"
                              % (tag, d['sIn'], float(d['t'])), dict(desc, checker=o))
            if r.get('y') is not None or assemble(r, 'z') is not None:
                ctx.violation('%s:dinf-y-not-None:%s' % (prop, ent), "%s: status 'dual infeasible' but y or z is not None" % tag, desc)
            rep = r.get('residual as dual infeasibility certificate')
            rec = max(math.sqrt(d['ry2']) / max(1.0, math.sqrt(d['b2'])), math.sqrt(d['rz2']) / max(1.0, math.sqrt(d['h2'])))
            if native and rep is not None and not close(rep, rec, 1e-3, 1e-11):
                ctx.violation('%s:fields:%s:dinfres' % (prop, ent), '%s: reported certificate residual %r, recomputed %r' % (tag, rep, rec), desc)
    return stats, tags, judged, lines
