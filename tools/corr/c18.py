"""C18: LAPACK wrappers.  Every result is judged in exact rational arithmetic by the Lean matrix checker (Model/MatCheck.lean via
Drivers/C18.lean): residuals of the defining equations, orthonormality of factors, reconstruction of the input; plus, on the Python
side, factor+solve == driver, A unmodified without the optional pivot argument, sorted outputs, documented exceptions."""
import os, sys, random, math
from fractions import Fraction
import vlib

LEAN_TARGETS = ['CvxVerif.Props.C18', 'CvxVerif.Props.C18Quick', 'CvxVerif.Props.C18Info', 'CvxVerif.Props.C18Calls']
MODEL_FILES = ['CvxVerif.Model.MatCheck', 'CvxVerif.Gen.LapackWrap', 'CvxVerif.Gen.CallArgs']
LEVEL = 'proof'
TRUSTED = ['translator tools/translate/ccall2lean.py (regular-expression scan of lapack.c: guards of err_lapack, calls receiving &info, the macro body -> Gen/CallArgs.lean)',
           'translator tools/translate/cwrap2lean.py (argument checks and early returns of the lapack.c wrappers -> Gen/LapackWrap.lean; used by the quick-return theorems of the Q generators)',
           'the numerical routines are the external LAPACK (OpenBLAS build): nothing about their code is proved',
           'exact matrix checker lean/CvxVerif/Model/MatCheck.lean (products, transposes, Frobenius norms over the rationals); complex matrices are sent in their '
           'real 2n x 2n embedding', 'the harness: construction of well-conditioned / exactly singular inputs, band-storage conversions, tolerance 1e-9 relative to the norms of the factors']
ASSUMPTIONS = ['backward stability is judged as  ||residual||_F <= 1e-9 * ||A||_F * ||X||_F  on well-conditioned inputs (orders 0..5): a fixed relative bound, not the n*eps bound of the LAPACK error analysis',
               'routines covered: gesv getrf getrs getri posv potrf potrs potri sysv sytrf sytrs sytri hesv hetrf hetrs hetri trtrs trtri gels geqrf orgqr ungqr ormqr unmqr gelqf orglq unglq '
               'syev syevd syevr heev heevd heevr gesvd gesdd gees gbsv gbtrf gbtrs gtsv ptsv pbsv pbtrf pbtrs tbtrs']

TOL = Fraction(1, 10**9)

def translate(ctx):
    sys.path.insert(0, os.path.join(vlib.VERIF, 'tools', 'translate'))
    probs = []
    try:
        import cwrap2lean; cwrap2lean.gen_lapack()
    except Exception as e: probs.append('cwrap2lean.gen_lapack: %s: %s' % (type(e).__name__, e))
    try:
        import ccall2lean; ccall2lean.gen_callargs()
    except Exception as e: probs.append('ccall2lean.gen_callargs: %s: %s' % (type(e).__name__, e))
    return probs

def frs(x):
    f = Fraction(x); return str(f.numerator) if f.denominator == 1 else '%d/%d' % (f.numerator, f.denominator)

class Session:
    def __init__(self): self.lines, self.meta = [], []
    def mat(self, name, M_):
        """send a cvxopt dense matrix (real, or complex through the real embedding) under `name`"""
        m, n = M_.size
        if M_.typecode == 'z':
            rows = []
            for i in range(m): rows.append([M_[i, j].real for j in range(n)] + [-M_[i, j].imag for j in range(n)])
            for i in range(m): rows.append([M_[i, j].imag for j in range(n)] + [M_[i, j].real for j in range(n)])
            m, n = 2 * m, 2 * n
        else:
            rows = [[float(M_[i, j]) for j in range(n)] for i in range(m)]
        vals = ','.join(frs(v) for r in rows for v in r) or '-'
        self.lines.append('mat %s %d %d %s' % (name, m, n, vals)); self.meta.append(None)
    def small(self, e, f, g, what, desc, tol=TOL):
        self.lines.append('small %s %s ; %s ; %s' % (frs(tol), e, f, g)); self.meta.append((what, desc))

def correspond(ctx):
    cvxopt = vlib.use_build(ctx.build)
    from cvxopt import matrix, lapack, blas
    rng = random.Random(ctx.seed * 2713 + 18)
    rounds = 12 if ctx.quick() else 250
    S = Session()
    stat = {}
    def bump(k): stat[k] = stat.get(k, 0) + 1
    evals = [0]
    def val(tc, k=3):
        return float(rng.randint(-k, k)) if tc == 'd' else complex(rng.randint(-k, k), rng.randint(-k, k))
    def rand(m, n, tc): return matrix([val(tc) for _ in range(m * n)], (m, n), tc)
    def eye(n, tc):
        I = matrix(0.0, (n, n), tc)
        for i in range(n): I[i, i] = 1.0
        return I
    def wellcond(n, tc): return rand(n, n, tc) + (3 * n + 2) * eye(n, tc)
    def herm(n, tc, pd=False):
        B = rand(n, n, tc)
        A = B * B.H if pd else B + B.H
        if pd: A = A + (n + 1) * eye(n, tc)
        for i in range(n): A[i, i] = A[i, i].real if tc == 'z' else A[i, i]
        return A
    def symm_only(n, tc):            # symmetric (not hermitian) for sysv with complex data
        B = rand(n, n, tc); return B + B.T + (4 * n + 3) * eye(n, tc)
    def tri_store(A, uplo, rng_):
        """copy of A with arbitrary values in the triangle that must not be referenced"""
        T = +A; n = A.size[0]
        for i in range(n):
            for j in range(n):
                if (uplo == 'L' and j > i) or (uplo == 'U' and j < i): T[i, j] = val(A.typecode, 9)
        return T
    def same(A, B): return A.size == B.size and list(A) == list(B)
    def close(A, B, rel=1e-10):
        if A.size != B.size: return False
        sc = max([abs(a) for a in A] + [1.0])
        return all(abs(a - b) <= rel * sc for a, b in zip(A, B))
    def viol(sig, what, desc): ctx.violation('c18:' + sig, what, desc)
    def expect_exc(sig, fn, classes, what, desc):
        evals[0] += 1
        try: fn()
        except classes: bump('exc:' + sig); return
        except Exception as e:
            viol('exception-class:' + sig, '%s raised %s (%s), documented: %s' % (what, type(e).__name__, e, '/'.join(c.__name__ for c in classes)), desc); return
        viol('no-exception:' + sig, '%s did not raise (documented: %s)' % (what, '/'.join(c.__name__ for c in classes)), desc)
    TR = {'N': lambda e: e, 'T': lambda e: 'tr ' + e}
    for it in range(rounds):
        tc = rng.choice('dz'); n = rng.choice([0, 1, 2, 3, 4, 5]); k = rng.choice([0, 1, 2, 3])
        H = (lambda X: X.H) if tc == 'z' else (lambda X: X.T)
        desc0 = {'tc': tc, 'n': n, 'nrhs': k, 'round': it}
        # ------------------------------------------------------------ gesv / getrf / getrs / getri
        A = wellcond(n, tc); B = rand(n, k, tc)
        A1 = +A; X = +B
        lapack.gesv(A1, X); evals[0] += 1
        if not same(A1, A): viol('gesv-modifies-A', 'gesv without ipiv modified A', dict(desc0, A=list(A)))
        tag = 'g%d' % it
        S.mat('A' + tag, A); S.mat('B' + tag, B); S.mat('X' + tag, X)
        S.small('sub mul $A%s $X%s $B%s' % (tag, tag, tag), '$A' + tag, '$X' + tag, 'gesv: ||A X - B||', dict(desc0, A=list(A), B=list(B)))
        ipiv = matrix(0, (n, 1)); A2 = +A; X2 = +B
        lapack.gesv(A2, X2, ipiv); evals[0] += 1
        if not close(X2, X): viol('gesv-ipiv-differs', 'gesv with and without ipiv give different solutions', desc0)
        ip2 = matrix(0, (n, 1)); A3 = +A; lapack.getrf(A3, ip2); evals[0] += 1
        if k and (not same(A3, A2) or list(ip2) != list(ipiv)): viol('getrf-vs-gesv', 'getrf and gesv(ipiv) leave different factors / pivots', desc0)
        for trans in (['N', 'T', 'C'] if rng.random() < 0.5 else ['N']):
            X3 = +B; lapack.getrs(A3, ip2, X3, trans=trans); evals[0] += 1
            if trans == 'N':
                if not close(X3, X): viol('factor-solve-vs-driver:getrs', 'getrf+getrs differs from gesv', desc0)
            else:
                Aop = A.T if trans == 'T' else A.H
                S.mat('At' + tag, Aop); S.mat('Xt' + tag, X3)
                S.small('sub mul $At%s $Xt%s $B%s' % (tag, tag, tag), '$At' + tag, '$Xt' + tag, "getrs(trans='%s'): ||op(A) X - B||" % trans, dict(desc0, A=list(A), B=list(B)))
        if n:
            Ai = +A3; lapack.getri(Ai, ip2); evals[0] += 1
            S.mat('Ai' + tag, Ai)
            S.small('sub mul $A%s $Ai%s eye %d' % (tag, tag, n * (2 if tc == 'z' else 1)), '$A' + tag, '$Ai' + tag, 'getri: ||A inv(A) - I||', dict(desc0, A=list(A)))
        # exactly singular matrix -> ArithmeticError
        if n >= 2:
            As = +A; As[n - 1, :] = 0.0
            expect_exc('gesv-singular', lambda: lapack.gesv(+As, +B if k else rand(n, 1, tc)), (ArithmeticError,), 'gesv with a zero row', dict(desc0, A=list(As)))
        # size-inconsistent arguments
        if n:
            expect_exc('gesv-size', lambda: lapack.gesv(+A, rand(n + 1, max(k, 1), tc)[:n - 1, :] if n > 1 else rand(0, 1, tc)), (TypeError, ValueError), 'gesv with too few rows in B', desc0)
            expect_exc('getrs-ipiv-size', lambda: lapack.getrs(A3, matrix(0, (max(n - 1, 0), 1)), +B if k else rand(n, 1, tc)), (TypeError, ValueError), 'getrs with a short ipiv', desc0)
            expect_exc('gesv-typecode', lambda: lapack.gesv(+A, rand(n, 1, 'd' if tc == 'z' else 'z')), (TypeError, ValueError), 'gesv with conflicting typecodes', desc0)
        # ------------------------------------------------------------ posv / potrf / potrs / potri
        uplo = rng.choice('LU')
        P = herm(n, tc, pd=True); Pst = tri_store(P, uplo, rng)
        P1 = +Pst; X = +B; lapack.posv(P1, X, uplo=uplo); evals[0] += 1
        tag = 'p%d' % it
        S.mat('A' + tag, P); S.mat('B' + tag, B); S.mat('X' + tag, X)
        S.small('sub mul $A%s $X%s $B%s' % (tag, tag, tag), '$A' + tag, '$X' + tag, 'posv(uplo=%s): ||A X - B|| (A given by one triangle)' % uplo, dict(desc0, A=list(Pst), B=list(B), uplo=uplo))
        P2 = +Pst; lapack.potrf(P2, uplo=uplo); X2 = +B; lapack.potrs(P2, X2, uplo=uplo); evals[0] += 2
        if not close(X2, X): viol('factor-solve-vs-driver:potrs', 'potrf+potrs differs from posv', dict(desc0, uplo=uplo))
        # the factor reproduces A:  L L^H  (uplo L)  /  U^H U  (uplo U)
        S.mat('F' + tag, P2)
        if tc == 'd':
            e = 'sub mul lower $F%s tr lower $F%s $A%s' % (tag, tag, tag) if uplo == 'L' else 'sub mul tr upper $F%s upper $F%s $A%s' % (tag, tag, tag)
            S.small(e, '$A' + tag, 'eye %d' % max(n, 1), 'potrf(uplo=%s): ||L L^T - A||' % uplo, dict(desc0, A=list(Pst), uplo=uplo))
        if n:
            P3 = +P2; lapack.potri(P3, uplo=uplo); evals[0] += 1
            Pi = +P3
            for i in range(n):
                for j in range(n):
                    if (uplo == 'L' and j > i): Pi[i, j] = P3[j, i].conjugate() if tc == 'z' else P3[j, i]
                    if (uplo == 'U' and j < i): Pi[i, j] = P3[j, i].conjugate() if tc == 'z' else P3[j, i]
            S.mat('Ai' + tag, Pi)
            S.small('sub mul $A%s $Ai%s eye %d' % (tag, tag, n * (2 if tc == 'z' else 1)), '$A' + tag, '$Ai' + tag, 'potri(uplo=%s): ||A inv(A) - I||' % uplo, dict(desc0, A=list(Pst), uplo=uplo))
            # not positive definite -> ArithmeticError
            Pn = +Pst; Pn[0, 0] = -1.0
            expect_exc('potrf-not-pd', lambda: lapack.potrf(+Pn, uplo=uplo), (ArithmeticError,), 'potrf of a matrix with a negative diagonal entry', dict(desc0, uplo=uplo))
        # ------------------------------------------------------------ sysv / sytrf / sytrs / sytri, hesv / hetrf / hetrs
        for fam in (['sy', 'he'] if tc == 'z' else ['sy']):
            uplo = rng.choice('LU')
            Sm = symm_only(n, tc) if fam == 'sy' else herm(n, tc) + (4 * n + 3) * eye(n, tc)
            Sst = tri_store(Sm, uplo, rng)
            drv, trf, trs, tri = [getattr(lapack, fam + s) for s in ('sv', 'trf', 'trs', 'tri')]
            S1 = +Sst; X = +B; drv(S1, X, uplo=uplo); evals[0] += 1
            if not same(S1, Sst): viol(fam + 'sv-modifies-A', '%ssv without ipiv modified A' % fam, dict(desc0, uplo=uplo))
            tag = '%s%d' % (fam, it)
            S.mat('A' + tag, Sm); S.mat('B' + tag, B); S.mat('X' + tag, X)
            S.small('sub mul $A%s $X%s $B%s' % (tag, tag, tag), '$A' + tag, '$X' + tag, '%ssv(uplo=%s): ||A X - B|| (A given by one triangle)' % (fam, uplo), dict(desc0, A=list(Sst), B=list(B), uplo=uplo))
            ipiv = matrix(0, (n, 1)); S2 = +Sst; trf(S2, ipiv, uplo=uplo); X2 = +B; trs(S2, ipiv, X2, uplo=uplo); evals[0] += 2
            if not close(X2, X): viol('factor-solve-vs-driver:%strs' % fam, '%strf+%strs differs from %ssv' % (fam, fam, fam), dict(desc0, uplo=uplo))
            if n:
                S3 = +S2; tri(S3, ipiv, uplo=uplo); evals[0] += 1
                Si = +S3
                for i in range(n):
                    for j in range(n):
                        if (uplo == 'L' and j > i) or (uplo == 'U' and j < i):
                            Si[i, j] = S3[j, i].conjugate() if fam == 'he' else S3[j, i]
                S.mat('Ai' + tag, Si)
                S.small('sub mul $A%s $Ai%s eye %d' % (tag, tag, n * (2 if tc == 'z' else 1)), '$A' + tag, '$Ai' + tag, '%stri(uplo=%s): ||A inv(A) - I||' % (fam, uplo), dict(desc0, A=list(Sst), uplo=uplo))
        # ------------------------------------------------------------ trtrs / trtri
        uplo = rng.choice('LU'); diag = rng.choice('NU'); trans = rng.choice('NTC')
        T = rand(n, n, tc)
        for i in range(n): T[i, i] = float(rng.choice([1, 2, -2, 4]))
        Tst = tri_store(T, uplo, rng)
        Tm = matrix(0.0, (n, n), tc)
        for i in range(n):
            for j in range(n):
                if i == j: Tm[i, j] = 1.0 if diag == 'U' else T[i, j]
                elif (uplo == 'L' and j < i) or (uplo == 'U' and j > i): Tm[i, j] = T[i, j]
        Top = {'N': Tm, 'T': Tm.T, 'C': Tm.H}[trans]
        X = +B; lapack.trtrs(Tst, X, uplo=uplo, trans=trans, diag=diag); evals[0] += 1
        tag = 't%d' % it
        S.mat('A' + tag, Top); S.mat('B' + tag, B); S.mat('X' + tag, X)
        S.small('sub mul $A%s $X%s $B%s' % (tag, tag, tag), '$A' + tag, '$X' + tag, 'trtrs(uplo=%s, trans=%s, diag=%s): ||op(A) X - B||' % (uplo, trans, diag), dict(desc0, A=list(Tst), B=list(B)))
        if n:
            Ti = +Tst; lapack.trtri(Ti, uplo=uplo, diag=diag); evals[0] += 1
            Tim = matrix(0.0, (n, n), tc)
            for i in range(n):
                for j in range(n):
                    if i == j: Tim[i, j] = 1.0 if diag == 'U' else Ti[i, j]
                    elif (uplo == 'L' and j < i) or (uplo == 'U' and j > i): Tim[i, j] = Ti[i, j]
            S.mat('Tm' + tag, Tm); S.mat('Ti' + tag, Tim)
            S.small('sub mul $Tm%s $Ti%s eye %d' % (tag, tag, n * (2 if tc == 'z' else 1)), '$Tm' + tag, '$Ti' + tag, 'trtri(uplo=%s, diag=%s): ||T inv(T) - I||' % (uplo, diag), dict(desc0, A=list(Tst)))
        # ------------------------------------------------------------ gels, geqrf / orgqr / ormqr, gelqf / orglq
        m = rng.randint(1, 5); nn = rng.randint(1, 5)
        G = rand(m, nn, tc)
        for i in range(min(m, nn)): G[i, i] += 4 * max(m, nn)
        Bg = rand(max(m, nn), max(k, 1), tc)
        G1 = +G; Xg = +Bg; lapack.gels(G1, Xg); evals[0] += 1
        tag = 'l%d' % it
        Xs = Xg[:nn, :]; Bm = Bg[:m, :]
        S.mat('A' + tag, G); S.mat('X' + tag, Xs); S.mat('B' + tag, Bm)
        if m >= nn:      # least squares: A^H (A X - B) = 0
            S.small('mul tr $A%s sub mul $A%s $X%s $B%s' % (tag, tag, tag, tag), 'mul tr $A%s $A%s' % (tag, tag), '$X' + tag, 'gels (m >= n): normal equations', dict(desc0, A=list(G), B=list(Bm), m=m, n=nn))
        else:            # minimum norm solution: A X = B
            S.small('sub mul $A%s $X%s $B%s' % (tag, tag, tag), '$A' + tag, '$X' + tag, 'gels (m < n): ||A X - B||', dict(desc0, A=list(G), B=list(Bm), m=m, n=nn))
        if m >= nn:
            tau = matrix(0.0, (nn, 1), tc); Q = +G; lapack.geqrf(Q, tau); evals[0] += 1
            R = matrix(0.0, (nn, nn), tc)
            for i in range(nn):
                for j in range(i, nn): R[i, j] = Q[i, j]
            Qe = +Q; (lapack.orgqr if tc == 'd' else lapack.ungqr)(Qe, tau); evals[0] += 1
            S.mat('Q' + tag, Qe); S.mat('R' + tag, R)
            kk = nn * (2 if tc == 'z' else 1)
            S.small('sub mul tr $Q%s $Q%s eye %d' % (tag, tag, kk), 'eye %d' % kk, 'eye 1', 'orgqr/ungqr: ||Q^H Q - I||', dict(desc0, A=list(G), m=m, n=nn))
            S.small('sub mul $Q%s $R%s $A%s' % (tag, tag, tag), '$A' + tag, 'eye 1', 'geqrf: ||Q R - A||', dict(desc0, A=list(G), m=m, n=nn))
            # ormqr / unmqr: apply Q^H to a matrix and compare with the explicit Q
            C = rand(m, 2, tc); C1 = +C
            (lapack.ormqr if tc == 'd' else lapack.unmqr)(Q, tau, C1, side='L', trans='T' if tc == 'd' else 'C'); evals[0] += 1
            S.mat('C' + tag, C); S.mat('D' + tag, C1[:nn, :])
            S.small('sub mul tr $Q%s $C%s $D%s' % (tag, tag, tag), '$C' + tag, 'eye 1', 'ormqr/unmqr: ||Q^H C - result||', dict(desc0, A=list(G), m=m, n=nn))
        else:
            tau = matrix(0.0, (m, 1), tc); Lq = +G; lapack.gelqf(Lq, tau); evals[0] += 1
            Lm = matrix(0.0, (m, m), tc)
            for i in range(m):
                for j in range(i + 1): Lm[i, j] = Lq[i, j]
            Qe = +Lq; (lapack.orglq if tc == 'd' else lapack.unglq)(Qe, tau); evals[0] += 1
            S.mat('Q' + tag, Qe); S.mat('L' + tag, Lm)
            kk = m * (2 if tc == 'z' else 1)
            S.small('sub mul $Q%s tr $Q%s eye %d' % (tag, tag, kk), 'eye %d' % kk, 'eye 1', 'orglq/unglq: ||Q Q^H - I||', dict(desc0, A=list(G), m=m, n=nn))
            S.small('sub mul $L%s $Q%s $A%s' % (tag, tag, tag), '$A' + tag, 'eye 1', 'gelqf: ||L Q - A||', dict(desc0, A=list(G), m=m, n=nn))
        # ------------------------------------------------------------ symmetric / hermitian eigenvalue routines
        if n:
            uplo = rng.choice('LU'); E = herm(n, tc); Est = tri_store(E, uplo, rng)
            names = ['syev', 'syevd', 'syevr'] if tc == 'd' else ['heev', 'heevd', 'heevr']
            ws = {}
            for nm in names:
                W = matrix(0.0, (n, 1)); V = +Est
                if nm.endswith('r'):
                    Z = matrix(0.0, (n, n), tc); getattr(lapack, nm)(V, W, jobz='V', uplo=uplo, Z=Z); V = Z
                else:
                    getattr(lapack, nm)(V, W, jobz='V', uplo=uplo)
                evals[0] += 1
                ws[nm] = list(W)
                if any(W[i] > W[i + 1] for i in range(n - 1)): viol('eigenvalues-not-sorted:' + nm, '%s: eigenvalues are not in ascending order: %r' % (nm, list(W)), dict(desc0, A=list(Est), uplo=uplo))
                tag = 'e%s%d' % (nm, it)
                S.mat('A' + tag, E); S.mat('V' + tag, V); S.mat('w' + tag, matrix(list(W) + (list(W) if tc == 'z' else []), (n * (2 if tc == 'z' else 1), 1), 'd') if False else matrix(list(W), (n, 1), 'd'))
                kk = n * (2 if tc == 'z' else 1)
                if tc == 'z':
                    S.lines[-1] = 'mat w%s %d 1 %s' % (tag, kk, ','.join(frs(v) for v in list(W) + list(W)))
                S.small('sub mul tr $V%s $V%s eye %d' % (tag, tag, kk), 'eye %d' % kk, 'eye 1', '%s: ||V^H V - I||' % nm, dict(desc0, A=list(Est), uplo=uplo))
                S.small('sub mul $A%s $V%s mul $V%s diag $w%s' % (tag, tag, tag, tag), '$A' + tag, '$V' + tag, '%s: ||A V - V diag(w)||' % nm, dict(desc0, A=list(Est), uplo=uplo))
                # jobz='N' gives the same eigenvalues and leaves no vectors
                W2 = matrix(0.0, (n, 1)); V2 = +Est
                getattr(lapack, nm)(V2, W2, jobz='N', uplo=uplo); evals[0] += 1
                if not close(W2, W, 1e-9): viol('eigenvalues-jobz:' + nm, "%s: jobz='N' and jobz='V' give different eigenvalues" % nm, dict(desc0, A=list(Est), uplo=uplo))
            vals_ = list(ws.values())
            if any(not close(matrix(v), matrix(vals_[0]), 1e-9) for v in vals_[1:]):
                viol('eigenvalue-routines-disagree', 'the eigenvalue routines %s give different spectra' % names, dict(desc0, A=list(Est), uplo=uplo))
        # ------------------------------------------------------------ singular value decompositions
        m = rng.randint(1, 4); nn = rng.randint(1, 4)
        G = rand(m, nn, tc); r = min(m, nn)
        for nm in ('gesvd', 'gesdd'):
            Sv = matrix(0.0, (r, 1)); U = matrix(0.0, (m, r), tc); Vt = matrix(0.0, (r, nn), tc)
            if nm == 'gesvd': lapack.gesvd(+G, Sv, jobu='S', jobvt='S', U=U, Vt=Vt)
            else: lapack.gesdd(+G, Sv, jobz='S', U=U, Vt=Vt)
            evals[0] += 1
            if any(Sv[i] < Sv[i + 1] for i in range(r - 1)) or any(s < 0 for s in Sv):
                viol('singular-values-order:' + nm, '%s: singular values are not nonnegative and descending: %r' % (nm, list(Sv)), dict(desc0, A=list(G), m=m, n=nn))
            tag = 's%s%d' % (nm, it)
            rr = r * (2 if tc == 'z' else 1)
            S.mat('A' + tag, G); S.mat('U' + tag, U); S.mat('V' + tag, Vt)
            S.lines.append('mat s%s %d 1 %s' % (tag, rr, ','.join(frs(v) for v in list(Sv) * (2 if tc == 'z' else 1)))); S.meta.append(None)
            S.small('sub mul tr $U%s $U%s eye %d' % (tag, tag, rr), 'eye %d' % rr, 'eye 1', '%s: ||U^H U - I||' % nm, dict(desc0, A=list(G), m=m, n=nn))
            S.small('sub mul $V%s tr $V%s eye %d' % (tag, tag, rr), 'eye %d' % rr, 'eye 1', '%s: ||Vt Vt^H - I||' % nm, dict(desc0, A=list(G), m=m, n=nn))
            S.small('sub mul mul $U%s diag $s%s $V%s $A%s' % (tag, tag, tag, tag), '$A' + tag, 'eye 1', '%s: ||U diag(s) Vt - A||' % nm, dict(desc0, A=list(G), m=m, n=nn))
            Sn = matrix(0.0, (r, 1))
            if nm == 'gesvd': lapack.gesvd(+G, Sn)
            else: lapack.gesdd(+G, Sn)
            evals[0] += 1
            if not close(Sn, Sv, 1e-9): viol('singular-values-jobs:' + nm, '%s: singular values depend on the job options' % nm, dict(desc0, A=list(G), m=m, n=nn))
        # ------------------------------------------------------------ Schur factorisation
        if n:
            As = rand(n, n, tc); w = matrix(0.0, (n, 1), 'z'); Vs = matrix(0.0, (n, n), tc); Tm_ = +As
            lapack.gees(Tm_, w, Vs); evals[0] += 1
            tag = 'h%d' % it
            kk = n * (2 if tc == 'z' else 1)
            S.mat('A' + tag, As); S.mat('V' + tag, Vs); S.mat('T' + tag, Tm_)
            S.small('sub mul tr $V%s $V%s eye %d' % (tag, tag, kk), 'eye %d' % kk, 'eye 1', 'gees: ||V^H V - I||', dict(desc0, A=list(As)))
            S.small('sub mul mul $V%s $T%s tr $V%s $A%s' % (tag, tag, tag, tag), '$A' + tag, 'eye 1', 'gees: ||V T V^H - A||', dict(desc0, A=list(As)))
            below = [abs(Tm_[i, j]) for i in range(n) for j in range(n) if i > j + (1 if tc == 'd' else 0)]
            if any(b != 0.0 for b in below): viol('gees-not-triangular', 'gees: T is not (quasi-)upper triangular', dict(desc0, A=list(As)))
        # ------------------------------------------------------------ band and tridiagonal solvers
        if n:
            kl, ku = rng.randint(0, min(2, n - 1)), rng.randint(0, min(2, n - 1))
            D = matrix(0.0, (n, n), tc)
            for i in range(n):
                for j in range(n):
                    if -kl <= j - i <= ku: D[i, j] = val(tc)
                D[i, i] = D[i, i] + 4 * (kl + ku + 2)
            Ab = matrix(0.0, (kl + ku + 1, n), tc)
            for j in range(n):
                for i in range(max(0, j - ku), min(n, j + kl + 1)): Ab[ku + i - j, j] = D[i, j]
            Ab0 = +Ab; X = +B; lapack.gbsv(Ab, kl, X); evals[0] += 1
            if not same(Ab, Ab0): viol('gbsv-modifies-A', 'gbsv without ipiv modified A', dict(desc0, kl=kl, ku=ku))
            tag = 'b%d' % it
            S.mat('A' + tag, D); S.mat('B' + tag, B); S.mat('X' + tag, X)
            S.small('sub mul $A%s $X%s $B%s' % (tag, tag, tag), '$A' + tag, '$X' + tag, 'gbsv(kl=%d, ku=%d): ||A X - B||' % (kl, ku), dict(desc0, A=list(D), B=list(B), kl=kl, ku=ku))
            Af = matrix(0.0, (2 * kl + ku + 1, n), tc); Af[kl:, :] = Ab0
            ipiv = matrix(0, (n, 1)); lapack.gbtrf(Af, n, kl, ipiv); X2 = +B; lapack.gbtrs(Af, kl, ipiv, X2); evals[0] += 2
            if not close(X2, X): viol('factor-solve-vs-driver:gbtrs', 'gbtrf+gbtrs differs from gbsv', dict(desc0, kl=kl, ku=ku))
            for trans in 'TC':
                try:
                    Xt = +B; lapack.gbtrs(Af, kl, ipiv, Xt, trans=trans); evals[0] += 1
                    Dop = D.T if trans == 'T' else D.H
                    S.mat('At%s%s' % (trans, tag), Dop); S.mat('Xt%s%s' % (trans, tag), Xt)
                    S.small('sub mul $At%s%s $Xt%s%s $B%s' % (trans, tag, trans, tag, tag), '$At%s%s' % (trans, tag), '$Xt%s%s' % (trans, tag),
                            "gbtrf + gbtrs(trans='%s'): ||op(A) X - B||" % trans, dict(desc0, A=list(D), B=list(B), kl=kl, ku=ku, trans=trans))
                except Exception as e:
                    viol('raises-on-valid:gbtrs', "gbtrs(trans='%s') raised %s (%s)" % (trans, type(e).__name__, e), dict(desc0, kl=kl, ku=ku))
            # tridiagonal
            if n >= 1:
                dl = rand(max(n - 1, 0), 1, tc); du = rand(max(n - 1, 0), 1, tc); d = rand(n, 1, tc) + 9
                Td = matrix(0.0, (n, n), tc)
                for i in range(n):
                    Td[i, i] = d[i]
                    if i + 1 < n: Td[i + 1, i] = dl[i]; Td[i, i + 1] = du[i]
                X = +B; lapack.gtsv(+dl, +d, +du, X); evals[0] += 1
                S.mat('T' + tag, Td); S.mat('Y' + tag, X)
                S.small('sub mul $T%s $Y%s $B%s' % (tag, tag, tag), '$T' + tag, '$Y' + tag, 'gtsv: ||A X - B||', dict(desc0, dl=list(dl), d=list(d), du=list(du), B=list(B)))
                # factor + solve with every documented `trans`
                fl, fd, fu = +dl, +d, +du; fu2 = matrix(0.0, (max(n - 2, 0), 1), tc); fp = matrix(0, (n, 1))
                try:
                    lapack.gttrf(fl, fd, fu, fu2, fp); evals[0] += 1
                    for trans in 'NTC':
                        Xt = +B; lapack.gttrs(fl, fd, fu, fu2, fp, Xt, trans=trans); evals[0] += 1
                        Top = {'N': Td, 'T': Td.T, 'C': Td.H}[trans]
                        S.mat('Tt%s%s' % (trans, tag), Top); S.mat('Yt%s%s' % (trans, tag), Xt)
                        S.small('sub mul $Tt%s%s $Yt%s%s $B%s' % (trans, tag, trans, tag, tag), '$Tt%s%s' % (trans, tag), '$Yt%s%s' % (trans, tag),
                                "gttrf + gttrs(trans='%s'): ||op(A) X - B||" % trans, dict(desc0, dl=list(dl), d=list(d), du=list(du), B=list(B), trans=trans))
                except Exception as e:
                    viol('raises-on-valid:gttrs', 'gttrf + gttrs with a documented trans raised %s (%s)' % (type(e).__name__, e), dict(desc0, dl=list(dl), d=list(d), du=list(du)))
                # positive definite tridiagonal
                dd = matrix([float(rng.randint(10, 14)) for _ in range(n)]); ee = rand(max(n - 1, 0), 1, tc)
                Tp = matrix(0.0, (n, n), tc)
                for i in range(n):
                    Tp[i, i] = dd[i]
                    if i + 1 < n: Tp[i + 1, i] = ee[i]; Tp[i, i + 1] = ee[i].conjugate() if tc == 'z' else ee[i]
                X = +B; lapack.ptsv(+dd, +ee, X); evals[0] += 1
                S.mat('P' + tag, Tp); S.mat('Z' + tag, X)
                S.small('sub mul $P%s $Z%s $B%s' % (tag, tag, tag), '$P' + tag, '$Z' + tag, 'ptsv: ||A X - B||', dict(desc0, d=list(dd), e=list(ee), B=list(B)))
                for up2 in ('LU' if tc == 'z' else 'L'):
                    try:
                        fd2 = +dd; fe2 = +ee if up2 == 'L' else matrix([v.conjugate() for v in ee], ee.size, 'z')      # 'U': e is the superdiagonal
                        lapack.pttrf(fd2, fe2); Xp = +B
                        if tc == 'z': lapack.pttrs(fd2, fe2, Xp, uplo=up2)
                        else: lapack.pttrs(fd2, fe2, Xp)
                        evals[0] += 2
                        if not close(Xp, X, 1e-9): viol('factor-solve-vs-driver:pttrs', 'pttrf + pttrs(uplo=%s) differs from ptsv' % up2, dict(desc0, d=list(dd), e=list(ee), uplo=up2))
                    except Exception as e:
                        viol('raises-on-valid:pttrs', 'pttrf + pttrs(uplo=%s) raised %s (%s)' % (up2, type(e).__name__, e), dict(desc0, d=list(dd), e=list(ee)))
            # positive definite band (pbsv, pbtrf + pbtrs) and triangular band (tbtrs)
            kd = rng.randint(0, min(2, n - 1)); uplo = rng.choice('LU')
            Pb = matrix(0.0, (n, n), tc)
            for i in range(n):
                for j in range(i):
                    if i - j <= kd:
                        v = val(tc); Pb[i, j] = v; Pb[j, i] = v.conjugate() if tc == 'z' else v
                Pb[i, i] = float(4 * kd + 6)
            Bd = matrix(0.0, (kd + 1, n), tc)
            for j in range(n):
                if uplo == 'L':
                    for i in range(j, min(n, j + kd + 1)): Bd[i - j, j] = Pb[i, j]
                else:
                    for i in range(max(0, j - kd), j + 1): Bd[kd + i - j, j] = Pb[i, j]
            X = +B; Bd1 = +Bd; lapack.pbsv(Bd1, X, uplo=uplo); evals[0] += 1
            S.mat('Q' + tag, Pb); S.mat('W' + tag, X)
            S.small('sub mul $Q%s $W%s $B%s' % (tag, tag, tag), '$Q' + tag, '$W' + tag, 'pbsv(uplo=%s, kd=%d): ||A X - B||' % (uplo, kd), dict(desc0, A=list(Pb), B=list(B), kd=kd, uplo=uplo))
            Bd2 = +Bd; lapack.pbtrf(Bd2, uplo=uplo); X2 = +B; lapack.pbtrs(Bd2, X2, uplo=uplo); evals[0] += 2
            if not close(X2, X): viol('factor-solve-vs-driver:pbtrs', 'pbtrf+pbtrs differs from pbsv', dict(desc0, kd=kd, uplo=uplo))
            diag = rng.choice('NU'); trans = rng.choice('NTC')
            Tb = matrix(0.0, (n, n), tc)
            for i in range(n):
                for j in range(n):
                    inb = (uplo == 'L' and 0 <= i - j <= kd) or (uplo == 'U' and 0 <= j - i <= kd)
                    if inb: Tb[i, j] = val(tc) if i != j else float(rng.choice([1, 2, -2, 4]))
            Tbd = matrix(0.0, (kd + 1, n), tc)
            for j in range(n):
                if uplo == 'L':
                    for i in range(j, min(n, j + kd + 1)): Tbd[i - j, j] = Tb[i, j]
                else:
                    for i in range(max(0, j - kd), j + 1): Tbd[kd + i - j, j] = Tb[i, j]
            Tbm = +Tb
            if diag == 'U':
                for i in range(n): Tbm[i, i] = 1.0
            Top = {'N': Tbm, 'T': Tbm.T, 'C': Tbm.H}[trans]
            X = +B; lapack.tbtrs(Tbd, X, uplo=uplo, trans=trans, diag=diag); evals[0] += 1
            S.mat('R' + tag, Top); S.mat('V' + tag, X)
            S.small('sub mul $R%s $V%s $B%s' % (tag, tag, tag), '$R' + tag, '$V' + tag, 'tbtrs(uplo=%s, trans=%s, diag=%s, kd=%d): ||op(A) X - B||' % (uplo, trans, diag, kd), dict(desc0, A=list(Tb), B=list(B)))
    # ------------------------------------------------------------ the remaining routines of lapack.c (pivoted QR, apply-Q from an LQ factorisation,
    # expert and generalised eigenvalue drivers, generalised Schur form, lacpy, the elementary-reflector helpers): defining equations checked in
    # floating point (tolerance 1e-9 relative to the data)
    def rows(M_): return [[complex(M_[i, j]) for j in range(M_.size[1])] for i in range(M_.size[0])]
    def mm(A_, B_): return [[sum(A_[i][t] * B_[t][j] for t in range(len(B_))) for j in range(len(B_[0]) if B_ else 0)] for i in range(len(A_))]
    def hh(A_): return [[A_[i][j].conjugate() for i in range(len(A_))] for j in range(len(A_[0]) if A_ else 0)]
    def dist(A_, B_): return max([abs(a - b) for ra, rb in zip(A_, B_) for a, b in zip(ra, rb)] + [0.0])
    def ident(k_): return [[1.0 + 0j if i == j else 0j for j in range(k_)] for i in range(k_)]
    def mag(A_): return max([abs(a) for r_ in A_ for a in r_] + [1.0])
    def chk(sig, err, scale, what, desc):
        evals[0] += 1; bump('direct:' + sig)
        if not err <= 1e-9 * scale: viol('residual:' + sig, '%s is not small: %.3g (scale %.3g)' % (what, err, scale), desc)
    for it in range(rounds):
        tc = rng.choice('dz'); H_ = 'T' if tc == 'd' else 'C'
        desc0 = {'typecode': tc, 'round': 'extra-%d' % it}
        # geqp3: A P = Q R with |R[i,i]| non-increasing
        m = rng.randint(1, 5); nn = rng.randint(1, 6)          # tall, square and wide matrices
        r_ = min(m, nn)
        G = rand(m, nn, tc); A1 = +G; jp = matrix(0, (nn, 1)); tau = matrix(0.0, (r_, 1), tc)
        try:
            lapack.geqp3(A1, jp, tau)
            perm = [int(v) - 1 for v in jp]
            if sorted(perm) != list(range(nn)): viol('geqp3-permutation', 'geqp3: jpvt %r is not a permutation of 1..n' % list(jp), dict(desc0, A=list(G), m=m, n=nn))
            else:
                R_ = [[complex(A1[i, j]) if j >= i else 0j for j in range(nn)] for i in range(r_)]          # r x n upper trapezoidal
                Qe = +A1[:, :r_]; (lapack.orgqr if tc == 'd' else lapack.ungqr)(Qe, tau); Q_ = rows(Qe)          # m x r
                AP = [[complex(G[i, perm[j]]) for j in range(nn)] for i in range(m)]
                chk('geqp3', dist(mm(Q_, R_), AP), mag(AP), 'geqp3: ||Q R - A P||', dict(desc0, A=list(G), m=m, n=nn))
                chk('geqp3-orth', dist(mm(hh(Q_), Q_), ident(r_)), 1.0, 'geqp3 + orgqr: ||Q^H Q - I||', dict(desc0, A=list(G), m=m, n=nn))
                dg = [abs(R_[i][i]) for i in range(r_)]
                if any(dg[i] < dg[i + 1] * (1 - 1e-9) for i in range(r_ - 1)): viol('geqp3-diagonal', 'geqp3: |R[i,i]| is not non-increasing: %r' % dg, dict(desc0, A=list(G), m=m, n=nn))
        except Exception as e: viol('raises-on-valid:geqp3', 'geqp3 raised %s (%s)' % (type(e).__name__, e), dict(desc0, A=list(G), m=m, n=nn))
        # exactly singular / not positive definite inputs: every factorisation and driver whose LAPACK routine reports it (info > 0) raises ArithmeticError,
        # and the factorisation agrees with the one-call driver about it.  Exact zeros that survive the elimination: a zero row and column (symmetric /
        # hermitian), a zero column (general, tridiagonal), a zero diagonal entry (triangular), a negative diagonal entry (positive definite routines)
        rs = random.Random(ctx.seed * 1009 + it); rng_keep, rng = rng, rs          # own stream (the helpers draw from `rng`)
        n = rs.randint(2, 5); p_ = rs.randrange(n); uplo = rs.choice('LU'); Bs = rand(n, rs.randint(1, 2), tc)
        d_ = dict(desc0, n=n, position=p_, uplo=uplo)
        Gs = wellcond(n, tc); Gs[:, p_] = 0.0
        expect_exc('getrf-singular', lambda: lapack.getrf(+Gs, matrix(0, (n, 1))), (ArithmeticError,), 'getrf of a matrix with a zero column', dict(d_, A=list(Gs)))
        expect_exc('gesv-singular-column', lambda: lapack.gesv(+Gs, +Bs), (ArithmeticError,), 'gesv with a zero column', dict(d_, A=list(Gs)))
        Ss = symm_only(n, tc) + (3 * n + 2) * eye(n, tc); Ss[:, p_] = 0.0; Ss[p_, :] = 0.0
        Sst = tri_store(Ss, uplo, rs)
        expect_exc('sytrf-singular', lambda: lapack.sytrf(+Sst, matrix(0, (n, 1)), uplo=uplo), (ArithmeticError,), 'sytrf of a symmetric matrix with a zero row and column', dict(d_, A=list(Ss)))
        expect_exc('sysv-singular', lambda: lapack.sysv(+Sst, +Bs, uplo=uplo), (ArithmeticError,), 'sysv with a zero row and column', dict(d_, A=list(Ss)))
        expect_exc('sysv-ipiv-singular', lambda: lapack.sysv(+Sst, +Bs, ipiv=matrix(0, (n, 1)), uplo=uplo), (ArithmeticError,), 'sysv(ipiv) with a zero row and column', dict(d_, A=list(Ss)))
        Hs = herm(n, tc) + (3 * n + 2) * eye(n, tc); Hs[:, p_] = 0.0; Hs[p_, :] = 0.0
        Hst = tri_store(Hs, uplo, rs)
        expect_exc('hetrf-singular', lambda: lapack.hetrf(+Hst, matrix(0, (n, 1)), uplo=uplo), (ArithmeticError,), 'hetrf of a hermitian matrix with a zero row and column', dict(d_, A=list(Hs)))
        expect_exc('hesv-singular', lambda: lapack.hesv(+Hst, +Bs, uplo=uplo), (ArithmeticError,), 'hesv with a zero row and column', dict(d_, A=list(Hs)))
        Ts = wellcond(n, tc); Ts[p_, p_] = 0.0
        Tst = tri_store(Ts, uplo, rs)
        expect_exc('trtrs-singular', lambda: lapack.trtrs(+Tst, +Bs, uplo=uplo), (ArithmeticError,), 'trtrs with a zero diagonal entry', dict(d_, A=list(Ts)))
        expect_exc('trtri-singular', lambda: lapack.trtri(+Tst, uplo=uplo), (ArithmeticError,), 'trtri with a zero diagonal entry', dict(d_, A=list(Ts)))
        Pn = herm(n, tc, pd=True); Pn[p_, p_] = -1.0
        Pnt = tri_store(Pn, uplo, rs)
        expect_exc('posv-not-pd', lambda: lapack.posv(+Pnt, +Bs, uplo=uplo), (ArithmeticError,), 'posv with a negative diagonal entry', dict(d_, A=list(Pn)))
        dd = matrix([float(rs.randint(3, 6)) for _ in range(n)]); ee = rand(n - 1, 1, tc); dd[p_] = -1.0
        expect_exc('ptsv-not-pd', lambda: lapack.ptsv(+dd, +ee, +Bs), (ArithmeticError,), 'ptsv with a negative diagonal entry', dict(d_, d=list(dd)))
        expect_exc('pttrf-not-pd', lambda: lapack.pttrf(+dd, +ee), (ArithmeticError,), 'pttrf with a negative diagonal entry', dict(d_, d=list(dd)))
        dl = rand(n - 1, 1, tc); dg = rand(n, 1, tc) + (5 + 0 * dd[0]); du = rand(n - 1, 1, tc); dg[0] = 0.0; dl[0] = 0.0
        expect_exc('gtsv-singular', lambda: lapack.gtsv(+dl, +dg, +du, +Bs), (ArithmeticError,), 'gtsv with a zero first column', dict(d_, d=list(dg)))
        expect_exc('gttrf-singular', lambda: lapack.gttrf(+dl, +dg, +du, matrix(0.0, (max(n - 2, 0), 1), tc), matrix(0, (n, 1))), (ArithmeticError,), 'gttrf with a zero first column', dict(d_, d=list(dg)))
        rng = rng_keep
        # orgqr / ungqr / orglq / unglq with fewer reflectors than columns (rows), down to none: Q = H_1 ... H_k is then the identity on the remaining
        # part - in particular with k = 0 (empty tau: the Q of a factorisation of an m x 0 matrix) the array is overwritten by columns of I
        m = rng.randint(1, 5); nn = rng.randint(1, m)
        G = rand(m, nn, tc); QR_ = +G; tau = matrix(0.0, (nn, 1), tc)
        try:
            lapack.geqrf(QR_, tau)
            gen = lapack.orgqr if tc == 'd' else lapack.ungqr
            Qfull = +QR_; gen(Qfull, tau)
            k_ = 0 if it % 3 == 0 else rng.randint(0, nn)
            Qk = +QR_; gen(Qk, tau, k=k_) if rng.random() < 0.5 or k_ == nn else gen(Qk, tau[:k_] if k_ else matrix(0.0, (0, 1), tc))
            Qk_ = rows(Qk); d_ = dict(desc0, A=list(G), m=m, n=nn, k=k_)
            chk('orgqr-k-orth', dist(mm(hh(Qk_), Qk_), ident(nn)), 1.0, 'orgqr/ungqr with k = %d of %d reflectors: ||Q^H Q - I||' % (k_, nn), d_)
            if k_ == 0: chk('orgqr-k0', dist(Qk_, [[1.0 + 0j if i == j else 0j for j in range(nn)] for i in range(m)]), 1.0, 'orgqr/ungqr with no reflectors: ||Q - I(:, :n)||', d_)
            Ql = +G.T if tc == 'd' else +G.H          # nn x m, nn <= m
            taul = matrix(0.0, (nn, 1), tc); lapack.gelqf(Ql, taul)
            genl = lapack.orglq if tc == 'd' else lapack.unglq
            Qlk = +Ql; genl(Qlk, taul, k=k_) if rng.random() < 0.5 or k_ == nn else genl(Qlk, taul[:k_] if k_ else matrix(0.0, (0, 1), tc))
            Qlk_ = rows(Qlk)
            chk('orglq-k-orth', dist(mm(Qlk_, hh(Qlk_)), ident(nn)), 1.0, 'orglq/unglq with k = %d of %d reflectors: ||Q Q^H - I||' % (k_, nn), d_)
            if k_ == 0: chk('orglq-k0', dist(Qlk_, [[1.0 + 0j if i == j else 0j for j in range(m)] for i in range(nn)]), 1.0, 'orglq/unglq with no reflectors: ||Q - I(:m, :)||', d_)
        except Exception as e: viol('raises-on-valid:orgqr-k', 'orgqr / orglq with k reflectors raised %s (%s)' % (type(e).__name__, e), dict(desc0, A=list(G), m=m, n=nn))
        # gelqf + ormlq / unmlq: the full Q (n x n) applied to the identity; A = [L 0] Q
        m = rng.randint(1, 4); nn = rng.randint(m, 5)
        G = rand(m, nn, tc); Lq = +G; tau = matrix(0.0, (m, 1), tc)
        try:
            lapack.gelqf(Lq, tau)
            apply_ = lapack.ormlq if tc == 'd' else lapack.unmlq
            C1 = eye(nn, tc); apply_(Lq, tau, C1, side='L', trans='N')
            C2 = eye(nn, tc); apply_(Lq, tau, C2, side='L', trans=H_)
            C3 = eye(nn, tc); apply_(Lq, tau, C3, side='R', trans='N')
            Q_ = rows(C1)
            L0 = [[complex(Lq[i, j]) if j <= i else 0j for j in range(nn)] for i in range(m)]
            d_ = dict(desc0, A=list(G), m=m, n=nn)
            chk('ormlq-orth', dist(mm(hh(Q_), Q_), ident(nn)), 1.0, 'ormlq/unmlq: ||Q^H Q - I||', d_)
            chk('ormlq', dist(mm(L0, Q_), rows(G)), mag(rows(G)), 'gelqf + ormlq/unmlq: ||[L 0] Q - A||', d_)
            chk('ormlq-trans', dist(rows(C2), hh(Q_)), 1.0, "ormlq/unmlq(trans): ||Q^H - result||", d_)
            chk('ormlq-side', dist(rows(C3), Q_), 1.0, "ormlq/unmlq(side='R'): ||I Q - Q||", d_)
        except Exception as e: viol('raises-on-valid:ormlq', 'gelqf / ormlq raised %s (%s)' % (type(e).__name__, e), dict(desc0, A=list(G), m=m, n=nn))
        # syevx / heevx: all eigenvalues, an index range, a value range
        n = rng.randint(1, 5); uplo = rng.choice('LU'); E = herm(n, tc); Est = tri_store(E, uplo, rng)
        fx = lapack.syevx if tc == 'd' else lapack.heevx; nm = 'syevx' if tc == 'd' else 'heevx'
        d_ = dict(desc0, A=list(Est), uplo=uplo, n=n)
        try:
            Wall = matrix(0.0, (n, 1)); (lapack.syev if tc == 'd' else lapack.heev)(+Est, Wall, uplo=uplo); wall = list(Wall)
            W = matrix(0.0, (n, 1)); Z = matrix(0.0, (n, n), tc); cnt = fx(+Est, W, jobz='V', range='A', uplo=uplo, Z=Z)
            Z_ = rows(Z); E_ = rows(E)
            chk(nm, max([abs(a - b) for a, b in zip(W, wall)] + [0.0]), mag(E_), "%s(range='A'): eigenvalues differ from syev/heev" % nm, d_)
            chk(nm + '-vectors', dist(mm(E_, Z_), [[Z_[i][j] * W[j] for j in range(n)] for i in range(n)]), mag(E_), "%s(range='A'): ||A Z - Z diag(w)||" % nm, d_)
            chk(nm + '-orth', dist(mm(hh(Z_), Z_), ident(n)), 1.0, "%s(range='A'): ||Z^H Z - I||" % nm, d_)
            il = rng.randint(1, n); iu = rng.randint(il, n)
            W2 = matrix(0.0, (n, 1)); Z2 = matrix(0.0, (n, iu - il + 1), tc); cnt2 = fx(+Est, W2, jobz='V', range='I', uplo=uplo, il=il, iu=iu, Z=Z2)
            if cnt2 != iu - il + 1: viol('count:' + nm, "%s(range='I', il=%d, iu=%d) returned %r eigenvalues" % (nm, il, iu, cnt2), d_)
            else:
                chk(nm + '-index-range', max([abs(a - b) for a, b in zip(list(W2)[:cnt2], wall[il - 1:iu])] + [0.0]), mag(E_), "%s(range='I'): eigenvalues il..iu differ from the sorted spectrum" % nm, d_)
                Z2_ = rows(Z2)
                chk(nm + '-index-vectors', dist(mm(E_, Z2_), [[Z2_[i][j] * W2[j] for j in range(cnt2)] for i in range(n)]), mag(E_), "%s(range='I'): ||A Z - Z diag(w)||" % nm, d_)
            gaps = [(wall[i + 1] - wall[i], i) for i in range(n - 1)]
            if gaps and max(gaps)[0] > 1e-3:
                gi = max(gaps)[1]; vu = 0.5 * (wall[gi] + wall[gi + 1]); vl = wall[0] - 1.0
                W3 = matrix(0.0, (n, 1)); cnt3 = fx(+Est, W3, jobz='N', range='V', uplo=uplo, vl=vl, vu=vu)
                if cnt3 != gi + 1: viol('count:' + nm, "%s(range='V', vl=%r, vu=%r) returned %r eigenvalues, the interval holds %d" % (nm, vl, vu, cnt3, gi + 1), d_)
                else: chk(nm + '-value-range', max([abs(a - b) for a, b in zip(list(W3)[:cnt3], wall[:gi + 1])] + [0.0]), mag(E_), "%s(range='V'): eigenvalues differ" % nm, d_)
        except Exception as e: viol('raises-on-valid:' + nm, '%s raised %s (%s)' % (nm, type(e).__name__, e), d_)
        # sygv / hegv: generalised symmetric-definite problems, the three types
        n = rng.randint(1, 4); uplo = rng.choice('LU'); E = herm(n, tc); Bp = herm(n, tc, pd=True)
        fg = lapack.sygv if tc == 'd' else lapack.hegv; nm = 'sygv' if tc == 'd' else 'hegv'
        for itype in (1, 2, 3):
            d_ = dict(desc0, A=list(E), B=list(Bp), uplo=uplo, itype=itype)
            try:
                A1 = tri_store(E, uplo, rng); B1 = tri_store(Bp, uplo, rng); W = matrix(0.0, (n, 1))
                fg(A1, B1, W, itype=itype, jobz='V', uplo=uplo)
                Z_ = rows(A1); E_ = rows(E); B_ = rows(Bp); ZW = [[Z_[i][j] * W[j] for j in range(n)] for i in range(n)]
                if itype == 1: lhs, rhs = mm(E_, Z_), mm(B_, ZW)
                elif itype == 2: lhs, rhs = mm(E_, mm(B_, Z_)), ZW
                else: lhs, rhs = mm(B_, mm(E_, Z_)), ZW
                chk('%s-type%d' % (nm, itype), dist(lhs, rhs), mag(E_) * mag(B_) * mag(Z_), '%s(itype=%d): eigen-equation residual' % (nm, itype), d_)
                if itype in (1, 2): chk('%s-norm%d' % (nm, itype), dist(mm(hh(Z_), mm(B_, Z_)), ident(n)), mag(B_) * mag(Z_) ** 2, '%s(itype=%d): ||Z^H B Z - I||' % (nm, itype), d_)
                if any(W[i] > W[i + 1] for i in range(n - 1)): viol('eigenvalues-not-sorted:' + nm, '%s: eigenvalues are not ascending' % nm, d_)
                A2 = tri_store(E, uplo, rng); B2 = tri_store(Bp, uplo, rng); W2 = matrix(0.0, (n, 1)); fg(A2, B2, W2, itype=itype, jobz='N', uplo=uplo)
                chk('%s-jobz%d' % (nm, itype), max([abs(a - b) for a, b in zip(W, W2)] + [0.0]), mag(E_) * mag(B_), "%s: jobz='N' and 'V' give different eigenvalues" % nm, d_)
            except Exception as e: viol('raises-on-valid:' + nm, '%s(itype=%d) raised %s (%s)' % (nm, itype, type(e).__name__, e), d_)
        # gges: generalised Schur form of a pair
        n = rng.randint(1, 4); As = rand(n, n, tc); Bs = wellcond(n, tc)
        d_ = dict(desc0, A=list(As), B=list(Bs), n=n)
        try:
            S1 = +As; T1 = +Bs; a_ = matrix(0.0, (n, 1), 'z'); b_ = matrix(0.0, (n, 1), 'd'); Vl = matrix(0.0, (n, n), tc); Vr = matrix(0.0, (n, n), tc)
            lapack.gges(S1, T1, a_, b_, Vl, Vr)
            L_, R_, S_, T_ = rows(Vl), rows(Vr), rows(S1), rows(T1)
            chk('gges-A', dist(mm(L_, mm(S_, hh(R_))), rows(As)), mag(rows(As)), 'gges: ||Vsl S Vsr^H - A||', d_)
            chk('gges-B', dist(mm(L_, mm(T_, hh(R_))), rows(Bs)), mag(rows(Bs)), 'gges: ||Vsl T Vsr^H - B||', d_)
            chk('gges-orth', max(dist(mm(hh(L_), L_), ident(n)), dist(mm(hh(R_), R_), ident(n))), 1.0, 'gges: Vsl, Vsr are not orthonormal', d_)
            if any(T1[i, j] != 0 for i in range(n) for j in range(i)): viol('gges-not-triangular', 'gges: T is not upper triangular', d_)
            if any(S1[i, j] != 0 for i in range(n) for j in range(n) if i > j + (1 if tc == 'd' else 0)): viol('gges-not-triangular', 'gges: S is not (quasi-)upper triangular', d_)
            if tc == 'z': chk('gges-eigenvalues', max([abs(a_[i] - S1[i, i]) + abs(b_[i] - T1[i, i]) for i in range(n)] + [0.0]), mag(S_) + mag(T_), 'gges: (a, b) are not the diagonals of S and T', d_)
        except Exception as e: viol('raises-on-valid:gges', 'gges raised %s (%s)' % (type(e).__name__, e), d_)
        # ordered Schur forms: gees(select=f) / gges(select=f) put the selected eigenvalues first and return their number
        n = rng.randint(1, 4); As = rand(n, n, tc)
        d_ = dict(desc0, A=list(As), n=n)
        try:
            w0 = matrix(0.0, (n, 1), 'z'); lapack.gees(+As, w0)
            thr = sorted(complex(v).real for v in w0)[n // 2] - 1e-3            # between eigenvalues (conjugate pairs share the real part)
            sel = lambda ev: ev.real > thr
            expected = sum(1 for v in w0 if complex(v).real > thr)
            T1 = +As; w1 = matrix(0.0, (n, 1), 'z'); V1 = matrix(0.0, (n, n), tc)
            sdim = lapack.gees(T1, w1, V1, select=sel)
            if sdim != expected: viol('gees-select-count', 'gees(select=Re > %g) returned sdim = %r, %d eigenvalues satisfy the criterion' % (thr, sdim, expected), d_)
            elif any(not sel(complex(w1[i])) for i in range(sdim)) or any(sel(complex(w1[i])) for i in range(sdim, n)):
                viol('gees-select-order', 'gees(select=...): the selected eigenvalues are not the leading ones: %r' % [complex(v) for v in w1], d_)
            V_, T_ = rows(V1), rows(T1)
            chk('gees-select', dist(mm(V_, mm(T_, hh(V_))), rows(As)), mag(rows(As)), 'gees(select=...): ||V T V^H - A||', d_)
            chk('gees-select-orth', dist(mm(hh(V_), V_), ident(n)), 1.0, 'gees(select=...): ||V^H V - I||', d_)
            Bs = wellcond(n, tc)
            a0 = matrix(0.0, (n, 1), 'z'); b0 = matrix(0.0, (n, 1), 'd'); lapack.gges(+As, +Bs, a0, b0)
            ratios = [complex(a0[i]) / b0[i] for i in range(n)]
            thr2 = sorted(r_.real for r_ in ratios)[n // 2] - 1e-3
            sel2 = lambda al, be: (al / be).real > thr2
            exp2 = sum(1 for r_ in ratios if r_.real > thr2)
            S2 = +As; T2 = +Bs; a2 = matrix(0.0, (n, 1), 'z'); b2 = matrix(0.0, (n, 1), 'd'); L2 = matrix(0.0, (n, n), tc); R2 = matrix(0.0, (n, n), tc)
            sdim2 = lapack.gges(S2, T2, a2, b2, L2, R2, select=sel2)
            if sdim2 != exp2: viol('gges-select-count', 'gges(select=...) returned sdim = %r, %d generalised eigenvalues satisfy the criterion' % (sdim2, exp2), dict(d_, B=list(Bs)))
            L_, R_ = rows(L2), rows(R2)
            chk('gges-select', dist(mm(L_, mm(rows(S2), hh(R_))), rows(As)), mag(rows(As)), 'gges(select=...): ||Vsl S Vsr^H - A||', dict(d_, B=list(Bs)))
        except Exception as e: viol('raises-on-valid:gees-select', 'gees / gges with select raised %s (%s)' % (type(e).__name__, e), d_)
        # lacpy: the selected part is copied, the rest of B is untouched
        m = rng.randint(0, 4); nn = rng.randint(0, 4); A1 = rand(m, nn, tc); B1 = rand(m, nn, tc); B0 = +B1; up = rng.choice('NLU')
        lapack.lacpy(A1, B1, uplo=up)
        sel = lambda i, j: up == 'N' or (up == 'L' and i >= j) or (up == 'U' and i <= j)
        evals[0] += 1
        if any(B1[i, j] != (A1[i, j] if sel(i, j) else B0[i, j]) for i in range(m) for j in range(nn)):
            viol('lacpy', "lacpy(uplo='%s') does not copy exactly the selected part" % up, dict(desc0, m=m, n=nn, uplo=up))
        # larfg / larfx: the elementary reflector H = I - tau v v^H
        n = rng.choice([1, 2, 3, 5, 12]); al = rand(1, 1, tc); x = rand(n - 1, 1, tc); al0 = complex(al[0]); x0 = [complex(v) for v in x]
        try:
            tau_ = complex(lapack.larfg(al, x)); beta = complex(al[0]); v_ = [1.0 + 0j] + [complex(v) for v in x]
            w0 = [al0] + x0; vhw = sum(a.conjugate() * b for a, b in zip(v_, w0))
            res = [b - tau_.conjugate() * a * vhw for a, b in zip(v_, w0)]                 # H^H w
            chk('larfg', max([abs(res[0] - beta)] + [abs(r_) for r_ in res[1:]]), max(1.0, abs(al0), max([abs(t) for t in x0] + [0.0])), 'larfg: H^H (alpha; x) != (beta; 0)', dict(desc0, alpha=al0, x=x0))
            if tc == 'd' and beta.imag != 0: viol('larfg', 'larfg: beta is not real', dict(desc0, alpha=al0, x=x0))
        except Exception as e: viol('raises-on-valid:larfg', 'larfg raised %s (%s)' % (type(e).__name__, e), dict(desc0, n=n))
        side = rng.choice('LR'); m = rng.choice([1, 2, 4, 11, 13]); nn = rng.choice([1, 3, 5, 12])
        C = rand(m, nn, tc); ord_ = m if side == 'L' else nn
        vv = rand(ord_, 1, tc); vv[0] = 1.0; tv = complex(val(tc)) / 4 if tc == 'z' else float(val(tc)) / 4
        try:
            C1 = +C; lapack.larfx(vv, tv, C1, side=side)
            v_ = [complex(t) for t in vv]; Hm = [[(1.0 if i == j else 0.0) - complex(tv) * v_[i] * v_[j].conjugate() for j in range(ord_)] for i in range(ord_)]
            ref = mm(Hm, rows(C)) if side == 'L' else mm(rows(C), Hm)
            chk('larfx', dist(rows(C1), ref), mag(ref), "larfx(side='%s', %d x %d): ||result - H C||" % (side, m, nn), dict(desc0, m=m, n=nn, side=side, tau=tv, v=[complex(t) for t in vv]))
        except Exception as e: viol('raises-on-valid:larfx', 'larfx raised %s (%s)' % (type(e).__name__, e), dict(desc0, m=m, n=nn, side=side))
    out = vlib.drive('C18', S.lines)
    judged = 0
    for l, o, m in zip(S.lines, out, S.meta):
        if m is None:
            if o != 'ok': ctx.broke('C18 driver', 'line `%s` -> %s' % (l[:80], o))
            continue
        what, desc = m
        judged += 1
        bump('judged:' + what.split(':')[0].split('(')[0])
        if not o.startswith('true'):
            ctx.violation('c18:residual:' + what.split(':')[0].split('(')[0], '%s is not small: checker says %s' % (what, o[:80]), desc)
    # offsets and leading dimensions: the same call on plain matrices and on matrices embedded in larger buffers (c19_lapack.embed_probes)
    from corr import c19_lapack
    evals[0] += c19_lapack.embed_probes(ctx, rng, ctx.build, 'C18')
    ctx.cov.update({'evaluations': evals[0] + judged, 'distinct_nontrivial': judged,
                    'rule': '%d rounds x (typecode d/z, order 0..5, 0..3 right-hand sides): general, positive definite, symmetric, hermitian, triangular, band, tridiagonal '
                            'systems (drivers, factor+solve, inverses, uplo / trans / diag options, arbitrary values in the unreferenced triangle), least squares, QR / LQ '
                            'with explicit Q and apply-Q (QR and LQ, both sides), pivoted QR, symmetric/hermitian eigenvalue routines incl. the expert drivers with index and value ranges, generalised symmetric-definite problems (three types), SVD (two drivers), Schur and generalised Schur forms, lacpy, larfg / larfx; exactly singular and non-positive-definite inputs, '
                            'size- and type-inconsistent arguments; embedding invariance of all wrappers (offset / leading-dimension keywords)' % rounds,
                    'outcomes': stat})

def search(ctx, why): return
def replay(ctx, payload): correspond(ctx)
