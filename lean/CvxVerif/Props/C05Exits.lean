import CvxVerif.Props.C10Exits
import CvxVerif.Gen.Decide

/-! C05 — the exits of `conelp` (regenerated table `Gen/Exits.lean`): see Props/C10Exits.lean for the definitions. -/
namespace CvxVerif.Exits
open CvxVerif.Gen.Exits

/-- every exit of `conelp` that hands out all four iterates rescales all four by `1/τ` (the homogeneous embedding) -/
theorem C05_conelp_exits_rescale_all :
    ∀ e ∈ exits, e.solver = "conelp" → (e.fields.lookup "x" = some "x" ∧ e.fields.lookup "z" = some "z") →
      e.scal = [("x", "1.0 / tau"), ("y", "1.0 / tau"), ("s", "1.0 / tau"), ("z", "1.0 / tau")] := by
  decide +kernel

/-- the normal exits listed here are the returns of the stopping test modelled in `Gen/Decide.lean` (same dictionaries, same rescalings),
so the soundness theorems proved about those epilogues speak about these exits -/
theorem C05_exits_are_decide_returns :
    (exits.filter fun e => e.solver == "conelp" && !e.failure).map (fun e => (e.fields, e.scal.map fun p => ("scal", p.1, p.2)))
      = Gen.Decide.conelp.returns.map (fun r => (r.1, r.2.filter fun t => t.1 == "scal")) := by
  decide +kernel

end CvxVerif.Exits
