"""C04: cpl / cp / gp.  Generated stopping test (Gen/DecideNL.lean) + planted convex quadratic programs through cpl and cp, every
'optimal' answer judged by the Lean rational checker (Model/CertCheckNL.lean) with f, Df re-evaluated exactly at the returned point;
cp on a quadratic objective vs coneqp; gp vs cp on the same log-sum-exp data; restricted-domain F (returned x must lie in dom F)."""
import copy, os, sys, random, math
from fractions import Fraction
import vlib
sys.path.insert(0, os.path.join(vlib.VERIF, 'tools', 'translate'))
from corr import certlib
from corr.certlib import fr, vec, cols, quiet, prob_line, parse_out, mlist

LEAN_TARGETS = ['CvxVerif.Props.C04', 'CvxVerif.Props.C04Gen', 'CvxVerif.Props.C04Gap']
MODEL_FILES = ['CvxVerif.Model.CertCheckNL', 'CvxVerif.Gen.DecideNL']
LEVEL = 'proof'
TRUSTED = ['translator py2lean.gen_decide_nl (stopping test and result dictionary of cpl) and its combinators',
           'rational checker Model/CertCheckNL.lean (convex quadratic F only: f and Df are re-evaluated exactly), cone membership parts proved sound in Proofs/CertCheck.lean',
           'float oracles of the harness for the non-quadratic families (log barrier, log-sum-exp): recomputed KKT residuals <= 1e-6 relative']
ASSUMPTIONS = ['rounding allowance on the checker tolerances: feastol*(1+1e-6)+1e-13 (cp/gp: 10*feastol, because cp reports the residuals of its internal epigraph problem, '
               'whose multiplier of f0 - t <= 0 differs from 1 by at most the dual residual)',
               'the statistics block of cpl (slices of s and z, user callbacks) is not translated: it is tied by recomputing every reported field from the returned vectors',
               'agreement of cp with coneqp and of gp with cp is compared numerically (1e-5 relative)']

def translate(ctx):
    import py2lean
    try: py2lean.gen_decide_nl()
    except Exception as e: return ['py2lean.gen_decide_nl: %s: %s' % (type(e).__name__, e)]
    return []

def rint(rng, k=3): return float(rng.randint(-k, k))

class QP: pass

def plant(rng, PR, with_obj):
    """planted convex QCQP: a strictly feasible point xh for the quadratic constraints and the cone constraints, bounded by a ball"""
    pr = PR.planted_conelp(rng, 'optimal')
    n = pr.n
    xh = pr.wit['x']
    quads = []
    def psd(rank):
        B = [[rint(rng, 2) for _ in range(n)] for _ in range(rank)]
        return [[sum(B[t][i] * B[t][j] for t in range(rank)) for i in range(n)] for j in range(n)]       # columns
    def val(Q, q, r, x):
        Qx = [sum(Q[j][i] * x[j] for j in range(n)) for i in range(n)]
        return 0.5 * sum(a * b for a, b in zip(x, Qx)) + sum(a * b for a, b in zip(q, x)) + r
    m = rng.randint(0 if with_obj else 1, 2)
    # ball: 1/2 |x - xh|^2 <= R  keeps everything bounded
    I = [[1.0 if i == j else 0.0 for i in range(n)] for j in range(n)]
    R = float(rng.randint(2, 9))
    quads.append((I, [-a for a in xh], 0.5 * sum(a * a for a in xh) - R))
    for _ in range(m):
        Q = psd(rng.randint(0, n)); q = [rint(rng) for _ in range(n)]
        r = -val(Q, q, 0.0, xh) - float(rng.randint(1, 4))          # f(xh) = -margin < 0
        quads.append((Q, q, r))
    o = QP(); o.pr, o.quads, o.xh, o.n = pr, quads, xh, n
    if with_obj:
        Q = psd(rng.randint(0, n)); q = [rint(rng) for _ in range(n)]
        o.f0 = (Q, q, 0.0)
    return o

def make_F(cvxopt, quads, x0, f0=None):
    from cvxopt import matrix
    fs = ([f0] if f0 is not None else []) + quads
    n = len(x0)
    Qm = [matrix([a for col in Q for a in col], (n, n)) for Q, q, r in fs]
    qm = [matrix(q) for Q, q, r in fs]
    rm = [r for Q, q, r in fs]
    mnl = len(quads)
    def F(x=None, z=None):
        if x is None: return mnl, matrix(x0)
        f = matrix(0.0, (len(fs), 1)); Df = matrix(0.0, (len(fs), n))
        for k in range(len(fs)):
            Qx = Qm[k] * x
            f[k] = 0.5 * (x.T * Qx)[0] + (qm[k].T * x)[0] + rm[k]
            Df[k, :] = (Qx + qm[k]).T
        if z is None: return f, Df
        H = matrix(0.0, (n, n))
        for k in range(len(fs)): H += z[k] * Qm[k]
        return f, Df, H
    return F

def quad_lines(quads):
    return ['quad Q=%s q=%s r=%s' % (cols(Q), vec(q), fr(r)) for Q, q, r in quads]

def tolv(o): return (o.get('feastol', 1e-7), o.get('abstol', 1e-7), o.get('reltol', 1e-6))

def correspond(ctx):
    cvxopt = vlib.use_build(ctx.build)
    from corr import problems as PR
    from cvxopt import solvers, matrix, log, exp
    breakdowns = []          # numerical breakdowns that escape as exceptions: no 'optimal' was returned, so not this property's subject unless systematic (C10 lists them)
    solvers.options.clear(); solvers.options['show_progress'] = False
    rng = random.Random(ctx.seed * 6151 + 4)
    rng_s = random.Random(ctx.seed * 4111 + 44)          # own stream for the small-objective runs
    n = 30 if ctx.quick() else 500
    lines, meta = [], []
    stat = {}
    def bump(k): stat[k] = stat.get(k, 0) + 1
    evals = 0
    for it in range(n):
        # ------------------------------------------------ cpl on a QCQP
        o = plant(rng, PR, False)
        pr = o.pr
        c, G, h, A, b, _ = PR.to_cvx(cvxopt, pr, sparse=rng.random() < 0.3)
        opts = {'show_progress': False}
        if rng.random() < 0.4: opts.update(feastol=rng.choice([1e-6, 1e-7, 1e-8]), abstol=rng.choice([1e-6, 1e-7]), reltol=rng.choice([1e-5, 1e-6]))
        if rng.random() < 0.3: opts['refinement'] = rng.randint(0, 2)
        lonly = not pr.dims['q'] and not pr.dims['s']
        kk = rng.choice([None, 'ldl', 'ldl2', 'chol'] + (['chol2'] if lonly else []))
        F = make_F(cvxopt, o.quads, o.xh)
        desc = {'entry': 'cpl', 'kktsolver': kk, 'options': {k: v for k, v in opts.items()}, 'dims': pr.dims, 'c': pr.c, 'G': pr.G, 'h': pr.h, 'A': pr.A, 'b': pr.b,
                'quads': o.quads, 'x0': o.xh}
        evals += 1
        try:
            r = quiet(solvers.cpl, c, F, G, h, pr.dims, A, b, kktsolver=kk, options=opts)
        except ValueError as e:
            if 'Rank' in str(e): bump('cpl:rank'); r = None
            elif 'domain error' in str(e): breakdowns.append(('cpl', 'ValueError', str(e), desc)); r = None
            else: ctx.violation('c04:exception:cpl:ValueError', 'cpl raised ValueError: %s' % e, desc); r = None
        except ZeroDivisionError as e:
            breakdowns.append(('cpl', 'ZeroDivisionError', str(e), desc)); r = None
        except Exception as e:
            ctx.violation('c04:exception:cpl:%s' % type(e).__name__, 'cpl raised %s: %s' % (type(e).__name__, e), desc); r = None
        if r is not None:
            bump('cpl:' + r['status'])
            if r['status'] == 'optimal':
                t = tolv(opts)
                lines += [prob_line(pr)] + quad_lines(o.quads)
                meta += [None] * (1 + len(o.quads))
                lines.append('optimalcpl x0=%s x=%s snl=%s sl=%s y=%s znl=%s zl=%s tol=%s,%s,%s' % (
                    vec(o.xh), vec(mlist(r['x'])), vec(mlist(r['snl'])), vec(mlist(r['sl'])), vec(mlist(r['y'])), vec(mlist(r['znl'])), vec(mlist(r['zl'])),
                    fr(certlib.tol_eff(t[0])), fr(certlib.tol_eff(t[1])), fr(certlib.tol_eff(t[2]))))
                meta.append(('cpl', r, desc, t))
        # ------------------------------------------------ the same QCQP with an objective of small magnitude (|c'x| << 1) and the absolute criterion switched
        # off in effect (abstol 1e-12): 'optimal' must then rest on the relative gap as documented, gap / |objective| <= reltol
        if it % 3 == 0 and r is not None:
            tsc = rng_s.choice([1e-3, 1e-2, 1e-4])
            pr2 = copy.copy(pr); pr2.c = [a * tsc for a in pr.c]
            opts2 = {'show_progress': False, 'abstol': 1e-12}
            desc2 = dict(desc, c=pr2.c, options=dict(opts2), kktsolver=None)
            evals += 1
            try: r2 = quiet(solvers.cpl, c * tsc, F, G, h, pr.dims, A, b, options=opts2)
            except Exception: r2 = None          # exceptions are judged on the unscaled problem above
            if r2 is not None:
                bump('cpl-small-objective:' + r2['status'])
                if r2['status'] == 'optimal':
                    t = tolv(opts2)
                    lines += [prob_line(pr2)] + quad_lines(o.quads)
                    meta += [None] * (1 + len(o.quads))
                    lines.append('optimalcpl x0=%s x=%s snl=%s sl=%s y=%s znl=%s zl=%s tol=%s,%s,%s' % (
                        vec(o.xh), vec(mlist(r2['x'])), vec(mlist(r2['snl'])), vec(mlist(r2['sl'])), vec(mlist(r2['y'])), vec(mlist(r2['znl'])), vec(mlist(r2['zl'])),
                        fr(certlib.tol_eff(t[0])), fr(certlib.tol_eff(t[1])), fr(certlib.tol_eff(t[2]))))
                    meta.append(('cpl', r2, desc2, t))
        # ------------------------------------------------ the same QCQP from a starting point that violates the equality constraints by far (||A x0 - b|| >> 1):
        # the documented normaliser of the primal residual is taken at that point
        if it % 3 == 1 and pr.p > 0:
            x0f = [a + float(rng_s.choice([-1, 1]) * rng_s.randint(50, 200)) for a in o.xh]
            F3 = make_F(cvxopt, o.quads, x0f)
            desc3 = dict(desc, x0=x0f, kktsolver=None, options={'show_progress': False})
            evals += 1
            try: r3 = quiet(solvers.cpl, c, F3, G, h, pr.dims, A, b, options={'show_progress': False})
            except Exception: r3 = None
            if r3 is not None:
                bump('cpl-far-start:' + r3['status'])
                if r3['status'] == 'optimal':
                    t = tolv({})
                    lines += [prob_line(pr)] + quad_lines(o.quads)
                    meta += [None] * (1 + len(o.quads))
                    lines.append('optimalcpl x0=%s x=%s snl=%s sl=%s y=%s znl=%s zl=%s tol=%s,%s,%s' % (
                        vec(x0f), vec(mlist(r3['x'])), vec(mlist(r3['snl'])), vec(mlist(r3['sl'])), vec(mlist(r3['y'])), vec(mlist(r3['znl'])), vec(mlist(r3['zl'])),
                        fr(certlib.tol_eff(t[0])), fr(certlib.tol_eff(t[1])), fr(certlib.tol_eff(t[2]))))
                    meta.append(('cpl', r3, desc3, t))
        # ------------------------------------------------ cp on a quadratic objective (+ constraints); compare with coneqp when no quadratic constraints
        o = plant(rng, PR, True)
        pr = o.pr
        c, G, h, A, b, _ = PR.to_cvx(cvxopt, pr)
        pure_qp = rng.random() < 0.5
        quads = [] if pure_qp else o.quads
        if pure_qp:
            # make the QP bounded: add the identity to P
            Q, q, r0 = o.f0
            Q = [[Q[j][i] + (1.0 if i == j else 0.0) for i in range(o.n)] for j in range(o.n)]
            o.f0 = (Q, q, r0)
        F = make_F(cvxopt, quads, o.xh, o.f0)
        desc = {'entry': 'cp', 'dims': pr.dims, 'G': pr.G, 'h': pr.h, 'A': pr.A, 'b': pr.b, 'f0': o.f0, 'quads': quads, 'x0': o.xh}
        evals += 1
        # per-call tolerances (half of the calls ask for much more than the defaults: the answer is judged by what was asked)
        opts_cp = {'show_progress': False}
        if rng.random() < 0.5: opts_cp.update(feastol=1e-11, abstol=1e-11, reltol=1e-11)
        try: r = quiet(solvers.cp, F, G, h, pr.dims, A, b, options=opts_cp)
        except Exception as e:
            if isinstance(e, ValueError) and 'Rank' in str(e): bump('cp:rank'); r = None
            elif 'feastol' in opts_cp and isinstance(e, (ValueError, ArithmeticError)):
                # tolerances far beyond the defaults: the iteration may break down numerically before reaching them (an iterate leaves the cone
                # by rounding); no 'optimal' was returned, so nothing for this property to judge
                bump('cp:tight-tolerance-breakdown'); r = None
            elif isinstance(e, (ValueError, ArithmeticError)) and ('domain error' in str(e) or isinstance(e, ZeroDivisionError)):
                breakdowns.append(('cp', type(e).__name__, str(e), desc)); r = None
            else: ctx.violation('c04:exception:cp:%s' % type(e).__name__, 'cp raised %s: %s' % (type(e).__name__, e), desc); r = None
        if r is not None:
            bump('cp:' + r['status'])
            if r['status'] == 'optimal':
                if len(r['znl']) != len(quads) or len(r['snl']) != len(quads):
                    ctx.violation('c04:cp-internal-variable-leaks', 'cp returned %d nonlinear multipliers for %d constraints' % (len(r['znl']), len(quads)), desc)
                lines += [prob_line(pr)] + quad_lines([o.f0] + quads)
                meta += [None] * (2 + len(quads))
                lines.append('optimalcp x0=%s x=%s snl=%s sl=%s y=%s znl=%s zl=%s' % (
                    vec(o.xh), vec(mlist(r['x'])), vec(mlist(r['snl'])), vec(mlist(r['sl'])), vec(mlist(r['y'])), vec(mlist(r['znl'])), vec(mlist(r['zl']))))
                meta.append(('cp', r, dict(desc, options=dict(opts_cp)), tolv(opts_cp)))
                if pure_qp:
                    Q, q, _r = o.f0
                    P = matrix([a for col in Q for a in col], (o.n, o.n))
                    try:
                        rq = quiet(solvers.coneqp, P, matrix(q), G, h, pr.dims, A, b, options={'show_progress': False})
                        if rq['status'] == 'optimal':
                            evals += 1
                            v1 = r['primal objective']; v2 = rq['primal objective']
                            dx = max(abs(a - bb) for a, bb in zip(r['x'], rq['x']))
                            if abs(v1 - v2) > 1e-5 * (1 + abs(v2)) or dx > 1e-3 * (1 + max(abs(a) for a in rq['x'])):
                                ctx.violation('c04:cp-vs-coneqp', 'cp on a quadratic objective: objective %r, x differs by %g from coneqp (objective %r)' % (v1, dx, v2), desc)
                            bump('cp-vs-coneqp')
                    except (ValueError, ArithmeticError): bump('coneqp:skipped')
        # ------------------------------------------------ restricted domain: minimize c'x - sum log x_i  s.t. Ax = b (dom F = {x > 0})
        m = rng.randint(2, 4)
        cvec = matrix([float(rng.randint(1, 4)) for _ in range(m)])
        xfeas = matrix([float(rng.randint(1, 4)) for _ in range(m)])
        Am = matrix([float(rng.randint(-2, 2)) for _ in range(m)], (1, m))
        if not any(Am): Am[0] = 1.0
        bm = Am * xfeas
        refusals = [0]
        form = rng.choice(['None', 'pair'])
        def Fl(x=None, z=None, m=m, cvec=cvec, xfeas=xfeas):
            if x is None: return 0, matrix(xfeas)
            if min(x) <= 0.0:
                refusals[0] += 1
                return None if form == 'None' else (None, None)
            f = (cvec.T * x)[0] - sum(log(x))
            Df = (cvec - x ** -1).T
            if z is None: return matrix(f), Df
            from cvxopt import spdiag
            return matrix(f), Df, spdiag(z[0] * x ** -2)
        evals += 1
        desc = {'entry': 'cp', 'family': 'log-barrier', 'c': list(cvec), 'A': list(Am), 'b': list(bm), 'x0': list(xfeas), 'refusal': form}
        try:
            r = quiet(solvers.cp, Fl, A=Am, b=bm, options={'show_progress': False})
            bump('cp-log:' + r['status'])
            if r['status'] == 'optimal':
                x = r['x']
                if min(x) <= 0:
                    ctx.violation('c04:outside-domain', "cp returned 'optimal' with x outside dom F: min x = %g" % min(x), desc)
                else:
                    g = cvec - x ** -1 + Am.T * r['y']
                    res = math.sqrt(sum(a * a for a in g)); pr_ = abs((Am * x - bm)[0])
                    if res > 1e-5 * (1 + math.sqrt(sum(a * a for a in cvec))) or pr_ > 1e-6 * (1 + abs(bm[0])):
                        ctx.violation('c04:log-barrier-kkt', "cp 'optimal' but |grad f0 + A'y| = %g, |Ax-b| = %g" % (res, pr_), desc)
        except Exception as e:
            ctx.violation('c04:exception:cp:%s' % type(e).__name__, 'cp raised %s on a restricted-domain objective (%d refusals): %s' % (type(e).__name__, refusals[0], e), desc)
        # ------------------------------------------------ gp vs cp on the same log-sum-exp data
        nv = rng.randint(1, 3)
        Ks = [rng.randint(1, 3) for _ in range(rng.randint(1, 3))]
        rows = sum(Ks)
        Fm = matrix([float(rng.randint(-2, 2)) for _ in range(rows * nv)], (rows, nv))
        gm = matrix([float(rng.randint(-2, 1)) for _ in range(rows)])
        # bound the variables: -2 <= x <= 2
        from cvxopt import spmatrix
        Gb = matrix([[1.0 if i == j else 0.0 for i in range(nv)] + [-1.0 if i == j else 0.0 for i in range(nv)] for j in range(nv)])
        hb = matrix(2.0, (2 * nv, 1))
        desc = {'entry': 'gp', 'K': Ks, 'F': [list(Fm[:, j]) for j in range(nv)], 'g': list(gm)}
        evals += 1
        try:
            rg = quiet(solvers.gp, Ks, Fm, gm, Gb, hb, options={'show_progress': False})
        except Exception as e:
            ctx.violation('c04:exception:gp:%s' % type(e).__name__, 'gp raised %s: %s' % (type(e).__name__, e), desc); rg = None
        if rg is not None:
            bump('gp:' + rg['status'])
            offs = [0]
            for k in Ks: offs.append(offs[-1] + k)
            def lse_all(x):
                y = Fm * x + gm
                f = matrix(0.0, (len(Ks), 1)); Df = matrix(0.0, (len(Ks), nv)); parts = []
                for i in range(len(Ks)):
                    yi = y[offs[i]:offs[i + 1]]; ymax = max(yi)
                    w = exp(yi - ymax); sw = sum(w)
                    f[i] = ymax + math.log(sw)
                    p = w / sw
                    Df[i, :] = (Fm[offs[i]:offs[i + 1], :].T * p).T
                    parts.append(p)
                return f, Df, parts
            def Fg(x=None, z=None):
                if x is None: return len(Ks) - 1, matrix(0.0, (nv, 1))
                f, Df, parts = lse_all(x)
                if z is None: return f, Df
                H = matrix(0.0, (nv, nv))
                for i in range(len(Ks)):
                    Fi = Fm[offs[i]:offs[i + 1], :]; p = parts[i]
                    Fp = Fi.T * p
                    from cvxopt import spdiag
                    H += z[i] * (Fi.T * spdiag(p) * Fi - Fp * Fp.T)
                return f, Df, H
            try:
                rc = quiet(solvers.cp, Fg, Gb, hb, options={'show_progress': False})
                bump('cp-lse:' + rc['status'])
                if rg['status'] == 'optimal' and rc['status'] == 'optimal':
                    vg = lse_all(rg['x'])[0][0]; vc = lse_all(rc['x'])[0][0]
                    if abs(vg - vc) > 1e-5 * (1 + abs(vc)):
                        ctx.violation('c04:gp-vs-cp', 'gp objective %r, cp on the same log-sum-exp data %r' % (vg, vc), desc)
                    fgx = lse_all(rg['x'])[0]
                    if len(Ks) > 1 and max(fgx[1:]) > 1e-6:
                        ctx.violation('c04:gp-infeasible-point', "gp 'optimal' but a posynomial constraint has value %g > 0" % max(fgx[1:]), desc)
                elif {rg['status'], rc['status']} == {'optimal', 'unknown'}: bump('gp/cp status differs')
            except Exception as e:
                bump('cp-lse:exception')
    out = vlib.drive('Cert', lines) if lines else []
    judged = 0
    for l, o_, m in zip(lines, out, meta):
        if m is None: continue
        ent, r, desc, t = m
        d = parse_out(o_)
        judged += 1
        pres = math.sqrt(float(d['ry2'] + d['rznl2'] + d['rzl2']) / float(d['pres02']))
        dres = math.sqrt(float(d['rx2']) / float(d['dres02']))
        if ent == 'cpl':
            if not d['ok']:
                ctx.violation('c04:optimal-not-certified:cpl', "cpl returned 'optimal' but the recomputed conditions fail: pres=%.3g dres=%.3g gap=%.3g slIn=%s zlIn=%s (feastol %g abstol %g reltol %g)"
                              % (pres, dres, float(d['gap']), d['slIn'], d['zlIn'], t[0], t[1], t[2]), dict(desc, checker=o_))
            # reported fields vs recomputation
            for key, val in (('primal infeasibility', pres), ('dual infeasibility', dres), ('gap', float(d['gap'])), ('primal objective', float(d['pcost'])), ('dual objective', float(d['dcost']))):
                rep = r.get(key)
                if rep is None or not certlib.close(rep, val, 1e-3, 1e-12 if 'infeasibility' in key else 1e-9):
                    ctx.violation('c04:fields:cpl:' + key.replace(' ', '-'), 'cpl reported %s = %r, recomputed from the returned vectors %r' % (key, rep, val), desc); break
        else:
            ft = 10 * t[0]
            nonneg = all(a >= -1e-12 for a in r['snl']) and all(a >= -1e-12 for a in r['znl'])
            gapok = float(d['gap']) <= 10 * t[1] or (float(d['pcost']) < 0 and float(d['gap']) <= 10 * t[2] * -float(d['pcost'])) or float(d['gap']) <= 100 * t[1] * (1 + abs(float(d['pcost'])))
            inK = d['slIn'] and d['zlIn']
            if not inK and 'feastol' in desc.get('options', {}):
                # tolerances near the limit of double precision: the iterates reach the boundary of the cone to rounding (float margin 0.0,
                # exact margin -1e-15); membership is judged with a rounding allowance relative to the size of the block
                def margin(v, dims_):
                    try: g_ = certlib.cone_margin(v, dims_)
                    except Exception: return None
                    return None if g_ is None else g_ / (1.0 + max([abs(t) for t in v] + [0.0]))
                mg = [margin(mlist(r['sl']), desc['dims']), margin(mlist(r['zl']), desc['dims'])]
                if all(g is not None and g >= -1e-13 for g in mg): inK = True
            if pres > ft or dres > ft or not (inK and nonneg) or not gapok:
                ctx.violation('c04:optimal-not-certified:cp', "cp returned 'optimal' but the KKT conditions of the original problem fail at the returned point: pres=%.3g dres=%.3g gap=%.3g slIn=%s zlIn=%s"
                              % (pres, dres, float(d['gap']), d['slIn'], d['zlIn']), dict(desc, checker=o_))
    for ent in ('cpl', 'cp'):
        items = [b_ for b_ in breakdowns if b_[0] == ent]
        runs = sum(v for k_, v in stat.items() if k_.startswith(ent + ':')) + len(items)
        stat[ent + ':breakdown-exception'] = len(items)
        if len(items) >= 4 and len(items) > 0.05 * max(runs, 1):
            for _, cls, msg, desc_ in items[:3]:
                ctx.violation('c04:exception:%s:%s:systematic' % (ent, cls), '%s raised %s: %s [%d of %d runs]' % (ent, cls, msg, len(items), runs), desc_)
    ctx.cov.update({'evaluations': evals, 'distinct_nontrivial': judged,
                    'rule': '%d rounds: (1) cpl on a planted convex QCQP (ball + 0-2 quadratic constraints, planted cone LP part, random kktsolver name / tolerances / refinement, dense or sparse G) '
                            'judged by the Lean checker with exact f, Df; (2) cp on a quadratic objective with or without quadratic constraints, judged likewise and compared with coneqp; '
                            '(3) cp on c.x - sum log x with Ax = b, F refusing x <= 0 by None or (None, None); (4) gp vs cp on random log-sum-exp data with box bounds' % n,
                    'outcomes': stat})

def search(ctx, why): return
def replay(ctx, payload): correspond(ctx)
