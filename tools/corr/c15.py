"""C15: op-sequence correspondence between real cvxopt dense matrices and the Lean reference model (Model/Dense.lean)."""
import os, sys, random, json, itertools
from fractions import Fraction
import vlib

LEAN_TARGETS = ['CvxVerif.Props.C15', 'CvxVerif.Props.C15More', 'CvxVerif.Props.C15Arith']
MODEL_FILES = ['CvxVerif.Model.Dense', 'CvxVerif.Proofs.Dense']
LEVEL = 'proof'
TRUSTED = ['hand-written reference model lean/CvxVerif/Model/Dense.lean (column-major buffer, create_indexlist, matrix_subscr, '
           'matrix_ass_subscr, matrix_add/sub/mul/div/rem_generic, matrix_pow, matrix_abs, the builtins len/bool/iter/max/min/sum/in, base.emul/ediv/'
           'emax/emin and their cvxopt.mul/div/max/min wrappers, list-of-columns construction, transposes, size assignment), tied by this op-sequence correspondence: '
           'typecode, size, full contents, exception class and object identity after every operation']
ASSUMPTIONS = ["entries are small integers / dyadic rationals so that all arithmetic is exact in doubles (divisors have power-of-two moduli, exponents of ** are "
               "small integers, abs of complex entries is taken where the modulus is rational); 'i' overflow, complex ** and the transcendental elementwise "
               'functions are outside the model']

BIG = [2**31 - 1, 2**31, 2**32, -2**32, 2**32 + 1, -2**31 - 1]

def frs(x):
    f = Fraction(x)
    return str(f.numerator) if f.denominator == 1 else '%d/%d' % (f.numerator, f.denominator)
def num_tok(v):
    if isinstance(v, complex): return frs(v.real) if v.imag == 0 and False else '%s:%s' % (frs(v.real), frs(v.imag)) if v.imag != 0 else frs(v.real)
    return frs(v)
def show_mat(A):
    vals = list(A)
    return 'mat %s %d %d %s' % (A.typecode, A.size[0], A.size[1], ','.join(num_tok(v) for v in vals) if vals else '-')
def show_res(r, matrix):
    if isinstance(r, matrix): return show_mat(r)
    if isinstance(r, bool): return 'bool'
    if isinstance(r, int): return 'num i %s' % frs(r)
    if isinstance(r, float): return 'num d %s' % frs(r)
    if isinstance(r, complex): return 'num z %s' % num_tok(r)
    return 'other:' + type(r).__name__
def exc_tok(e):
    return {'IndexError': 'IndexError', 'TypeError': 'TypeError', 'ValueError': 'ValueError',
            'NotImplementedError': 'NotImplemented', 'ZeroDivisionError': 'ZeroDivision',
            'ArithmeticError': 'Arithmetic'}.get(type(e).__name__, 'EXC:' + type(e).__name__)

class Gen:
    def __init__(self, rng, matrix):
        self.rng, self.matrix = rng, matrix
    def value(self, tc):
        r = self.rng
        if tc == 'i': return r.randint(-4, 4)
        if tc == 'd': return r.randint(-8, 8) / 2.0
        return complex(r.randint(-3, 3), r.randint(-3, 3))
    def mat(self, tc=None, m=None, n=None):
        r = self.rng
        tc = tc or r.choice('idz')
        m = r.randint(0, 4) if m is None else m
        n = r.randint(0, 4) if n is None else n
        vals = [self.value(tc) for _ in range(m * n)]
        return tc, m, n, vals
    def int_idx(self, dim):
        r = self.rng
        x = r.random()
        if x < 0.75: return r.randint(-dim - 2, dim + 1)
        if x < 0.9: return r.choice([-dim, dim - 1, dim, -dim - 1, 0, -1])
        return r.choice(BIG)
    def idx(self, dim):
        """(python object, token)"""
        r = self.rng
        k = r.random()
        if k < 0.3:
            i = self.int_idx(dim); return i, 'i%d' % i
        if k < 0.6:
            def b(): return None if r.random() < 0.3 else r.randint(-dim - 2, dim + 2)
            a, bb = b(), b()
            if r.random() < 0.45:
                # whole-axis slices in both directions (the shapes fast paths are written for)
                a, bb, c = r.choice([(None, None, None), (None, None, 1), (None, None, -1), (None, None, -1), (-1, None, -1), (0, None, 1), (None, None, 2)])
                tok = 's' + ';'.join('N' if v is None else str(v) for v in (a, bb, c))
                return slice(a, bb, c), tok
            c = r.choice([None, 1, -1, 2, -2, 3, -3, 0] if r.random() < 0.9 else [None, 1])
            tok = 's' + ';'.join('N' if v is None else str(v) for v in (a, bb, c))
            return slice(a, bb, c), tok
        if k < 0.8:
            l = [r.randint(-dim - 1, dim) if r.random() < 0.15 else (r.randint(-dim, dim - 1) if dim else 0) for _ in range(r.randint(1, 4))]
            return l, 'l' + ','.join(map(str, l))
        if k < 0.93:
            l = [(r.randint(-dim, dim - 1) if dim else 0) if r.random() < 0.9 else r.randint(-dim - 1, dim) for _ in range(r.randint(1, 4))]
            return self.matrix(l, tc='i'), 'm' + ','.join(map(str, l))
        if k < 0.97: return self.matrix([0.0]), 'D'
        return 'x', 'O'

def run_sequence(cvxopt, rng, nops, lines, obs, one_by_one=False):
    matrix = cvxopt.matrix
    g = Gen(rng, matrix)
    env = {}
    names = ['a', 'b', 'c', 'e', 'f']
    def emit(line, f):
        lines.append(line)
        if os.environ.get('VERIF_TRACE'): open(os.environ['VERIF_TRACE'], 'a').write(line + '\n')
        try: obs.append(f())
        except Exception as ex: obs.append(exc_tok(ex))
    lines.append('reset'); obs.append('ok')
    def new(name, tc=None, m=None, n=None):
        tc, m, n, vals = g.mat(tc, m, n)
        def f():
            env[name] = matrix(vals, (m, n), tc); return show_mat(env[name])
        emit('new %s %s %d %d %s' % (name, tc, m, n, ','.join(num_tok(v) for v in vals) or '-'), f)
    for k_, nm in enumerate(names[:3]):
        # sequences with 1x1 matrices: the operators treat a 1x1 operand as a scalar on either side (and in place), a path of its own in the C code
        if one_by_one and k_ != 1: new(nm, None, 1, 1)
        elif one_by_one: new(nm, 'i')
        else: new(nm)
    def opd(allow_num=True):
        if allow_num and rng.random() < 0.4:
            tc = rng.choice('idz'); v = g.value(tc)
            return v, 'n%d;%s' % ('idz'.index(tc), num_tok(v))
        nm = rng.choice(list(env))
        return env[nm], 'M' + nm
    import builtins
    base = cvxopt.base
    def typed(v): return 'n%d;%s' % (2 if isinstance(v, complex) else (1 if isinstance(v, float) else 0), num_tok(v))
    def scalar(real_only=False, pow2=True):
        """a divisor: Python number or a fresh 1x1 matrix; magnitudes are powers of two (|.|^2 for complex) so that division is exact"""
        kind = rng.choice(['i', 'd'] if real_only else ['i', 'd', 'z'])
        if kind == 'i': v = rng.choice([1, 2, 4, -1, -2, 0] if pow2 else [1, 2, 3, -3, -2, 5, 0])
        elif kind == 'd': v = rng.choice([0.5, 2.0, -4.0, 0.25, 1.0, 0.0] if pow2 else [0.5, 2.0, -2.0, 1.5, 3.0, 0.0])
        else: v = rng.choice([1j, -1j, 1 + 1j, 1 - 1j, 2 + 0j, -2 - 2j, 0j])
        if rng.random() < 0.35:
            nm2 = rng.choice(names)
            def f0(): env[nm2] = matrix([v], (1, 1), kind); return show_mat(env[nm2])
            emit('new %s %s 1 1 %s' % (nm2, kind, num_tok(v)), f0)
            return env[nm2], 'M' + nm2
        return v, typed(v)
    def pow2ok(M_):
        """a 1x1 divisor matrix whose squared modulus is zero or a power of two: quotients by it are exact in doubles"""
        if not isinstance(M_, matrix) or len(M_) != 1: return True
        v = complex(M_[0]); q = Fraction(v.real) ** 2 + Fraction(v.imag) ** 2
        return q == 0 or ((q.numerator & (q.numerator - 1)) == 0 and (q.denominator & (q.denominator - 1)) == 0)
    def more_ops():
        nm = rng.choice(list(env)); A = env[nm]; dst = rng.choice(names)
        w = rng.choice(['div', 'div', 'idiv', 'rem', 'rem', 'irem', 'pow', 'abs', 'abs', 'len', 'bool', 'list', 'bmax', 'bmin', 'bsum', 'in',
                        'elem', 'elem', 'elem', 'newcols', 'rdiv'])
        if w in ('div', 'rem'):
            y, ty = scalar(real_only=(w == 'rem' and rng.random() < 0.8), pow2=(w == 'div'))
            if rng.random() < 0.12: y, ty = opd(False)                     # any matrix as divisor
            if w == 'div' and not pow2ok(y): return
            A = env[nm]
            def f():
                r = (A / y) if w == 'div' else (A % y)
                env[dst] = r; return show_mat(r)
            emit('%s %s M%s %s' % (w, dst, nm, ty), f)
        elif w == 'rdiv':
            # number / matrix and number % matrix: defined when the matrix has one entry
            x = rng.choice([3, -7, 2.5, 1 + 2j, 8]); y, ty = scalar(pow2=True)
            if not isinstance(y, matrix): y, ty = opd(False)
            op = rng.choice(['div', 'rem'])
            if op == 'div' and not pow2ok(y): return
            def f():
                r = (x / y) if op == 'div' else (x % y)
                env[dst] = r; return show_mat(r)
            emit('%s %s %s %s' % (op, dst, typed(x), ty), f)
        elif w in ('idiv', 'irem'):
            y, ty = scalar(real_only=(w == 'irem' and rng.random() < 0.8), pow2=(w == 'idiv'))
            if rng.random() < 0.1: y, ty = opd(False)
            if w == 'idiv' and isinstance(y, matrix) and not pow2ok(y): return
            def f():
                B = env[nm]
                if w == 'idiv': B /= y
                else: B %= y
                if B is not env[nm]:
                    env[nm] = B; return 'new ' + show_mat(B)
                return show_mat(B)
            emit('%s %s %s' % (w, nm, ty), f)
        elif w == 'pow':
            vals = list(A)
            if A.typecode == 'z': return
            e = rng.choice([0, 1, 2, 3])
            if vals and (any(v == 0 for v in vals) or all(abs(v) in (0.5, 1, 2, 4) for v in vals)) and rng.random() < 0.6: e = rng.choice([-1, -2])
            ev = float(e) if rng.random() < 0.5 else e
            def f():
                r = A ** ev
                env[dst] = r; return show_mat(r)
            emit('pow %s %s %d' % (dst, nm, e), f)
        elif w == 'abs':
            if A.typecode == 'z' and rng.random() < 0.7:
                # moduli that are exact: axis-aligned entries and 3-4-5 triangles
                tc, m, n, _ = g.mat('z')
                vals = [rng.choice([0j, 2 + 0j, -3j, 3 + 4j, -4 + 3j, 1.5 - 2j, -1 + 0j]) for _ in range(m * n)]
                def f0(): env[nm] = matrix(vals, (m, n), 'z'); return show_mat(env[nm])
                emit('new %s z %d %d %s' % (nm, m, n, ','.join(num_tok(x) for x in vals) or '-'), f0)
            def exact_modulus(v):
                q = Fraction(v.real) ** 2 + Fraction(v.imag) ** 2
                import math as _m
                return _m.isqrt(q.numerator) ** 2 == q.numerator and _m.isqrt(q.denominator) ** 2 == q.denominator
            if env[nm].typecode == 'z' and not all(exact_modulus(v) for v in env[nm]): return       # irrational modulus: outside the exact model
            def f():
                r = abs(env[nm]); env[dst] = r; return show_mat(r)
            emit('abs %s %s' % (dst, nm), f)
        elif w == 'len': emit('len ' + nm, lambda: str(len(A)))
        elif w == 'bool':
            if rng.random() < 0.5:
                # complex matrices whose non-zero entries are purely real or purely imaginary, and all-zero ones
                tc, m, n, _ = g.mat('z')
                vals = [rng.choice([0j, 0j, 2 + 0j, -3j, 1j, -1 + 0j]) for _ in range(m * n)]
                def f0(): env[nm] = matrix(vals, (m, n), 'z'); return show_mat(env[nm])
                emit('new %s z %d %d %s' % (nm, m, n, ','.join(num_tok(x) for x in vals) or '-'), f0)
            emit('bool ' + nm, lambda: str(bool(env[nm])).lower())
        elif w == 'list':
            def f():
                l = list(A); ty_ = {'i': int, 'd': float, 'z': complex}[A.typecode]
                if any(type(v) is not ty_ for v in l): return 'EXC:element-type'
                return 'list %s %s' % (A.typecode, ','.join(num_tok(v) for v in l) or '-')
            emit('list ' + nm, f)
        elif w in ('bmax', 'bmin', 'bsum'):
            fn = {'bmax': builtins.max, 'bmin': builtins.min, 'bsum': builtins.sum}[w]
            emit('%s %s' % (w, nm), lambda: show_res(fn(A), matrix))
        elif w == 'in':
            v = g.value(rng.choice('idz'))
            emit('in %s %s' % (nm, num_tok(v)), lambda: str(v in A).lower())
        elif w == 'elem':
            op = rng.choice(['mul', 'div', 'max', 'min'])
            x, tx = opd(); y, ty = opd()
            if op == 'div':
                # divisors with power-of-two magnitudes (and an occasional zero)
                if rng.random() < 0.5: y, ty = scalar()
                else:
                    src = x if isinstance(x, matrix) and rng.random() < 0.8 else None
                    m, n = src.size if src is not None else (rng.randint(0, 3), rng.randint(0, 3))
                    tc = rng.choice('idz')
                    pool = {'i': [1, 2, -1, 4, -2], 'd': [0.5, 2.0, -1.0, 4.0, -0.25], 'z': [1j, 1 + 1j, 2 + 0j, -1j, 1 - 1j]}[tc]
                    vals = [rng.choice(pool) if rng.random() < 0.95 else type(pool[0])(0) for _ in range(m * n)]
                    nm2 = rng.choice(names)
                    def f0(): env[nm2] = matrix(vals, (m, n), tc); return show_mat(env[nm2])
                    emit('new %s %s %d %d %s' % (nm2, tc, m, n, ','.join(num_tok(v) for v in vals) or '-'), f0)
                    y, ty = env[nm2], 'M' + nm2
                    if tx.startswith('M'): x = env[tx[1:]]
            if tx.startswith('M'): x = env[tx[1:]]            # the name may have been rebound by the divisor created above
            wrap = rng.random() < 0.5
            def f():
                if wrap: r = {'mul': cvxopt.mul, 'div': cvxopt.div, 'max': cvxopt.max, 'min': cvxopt.min}[op](x, y)
                else: r = {'mul': base.emul, 'div': base.ediv, 'max': base.emax, 'min': base.emin}[op](x, y)
                if isinstance(r, matrix):
                    if r is x or r is y: raise RuntimeError('elementwise function returned an argument')
                    env[dst] = r
                return show_res(r, matrix)
            emit('elem %s %s %s %s' % (op, dst, tx, ty), f)
        elif w == 'newcols':
            ncol = rng.randint(0, 3); ln = rng.randint(0, 3)
            cols = [[g.value(rng.choice('iid' if rng.random() < 0.8 else 'idz')) for _ in range(ln if rng.random() < 0.9 else rng.randint(0, 3))] for _ in range(ncol)]
            tc = rng.choice([None, None, 'i', 'd', 'z'])
            def f():
                r = matrix([list(c) for c in cols], tc=tc) if tc else matrix([list(c) for c in cols])
                env[dst] = r; return show_mat(r)
            emit('newcols %s %s %s' % (dst, tc or '_', '|'.join(','.join(typed(v) for v in c) or '-' for c in cols) or '_'), f)
    if one_by_one:
        # directed: an integer matrix whose entries are valid positions of itself, assigned through itself (one- and two-argument forms)
        L = rng.randint(2, 5)
        vals = [rng.randint(-L, L - 1) for _ in range(L)]
        def f0(): env['f'] = matrix(vals, (L, 1), 'i'); return show_mat(env['f'])
        emit('new f i %d 1 %s' % (L, ','.join(num_tok(v) for v in vals)), f0)
        v = rng.randint(-L, L - 1)
        if rng.random() < 0.5:
            def f():
                env['f'][env['f']] = v; return show_mat(env['f'])
            emit('set1 f If n0;%d' % v, f)
        else:
            def f():
                env['f'][env['f'], 0] = v; return show_mat(env['f'])
            emit('set2 f If i0 n0;%d' % v, f)
    if one_by_one:
        # directed: every in-place operator on the 1x1 matrix `a`, with a number and with another 1x1 matrix on the right
        for op in ('add', 'sub', 'mul'):
            y, ty = opd() if rng.random() < 0.5 else (env['c'], 'Mc')
            def f(op=op, y=y):
                B = env['a']
                if op == 'add': B += y
                elif op == 'sub': B -= y
                else: B *= y
                if B is not env['a']:
                    env['a'] = B; return 'new ' + show_mat(B)
                return show_mat(B)
            emit('ibin %s a %s' % (op, ty), f)
    for _ in range(nops):
        k = rng.random()
        if rng.random() < 0.3:
            more_ops()
            for q in list(env):
                lines.append('dump ' + q); obs.append(show_mat(env[q]))
            continue
        nm = rng.choice(list(env))
        A = env[nm]
        if one_by_one and k < 0.6 and rng.random() < 0.3:
            # (extra sequences only) a matrix object of the environment as the index: an 'i' matrix is an index list - also when it is the very matrix that is
            # read or assigned to (the index list is read before anything is written) -, any other matrix is refused
            nmi = nm if rng.random() < 0.5 else rng.choice(list(env))
            Ii = env[nmi]
            v, tv = opd()
            w_ = rng.random()
            if w_ < 0.2: emit('get1 %s I%s' % (nm, nmi), lambda: show_res(A[Ii], matrix))
            elif w_ < 0.6:
                def f():
                    A[Ii] = v; return show_mat(A)
                emit('set1 %s I%s %s' % (nm, nmi, tv), f)
            else:
                J, tj = g.idx(A.size[1])
                if rng.random() < 0.5:
                    def f():
                        A[Ii, J] = v; return show_mat(A)
                    emit('set2 %s I%s %s %s' % (nm, nmi, tj, tv), f)
                else:
                    I2, ti2 = g.idx(A.size[0])
                    def f():
                        A[I2, Ii] = v; return show_mat(A)
                    emit('set2 %s %s I%s %s' % (nm, ti2, nmi, tv), f)
            for q in list(env):
                lines.append('dump ' + q); obs.append(show_mat(env[q]))
            continue
        if k < 0.18:
            I, t = g.idx(len(A))
            emit('get1 %s %s' % (nm, t), lambda: show_res(A[I], matrix))
        elif k < 0.36:
            I, ti = g.idx(A.size[0]); J, tj = g.idx(A.size[1])
            if rng.random() < 0.2:
                # both indices slices, each covering a whole axis or a contiguous range, in either direction: the block-copy cases
                def sl(dim):
                    a, b, c = rng.choice([(None, None, None), (None, None, -1), (-1, None, -1), (None, None, 1), (0, dim, 1), (1, None, 1), (None, None, 2)])
                    return slice(a, b, c), 's' + ';'.join('N' if v is None else str(v) for v in (a, b, c))
                (I, ti), (J, tj) = sl(A.size[0]), sl(A.size[1])
            emit('get2 %s %s %s' % (nm, ti, tj), lambda: show_res(A[I, J], matrix))
        elif k < 0.48:
            I, t = g.idx(len(A)); v, tv = opd()
            if rng.random() < 0.5 and not isinstance(v, (int, float, complex)):   # a right-hand side of matching length
                tc, m, n, vals = g.mat(rng.choice('idz'), rng.randint(0, 4), 1)
                nm2 = rng.choice(names); 
                def f0(): env[nm2] = matrix(vals, (m, n), tc); return show_mat(env[nm2])
                emit('new %s %s %d %d %s' % (nm2, tc, m, n, ','.join(num_tok(x) for x in vals) or '-'), f0)
                v, tv = env[nm2], 'M' + nm2
                if nm2 == nm: A = env[nm]
            def f():
                A[I] = v; return show_mat(A)
            emit('set1 %s %s %s' % (nm, t, tv), f)
        elif k < 0.60:
            I, ti = g.idx(A.size[0]); J, tj = g.idx(A.size[1]); v, tv = opd()
            def f():
                A[I, J] = v; return show_mat(A)
            emit('set2 %s %s %s %s' % (nm, ti, tj, tv), f)
        elif k < 0.72:
            op = rng.choice(['add', 'sub', 'mul'])
            x, tx = opd(); y, ty = opd()
            if op == 'mul' and rng.random() < 0.5:
                # a conformable matrix product of fresh operands: every pair of typecodes (the 'i' * 'i' product is cvxopt's own kernel, the
                # others go to BLAS after conversion), non-square shapes, several columns, empty inner dimension
                n1, n2 = rng.sample(names, 2)
                mm, kk, nn = rng.randint(0, 3), rng.randint(0, 4), rng.randint(0, 3)
                new(n1, rng.choice('iidz'), mm, kk); new(n2, rng.choice('iidz'), kk, nn)
                x, tx, y, ty = env[n1], 'M' + n1, env[n2], 'M' + n2
            if tx[0] == 'n' and ty[0] == 'n': continue
            dst = rng.choice(names)
            def f():
                r = {'add': lambda: x + y, 'sub': lambda: x - y, 'mul': lambda: x * y}[op]()
                env[dst] = r; return show_mat(r)
            emit('bin %s %s %s %s' % (op, dst, tx, ty), f)
        elif k < 0.82:
            op = rng.choice(['add', 'sub', 'mul'])
            y, ty = opd()
            def f():
                B = env[nm]
                if op == 'add': B += y
                elif op == 'sub': B -= y
                else: B *= y
                if B is not env[nm]:
                    env[nm] = B; return 'new ' + show_mat(B)
                return show_mat(B)
            emit('ibin %s %s %s' % (op, nm, ty), f)
        elif k < 0.86:
            dst = rng.choice(names)
            def f(): env[dst] = env[nm]; return 'ok'
            emit('alias %s %s' % (dst, nm), f)
        elif k < 0.90:
            dst = rng.choice(names); w = rng.choice(['neg', 'pos', 'trans', 'ctrans', 'real', 'imag'])
            def f():
                r = {'neg': lambda: -A, 'pos': lambda: +A, 'trans': lambda: A.trans() if rng.random() < 0.5 else A.T,
                     'ctrans': lambda: A.ctrans() if rng.random() < 0.5 else A.H, 'real': lambda: A.real(), 'imag': lambda: A.imag()}[w]()
                if r is A: raise RuntimeError('%s returned the same object' % w)
                env[dst] = r; return show_mat(r)
            emit('%s %s %s' % (w, dst, nm), f)
        elif k < 0.94:
            m, n = A.size
            cand = [(a, (m * n) // a) for a in range(1, m * n + 1) if (m * n) % a == 0] or [(0, rng.randint(0, 3)), (rng.randint(0, 3), 0)]
            mm, nn = rng.choice(cand + [(m + 1, n), (-1, -m * n)])
            def f(): A.size = (mm, nn); return show_mat(A)
            emit('reshape %s %d %d' % (nm, mm, nn), f)
        elif k < 0.97:
            new(rng.choice(names))
        else:
            other = rng.choice(list(env))
            emit('same %s %s' % (nm, other), lambda: str(env[nm] is env[other]).lower())
        # after every operation: every live name shows the model's content (aliasing!)
        for q in list(env):
            lines.append('dump ' + q); obs.append(show_mat(env[q]))

def correspond(ctx):
    cvxopt = vlib.use_build(ctx.build)
    rng = random.Random(ctx.seed * 2654435761 % (2**31) + 15)
    lines, obs = [], []
    nseq = 150 if ctx.quick() else 6000
    starts = []
    for s in range(nseq):
        starts.append(len(lines))
        run_sequence(cvxopt, rng, 14, lines, obs)
    rng1 = random.Random(ctx.seed * 40503 + 151)
    for s in range(nseq // 5):          # extra sequences (own stream) that start from two 1x1 matrices and a general one
        starts.append(len(lines))
        run_sequence(cvxopt, rng1, 14, lines, obs, one_by_one=True)
    # slices against Python's own semantics (exhaustive small box)
    sl_lines, sl_obs = [], []
    for n in range(0, 5):
        rngv = [None] + list(range(-n - 2, n + 3))
        for a in rngv:
            for b in rngv:
                for c in [None, 1, -1, 2, -2, 3, -3]:
                    sl_lines.append('slice %d %s %s %s' % (n, *('_' if v is None else str(v) for v in (a, b, c))))
                    sl_obs.append(','.join(map(str, range(*slice(a, b, c).indices(n)))) or '-')
    # elementwise functions with a domain (log: positive entries, sqrt: nonnegative entries of real matrices): ValueError exactly when an entry - anywhere
    # in the matrix - lies outside, otherwise the entrywise values as a 'd' matrix of the same size
    import math as _m
    rng2 = random.Random(ctx.seed * 50021 + 157)
    nfun = 0
    for _ in range(60 if ctx.quick() else 3000):
        tc = rng2.choice('id'); mm, nn = rng2.randint(1, 4), rng2.randint(1, 4)
        vals = [rng2.randint(1, 9) if tc == 'i' else rng2.randint(1, 18) / 2.0 for _ in range(mm * nn)]
        bad = rng2.random() < 0.6
        pos = rng2.randrange(mm * nn)
        fname = rng2.choice(['log', 'sqrt'])
        if bad: vals[pos] = (rng2.choice([0, -1, -3]) if fname == 'log' else rng2.choice([-1, -3])) * (1 if tc == 'i' else 1.0)
        A = cvxopt.matrix(vals, (mm, nn), tc); nfun += 1
        case = {'function': fname, 'typecode': tc, 'size': [mm, nn], 'values': vals}
        try: R = getattr(cvxopt, fname)(A); got = 'matrix'
        except ValueError: R = None; got = 'ValueError'
        except Exception as e: R = None; got = type(e).__name__
        if bad and got != 'ValueError':
            ctx.violation('c15:elementwise-domain:' + fname, '%s of a %dx%d %r matrix with the entry %r at position %d gives %s instead of ValueError' % (fname, mm, nn, tc, vals[pos], pos, got), case)
        elif not bad:
            ref = [(_m.log(v) if fname == 'log' else _m.sqrt(v)) for v in vals]
            if got != 'matrix' or R.typecode != 'd' or R.size != (mm, nn) or any(abs(a - b) > 1e-13 * (1 + abs(b)) for a, b in zip(R, ref)):
                ctx.violation('c15:elementwise-value:' + fname, '%s of a positive %dx%d %r matrix gives %s' % (fname, mm, nn, tc, got if R is None else list(R)), case)
    ctx.cov['elementwise_domain_cases'] = nfun
    out = vlib.drive('C15', lines + sl_lines)
    dis = 0
    ops = 0
    for k, (l, o, m) in enumerate(zip(lines + sl_lines, obs + sl_obs, out)):
        if not l.startswith('dump'): ops += 1
        if m == 'inexact': continue            # abs of a complex entry with an irrational modulus: outside the exact model
        if o != m:
            dis += 1
            if dis <= 5:
                # the sequence that leads to the disagreement
                st = max(s for s in starts if s <= k) if k < len(lines) else k
                pre = [x for x in (lines + sl_lines)[st:k + 1] if not x.startswith('dump')]
                kind = l.split(' ')[0]
                ctx.violation('c15:%s:%s' % (kind, 'exception-class' if (o[:3] in ('Ind', 'Typ', 'Val', 'EXC', 'Not') or m[:3] in ('Ind', 'Typ', 'Val', 'Not')) else 'value'),
                              'dense matrix operation `%s`: implementation gives `%s`, reference model `%s`' % (l, o[:120], m[:120]),
                              {'sequence': pre, 'impl': o, 'model': m})
    ctx.cov.update({'evaluations': ops, 'distinct_nontrivial': len(set(l for l in lines if not l.startswith('dump') and not l.startswith('reset'))),
                    'rule': '%d op sequences of 14 operations over a heap of up to 5 named matrices (shapes 0..4 x 0..4, typecodes i/d/z): one- and '
                            'two-argument get/set with ints (in/out of range, +-2^31, 2^32), slices, lists, integer-matrix indices, bad index types; '
                            'binary and in-place + - * with numbers / 1x1 / matrices; unary, transposes, size assignment, aliasing; after every '
                            'operation all live matrices are compared; plus all slices over [-n-2, n+2]^2 x steps for n <= 4 against Python' % nseq,
                    'protocol_lines_compared': len(lines) + len(sl_lines), 'disagreements_checked': dis, 'slice_cases': len(sl_lines)})
    ctx.samples += [l for l in lines if not l.startswith('dump')][3:9]

def search(ctx, why): return
def replay(ctx, payload): correspond(ctx)
