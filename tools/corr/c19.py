"""C19: the argument checks of every blas.c and lapack.c wrapper are regenerated into Lean (Gen/BlasWrap.lean, Gen/LapackWrap.lean) and the
theorem `accept -> footprint inside the buffers` is re-proved per routine (Gen/C19Safe_*.lean, Gen/C19SafeL_*.lean; statements from
footprints.py and footprints_lapack.py); the LAPACK part of the correspondence lives in c19_lapack.py;
the generated decision is compared with the real wrappers on boundary boxes (worker subprocess, crash-safe), and the
C-int (wrap-around) evaluation of the same checks is searched for accepted tuples whose footprint leaves the buffer."""
import os, sys, json, random, subprocess, itertools
import vlib
sys.path.insert(0, os.path.join(vlib.VERIF, 'tools', 'translate'))

LEAN_TARGETS = ['CvxVerif.Gen.C19Safe', 'CvxVerif.Gen.C19SafeL', 'CvxVerif.Gen.C19SafeB', 'CvxVerif.Props.C19', 'CvxVerif.Props.C19Calls']
MODEL_FILES = ['CvxVerif.Model.CWrap', 'CvxVerif.Gen.BlasWrap', 'CvxVerif.Gen.LapackWrap', 'CvxVerif.Gen.BaseWrap', 'CvxVerif.Gen.CallArgs']
LEVEL = 'proof'
TRUSTED = ['translator tools/translate/ccall2lean.py (regular-expression scan of blas.c / lapack.c for pointer arguments MAT_BUF<t>(N) + e -> Gen/CallArgs.lean; pointer arguments of another form are not seen)',
           'translator tools/translate/cwrap2lean.py (C tokenizer/parser for the argument-checking prefix of blas.c and lapack.c - the statements '
           'between the argument parse and the work-space allocation / type switch; CPS emission; proof scripts) -- validated by running every '
           'generated decision against the real wrapper',
           'hand-written footprint specifications tools/translate/footprints.py, footprints_lapack.py (what the reference BLAS / LAPACK routine touches, '
           'which element type it reads, which optional arguments the chosen job needs)',
           'the `switch (MAT_ID(..))` after the checks rejects typecodes other than d/z (hypothesis hsw of the theorems)']
ASSUMPTIONS = ['theorems are in ideal (unbounded) integer arithmetic; C int overflow is searched for and exhibited, not excluded',
               'what OpenBLAS actually touches is assumed to be the reference footprint (its vectorised kernels read, never write, a few bytes '
               'past their operands: the guard-page runs leave a canary zone and re-run a faulting case with a 64 KiB zone before reporting)',
               'the argument parse itself (format string, keyword list, variable list) is outside the translated prefix: it is exercised by the '
               'grammar-based calls (every keyword of every wrapper is supplied) and by a static arity scan']

INT_CANDS = [-2, -1, 0, 1, 2, 3, 4, 5, 6, 7, 8, 12, 13]
BIG = [2**31 - 1, 2**30, 2**31 - 2, 65537, -2**31, 2**16]

def translate(ctx):
    import cwrap2lean
    try:
        t = cwrap2lean.gen_blas_safety()
        cwrap2lean.gen_blas_driver(t); cwrap2lean.gen_blas_foot(t)
        ctx.table = t
    except Exception as e:
        return ['cwrap2lean: %s: %s' % (type(e).__name__, e)]
    try:
        ctx.table_base = cwrap2lean.gen_base_safety(); cwrap2lean.gen_base_driver(ctx.table_base)
    except Exception as e:
        return ['cwrap2lean (base.c): %s: %s' % (type(e).__name__, e)]
    try:
        import ccall2lean; ccall2lean.gen_callargs()
    except Exception as e:
        return ['ccall2lean.gen_callargs: %s: %s' % (type(e).__name__, e)]
    from corr import c19_lapack
    return c19_lapack.translate(ctx)

MATS = {'x': ('d', 7, 1), 'y': ('d', 6, 1), 'A': ('d', 3, 4), 'B': ('d', 4, 3), 'C': ('d', 3, 3)}

def gen_case(rng, r, big=False):
    """random keyword arguments for routine r: (mats spec list, kw dict)"""
    kwl = r['kwlist']
    mats, kw = [], {}
    for k in kwl:
        if k in r['mats'] and k in MATS: continue
    matargs = [k for k in kwl if k in MATS]
    specs = []
    for k in matargs:
        tc, m, n = MATS[k]
        if rng.random() < 0.15: m, n = rng.choice([(0, 0), (1, 1), (2, 5), (5, 2), (4, 4), (0, 3)])
        specs.append((tc if rng.random() < 0.95 else rng.choice('zi'), m, n))
    for k in kwl:
        if k in MATS or k in ('alpha', 'beta'): continue
        if rng.random() < 0.35 and kwl.index(k) >= r.get('nreq', 0): continue          # omitted: default
        if k in r['chars'] or k in ('trans', 'transA', 'transB', 'uplo', 'diag', 'side'):
            kw[k] = rng.choice(['N', 'T', 'C', 'L', 'U', 'R', 'X'])
        else:
            kw[k] = rng.choice(BIG) if (big and rng.random() < 0.5) else rng.choice(INT_CANDS)
    if r['name'] == 'scal': kw['alpha'] = 2.0
    return matargs, specs, kw

def model_env(r, matargs, specs, kw):
    env = {}
    for k, (tc, m, n) in zip(matargs, specs):
        env[(k, 'isMat')] = True; env[(k, 'isSp')] = False
        env[(k, 'id')] = 'idz'.index(tc); env[(k, 'len')] = m * n; env[(k, 'nrows')] = m; env[(k, 'ncols')] = n
    # C variable names differ from keyword names: positional order of the int/char declarations follows kwlist
    names = cvar_names(r)
    for kwname, cname in names.items():
        if cname in r['ints']: env[cname] = r['ints'][cname]
        if cname in r['chars']: env[cname] = r['chars'][cname]
        if kwname in kw:
            v = kw[kwname]
            if kwname in ('alpha', 'beta'): continue
            env[cname] = ord(v) if isinstance(v, str) else v
    env['ao'] = 0; env['bo'] = 0
    return env

def cvar_names(r):
    """keyword name -> C variable name (from the PyArg_ParseTupleAndKeywords argument order)"""
    return r['kwmap']

def line_of(r, env):
    parts = []
    for k, v in env.items():
        if isinstance(k, tuple): parts.append('%s_%s=%d' % (k[0], k[1], int(v)))
        elif k in ('ao', 'bo'): parts.append('%s_given=%d' % (k, int(v)))
        else: parts.append('%s=%d' % (k, int(v)))
    return 'blas %s %s' % (r['name'], ' '.join(parts))

class Worker:
    def __init__(self, build):
        self.build = build; self.p = None
    def start(self):
        self.p = subprocess.Popen(['/venv/bin/python', os.path.join(vlib.VERIF, 'tools', 'corr', 'c19_worker.py'), self.build],
                                  stdin=subprocess.PIPE, stdout=subprocess.PIPE, stderr=subprocess.DEVNULL, text=True, bufsize=1)
    def run(self, case):
        if self.p is None or self.p.poll() is not None: self.start()
        try:
            self.p.stdin.write(json.dumps(case) + '\n'); self.p.stdin.flush()
        except BrokenPipeError:
            self.start(); self.p.stdin.write(json.dumps(case) + '\n'); self.p.stdin.flush()
        started = False
        while True:
            l = self.p.stdout.readline()
            if not l:
                rc = self.p.wait(); self.p = None
                return 'crash(signal %d)' % (-rc) if started else 'worker-died'
            l = l.strip()
            if l.startswith('START'): started = True
            if l.startswith('RESULT'):
                parts = l.split(' ')
                return 'ok' if parts[2] == 'ok' else parts[3]
    def close(self):
        if self.p and self.p.poll() is None:
            self.p.stdin.close(); self.p.wait()

def correspond(ctx):
    import cwrap2lean
    table = getattr(ctx, 'table', None) or cwrap2lean.gen_blas()
    # keyword -> C variable map from the source (order of &var arguments)
    import re
    src = cwrap2lean.strip_pp(open(os.path.join(vlib.REPO, 'src', 'C', 'blas.c')).read())
    for r in table:
        m = re.search(r'static PyObject\s*\*\s*%s\s*\(.*?PyArg_ParseTupleAndKeywords\(args, kwrds,\s*"[^"]*",\s*kwlist,(.*?)\)\)' % r['name'], src, flags=re.S)
        cvars = [v.strip().lstrip('&') for v in m.group(1).split(',')]
        cvars = [v[:-1] if v.endswith('_') else v for v in cvars]      # trans_ -> trans
        r['kwmap'] = dict(zip(r['kwlist'], cvars))
    rng = random.Random(ctx.seed * 99991 + 19)
    w = Worker(ctx.build)
    per = 40 if ctx.quick() else 1500
    lines, obs, meta = [], [], []
    cid = 0
    evals = 0
    distinct = set()
    overflow_found = {}
    for r in table:
        for it in range(per):
            big = it >= per * 0.8
            matargs, specs, kw = gen_case(rng, r, big)
            env = model_env(r, matargs, specs, kw)
            try:
                ideal = cwrap2lean.eval_stmts(r['stmts'], dict(env), cint=False)
                cres = cwrap2lean.eval_stmts(r['stmts'], dict(env), cint=True)
            except ZeroDivisionError:
                continue
            sw = r.get('switch')
            valid_id = sw is None or env.get((sw, 'id')) in (1, 2)
            cid += 1; evals += 1
            case = {'id': cid, 'routine': r['name'], 'mats': specs, 'matnames': matargs, 'kw': kw}
            predicted_overflow = (ideal[0] == 'reject' and cres[0] != 'reject')
            if predicted_overflow and not os.environ.get('VERIF_C19_RUN_OVERFLOW', '1') == '1': continue
            res = w.run(case)
            distinct.add((r['name'], ideal[0], tuple(sorted(kw))))
            what = '%s(%s; %s)' % (r['name'], ', '.join('%s:%s%dx%d' % (k, s[0], s[1], s[2]) for k, s in zip(matargs, specs)),
                                   ', '.join('%s=%r' % kv for kv in sorted(kw.items())))
            if res.startswith('crash') or res == 'worker-died':
                # ideal arithmetic rejects but the compiled check (signed overflow is undefined behaviour) lets the call through
                sig = 'c19:int-overflow:blas.%s' % r['name'] if ideal[0] != 'call' else 'c19:crash:blas.%s' % r['name']
                ctx.violation(sig, 'blas.%s crashes the interpreter (%s): the %s; ideal-arithmetic checks would reject' % (what, res,
                              'length test overflows in C int arithmetic and accepts' if predicted_overflow else 'arguments pass the checks'),
                              dict(case, result=res, ideal=ideal[0], cint=cres[0]))
                continue
            if predicted_overflow:
                if res == 'ok':
                    ctx.violation('c19:int-overflow:blas.%s' % r['name'],
                                  'blas.%s is accepted although its footprint lies outside the buffers (the length test overflows in C int arithmetic)' % what,
                                  dict(case, result=res, ideal=ideal[0], cint=cres[0]))
                continue
            if any(isinstance(v, int) and abs(v) >= 2**15 for v in kw.values()): continue     # outside the no-overflow box
            # correspondence on the no-overflow box: generated decision vs real wrapper
            exp = ideal[1] if ideal[0] == 'reject' else ('TypeError' if (ideal[0] == 'call' and not valid_id) else 'ok')
            lines.append(line_of(r, env)); obs.append((ideal, res, exp)); meta.append(what)
    # deterministic overflow-witness search: for every routine, the first tuple (in a fixed enumeration) that the C-int evaluation of
    # the checks accepts while the ideal evaluation rejects; executed on the real build
    witnesses = {}
    for r in table:
        matargs = [k for k in r['kwlist'] if k in MATS]
        specs = [MATS[k] for k in matargs]
        ints = [k for k in r['kwlist'] if k not in MATS and k not in ('alpha', 'beta') and r['kwmap'][k] in r['ints']]
        found = None
        incs = [k for k in ints if k.startswith('inc') or k.startswith('ld')]
        dims = [k for k in ints if k in ('n', 'm', 'k')]
        for bigv in (2**31 - 1, 2**30, 2**31 - 2):
            for dimv in (2, 3, 5):
                for inc in incs:
                    kw = {inc: bigv}
                    for dname in dims: kw[dname] = dimv
                    for q in r['kwlist'][:r.get('nreq', 0)]:
                        if q not in MATS and q not in kw and q != 'alpha': kw[q] = 1
                    if r['name'] == 'scal': kw['alpha'] = 2.0
                    env = model_env(r, matargs, specs, kw)
                    try:
                        ideal = cwrap2lean.eval_stmts(r['stmts'], dict(env), cint=False)
                        cres = cwrap2lean.eval_stmts(r['stmts'], dict(env), cint=True)
                    except ZeroDivisionError: continue
                    if ideal[0] == 'reject' and cres[0] == 'call':
                        found = (kw, ideal, cres); break
                if found: break
            if found: break
        if not found: continue
        kw = found[0]
        cid += 1; evals += 1
        case = {'id': cid, 'routine': r['name'], 'mats': specs, 'matnames': matargs, 'kw': kw}
        res = w.run(case)
        witnesses[r['name']] = (kw, res)
        what = '%s(%s)' % (r['name'], ', '.join('%s=%r' % kv for kv in sorted(kw.items())))
        if res.startswith('crash') or res == 'worker-died' or res == 'ok':
            ctx.violation('c19:int-overflow:blas.%s' % r['name'],
                          'blas.%s on a %s: %s -- the length test overflows in C int arithmetic and accepts a footprint outside the buffer'
                          % (what, ', '.join('%s %dx%d' % (k, sp[1], sp[2]) for k, sp in zip(matargs, specs)), res), dict(case, result=res))
    ctx.cov['overflow_witnesses'] = {k: [v[0], v[1]] for k, v in witnesses.items()}
    w.close()
    out = vlib.drive('C19', lines) if lines else []
    dis = 0
    for l, (ideal, res, exp), o, what in zip(lines, obs, out, meta):
        lean = o.split(' ')
        lean_cls = lean[1] if lean[0] == 'reject' else 'ok'
        py_cls = ideal[1] if ideal[0] == 'reject' else 'ok'
        if lean_cls != py_cls:
            dis += 1
            if dis <= 3: ctx.broke('generated Lean function vs Python evaluation of the same AST', {'line': l, 'lean': o, 'python': ideal[0:2]})
        if res != exp:
            dis += 1
            if dis <= 5:
                ctx.violation('c19:decision-differs:blas.%s' % what.split('(')[0], 'blas.%s: real wrapper gives %s, the checks as translated give %s' % (what, res, exp),
                              {'call': what, 'real': res, 'model': exp})
    kev = kernel_probes(ctx, rng)
    evals += kev
    ctx.cov['kernel_probes'] = kev
    ctx.cov.update({'evaluations': evals, 'distinct_nontrivial': len(distinct),
                    'rule': '%d argument tuples per blas routine (34 routines): keyword arguments omitted / small values in [-2, 13] / flags incl. invalid; '
                            '20%% of the tuples also draw from {2^31-1, 2^31-2, 2^30, 65537, 2^16, -2^31}; shapes incl. empty and wrong typecodes; every '
                            'call runs in a worker subprocess (announced before execution); distinct = (routine, outcome, set of given keywords)' % per,
                    'protocol_lines_compared': len(lines), 'disagreements_checked': dis})
    ctx.samples += lines[:3]

KERNELS = ['scale', 'scale2', 'pack', 'pack2', 'unpack', 'symm', 'sprod', 'sinv', 'trisc', 'triusc', 'sdot', 'max_step']
KERNEL_ARGS = {'scale': ['x'], 'scale2': ['lmbda', 'x'], 'pack': ['x', 'y'], 'pack2': ['x'], 'unpack': ['x', 'y'], 'symm': ['x'], 'sprod': ['x', 'y'],
               'sinv': ['x', 'y'], 'trisc': ['x'], 'triusc': ['x'], 'sdot': ['x', 'y'], 'max_step': ['x', 'sigma']}

def kernel_probes(ctx, rng):
    """misc_solvers kernels in a build whose allocator puts a PROT_NONE page right after (or, in the second pass, right before) every
    buffer: (1) with arguments of the documented lengths no call may fault; (2) with one argument too short the call must be refused
    with an exception - a fault or a silent return means the kernel does not validate its lengths"""
    gb = vlib.build_repo(guard=True)
    n = 6 if ctx.quick() else 120
    evals = 0
    cid = 10**6
    for under in ('0', '1'):
        os.environ['CVXOPT_GUARD_UNDER'] = under
        w = Worker(gb)
        try:
            for k in KERNELS:
                for it in range(n):
                    dims = {'l': rng.randint(0, 3), 'q': [rng.randint(1, 4) for _ in range(rng.randint(0, 2))], 's': [rng.randint(0, 3) for _ in range(rng.randint(0, 2))]}
                    if k in ('sinv', 'scale2', 'sprod', 'scale', 'max_step'): dims['s'] = [m for m in dims['s'] if m > 0]
                    mnl = rng.choice([0, 0, 1, 2])
                    case = {'kind': 'kernel', 'kernel': k, 'dims': dims, 'mnl': mnl, 'id': cid}; cid += 1
                    if k == 'scale': case.update(trans=rng.choice('NT'), inverse=rng.choice('NI'), ncols=rng.randint(1, 3))
                    if k in ('scale2',): case.update(inverse=rng.choice('NI'))
                    if k in ('pack', 'unpack'): case.update(offsetx=rng.randint(0, 3), offsety=rng.randint(0, 3))
                    if k == 'symm': case.update(n=rng.randint(0, 4), offset=rng.randint(0, 3))
                    if k in ('trisc', 'triusc'): case.update(offset=rng.randint(0, 3), mnl=0)
                    if k == 'sprod': case.update(diag=rng.choice('ND'))
                    if k == 'max_step': case.update(sigma=rng.random() < 0.5)
                    res = w.run(case); evals += 1
                    if res.startswith('crash') or res == 'worker-died':
                        ctx.violation('c19:kernel-out-of-bounds:misc_solvers.' + k, 'misc_solvers.%s with arguments of the documented lengths touches memory %s its buffers (%s)' % (
                            k, 'before' if under == '1' else 'after', res), case)
                    elif res != 'ok':
                        ctx.violation('c19:kernel-refuses-valid:misc_solvers.' + k, 'misc_solvers.%s raised %s on arguments of the documented lengths' % (k, res), case)
                    # one argument too short
                    if under == '0' and it < max(2, n // 3):
                        args = [a for a in KERNEL_ARGS[k] if not (a == 'sigma' and not case.get('sigma'))]
                        c2 = dict(case, id=cid, short=rng.choice(args), cut=rng.randint(1, 3)); cid += 1
                        N = c2['mnl'] + dims['l'] + sum(dims['q']) + sum(m * m for m in dims['s'])
                        if N < 4 or (k == 'symm' and c2['n'] < 2) or (c2['short'] == 'sigma' and sum(dims['s']) < c2['cut']) or \
                           (c2['short'] == 'lmbda' and N < 4): continue
                        res = w.run(c2); evals += 1
                        if res.startswith('crash') or res == 'worker-died' or res == 'ok':
                            ctx.violation('c19:no-length-check:misc_solvers.' + k, 'misc_solvers.%s with `%s` %d element(s) too short: %s (documented: TypeError / ValueError)' % (
                                k, c2['short'], c2['cut'], 'accepted silently' if res == 'ok' else res), c2)
        finally:
            w.close()
    os.environ.pop('CVXOPT_GUARD_UNDER', None)
    evals += index_probes(ctx, rng, gb)
    from corr import c19_lapack
    ar = c19_lapack.parse_arity()
    ctx.cov['parse_arity_mismatches'] = [list(b) for b in ar]
    for bad in ar:
        if bad[2]: ctx.violation('c19:parse-arity:' + bad[0], bad[1] + ': the argument parser stores through an indeterminate pointer', {'where': bad[0]})
    evals += c19_lapack.lapack_probes(ctx, rng, gb)
    evals += c19_lapack.blas_grammar_probes(ctx, rng, gb)
    evals += c19_lapack.embed_probes(ctx, rng, gb, 'C19')
    from corr import c19_base
    evals += c19_base.base_probes(ctx, rng, gb, 'C19')
    evals += c19_base.ctor_probes(ctx, rng, gb, 'C19')
    return evals

def index_probes(ctx, rng, gb):
    """indexing and indexed assignment of dense and sparse matrices in the guard-page build: any index object (integers, slices, lists and
    integer matrices with in- and out-of-range entries) and right-hand sides of any shape, including k x 0 and 0 x k matrices: the call
    either raises or completes; a fault is an access outside the buffers"""
    n = 300 if ctx.quick() else 8000
    evals = 0; cid = 2 * 10**6
    w = Worker(gb)
    def idx(dim):
        r = rng.random()
        if r < 0.25: return rng.randint(-dim - 1, dim)
        if r < 0.5: return ['s', rng.choice([None, 0, 1, -1]), rng.choice([None, dim, dim + 2, -1]), rng.choice([None, 1, 2, -1])]
        vals = [rng.randint(-dim - 1, dim) if rng.random() < 0.1 else (rng.randint(-dim, dim - 1) if dim else 0) for _ in range(rng.randint(0, 4))]
        return [rng.choice(['l', 'm']), vals]
    try:
        for it in range(n):
            kindA = rng.choice(['dense', 'dense', 'sparse']); tcA = rng.choice('dz' if kindA == 'sparse' else 'idz')
            m, nn = rng.randint(0, 4), rng.randint(0, 4)
            two = rng.random() < 0.5
            case = {'kind': 'index', 'id': cid, 'A': [kindA, tcA, m, nn], 'I': idx(m if two else m * nn), 'J': idx(nn) if two else None,
                    'op': rng.choice(['get', 'set', 'set'])}
            cid += 1
            if case['op'] == 'set':
                k = rng.randint(0, 4)
                shape = rng.choice([(k, 1), (k, 0), (0, k), (1, k), (rng.randint(0, 3), rng.randint(0, 3)), (1, 1)])
                case['V'] = [rng.choice(['dense', 'dense', 'sparse', 'num']), rng.choice('idz'), shape[0], shape[1]]
            res = w.run(case); evals += 1
            if res.startswith('crash') or res == 'worker-died':
                ctx.violation('c19:indexing-out-of-bounds:%s:%s' % (kindA, case['op']), '%s %s with index %r%s%s touches memory outside the buffers (%s)' % (
                    kindA, 'indexed assignment' if case['op'] == 'set' else 'indexing', case['I'], '' if case['J'] is None else ', %r' % (case['J'],),
                    '' if case['op'] == 'get' else ' and right-hand side %r' % (case['V'],), res), case)
    finally:
        w.close()
    return evals

def search(ctx, why):
    """A safety theorem (or the translation) no longer checks: look for a call that the translated checks accept although the footprint
    specification fails (both evaluated by the generated Lean functions), and run it on the real wrappers under exact guard pages."""
    import re, cwrap2lean
    from corr import c19_lapack
    text = json.dumps(why)
    broken = set(re.findall(r'C19Safe(L?)_(\w+?)\b', text))
    rng = random.Random(ctx.seed * 7919 + 19)
    gb = vlib.build_repo(guard=True)
    found = 0
    ctx.cov['search'] = {'routines': sorted('%s.%s' % ('lapack' if L else 'blas', n) for L, n in broken)}
    # ---- LAPACK
    lap = sorted(n for L, n in broken if L)
    if lap:
        try:
            table = cwrap2lean.gen_lapack(); cwrap2lean.gen_lapack_driver(table); cwrap2lean.gen_lapack_foot(table)
        except Exception as e:
            ctx.cov['search']['lapack'] = 'translation failed: %s' % e; table = []
        sigs = c19_lapack.signatures(); byname = {r['name']: r for r in table}
        for name in lap:
            if name not in byname or name not in sigs: continue
            r, sig = byname[name], sigs[name]
            lines, cases = [], []
            for it in range(20000 if ctx.quick() else 200000):
                case = c19_lapack.gen_case(rng, name, sig, 6 * 10**6 + it)
                env = c19_lapack.model_env(r, sig, case)
                try: ideal = cwrap2lean.eval_stmts(r['stmts'], dict(env), cint=False)
                except (ZeroDivisionError, KeyError): continue
                if ideal[0] != 'call': continue
                lines.append(c19_lapack.line_of(r, env).replace('lapack ', 'foot ', 1)); cases.append(case)
                if len(lines) >= 4000: break
            out = vlib.drive('C19L', lines) if lines else []
            bad = [c for c, o in zip(cases, out) if o == 'foot false']
            ctx.cov['search'][name] = {'accepted_calls_examined': len(lines), 'footprint_violations': len(bad)}
            if not bad: continue
            bad.sort(key=lambda c: len(json.dumps(c)))
            w = c19_lapack.Worker(gb, '0'); res = 'not-run'
            for c in bad[:40]:
                res = w.run(c)
                if res.startswith('crash') or res == 'worker-died': bad = [c]; break
            w.close()
            c = bad[0]; found += 1
            ctx.violation('c19:accepted-call-leaves-buffer:lapack.' + name, '%s passes the argument checks although the footprint of the LAPACK routine leaves the buffers '
                          '(theorem C19_safe_lapack_%s no longer checks); on the guard-page build the call gives: %s' % (c19_lapack.show(c), name, res), c)
    # ---- BLAS
    bl = sorted(n for L, n in broken if not L)
    if bl:
        try:
            table = cwrap2lean.gen_blas(); cwrap2lean.gen_blas_driver(table); cwrap2lean.gen_blas_foot(table)
        except Exception as e:
            ctx.cov['search']['blas'] = 'translation failed: %s' % e; table = []
        src = cwrap2lean.strip_pp(open(os.path.join(vlib.REPO, 'src', 'C', 'blas.c')).read())
        for r in table:
            if r['name'] not in bl: continue
            m = re.search(r'static PyObject\s*\*\s*%s\s*\(.*?PyArg_ParseTupleAndKeywords\(args, kwrds,\s*"[^"]*",\s*kwlist,(.*?)\)\)' % r['name'], src, flags=re.S)
            cvars = [v.strip().lstrip('&') for v in m.group(1).split(',')]
            r['kwmap'] = dict(zip(r['kwlist'], [v[:-1] if v.endswith('_') else v for v in cvars]))
            lines, cases = [], []
            for it in range(20000 if ctx.quick() else 200000):
                matargs, specs, kw = gen_case(rng, r, False)
                env = model_env(r, matargs, specs, kw)
                try: ideal = cwrap2lean.eval_stmts(r['stmts'], dict(env), cint=False)
                except ZeroDivisionError: continue
                if ideal[0] != 'call': continue
                lines.append(line_of(r, env).replace('blas ', 'foot ', 1)); cases.append({'id': 6 * 10**6 + it, 'routine': r['name'], 'mats': specs, 'matnames': matargs, 'kw': kw})
                if len(lines) >= 4000: break
            out = vlib.drive('C19', lines) if lines else []
            bad = [c for c, o in zip(cases, out) if o == 'foot false']
            ctx.cov['search'][r['name']] = {'accepted_calls_examined': len(lines), 'footprint_violations': len(bad)}
            if not bad: continue
            bad.sort(key=lambda c: len(json.dumps(c)))
            w = Worker(gb); res = 'not-run'
            for c in bad[:40]:
                res = w.run(c)
                if res.startswith('crash') or res == 'worker-died': bad = [c]; break
            w.close()
            c = bad[0]; found += 1
            ctx.violation('c19:accepted-call-leaves-buffer:blas.' + r['name'], 'blas.%s(%s; %s) passes the argument checks although the footprint of the BLAS routine leaves the buffers '
                          '(theorem C19_safe_%s no longer checks); on the guard-page build the call gives: %s' % (r['name'],
                          ', '.join('%s:%s%dx%d' % (k, sp[0], sp[1], sp[2]) for k, sp in zip(c['matnames'], c['mats'])), ', '.join('%s=%r' % kv for kv in sorted(c['kw'].items())), r['name'], res), c)
    ctx.cov['search']['failing_inputs_found'] = found
def replay(ctx, payload): correspond(ctx)
