#!/bin/bash
# MANIFEST.setup_cmd: build the Lean library (models, proofs, property theorems) offline.
set -e
here="$(cd "$(dirname "$0")" && pwd)"
export PATH="/opt/veriftools/lean/bin:$PATH"
cd "$here"
# S1 once: regenerate the source-derived Lean modules so that `lake build` has them
/venv/bin/python tools/translate_all.py || echo "translate_all reported problems (checks will re-run it)"
cd lean
lake build 2>&1 | tail -5
