"""C03: coneqp statistics / stopping test generated into Lean (Gen/Decide.lean); planted cone QPs solved by the real
coneqp/qp in many presentations, every 'optimal' judged by the Lean rational checker (optimalOkQP)."""
import os, sys, random, math
from fractions import Fraction
import vlib
sys.path.insert(0, os.path.join(vlib.VERIF, 'tools', 'translate'))
from corr import certlib
from corr.certlib import quiet, vec, cols, fr, mlist, tol_eff, parse_out, close

LEAN_TARGETS = ['CvxVerif.Props.C03']
MODEL_FILES = ['CvxVerif.Model.LinAlgMachine', 'CvxVerif.Model.CertCheck', 'CvxVerif.Proofs.CertCheck', 'CvxVerif.Gen.Decide']
LEVEL = 'proof'
TRUSTED = ['translator py2lean.gen_decide and Model/LinAlgMachine.lean', 'rational checker Model/CertCheck.lean (optimalOkQP)']
ASSUMPTIONS = ['rounding allowance feastol*(1+1e-6)+1e-13', 'E.P is the product with the symmetric matrix in the lower triangle of P; junk '
               'upper triangles are fed to the real solver and the checker reads only the lower triangle']

def translate(ctx):
    import py2lean
    try: py2lean.gen_decide()
    except Exception as e: return ['py2lean.gen_decide: %s: %s' % (type(e).__name__, e)]
    return []

def correspond(ctx):
    cvxopt = vlib.use_build(ctx.build)
    from corr import problems as PR
    from cvxopt import solvers, matrix, sparse, blas, base, misc
    solvers.options.clear(); solvers.options['show_progress'] = False
    rng = random.Random(ctx.seed * 15485863 + 3)
    rng_z = random.Random(ctx.seed * 7717 + 33)          # own stream for the zero-tolerance settings
    n_inst = 25 if ctx.quick() else 500
    lines, meta = [], []
    stats = {'solves': 0}
    for i in range(n_inst):
        nocone = rng.random() < 0.15
        pr = PR.planted_conelp(rng, 'optimal', P_rank=rng.randint(0, 4))
        dims = pr.dims
        hasQS = bool(dims['q'] or dims['s'])
        c, G, h, A, b, P = PR.to_cvx(cvxopt, pr)
        illcond = False
        if nocone:
            # the problem without inequalities: P must be positive definite on null(A): use P + I - or, half of the time, P + eps*I with a
            # tiny eps: the KKT system is then solved inaccurately by some KKT solvers, and the direct solve must not call that 'optimal'
            illcond = rng.random() < 0.5
            shift = rng.choice([1e-6, 1e-9, 1e-12, 1e-15]) if illcond else 1.0
            for j in range(pr.n): pr.P[j][j] += shift
            pr = PR.Planted(**dict(pr.__dict__, G=[[] for _ in range(pr.n)], h=[], dims={'l': 0, 'q': [], 's': []}, N=0))
            c, G, h, A, b, P = PR.to_cvx(cvxopt, pr)
            dims = pr.dims; hasQS = False
        cand = []
        for k in [None, 'ldl', 'ldl2', 'chol'] + ([] if hasQS else ['chol2']):
            cand.append(('coneqp kktsolver=%s' % k, dict(kktsolver=k), False, False))
        cand += [('coneqp sparse', {}, True, False), ('coneqp junk-upper-triangles', {}, False, True)]
        w = pr.wit
        if not nocone:
            keys = rng.sample(['x', 's', 'y', 'z'], rng.randint(1, 4))
            iv = {}
            if 'x' in keys: iv['x'] = matrix(w['x'], (pr.n, 1), 'd')
            if 's' in keys: iv['s'] = matrix(w['s'], (pr.N, 1), 'd')
            if 'y' in keys: iv['y'] = matrix(w['y'], (pr.p, 1), 'd')
            if 'z' in keys: iv['z'] = matrix(w['z'], (pr.N, 1), 'd')
            cand.append(('coneqp initvals=%s' % ''.join(sorted(keys)), dict(initvals=iv), False, False))
        rng.shuffle(cand)
        cand = cand[:(4 if ctx.quick() else 6)]
        if pr.p >= 1:
            # only the lower triangle of P is read, whatever the KKT solver: junk above the diagonal with every solver name (the reduced
            # systems of 'chol' / 'chol2' mix rows and columns of P when there are equality constraints)
            ks = ['ldl', 'ldl2', 'chol'] + ([] if hasQS else ['chol2'])
            for k in (ks if nocone or not ctx.quick() else [rng.choice(ks), 'chol']):
                cand.append(('coneqp junk-upper-triangles kktsolver=%s' % k, dict(kktsolver=k), False, True))
        variants = []
        for tag, kw, sp, junk in cand:
            o = {'show_progress': False}
            if rng.random() < 0.5:
                o['feastol'] = rng.choice([1e-5, 1e-7, 1e-8]); o['abstol'] = rng.choice([1e-5, 1e-7, 1e-9]); o['reltol'] = rng.choice([1e-4, 1e-6, 1e-8])
                if rng.random() < 0.35:
                    # a loose relative tolerance with a tight absolute one: the run stops on the relative criterion alone, far from the optimum,
                    # where the three documented forms of the relative gap differ visibly
                    o['abstol'] = 1e-12; o['reltol'] = rng.choice([0.5, 0.2, 0.1])
            # one of the two gap criteria switched off by a zero tolerance (a legal setting: only one of abstol / reltol has to be positive), as int or float
            zr = rng_z.random()
            if zr < 0.12: o['abstol'] = rng_z.choice([0, 0.0]); o['reltol'] = rng_z.choice([1e-8, 1e-9]); o.setdefault('feastol', 1e-7)
            elif zr < 0.24: o['reltol'] = rng_z.choice([0, 0.0]); o['abstol'] = rng_z.choice([1e-9, 1e-10]); o.setdefault('feastol', 1e-7)
            c2, G2, h2, A2, b2, P2 = PR.to_cvx(cvxopt, pr, sparse=sp, junk=(random.Random(rng.random()) if junk else None))
            args = (P2, c2, None, None, None, A2, b2) if nocone else (P2, c2, G2, h2, dims, A2, b2)
            def run(args=args, kw=kw, o=o, junk=junk, tag=tag):
                try: return quiet(solvers.coneqp, *args, options=o, **kw)
                except Exception as e:
                    if not junk: raise
                    # junk above the diagonal of P (G, h) made the call fail: does the same call without the junk succeed?
                    cc, Gc, hc, Ac, bc, Pc = PR.to_cvx(cvxopt, pr)
                    a2 = (Pc, cc, None, None, None, Ac, bc) if nocone else (Pc, cc, Gc, hc, dims, Ac, bc)
                    try: r0 = quiet(solvers.coneqp, *a2, options=o, **kw)
                    except Exception: raise e
                    if r0['status'] == 'optimal':
                        ctx.violation('c03:upper-triangle-read:%s' % type(e).__name__, "%s raised %s (%s) although the same call with a symmetric P is solved: the unreferenced upper triangle was read"
                                      % (tag, type(e).__name__, e), {'presentation': tag, 'dims': dims, 'P': pr.P, 'q': pr.c, 'G': pr.G, 'h': pr.h, 'A': pr.A, 'b': pr.b})
                    raise
            variants.append((tag, run, o))
        if not hasQS and not nocone:
            o = {'show_progress': False}
            # per-call tolerances through the wrapper, tighter than the defaults half of the time (own stream): the answer is judged by what was asked
            if rng_z.random() < 0.5: o.update(feastol=rng_z.choice([1e-8, 1e-9]), abstol=rng_z.choice([1e-9, 1e-10]), reltol=rng_z.choice([1e-9, 1e-10]))
            variants.append(('qp', lambda o=o: quiet(solvers.qp, P, c, G, h, A, b, options=o), o))
        if not nocone and rng.random() < 0.4:
            # operator form of P, G, A with a callable KKT solver
            o = {'show_progress': False}
            def fP(x, y, alpha=1.0, beta=0.0): base.symv(P, x, y, alpha=alpha, beta=beta)
            def fG(x, y, trans='N', alpha=1.0, beta=0.0): misc.sgemv(G, x, y, dims, trans=trans, alpha=alpha, beta=beta)
            def fA(x, y, trans='N', alpha=1.0, beta=0.0): base.gemv(A, x, y, trans=trans, alpha=alpha, beta=beta)
            fac = misc.kkt_ldl(G, dims, A)
            variants.append(('coneqp operators+callable', lambda: quiet(solvers.coneqp, fP, c, fG, h, dims, fA, b, kktsolver=lambda W: fac(W, P), options=o), o))
        for tag, fn, o in variants:
            stats['solves'] += 1
            desc = {'seed': ctx.seed, 'index': i, 'presentation': tag, 'dims': dims, 'P': pr.P, 'q': pr.c, 'G': pr.G, 'h': pr.h, 'A': pr.A, 'b': pr.b, 'options': {k: v for k, v in o.items()}}
            try: r = fn()
            except Exception as e:
                stats['exception'] = stats.get('exception', 0) + 1; continue      # exceptions are judged by C05/C10
            stats[r['status']] = stats.get(r['status'], 0) + 1
            if r['status'] != 'optimal': continue
            t = (o.get('feastol', 1e-7), o.get('abstol', 1e-7), o.get('reltol', 1e-6))
            ftol = tol_eff(t[0]); fslack = 0.0
            if illcond:
                # the solver compares residuals evaluated in floating point; with a huge solution vector their rounding error
                # (about u * (|A| + |P|) * |x|) is what the exact recomputation may exceed the tolerance by
                big = max([1.0] + [abs(v) for v in mlist(r['x'])] + [abs(v) for v in mlist(r['y'])])
                amax = max([1.0] + [abs(v) for col in pr.A for v in col] + [abs(v) for col in pr.P for v in col])
                fslack = 4e-15 * (pr.n + pr.p + 2) * amax * big
                ftol = ftol + Fraction(fslack)
            lines.append(certlib.prob_line(pr)); meta.append(None)
            lines.append('optimalqp x=%s s=%s y=%s z=%s tol=%s,%s,%s' % (vec(mlist(r['x'])), vec(mlist(r['s'])), vec(mlist(r['y'])), vec(mlist(r['z'])),
                                                                         fr(ftol), fr(tol_eff(t[1])), fr(tol_eff(t[2]))))
            meta.append((tag, r, desc, t, fslack))
    # ---- directed family for the direct solve (no inequalities): P = B'B + eps*I with rank(B) = 0..n and eps down to 1e-17, 0..n equality
    # constraints, every KKT solver name: a status 'optimal' must come with residuals within the tolerance (up to the rounding of their evaluation)
    for i in range(40 if ctx.quick() else 800):
        n_ = rng.randint(1, 4); p_ = rng.randint(0, n_); r_ = rng.randint(0, n_)
        Bm = [[rng.uniform(-1, 1) for _ in range(n_)] for _ in range(r_)]
        eps = rng.choice([0.0, 1e-8, 1e-12, 1e-15, 1e-17])
        Pc = [[sum(Bm[t][a] * Bm[t][b_] for t in range(r_)) + (eps if a == b_ else 0.0) for a in range(n_)] for b_ in range(n_)]
        qv = [rng.uniform(-1, 1) for _ in range(n_)]
        Ac = [[rng.uniform(-1, 1) for _ in range(p_)] for _ in range(n_)]; bv = [rng.uniform(-1, 1) for _ in range(p_)]
        prq = PR.Planted(kind='optimal', c=qv, G=[[] for _ in range(n_)], h=[], A=Ac, b=bv, dims={'l': 0, 'q': [], 's': []}, n=n_, p=p_, N=0, P=Pc, wit={})
        c2, G2, h2, A2, b2, P2 = PR.to_cvx(cvxopt, prq)
        for k in (None, 'ldl', 'ldl2', 'chol', 'chol2'):
            o = {'show_progress': False}
            stats['solves'] += 1
            try: r = quiet(solvers.coneqp, P2, c2, None, None, None, A2, b2, options=o, **({'kktsolver': k} if k else {}))
            except Exception: stats['exception'] = stats.get('exception', 0) + 1; continue
            stats['direct:' + r['status']] = stats.get('direct:' + r['status'], 0) + 1
            if r['status'] != 'optimal': continue
            big = max([1.0] + [abs(v) for v in mlist(r['x'])] + [abs(v) for v in mlist(r['y'])])
            amax = max([1.0] + [abs(v) for col in Ac for v in col] + [abs(v) for col in Pc for v in col])
            fslack = 4e-15 * (n_ + p_ + 2) * amax * big
            tag = 'coneqp direct kktsolver=%s' % k
            desc = {'seed': ctx.seed, 'index': 'direct-%d' % i, 'presentation': tag, 'dims': prq.dims, 'P': Pc, 'q': qv, 'G': prq.G, 'h': [], 'A': Ac, 'b': bv, 'options': {}}
            lines.append(certlib.prob_line(prq)); meta.append(None)
            lines.append('optimalqp x=%s s=%s y=%s z=%s tol=%s,%s,%s' % (vec(mlist(r['x'])), vec(mlist(r['s'])), vec(mlist(r['y'])), vec(mlist(r['z'])),
                                                                         fr(tol_eff(1e-7) + Fraction(fslack)), fr(tol_eff(1e-7)), fr(tol_eff(1e-6))))
            meta.append((tag, r, desc, (1e-7, 1e-7, 1e-6), fslack))
    # ---- directed family for user start points: (x0, s0, y0, z0) satisfies the linear KKT equations exactly but s0 or z0 lies outside the
    # cone (so that the gap s0'z0 is negative and every residual is zero): the documented answer is ValueError; whatever is returned as
    # 'optimal' is judged by the checker like every other result
    for i in range(30 if ctx.quick() else 600):
        pr = PR.planted_conelp(rng, 'optimal', P_rank=rng.randint(0, 3))
        w = pr.wit; dims = pr.dims
        which = rng.choice(['z', 's', 'z'])
        blocks = [(0, dims['l'])] if dims['l'] else []
        off = dims['l']
        for m in dims['q']: blocks.append((off, m)); off += m
        for k in dims['s']:
            if k: blocks.append((off, k * k))
            off += k * k
        bad = list(w[which]); good = w['s' if which == 'z' else 'z']
        if rng.random() < 0.5: bad = [-v for v in bad]                         # the whole vector negated
        else:
            o_, m_ = rng.choice(blocks); f_ = 1.0 + 2.0 * sum(abs(a * b_) for a, b_ in zip(bad, good))
            for t in range(o_, o_ + m_): bad[t] = -f_ * bad[t]                 # one block negated and scaled up: the gap is negative
        x0, y0 = w['x'], w['y']
        s0, z0 = (w['s'], bad) if which == 'z' else (bad, w['z'])
        Px0 = PR.matvec(pr.P, x0) if pr.P is not None else [0.0] * pr.n
        cq = [-(a + b_ + c_) for a, b_, c_ in zip(PR.mattvec(pr.G, z0), PR.mattvec(pr.A, y0), Px0)]
        hq = [a + b_ for a, b_ in zip(PR.matvec(pr.G, x0), s0)]
        pr2 = PR.Planted(**dict(pr.__dict__, c=cq, h=hq, wit={}))
        c2, G2, h2, A2, b2, P2 = PR.to_cvx(cvxopt, pr2)
        keys = ['x', 's', 'y', 'z'] if rng.random() < 0.6 else ['x', 's', 'z'] + (['y'] if any(y0) else [])
        iv = {'x': matrix(x0, (pr.n, 1), 'd'), 's': matrix(s0, (pr.N, 1), 'd'), 'y': matrix(y0, (pr.p, 1), 'd'), 'z': matrix(z0, (pr.N, 1), 'd')}
        iv = {k: iv[k] for k in keys}
        for ent in (['coneqp'] + (['qp'] if not (dims['q'] or dims['s']) else [])):
            o = {'show_progress': False}
            stats['solves'] += 1
            try:
                if ent == 'coneqp': r = quiet(solvers.coneqp, P2, c2, G2, h2, dims, A2, b2, initvals=iv, options=o)
                else: r = quiet(solvers.qp, P2, c2, G2, h2, A2, b2, initvals=iv, options=o)
            except Exception as e:
                stats['start-outside-cone:' + type(e).__name__] = stats.get('start-outside-cone:' + type(e).__name__, 0) + 1; continue
            stats['start-outside-cone:' + r['status']] = stats.get('start-outside-cone:' + r['status'], 0) + 1
            if r['status'] != 'optimal': continue
            tag = '%s initvals with %s outside the cone' % (ent, which)
            desc = {'seed': ctx.seed, 'index': 'start-%d' % i, 'presentation': tag, 'dims': dims, 'P': pr2.P, 'q': cq, 'G': pr2.G, 'h': hq, 'A': pr2.A, 'b': pr2.b,
                    'initvals': {'x': x0, 's': s0, 'y': y0, 'z': z0, 'given': keys}, 'options': {}}
            lines.append(certlib.prob_line(pr2)); meta.append(None)
            lines.append('optimalqp x=%s s=%s y=%s z=%s tol=%s,%s,%s' % (vec(mlist(r['x'])), vec(mlist(r['s'])), vec(mlist(r['y'])), vec(mlist(r['z'])),
                                                                         fr(tol_eff(1e-7)), fr(tol_eff(1e-7)), fr(tol_eff(1e-6))))
            meta.append((tag, r, desc, (1e-7, 1e-7, 1e-6), 0.0))
    out = vlib.drive('Cert', lines) if lines else []
    judged = 0
    for l, o, m in zip(lines, out, meta):
        if m is None: continue
        tag, r, desc, t, fslack = m
        d = parse_out(o); judged += 1
        ent = tag.split(' ')[0]
        pres = max(math.sqrt(d['ry2']) / max(1.0, math.sqrt(d['b2'])), math.sqrt(d['rz2']) / max(1.0, math.sqrt(d['h2'])))
        dres = math.sqrt(d['rx2']) / max(1.0, math.sqrt(d['c2']))
        if not d['ok']:
            ctx.violation('c03:optimal-not-certified:%s%s' % (ent, ':nocone' if desc['dims']['l'] + len(desc['dims']['q']) + len(desc['dims']['s']) == 0 else ''),
                          "%s returned 'optimal' but the returned vectors fail the KKT conditions: s in cone %s, z in cone %s, pres=%.3g dres=%.3g gap=%.3g "
                          "(feastol %g abstol %g reltol %g)" % (tag, d['sIn'], d['zIn'], pres, dres, float(d['gap']), t[0], t[1], t[2]), dict(desc, checker=o))
        pc, dc, gap = float(d['pcost']), float(d['dcost']), float(d['gap'])
        bad = []
        orel = 1e-8 if fslack == 0.0 else 1e-5
        # the objective is quadratic in x: its floating-point evaluation carries an error of about u * |x|' |P| |x| (the residuals: u * |P| |x|)
        bigx = max([1.0] + [abs(v) for v in mlist(r['x'])])
        oslack = fslack * bigx
        if not close(r['primal objective'], pc, orel, 1e-9 + oslack): bad.append(('primal objective', r['primal objective'], pc))
        if not close(r['dual objective'], dc, 10 * orel, 1e-8 + oslack): bad.append(('dual objective', r['dual objective'], dc))
        if not close(r['gap'], gap, 1e-5, 1e-10): bad.append(('gap', r['gap'], gap))
        # documented relative gap: gap / (-pcost) if pcost < 0, gap / dcost if dcost > 0, otherwise None
        if abs(pc) > 1e-9 * (1 + abs(gap)) and abs(dc) > 1e-9 * (1 + abs(gap)) and desc['dims']['l'] + len(desc['dims']['q']) + len(desc['dims']['s']) > 0:
            want = gap / (-pc) if pc < 0 else (gap / dc if dc > 0 else None)
            got = r.get('relative gap')
            # the relative gap inherits the rounding of the objective it is divided by (allowances as for the objective fields above)
            den_allow = ((orel * abs(pc) + 1e-9 + oslack) / abs(pc)) if pc < 0 else ((10 * orel * abs(dc) + 1e-8 + oslack) / abs(dc) if dc > 0 else 0.0)
            # ... and the rounding of the floating-point sum <s, z> (terms of both signs in 'q' and 's' blocks): about N u sum |s_i z_i|
            sv, zv = mlist(r['s']), mlist(r['z'])
            gap_round = 8e-16 * (len(sv) + 1) * 2 * sum(abs(a) * abs(b_) for a, b_ in zip(sv, zv))
            den = abs(pc) if pc < 0 else abs(dc)
            if (want is None) != (got is None) or (want is not None and not close(got, want, 1e-4 + 2 * den_allow, 1e-12 + gap_round / den)): bad.append(('relative gap', got, want))
        if not close(r['primal infeasibility'], pres, 1e-3, 1e-11 + fslack): bad.append(('primal infeasibility', r['primal infeasibility'], pres))
        if not close(r['dual infeasibility'], dres, 1e-3, 1e-11 + fslack): bad.append(('dual infeasibility', r['dual infeasibility'], dres))
        if bad:
            ctx.violation('c03:fields:%s:%s' % (ent, bad[0][0]), '%s: reported %s = %r, recomputed from the returned vectors %r' % (tag, bad[0][0], bad[0][1], bad[0][2]), desc)
    ctx.cov.update({'evaluations': stats['solves'], 'distinct_nontrivial': judged,
                    'rule': 'planted cone QPs: P = B\'B of rank 0..4, random cone structure, equality constraints, 15% without inequalities (direct '
                            'solve); presentations: kktsolver names, sparse, junk upper triangles of P/G/h, initvals subsets, operator form with '
                            'callable KKT solver, tolerance options, qp wrapper; non-trivial = optimal results judged by the Lean checker', 'statuses': stats})
    ctx.samples += lines[:2]

def search(ctx, why): return
def replay(ctx, payload): correspond(ctx)
